"""C02 — crash at any point never loses durable data or the swamp."""
from . import common as K
from . import stor as S

META = {
    "level": "proof",
    "technique": ("Lean 4 theorems over a cell-level disk/crash model (all histories, block sizes, crash points incl. torn writes at "
                  "every byte and loss of unsynced data) + go/ast fact tie + correspondence on the strace-captured syscall log of the "
                  "real chronicler/FileWriter; every crash image is materialised and loaded through the real reader and chronicler, "
                  "then appended to and reloaded"),
    "text": ("Hv.C02.recover_total_prefix: for a reader that maps a short block header and a short payload to EOF, every crash image of "
             "every chronicler history (Write/Sync/Close/reopen, any entry sizes) loads to the entries of a prefix of the flushed blocks "
             "that contains everything loadable at the last completed fsync; append_after_recovery: with an open that cuts the torn tail, "
             "writes after the recovery are loadable; second_crash_recovers (clause Resumes): a chronicler that resumes on a recovered file, "
             "runs any acts and crashes again anywhere loads a prefix of recovered++written that contains everything recovered before and "
             "everything synced since; zero_tail_of_repaired (clause ZeroTail: a zero-filled tail behind whole blocks — file size on disk, "
             "data not — changes nothing for the load and is cut by the open; witness zero_tail_wipes_swamp; torn block + zeros by "
             "correspondence on zero-extension crash images); run_inv / run_started tie the executable writer model to the session logs the theorems are about. "
             "For the code as it is: torn_block_load_error / not_recovers_of_torn_error (a torn payload is a load error, the swamp comes "
             "back empty), append_after_torn_tail_strands (loadEntries_strands: nothing behind a torn block is ever loaded), "
             "torn_create_bricks (a partial file header makes every later Write fail), C02_partial (crash points that leave at most a "
             "block header behind). classify_sound decides from the extracted facts."),
    "note": ("Trusted: Lean kernel (propext, Classical.choice, Quot.sound); extract/c02.go; harness/c02.go+c02dom.go (strace parser, image "
             "materialiser); crash model of Hv/Storage/Disk.lean (operations persist in issue order, fsync is a barrier, torn writes at "
             "byte granularity, a 64-byte header rewrite is modelled as changing nothing the loader reads); codec assumptions A1/A2 "
             "(tested on every image). 'Acknowledged ⇒ durable' is a precondition read from the facts (fileWriterHandler → Sync → fsync) "
             "and tested on a real swamp (tick lines), not a theorem. Torn offsets of the swamp-name write that make the reader allocate "
             "GiBs (defect of C04) are skipped."),
    "design_ref": "§8 C02",
}

FINDINGS = {
    "C02-torn-payload-load-error": "a block cut inside its payload makes LoadIndex fail with io.ErrUnexpectedEOF; Load returns and the swamp "
                                   "comes back empty although earlier blocks were fsynced",
    "C02-append-after-torn-tail-strands": "openExistingFile seeks to the end without cutting a torn tail: blocks appended after a crash land "
                                          "behind the fragment and are never loaded (or make the file unloadable)",
    "C02-torn-create-bricks-swamp": "a crash while the new file's header/name is being written leaves a file that openExistingFile cannot "
                                    "open and ensureWriter never recreates: every later Write is dropped",
    "C02-zero-filled-tail-wipes-swamp": "a zero-filled tail (file size on disk, data not) is taken for a corrupt block: Load aborts and the "
                                        "swamp comes back empty although everything in front of the zeros was synced",
    "C02-open-destroys-blocks-behind-midfile-damage": "the torn-tail cut of the open fires on a damaged block header in the middle of the "
                                                      "file and destroys every intact block behind it",
    "C02-crash-loses-synced-data": "a crash image loads to a state that misses fsynced records",
    "C02-ack-not-durable": "records acknowledged by a write tick are not on disk",
}


def spec_scan(ops, impl):
    """Spec oracle on the implementation's replies alone.  For every crash image: the loaded state is
    the replay of a prefix of the written entries that includes every entry written before the last
    fsync that completed before the crash point; the append after recovery is visible."""
    bad = []
    blk_n, flushed = {}, []
    written, at_op, syncs = [], {}, []
    acked, pending_ack, nops = [], None, 0   # (first op index after an acknowledged Sync/Close, entries written by then)
    cut = False
    zapped, size_now = None, None
    for i, op in enumerate(ops):
        if i >= len(impl):
            break
        f = op.split(" ")
        rep = impl[i]
        if f[0] != "log" and pending_ack is not None:
            acked.append((nops, pending_ack))
            pending_ack = None
        if f[0] == "case":
            written, at_op, syncs = [], {}, []
            acked, pending_ack, nops = [], None, 0
            cut = False
            zapped, size_now = None, None
            blk_n, flushed = {}, []     # entries per block id; (op index of a completed payload write, entries on disk by then)
        elif f[0] == "blk":
            blk_n[f[1]] = len(f[4].split(";")) if f[4] not in ("", "-") else 0
        elif f[0] == "act" and f[1] == "w":
            written = written + f[2].split(",")
        elif f[0] == "act" and f[1] in ("sync", "close") and rep == "ok ok" and (written or nops):
            # Sync()/Close() returned nil to the caller (what fileWriterHandler treats as durable)
            pending_ack = len(written) if nops or True else None
        elif f[0] == "act" and f[1] == "load" and cut:
            # the file was cut by hand (a first crash) and this is the first recovery: it must be a
            # prefix of what was written; from here on it is the durable baseline of a resumed session
            cut = False
            got = rep.split(" ")[1].split("\t")[0] if " " in rep else "?"
            for m in range(len(written), -1, -1):
                st = {}
                S.apply_items(st, ",".join(written[:m])) if m else None
                if S.fmt_state(st) == got:
                    written = written[:m]
                    syncs, flushed, pending_ack = [], [], None
                    acked = [(nops, m)]
                    break
            else:
                bad.append((i, "the load after a torn tail returns %s, which is not the replay of a prefix of what was written" % got, "recover"))
        elif f[0] == "act" and f[1] == "size":
            got = rep.split(" ")[1] if " " in rep else "-"
            if zapped is not None and got.isdigit() and int(got) < zapped:
                bad.append((i, "a block header in the middle of the file was damaged (intact blocks behind it); after the next "
                               "open the file has %s bytes, it had %d: the blocks behind the damage were destroyed" % (got, zapped), "destroy"))
            if got.isdigit():
                size_now = int(got)
        elif f[0] in ("log", "plant"):
            if f[0] == "plant" and f[2] == "trunc":
                cut = True
            if f[0] == "plant" and f[2] == "write" and f[7] == "zero":
                cut, zapped = True, size_now
            idx = int(f[1])
            nops = idx + 1
            at_op[idx] = len(written)
            if f[2] == "sync" and f[8] == "ok":
                syncs.append(idx)
            if f[0] == "log" and f[2] == "write" and f[3] == "main" and f[7].startswith("bp:") and f[8] == "ok":
                flushed.append((idx, (flushed[-1][1] if flushed else 0) + blk_n.get(f[7][3:], 0)))
        elif f[0] == "img":
            ci, cj = int(f[1]), int(f[2])
            r = S.parse_img_reply(rep)
            done = [s for s in syncs if s < ci]
            lo = at_op[done[-1]] if done else 0
            # an acknowledged Sync/Close that completed before the crash point makes its entries durable,
            # fsync or not (a chronicler that never opened a writer has nothing to sync)
            if ci == cj:
                # plain process death: every block whose payload write completed is in the file
                for bidx, cnt in flushed:
                    if bidx < ci:
                        lo = max(lo, cnt)
            for aidx, cnt in acked:
                if aidx <= ci and cj >= 0:
                    lo = max(lo, cnt if any(k < aidx for k in at_op) else lo)
            ok = False
            for m in range(lo, len(written) + 1):
                st = {}
                S.apply_items(st, ",".join(written[:m])) if m else None
                if S.fmt_state(st) == r.get("C"):
                    ok = True
                    after = dict(st)
                    after[9000] = "77"
                    if "A" in r and r["A"] != S.fmt_state(after):
                        bad.append((i, "after recovery from crash image %s (state %s) a record was appended and synced; "
                                       "the next load returns %s" % (" ".join(f[1:]), r.get("C"), r["A"]), "append"))
                    break
            if not ok:
                bad.append((i, "crash image %s loads %s (reader: %s); %d entries were fsynced or acknowledged by a completed Sync/Close before the crash point"
                            % (" ".join(f[1:]), r.get("C"), r.get("L"), lo), "recover"))
        elif f[0] in ("tick", "tick0", "tickdel"):
            top = int(f[1]) - (1 if f[0] == "tickdel" else 0)
            want = ",".join("%d=%d" % (k, 100 + k) for k in range(1, top + 1)) or "-"
            if rep.split("\t")[0] != "tick " + want:
                bad.append((i, "after a write tick returned, %s of %s saved records are on disk" % (rep, f[1]), "ack"))
    return bad


# which part of the Spec a finding id is about (an oracle hit is covered only by a listed finding of the same class)
CLASSES = {"C02-torn-payload-load-error": "recover", "C02-crash-loses-synced-data": "recover",
           "C02-append-after-torn-tail-strands": "append", "C02-torn-create-bricks-swamp": "append",
           "C02-ack-not-durable": "ack"}


def spec_violated(rep):
    return S.first_relevant(rep, spec_scan, K.known_ids("C02"), CLASSES)


def run(ctx):
    facts, _, _ = K.extract_facts(ctx)
    K.lean_verdict(ctx)
    corrs = []
    c = K.Corr()
    if K.build_hx(ctx) and K.build_drv(ctx):
        args = ["%s=%s" % kv for kv in sorted(facts.items())]
        ops, err = S.trace_ops(ctx, "C02T")
        if err:
            c.err = err
        else:
            c = K.correspondence(ctx, "C02", args, ops_text=ops)
        corrs.append(("C02", args, c))
    else:
        ctx.violation("harness does not build against /repo", {"correspondence": "C02", "log": getattr(ctx, "hx_log", "")[-2000:]},
                      tag="build", found_input=False)
    K.decide_standard(ctx, corrs, FINDINGS)
    covered = S.impl_reported(ctx, spec_violated)
    K.report_mismatch(ctx, spec_violated)
    bad = spec_scan(c.ops, c.impl) if not c.err else []
    mism = set(c.mismatch)
    unflagged = [h for h in S.relevant_hits(bad, c.flags, K.known_ids("C02"), CLASSES, -1)
                 if not (covered and h[0] in mism)]
    if unflagged:
        i, why, _ = unflagged[0]
        rep = K.case_replay(c, K.case_of(c, i), upto=i)
        rep.update({"correspondence": "C02", "oracle": "spec_scan", "violations": len(unflagged)})
        ctx.violation("implementation violates the property (not predicted by the model): " + why, rep, tag="spec")
    if ctx.thorough:
        ok, out = K.leanchecker(ctx, ["Hv.Props.C02", "Hv.Storage.SessionCrash", "Hv.Storage.Session", "Hv.Storage.CrashLog",
                                      "Hv.Storage.Crash", "Hv.Storage.ChronLemmas", "Hv.Storage.DiskLemmas"])
        ctx.cov["leanchecker"] = "ok" if ok else out[-500:]
        if not ok:
            ctx.violation("leanchecker rejected the compiled proofs", {"log": out[-2000:]}, tag="leanchecker", found_input=False)
    imgs = sum(1 for op in c.ops if op.startswith("img "))
    torn = sum(1 for op in c.ops if op.startswith("img ") and op.split(" ")[3] != "0")
    outcomes = {}
    for op, rep in zip(c.ops, c.impl):
        if op.startswith("img "):
            k = S.parse_img_reply(rep).get("L", "?")
            k = k if k in ("nofile", "err-open", "err-load") else "loads"
            outcomes[k] = outcomes.get(k, 0) + 1
    return K.finish(
        ctx, "proof",
        rule=("cases = generated chronicler histories (2-6 keys, batches of 1-4 puts/deletes, Sync after ~60% of the batches, Close + "
              "lazy reopen, block sizes 450/900/2000/16 KiB, with and without a swamp name) run by the real code under strace; every "
              "traced operation is compared with the model's prediction; crash points = every operation boundary of every history x "
              "torn offsets {1,15,16,17,mid,len-1} of each write (every byte offset in the thorough tier) + lossy variants; each image "
              "is loaded through v2.FileReader.LoadIndex and chronicler.Load, then a record is appended (Write+Sync+Close) and the file "
              "reloaded; tick lines drive a real swamp through one write tick; non-trivial = img/log/act/tick line; distinct = distinct op lines"),
        samples=[{"op": S.strip_hex(c.ops[i]), "impl": c.impl[i][:160]} for i in range(0, min(len(c.ops), 60), 9) if i < len(c.impl)],
        evaluations=len(c.ops), distinct_nontrivial=len(set(o for o in c.ops if o.split(" ")[0] in ("img", "log", "act", "tick", "tick0", "tickdel"))),
        extra_cov={"correspondence": {"domain": "C02", "cases": len(c.cases), "op_lines": len(c.ops),
                                      "mismatching_lines": len(c.mismatch), "crash_images": imgs, "torn_write_images": torn,
                                      "reader_outcome_of_images": outcomes, "op_histogram": c.op_hist,
                                      "lines_flagged_by_model": sum(1 for f in c.flags if f),
                                      "spec_oracle_violations": len(bad), "spec_oracle_unflagged": len(unflagged)}},
        trusted=["Lean 4.33.0 kernel", "axioms: propext, Classical.choice, Quot.sound", "extract/c02.go",
                 "harness/c02.go, harness/c02dom.go (strace log parser, crash-image materialiser)",
                 "crash model: operations persist in issue order, fsync is a barrier, byte-granular torn writes",
                 "ASSUMED (tested on every image): A1/A2 of Hv/Storage/Disk.lean",
                 "ASSUMED (read from facts, tested by tick lines): an acknowledged write tick has fsynced"],
    )
