"""C19 — subscribers get each committed change once, in order, with correct time."""
import re

from . import common as K

META = {
    "level": "proof",
    "technique": "Lean 4: Int-arithmetic theorem for the time conversion, refinement proof model-events = Spec-events over all "
                 "histories, inductive invariants over two LTSs (per-key order, SendMsg serialisation) for all schedules; "
                 "go/ast fact tie; sequential + forced-schedule + stress correspondence through the in-process gateway with a fake stream",
    "text": ("Hv.C19.time_conv_id (wire time = stamped instant for every Int iff the conversion is a nanosecond form), "
             "exactly_once (every subscriber receives exactly the Spec's events of its window for every history, given flags are "
             "reset after a committed save and OldTreasure is a snapshot), per_key_order (+_quiescent) (emission under the record "
             "guard: emitted sequence = commit sequence minus at most the holder's commit, any number of writers, any schedule), "
             "sends_serialized (no two goroutines inside SendMsg for every schedule iff a per-stream mutex is taken); closed "
             "witnesses noop_save_emits, old_value_lost, order_lost_without_guard, overlap_without_mutex; classify_sound decides "
             "from six extracted facts; holds_partial proves every clause whose own facts are good."),
    "note": ("Concurrent parts are protocol LTSs whose atomic steps are justified by the extracted facts (emission before the guard "
             "release, synchronous fan-out, mutex around SendMsg) and by C15 (the record guard is exclusive); the Go scheduler is "
             "driven (gated fake stream), not enumerated.  The model covers string Set, int64 Increment, Delete, ShiftByKeys, Get, "
             "close+re-summon, and up to two subscribers; patches, expiry shifts and the other value types emit through the same "
             "SaveFunction/deleteHandler sites but are not exercised here.  Trusted: Lean kernel, extract/c19.go, harness/c19.go, "
             "gRPC's one-sender-at-a-time rule, sync.Mutex semantics."),
    "design_ref": "§8 C19",
}

FINDINGS = {
    "C19-subscribe-during-load-misses-events": "SummonSwamp looks for subscribers before the new instance is in the swamp map: a client that "
                                               "subscribes while the swamp is being loaded finds no instance to switch on, and the instance "
                                               "starts with event sending off",
    "C19-event-dropped-during-destroy-drain": "Destroy switches event sending off before it drains the in-flight requests: a record "
                                              "inserted during the drain is committed (the swamp is then closed, not destroyed) but "
                                              "its NEW event is never sent",
    "C19-event-time-from-record-metadata": "Event.EventTime is taken from the record's CreatedAt / ModifiedAt (client-supplied metadata) "
                                           "instead of the clock: the wire time of a change is whatever instant the client stored",
    "C19-event-time-nanos-as-seconds": "SubscribeToEvents converts Event.EventTime (UnixNano) with time.Unix(EventTime, 0): the wire "
                                       "timestamp's Seconds field holds the nanosecond count",
    "C19-concurrent-sendmsg": "event callbacks run on each writer's goroutine with no per-stream lock: two writers on different keys "
                              "are inside eventServer.SendMsg at the same time (gRPC forbids concurrent SendMsg on one stream)",
    "C19-noop-save-emits-event": "the treasure's changed flags are never cleared after a save, so re-saving an identical value "
                                 "commits nothing new but is reported as UPDATED and delivered as an event",
    "C19-old-treasure-is-live-object": "OldTreasure of a StatusModified event is the live object fetched from the key beacon, i.e. the "
                                       "already-updated record: subscribers never see the previous value",
    "C19-events-out-of-order": "events are emitted after the record guard is released (or asynchronously): per-key order is lost",
}

EV = re.compile(r"^([NMD]):([^=]+)=([^<@]+)(?:<([^@]+))?@(\w+)$")


def spec_violated(rep):
    """Independent Spec oracle on the implementation's replies of one case (prefix)."""
    ops, impl = rep["ops"], rep["impl"]
    vals, subs = {}, set()
    mode = ops[0].split()[2] if ops and len(ops[0].split()) > 2 else ""
    for op, line in zip(ops[1:], impl[1:]):
        f = op.split()
        m = re.search(r"inside=(\d+)", line)
        if m and int(m.group(1)) > 1:
            return "%s goroutines are inside SendMsg on one stream after `%s`" % (m.group(1), op)
        if "DISORDER" in line or ("failed=" in line and "failed=0" not in line):
            return "stress run lost per-key order / updates: %s" % line
        if f[0] == "stress":
            want = int(f[1]) * int(f[3])
            m = re.search(r"events=(\d+)", line)
            if m and int(m.group(1)) != want:
                return "stress run delivered %s events for %d committed increments" % (m.group(1), want)
            m = re.search(r" t=(\S+)", line)
            if m and m.group(1) != "ok":
                return "event timestamps are not the commit wall-clock time (%s)" % m.group(1)
            m = re.search(r"overlap=(\d+)", line)
            if m and int(m.group(1)) > 0:
                return "SendMsg calls overlapped under load (%s)" % line
        if mode == "drain":
            if f[0] == "sub" and line == "ok":
                subs.add(int(f[1]))
            got = {int(i): [e for e in body.split(";") if e] for i, body in re.findall(r" s(\d+)=\[([^\]]*)\]", line)}
            if f[0] == "spawn" and f[2] == "set":
                vals["_p" + f[1]] = (f[3], "s." + f[4])
            if f[0] == "go" and " done st=NEW" in line and ("_p" + f[1]) in vals:
                k, v = vals.pop("_p" + f[1])
                for i in sorted(subs):
                    evs = got.get(i, [])
                    if len(evs) != 1 or not evs[0].startswith("N:%s=%s@ok" % (k, v)):
                        return "subscriber %d received %s for the committed insert of %s (an auto-destroy was draining)" % (i, evs, k)
            continue
        if mode == "late":
            if f[0] == "sub" and line == "ok":
                subs.add(int(f[1]))
            if f[0] == "spawn":
                vals["_late"] = (f[3], "s." + f[4])
            if f[0] == "go" and " done st=" in line and "_late" in vals:
                k, v = vals.pop("_late")
                got = {int(i): [e for e in body.split(";") if e] for i, body in re.findall(r" s(\d+)=\[([^\]]*)\]", line)}
                for i in sorted(subs):
                    evs = got.get(i, [])
                    if len(evs) != 1 or not evs[0].startswith("N:%s=%s@ok" % (k, v)):
                        return "subscriber %d, subscribed before the first write was committed, received %s instead of the NEW event of %s" % (i, evs, k)
            continue
        if mode != "seq":
            continue
        got = {int(i): [e for e in body.split(";") if e] for i, body in re.findall(r" s(\d+)=\[([^\]]*)\]", line)}
        # expected events by the Spec
        exp = []
        if f[0] in ("set", "setm", "sete"):
            k, v = f[1], "s." + f[2]
            if k not in vals:
                exp = [("N", k, v, None)]
            elif vals[k] != v:
                exp = [("M", k, v, vals[k])]
            if "st=ERR" not in line:
                vals[k] = v
        elif f[0] == "inc":
            k, n = f[1], int(f[2])
            if k not in vals:
                exp = [("N", k, "i.%d" % n, None)]
                vals[k] = "i.%d" % n
            elif vals[k].startswith("i."):
                nv = "i.%d" % (int(vals[k][2:]) + n)
                exp = [("M", k, nv, vals[k])]
                vals[k] = nv
        elif f[0] in ("del", "shift", "shifte"):
            if f[1] in vals:
                exp = [("D", f[1], vals[f[1]], None)]
                del vals[f[1]]
        for i in sorted(subs):
            evs = got.get(i, [])
            parsed = []
            for e in evs:
                mm = EV.match(e)
                if not mm:
                    return "unparseable event %r after `%s`" % (e, op)
                if mm.group(5) != "ok":
                    return "event time is not the commit wall-clock time (%s) after `%s`" % (mm.group(5), op)
                parsed.append((mm.group(1), mm.group(2), mm.group(3), mm.group(4)))
            if parsed != exp:
                return "subscriber %d received %s after `%s`, Spec expects %s" % (i, parsed, op, exp)
        if f[0] == "sub" and line == "ok":
            subs.add(int(f[1]))
        if f[0] == "unsub" and line == "ok":
            subs.discard(int(f[1]))
    return None


def run(ctx):
    facts, _, _ = K.extract_facts(ctx)
    K.lean_verdict(ctx)
    corrs = []
    if K.build_hx(ctx) and K.build_drv(ctx):
        args = ["%s=%s" % (k, facts.get(k, "unknown")) for k in
                ("timeConv", "sendUnderMutex", "resetsChangedFlags", "oldIsLive", "emittedUnderGuard", "fanoutSynchronous", "eventTimeFromClock", "checksSubscribersAfterStore", "stopsSendingAfterDrain")]
        env = {"C19_EXPECT_SERIAL": "1" if facts.get("sendUnderMutex") == "yes" else "0"}
        c = K.correspondence(ctx, "C19", args, hx_env=env, timeout=600)
        corrs.append(("C19", args, c))
    else:
        ctx.violation("harness does not build against /repo", {"correspondence": "C19", "log": getattr(ctx, "hx_log", "")[-2000:]},
                      tag="build", found_input=False)
    K.decide_standard(ctx, corrs, FINDINGS)
    K.report_mismatch(ctx, spec_violated)
    if ctx.thorough:
        ok, out = K.leanchecker(ctx, ["Hv.Props.C19", "Hv.Data.Events"])
        ctx.cov["leanchecker"] = "ok" if ok else out[-500:]
        if not ok:
            ctx.violation("leanchecker rejected the compiled proofs", {"log": out[-2000:]}, tag="leanchecker", found_input=False)
    c = corrs[0][2] if corrs else K.Corr()
    samples = []
    for cs in c.cases[:4]:
        samples.append({"ops": [c.ops[i] for i in cs], "impl": [c.impl[i] for i in cs if i < len(c.impl)]})
    modes = {}
    for cs in c.cases:
        f = c.ops[cs[0]].split()
        modes[f[2] if len(f) > 2 else "?"] = modes.get(f[2] if len(f) > 2 else "?", 0) + 1
    return K.finish(
        ctx, "proof",
        rule=("cases: seq = random histories of sub/unsub/set/inc/del/shift/get/reload (6..19 ops) over 3 string keys, 2 counter keys and "
              "2 subscribers; conc = 2..4 writers spawned one by one against a gated fake stream (each reply lists where every writer "
              "is parked and how many are inside SendMsg), then drained; stress = W writers x N increments over K keys (delivered "
              "event values per key must be 1,2,3,...).  Four corpus cases first.  A case is non-trivial with >= 3 ops; distinct = "
              "distinct op texts.  Every reply line is compared between the real gateway and the Lean model."),
        samples=samples,
        evaluations=len(c.ops),
        distinct_nontrivial=K.distinct_cases(c),
        extra_cov={"correspondence": {"domain": "C19", "cases": len(c.cases), "case_modes": modes, "op_lines": len(c.ops),
                                      "mismatching_lines": len(c.mismatch), "op_histogram": c.op_hist,
                                      "lines_flagged_by_model": sum(1 for f in c.flags if f)}},
        trusted=["Lean 4 kernel", "axioms: propext, Classical.choice, Quot.sound", "extract/c19.go", "harness/c19.go + app/verifhook",
                 "gRPC stream rule (one SendMsg at a time)", "sync.Mutex semantics", "C15 (record guard exclusive)"],
    )
