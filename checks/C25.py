"""C25 — disk write failures never corrupt durable data."""
from . import common as K
from . import stor as S

META = {
    "level": "proof",
    "technique": ("Lean 4 fault-aware writer model (every file operation gets ok|err|short n; the block count field is 16 bits wide and "
                  "the reader rejects a wrapped count) with kernel-checked witnesses for the defective failure handlings and a theorem "
                  "for the repaired one + go/ast fact tie + correspondence on real runs with strace-injected EIO (write, fsync, "
                  "ftruncate, rename; single and double), RLIMIT_FSIZE short writes, faults during compaction, and a long outage that "
                  "piles up more than 65535 pending entries"),
    "text": ("Hv.C25.holds_of_repaired: a flush that rolls a failed block back (retrying a failed rollback before the next block), "
             "restores the offset after a failed header rewrite and never puts more than 65535 entries into a block hides and drops "
             "nothing — for every buffer length, every result stream over the flush and any number of writes during the outage "
             "(each may trigger a flush that fails again), then the fault clears, more is written and synced; flush_chunks_bounded: "
             "every block it puts on disk holds <= 65535 entries and an exact count field; delete_sticks_of_repaired (clause DeleteSticks: "
             "WriteEntry reports success once the entry is queued, so a delete after a failed flush writes its tombstone) and "
             "close_retry_of_repaired / closeWF_spec (clause CloseRetry: a failed Close leaves the writer usable, more is written, Close "
             "again, everything loads).  Witnesses: deleted_record_resurrects, failed_close_kills_writer, failed_write_drops_entries "
             "(buffer emptied before the write, no rollback) and oversized_block_unreadable (rollback without splitting: a buffer of "
             "65536 entries becomes one block with a wrapped EntryCount; the reader rejects it and hides the durable block in front "
             "of it) refute the statement; classify_sound decides from the extracted facts."),
    "note": ("Trusted: Lean kernel (propext, Classical.choice, Quot.sound); extract/c02.go+c03.go+c04.go+c25.go; harness/c02.go+c25.go "
             "(strace inject, rlimit); fault model: an operation fails as a whole or a write is cut after n bytes; MkOk (the encoder is "
             "exact) is assumed only for batches of <= 65535 entries; the linear-time addManyWF the driver runs is proved equal to the "
             "model's (csimp).  C25-failed-create-drops-batch stays open (needs an error path out of Chronicler.Write)."),
    "design_ref": "§8 C25",
}

FINDINGS = {
    "C25-failed-write-drops-entries": "WriteBuffer.Flush empties the buffer before the block is written; when the write fails the entries are "
                                      "gone, chronicler.Write only logs, a later Sync succeeds: silent loss",
    "C25-partial-block-strands-later-writes": "a short write leaves a partial block in the file; later blocks are appended behind it and "
                                              "are never loaded (often the whole file becomes unloadable)",
    "C25-failed-header-rewrite-overwrites-file": "when the in-place header rewrite of flushLocked/Sync fails the descriptor stays at offset "
                                                 "0..64; the next block is written over the start of the file",
    "C25-failed-create-bricks-swamp": "a failed header/name write in createNewFile leaves a short file that can neither be opened nor is "
                                      "recreated: every later Write is dropped",
    "C25-failed-create-drops-batch": "when createNewFile fails (header/name write error) ensureWriter returns the error, chronicler.Write logs it and "
                                     "returns: the whole batch is dropped although the swamp already took it off its write queue; the next "
                                     "batch recreates the file and is stored",
    "C25-restored-buffer-overflows-entry-count": "flushLocked puts the entries of a failed block back into the buffer; during an outage the "
                                                 "buffer grows past 65535 entries, CompressEntries stores uint16(len(entries)) in the block "
                                                 "header, and the block written once the fault clears carries a wrapped count: ParseBlock "
                                                 "rejects it and the whole file, earlier durable records included, can no longer be loaded",
    "C25-deleted-record-resurrects": "WriteEntry reports the error of the flush it triggers although the entry stays queued: the swamp gets no "
                                     "file pointer, a later Delete writes no tombstone, the next Sync flushes the restored insert and the "
                                     "deleted record is back after reload",
    "C25-failed-close-kills-writer": "a Close that fails closes the descriptor while the chronicler keeps the writer: every later "
                                     "Write/Sync/Close fails with 'file already closed' although the fault cleared",
    "C25-fsync-error": "an fsync error made data unreadable",
    "C25-unexplained-loss": "records missing after a fault-free run",
}


def spec_scan(ops, impl):
    """Spec oracle on the implementation's replies: after the fault has cleared and Sync + Close
    succeeded, a fresh load returns every record handed to Write."""
    bad = []
    spec = {}
    written, durable = [], 0
    for i, op in enumerate(ops):
        if i >= len(impl):
            break
        f = op.split(" ")
        if f[0] == "case":
            spec = {}
            written, durable = [], 0
        elif f[0] == "act" and f[1] == "w":
            S.apply_items(spec, f[2])
            for it in f[2].split(","):
                body, _, times = it.partition("*")
                written.extend([body] * (int(times) if times else 1))
        elif f[0] == "act" and f[1] in ("sync", "close") and impl[i] == "ok ok":
            durable = len(written)
        elif f[0] == "act" and f[1] == "probe":
            # during the fault as well: a reader sees a flush boundary that holds everything a Sync/Close has acknowledged
            got = impl[i].split(" ")[1] if " " in impl[i] else "?"
            ok = False
            for m in range(len(written), durable - 1, -1):
                st = {}
                S.apply_items(st, ",".join(written[:m])) if m else None
                if S.fmt_state(st) == got:
                    ok = True
                    break
            if not ok:
                bad.append((i, "a reader that opens the file at this moment (writer still open, fault possibly in progress) sees %s: "
                               "not a state that holds the %d entries acknowledged by Sync/Close so far" % (got, durable), "loss"))
        elif f[0] == "sw" and f[1] == "new":
            spec = {}
        elif f[0] == "sw" and f[1] == "save":
            spec[int(f[2])] = f[3]
        elif f[0] == "sw" and f[1] == "del":
            spec.pop(int(f[2]), None)
        elif f[0] == "sw" and f[1] == "load":
            got = impl[i].split(" ")[1] if " " in impl[i] else "?"
            if got != S.fmt_state(spec):
                bad.append((i, "a real swamp (write ticks, file-pointer events on) was closed after the fault had cleared; a fresh load "
                               "returns %s, the swamp held %s" % (got, S.fmt_state(spec)), "loss"))
        elif f[0] == "act" and f[1] == "load":
            got = impl[i].split(" ")[1] if " " in impl[i] else "?"
            if got != S.fmt_state(spec):
                bad.append((i, "after the fault cleared and Sync+Close succeeded the load returns %s; written: %s" % (got, S.fmt_state(spec)), "loss"))
    return bad


CLASSES = {}   # every C25 finding is about the same clause: records missing after the fault cleared


def spec_violated(rep):
    return S.first_relevant(rep, spec_scan, K.known_ids("C25"), CLASSES)


def run(ctx):
    facts, _, _ = K.extract_facts(ctx)
    K.lean_verdict(ctx)
    corrs = []
    c = K.Corr()
    if K.build_hx(ctx) and K.build_drv(ctx):
        args = ["%s=%s" % kv for kv in sorted(facts.items())]
        ops, err = S.trace_ops(ctx, "C25T")
        if err:
            c.err = err
        else:
            c = K.correspondence(ctx, "C25", args, ops_text=ops)
        corrs.append(("C25", args, c))
    else:
        ctx.violation("harness does not build against /repo", {"correspondence": "C25", "log": getattr(ctx, "hx_log", "")[-2000:]},
                      tag="build", found_input=False)
    K.decide_standard(ctx, corrs, FINDINGS)
    covered = S.impl_reported(ctx, spec_violated)
    K.report_mismatch(ctx, spec_violated)
    bad = spec_scan(c.ops, c.impl) if not c.err else []
    mism = set(c.mismatch)
    unflagged = [h for h in S.relevant_hits(bad, c.flags, K.known_ids("C25"), CLASSES, -1)
                 if not (covered and h[0] in mism)]
    if unflagged:
        i, why, _ = unflagged[0]
        rep = K.case_replay(c, K.case_of(c, i), upto=i)
        rep.update({"correspondence": "C25", "oracle": "spec_scan", "violations": len(unflagged)})
        fl = c.flags[i] if i < len(c.flags) else []
        how = ("predicted by the model as %s" % ",".join(fl)) if fl else "not predicted by the model"
        ctx.violation("implementation violates the property (%s): %s" % (how, why), rep, tag="spec")
    if ctx.thorough:
        ok, out = K.leanchecker(ctx, ["Hv.Props.C25", "Hv.Storage.FaultLemmas", "Hv.Storage.Fault"])
        ctx.cov["leanchecker"] = "ok" if ok else out[-500:]
        if not ok:
            ctx.violation("leanchecker rejected the compiled proofs", {"log": out[-2000:]}, tag="leanchecker", found_input=False)
    faults = {}
    for op in c.ops:
        if op.startswith("log "):
            f = op.split(" ")
            if f[8] != "ok":
                k = "%s/%s/%s" % (f[2], f[7].split(":")[0], f[8])
                faults[k] = faults.get(k, 0) + 1
    scen = {}
    for cs in c.cases:
        t = c.ops[cs[0]].split(" ")
        k = " ".join(t[2:4]) if len(t) > 3 else "?"
        scen[k] = scen.get(k, 0) + 1
    return K.finish(
        ctx, "proof",
        rule=("scenarios = base histories (three synced batches, a victim region, two more synced batches, Close, fresh Load) x fault: "
              "EIO injected by strace at the N-th write syscall for every N of the run, at the N-th fsync, at two writes, at a write and "
              "the rollback truncate, or a short write by RLIMIT_FSIZE leaving K in {0,1,15,16,17,100,400} more bytes; compactions (CLI, "
              "ForceCompaction) hit by write/fsync/rename errors; a long outage (RLIMIT_FSIZE at the file size while > 65535 minimal "
              "entries are written, then the limit is lifted; thorough: at/around the bound, three blocks' worth, a Sync and a second "
              "batch inside the outage, a second outage on a partly written backlog; backlogs update one key with conflicting values); "
              "close-retry (a failed Close or ForceCompaction, the SAME chronicler goes on); probes = what a reader sees at that moment, "
              "also while the fault lasts; a real swamp with file-pointer events on (save / delete / write tick under RLIMIT_FSIZE, "
              "untraced, key/value Spec as oracle); each scenario is one traced run of the real "
              "chronicler; every traced operation and its result is compared with the fault-aware model's prediction; the final load "
              "is compared with the model and with the Spec; non-trivial = log/act line; distinct = distinct op lines"),
        samples=[{"op": S.strip_hex(c.ops[i]), "impl": c.impl[i][:160]} for i in range(0, min(len(c.ops), 60), 9) if i < len(c.impl)],
        evaluations=len(c.ops), distinct_nontrivial=len(set(o for o in c.ops if o.split(" ")[0] in ("log", "act"))),
        extra_cov={"correspondence": {"domain": "C25", "scenarios": len(c.cases), "op_lines": len(c.ops),
                                      "mismatching_lines": len(c.mismatch), "scenario_kinds": scen, "faulted_operations": faults,
                                      "lines_flagged_by_model": sum(1 for f in c.flags if f),
                                      "spec_oracle_violations": len(bad), "spec_oracle_unflagged": len(unflagged)}},
        trusted=["Lean 4.33.0 kernel", "axioms: propext, Quot.sound", "extract/c02.go, extract/c25.go",
                 "harness/c02.go, harness/c25.go (strace fault injection, RLIMIT_FSIZE)",
                 "fault model: whole-operation failure or byte-prefix short write; <= 2 faults, then the fault clears",
                 "ASSUMED (tested): A1/A2 of Hv/Storage/Disk.lean"],
    )
