"""C21 — swamp settings resolve deterministically from registered patterns."""
from . import common as K
from . import miscutil as U

META = {
    "level": "proof",
    "technique": "Lean 4 theorems over all registries, names and map iteration orders (lookup as a relation) + go/ast fact tie + "
                 "differential run of the real settings package (repeated lookups, restart)",
    "text": ("Lean theorems Hv.C21.holds_ranked = resolve_perm (result independent of map/registration order), resolve_most_specific "
             "(no registered matching pattern is strictly more specific than the winner; default iff nothing matches) and "
             "resolve_restart (reload of settings.json gives the same registry), registry_follows_history / resolves_to_last_registration (after "
             "any history of registrations, re-registrations and deregistrations every key holds its last registration and lookups "
             "return it) for every gateway-reachable registry, name and "
             "iteration order when GetBySwampName ranks all matches with a strict comparison and positive distinct weights; "
             "refutes_iteratesMap / map_order_witness (closed counterexample) when it returns the first match of a map range; "
             "refutes_dropped_field when a persisted field is not carried through settings.json; classify_sound ties the decision "
             "to the facts extracted from settings.go."),
    "note": ("Trusted: Lean kernel (propext, Classical.choice, Quot.sound); extract/c21.go; harness/c21.go. Scope: pattern parts "
             "without '/' (patterns enter through name.Load); ChroniclerV2 (runtime-only, never set by the gateway) is outside the "
             "model; Go map iteration is modelled as an arbitrary permutation. Persistence: fields are carried in whole seconds / bytes "
             "(Duration = seconds * time.Second overflows beyond ~292 years: not modelled); a save cut short by RLIMIT_FSIZE is exercised on the "
             "real code; a settings.json corrupted from OUTSIDE still makes New start empty (error only logged) — not reachable by a crash any more."),
    "design_ref": "§8 C21",
}

FINDINGS = {
    "C21-map-order-lookup": "GetBySwampName returns the first match of a Go map iteration: with overlapping patterns the same swamp "
                            "resolves to different settings from one lookup to the next (e.g. exact persistent + realm-wildcard in-memory)",
    "C21-reregistration-ignored": "RegisterPattern's `not changed` early return ignores the swamp type: `reg a/x/p M 4` then `reg a/x/p P 4 0 0` "
                                  "leaves the pattern in-memory; lookups keep returning the older registration",
    "C21-acknowledged-registration-lost": "RegisterPattern's `not changed` early return looks at the runtime map only: after a registration whose save "
                                          "failed, registering the same pattern again is acknowledged but writes nothing — after a restart it is gone",
    "C21-settings-save-not-atomic": "settings.json is rewritten in place: when a save fails part-way (crash, full disk) the file no longer parses and "
                                    "settings.New silently starts with NO patterns — every previously registered pattern is lost after the restart",
    "C21-restart-loses-field": "a pattern field is not carried through settings.json: after a restart the same name resolves to different settings",
}


_ATOMIC = True


def _matches(n, p):
    return n[0] == p[0] and (p[1] == "*" or n[1] == p[1]) and (p[2] == "*" or n[2] == p[2])


def _more_specific(q, p):
    return ((q[1] != "*" or p[1] == "*") and (q[2] != "*" or p[2] == "*")
            and ((p[1] == "*" and q[1] != "*") or (p[2] == "*" and q[2] != "*")))


def oracle(rep):
    """Spec oracle on the implementation's replies only: one result per lookup batch, the winner is a
    most specific registered match (default iff none), the same result after a restart."""
    keys, last, regd, torn, maybe_all = set(), {}, {}, None, set()
    files = {}
    for op, line in zip(rep["ops"], rep["impl"]):
        f = op.split(" ")
        if line.startswith("timeout"):
            continue   # the rig did not answer in time (load): common.py re-runs such a case alone with a larger budget
        if line == "panic":
            return (None, "`%s` panicked" % op)
        if f[0] == "case":
            keys, last, regd, torn, maybe_all = set(), {}, {}, None, set()
            files = {}
        elif f[0] == "live":
            # the swamp is created with the settings that resolve NOW: in-memory = starts empty, nothing reaches the disk;
            # persistent = loads what is on disk and persists the new treasure
            name = tuple(f[1:4])
            if not line.startswith("live "):
                return (None, "`%s` answered %s" % (op, line))
            if torn is not None or any(_matches(name, k) for k in maybe_all):
                files.pop(name, None)
                continue
            matching = [k for k in keys if _matches(name, k)]
            best = [k for k in matching if not any(_more_specific(q, k) for q in matching)]
            if len(best) > 1:
                continue
            in_mem = bool(best) and regd[best[0]].startswith("M")
            prev = files.get(name)
            if prev is None and name in files:
                continue
            prev = prev or 0
            want = "live count=1 disk=%s" % str(prev > 0).lower() if in_mem else "live count=%d disk=true" % (prev + 1)
            if not in_mem:
                files[name] = prev + 1
            if line != want:
                return (None, "a swamp of %s opened while the settings resolve to %s (%s) behaved as `%s`, expected `%s`"
                        % ("/".join(name), "/".join(best[0]) if best else "the default", "in-memory" if in_mem else "persistent", line, want))
        elif f[0] == "regtorn":
            # the runtime has the pattern; whether it survives a restart is open — everything saved BEFORE must survive
            keys.add(tuple(f[1:4]))
            regd[tuple(f[1:4])] = "M|%s|0|0" % f[5] if f[4] == "M" else "P|%s|%s|%s" % (f[5], f[6], f[7])
            torn = tuple(f[1:4])
            last = {}
        elif f[0] == "restart":
            if torn is not None:
                keys.discard(torn)
                regd.pop(torn, None)
                maybe_all.add(torn)
                last, torn = {}, None
        elif f[0] == "reg":
            if torn == tuple(f[1:4]):
                torn = None      # acknowledged again: it must survive a restart now
            keys.add(tuple(f[1:4]))
            # what the registration asks for (in-memory patterns carry no interval / size)
            regd[tuple(f[1:4])] = "M|%s|0|0" % f[5] if f[4] == "M" else "P|%s|%s|%s" % (f[5], f[6], f[7])
            last = {}
        elif f[0] == "dereg":
            keys.discard(tuple(f[1:4]))
            regd.pop(tuple(f[1:4]), None)
            last = {}
        elif f[0] == "get" and line.startswith("res"):
            name = tuple(f[1:4])
            res = line.split(" ")[1:]
            if len({r.split("|", 1)[1] for r in res}) > 1:
                return ("C21-map-order-lookup", "%d lookups of %s returned different settings: %s" % (300, "/".join(name), " ".join(res)))
            maybe = {k for k in maybe_all if _matches(name, k)}
            if maybe and any(tuple(r.split("|")[0].split("/")) in maybe for r in res):
                continue   # resolved to the pattern whose save was torn: it may or may not have survived
            matching = [k for k in keys if _matches(name, k)]
            for r in res:
                pat = tuple(r.split("|")[0].split("/"))
                if not matching:
                    if pat != name or r.split("|", 1)[1] != "P|5|1|65536":
                        return (("C21-acknowledged-registration-lost" if _ATOMIC else "C21-settings-save-not-atomic") if maybe_all else None, "no registered pattern matches %s but the result is %s" % ("/".join(name), r))
                elif pat not in matching or any(_more_specific(k, pat) for k in matching):
                    fidx = ("C21-acknowledged-registration-lost" if _ATOMIC else "C21-settings-save-not-atomic") if maybe_all else "C21-map-order-lookup"
                    return (fidx, "%s resolved to %s although a more specific registered pattern matches (registered: %s)"
                                % ("/".join(name), r, " ".join(sorted("/".join(k) for k in matching))))
            for r in res:
                pat = tuple(r.split("|")[0].split("/"))
                if pat in regd and r.split("|", 1)[1] != regd[pat]:
                    return (("C21-acknowledged-registration-lost" if _ATOMIC else "C21-settings-save-not-atomic") if maybe_all else "C21-reregistration-ignored", "%s resolved to %s but pattern %s was last registered as %s"
                            % ("/".join(name), r, "/".join(pat), regd[pat]))
            if name in last and last[name] != res:
                return ("C21-acknowledged-registration-lost" if not maybe_all else "C21-restart-loses-field", "%s resolved to %s before and %s after a restart" % ("/".join(name), last[name], res))
            last[name] = res
    return None


def spec_violated(rep):
    r = oracle(rep)
    return r[1] if r else None


def run(ctx):
    global _ATOMIC
    facts, _, _ = U.extract_facts(ctx)
    _ATOMIC = facts.get("saveAtomic") == "yes"
    K.lean_verdict(ctx)
    corrs = U.run_corr(ctx, "C21", facts)
    K.decide_standard(ctx, corrs, FINDINGS)
    K.report_mismatch(ctx, spec_violated)
    c = corrs[0][2] if corrs else K.Corr()
    oracle_hits = 0
    if corrs:
        oracle_hits = U.oracle_sweep(ctx, c, "C21", corrs[0][1], oracle)
    U.leancheck(ctx, ["Hv.Props.C21", "Hv.Misc.SettingsLemmas", "Hv.Misc.Settings", "Hv.Misc.NameBase"])
    multi = sum(1 for l in c.impl if l.startswith("res") and len(l.split(" ")) > 2)
    samples = [{"ops": [c.ops[i] for i in cs], "impl": [c.impl[i] for i in cs if i < len(c.impl)]} for cs in c.cases[:2]]
    return K.finish(
        ctx, "proof",
        rule=("cases = 7 corpus cases + random histories of reg/dereg/get/live/restart over patterns {a,b,*}x{x,y,*}x{p,q,*} or, in a third of the "
              "cases, parts that differ in letter case or are prefixes of one another ({ab,aB,a,*}x{xy,xY,x,*}x{pq,Pq,pqr,*}) (at most 8 "
              "distinct keys per case, re-registrations with changed and unchanged numbers), each closed by the same three lookups "
              "before and after a restart; every get is 300 real lookups and replies the set of distinct results; live = hydra + gateway on "
              "the same settings object: a treasure is written into the swamp, counted, the swamp closed and looked up on disk (the swamp "
              "must have been created with the settings that resolve at that moment); a case is "
              "non-trivial when it has >= 3 ops; distinct = distinct op texts; model reply = every result some map order can give"),
        samples=samples, evaluations=len(c.ops), distinct_nontrivial=K.distinct_cases(c),
        extra_cov={"correspondence": {"domain": "C21", "cases": len(c.cases), "op_lines": len(c.ops), "mismatching_lines": len(c.mismatch),
                                      "op_histogram": c.op_hist, "lookups_per_get": 300,
                                      "gets_with_more_than_one_result": multi, "oracle_hits": oracle_hits,
                                      "lines_flagged_by_model": sum(1 for f in c.flags if f)}},
        trusted=["Lean 4.33.0 kernel", "axioms: propext, Classical.choice, Quot.sound", "extract/c21.go", "harness/c21.go",
                 "Go map iteration = arbitrary permutation (300 lookups, <= 8 keys per registry)"],
    )
