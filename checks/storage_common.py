"""Helpers shared by the storage checks C01, C04, C29: op-line field specs, the canonical digests
(the same CRC-32 serialisation the Go harness and the Lean driver print) and the independent Spec
oracle for write histories (a plain Python dict — it never looks at the model's replies)."""
import json
import os
import struct
import subprocess
import tempfile
import zlib


def all_storage_facts():
    """Facts of all three storage properties (the Lean model has ONE Cfg): the driver of each check
    is given every fact, so that e.g. C01's model reader has the same checks as the real reader."""
    from . import common as K
    out = {}
    with tempfile.TemporaryDirectory() as d:
        p = subprocess.run([os.path.join(K.BIN, "extract"), "-repo", K.REPO, "-out", d, "C01", "C04", "C29"],
                           stdout=subprocess.PIPE, stderr=subprocess.STDOUT, text=True)
        for line in p.stdout.splitlines():
            if line.startswith("FACTS "):
                for k, v in json.loads(line.split(" ", 2)[2]).items():
                    out[k] = v["value"]
    return out


DRV_FACT_NAMES = ["rejectsEmptyKey", "rejectsLongKey", "flushCmp", "flushAtCount", "deleteRemoves", "validatesCrc", "validatesULen",
                  "boundsCompressedSize", "boundsDecodedLen", "parseConsumesAll", "shortPayloadIsEOF", "zeroSizeIsEOF", "zeroTailIsEOF", "openStopsAtZeroSize", "chronSurfacesError", "apiValidatesKeys", "apiBoundsNameLength", "tuiListsAll", "openCutsTornTail", "v2Fallback", "rejectsLongName"]


def drv_args(own_facts):
    allf = all_storage_facts()
    allf.update(own_facts)
    return ["%s=%s" % (k, allf.get(k, "unknown")) for k in DRV_FACT_NAMES]


def unhex(s):
    return b"" if s == "-" else bytes.fromhex(s)


def gen_bytes(n, seed):
    return bytes((seed + i * 131 + (i // 8) * 17) % 256 for i in range(n))


def spec_bytes(s):
    f = s.split(":")
    if f[0] == "x" and len(f) == 2:
        return unhex(f[1])
    if f[0] == "g" and len(f) == 3:
        return gen_bytes(int(f[1]), int(f[2]))
    raise ValueError("bad field spec " + s[:40])


def index_digest(d):
    c = 0
    for k in sorted(d):
        v = d[k]
        c = zlib.crc32(struct.pack("<I", len(k)), c)
        c = zlib.crc32(k, c)
        c = zlib.crc32(struct.pack("<I", len(v)), c)
        c = zlib.crc32(v, c)
    return "%d:%08x" % (len(d), c & 0xFFFFFFFF)


def apply_entry(d, e):
    op, k, v = e
    if op == 3:
        d.pop(k, None)
    elif op in (1, 2):
        d[k] = v


class HistoryOracle:
    """Spec of one case: last writer wins over the writes the implementation acknowledged."""

    def __init__(self):
        self.base = {}          # spec state of everything known to have left the buffer
        self.pending = []       # acknowledged writes that may still be buffered
        self.n_acc = 0
        self.has_empty_key = False
        self.has_long_key = False
        self.max_unflushed_run = 0   # longest run of acknowledged writes between two flush points
        self.block_size = 0
        self.run = 0
        self.exists = False
        self.compactions = 0
        self.valid = {}             # chronicler mode: state without the unencodable keys
        self.dropped_invalid = False

    def ack(self, e):
        self.pending.append(e)
        self.n_acc += 1
        self.run += 1
        self.max_unflushed_run = max(self.max_unflushed_run, self.run)
        if len(e[1]) == 0:
            self.has_empty_key = True
        if len(e[1]) > 65535:
            self.has_long_key = True

    def flushed(self):
        for e in self.pending:
            apply_entry(self.base, e)
        self.pending = []
        self.run = 0

    def candidates(self, limit=3000):
        """digests of every state a reader may legitimately see now"""
        out = {index_digest(self.base)}
        if not self.pending:
            return out, True
        d = dict(self.base)
        exact = len(self.pending) <= limit
        todo = self.pending if exact else self.pending[:limit]
        for e in todo:
            apply_entry(d, e)
            out.add(index_digest(d))
        if not exact:
            for e in self.pending[limit:]:
                apply_entry(d, e)
            out.add(index_digest(d))
        return out, exact

    def signature(self):
        """which recorded defect (if any) explains a wrong load in this case"""
        if self.dropped_invalid:
            return None
        if self.has_empty_key:
            return "C01-empty-key-accepted"
        if self.has_long_key:
            return "C01-long-key-accepted"
        if self.max_unflushed_run > 65535 or (self.compactions and len(self.base) > 65535):
            return "C01-block-entry-count-overflow"
        return None


def history_oracle(ops, impl, api_validates=False):
    """Walks op lines + implementation replies of the C01/C29 storage domain.
    Returns a list of (line index, what, signature-or-None)."""
    bad = []
    o = HistoryOracle()
    api_acked = {}
    for i, (op, rep) in enumerate(zip(ops, impl)):
        f = op.split(" ")
        if f[0] == "aset":
            if rep == "ok":
                api_acked[(f[1], f[2], f[3])] = i
            continue
        if f[0] == "aget":
            # whatever the gateway acknowledged must still be there after the restart
            if (f[1], f[2], f[3]) in api_acked and rep != "found":
                sig = "C01-api-acks-unstorable-name" if int(f[1]) > 65535 else "C01-chronicler-drops-refused-entry"
                bad.append((i, "Set on a swamp name of %s bytes with a key of %s bytes was acknowledged, after a restart Get says `%s`"
                            % (f[1], f[2], rep), sig))
            continue
        if f[0] == "arpc":
            if rep == "ok" and int(f[2]) > 65535:
                bad.append((i, "%s acknowledged a key of %s bytes, which the storage format cannot carry" % (f[1], f[2]),
                            "C01-chronicler-drops-refused-entry"))
            continue
        if f[0] == "case":
            o = HistoryOracle()
        elif f[0] == "cfg":
            o = HistoryOracle()
            o.block_size = int(f[1])
            o.exists = rep == "ok"
            o.name = spec_bytes(f[2])
        elif f[0] == "w" and rep == "ok":
            o.ack((int(f[1]), spec_bytes(f[2]), spec_bytes(f[3])))
        elif f[0] == "wn":
            n, kl, dl, st = map(int, f[1:5])
            okc = n if rep == "ok" else 0
            for j in range(okc):
                o.ack((1, gen_bytes(kl, st + j), gen_bytes(dl, st + j)))
        elif f[0] == "wb" and rep == "ok":
            n, kl, dl, st = map(int, f[1:5])
            for j in range(n):
                o.ack((1, gen_bytes(kl, st + j), gen_bytes(dl, st + j)))
        elif f[0] == "wk":
            n, dl, st = map(int, f[1:4])
            okc = n if rep == "ok" else 0
            for j in range(okc):
                o.ack((1, struct.pack("<I", st + j), gen_bytes(dl, st + j)))
        elif f[0] in ("flush", "sync", "close") and rep == "ok":
            o.flushed()
        elif f[0] == "compact" and rep == "ok":
            o.compactions += 1          # the state must not change; a large live set may now sit in few blocks
        elif f[0] == "ccfg":
            o = HistoryOracle()
            o.exists = True
        elif f[0] in ("cw", "cd", "cwb") and rep == "ok":
            # `Write` has no result: whatever it was handed, its caller believes stored.  `valid`
            # is the same history without the keys the format cannot carry (what a chronicler that
            # silently drops them would leave behind).
            items = []
            if f[0] == "cw":
                items = [(1, spec_bytes(f[1]), spec_bytes(f[2]))]
            elif f[0] == "cd":
                items = [(3, spec_bytes(f[1]), b"")]
            else:
                for it in f[1].split(";"):
                    kind, ks, vs = it.split("|")
                    items.append((3, spec_bytes(ks), b"") if kind == "d" else ({"i": 1, "u": 2}[kind], spec_bytes(ks), spec_bytes(vs)))
            for e in items:
                o.ack(e)
                if 0 < len(e[1]) <= 65535:
                    apply_entry(o.valid, e)
                else:
                    o.dropped_invalid = True
        elif f[0] == "cclose" and rep == "ok":
            o.flushed()
        elif f[0] == "cload":
            got = rep.split(" ")[1] if rep.startswith("cidx ") else rep
            cands, _ = o.candidates()
            if got not in cands:
                sig = o.signature()
                if o.dropped_invalid and not o.pending:
                    # known shape: exactly the unencodable keys are missing, everything else is there
                    sig = "C01-chronicler-drops-refused-entry" if got == index_digest(o.valid) else None
                    if sig and api_validates:
                        continue   # below the API: the gateway refuses such keys, a direct Write of one is not an API history
                bad.append((i, "after `cload`: a fresh chronicler loaded %s, but Write was handed (and reported nothing about) %s"
                            % (got[:60], sorted(cands)[:3]), sig))
        elif f[0] in ("load", "raw"):
            if f[0] == "load":
                if rep.startswith("idx "):
                    got = rep.split(" ")[1]
                elif rep == "err nofile" and not o.exists:
                    continue
                else:
                    got = rep
            else:
                got = None
                for tok in rep.split(" "):
                    if tok.startswith("idx="):
                        got = tok[4:]
                if got is None:
                    got = rep
            cands, exact = o.candidates()
            if got not in cands:
                bad.append((i, "after `%s`: LoadIndex gave %s, the acknowledged writes give %s" %
                            (op[:60], got[:60], sorted(cands)[:3]), o.signature()))
    return bad
