"""C08 — accelerated (bucket) and full-scan routes of streamed queries agree."""
import re

from . import common as K

META = {
    "level": "proof",
    "technique": ("Lean 4 proofs over all filter trees, bodies and stores (planner soundness, leg agreement, route agreement) + "
                  "go/ast fact tie + model/implementation correspondence running every query down both routes of the real gateway"),
    "text": ("Lean theorems Hv.C08.planner_sound (for every filter tree and record the plan of PlanFilter/planAnd/planOr matches "
             "exactly when the filter does, given that each bucket hint matches exactly when its leg does), leg_agree (that premise "
             "holds when equality on the scan route is the canonical one, special paths are never hinted and only EQUAL/IN are "
             "hinted; refuted by closed witnesses otherwise), routes_agree (with paging after the whole predicate on both routes, "
             "labels re-attached and the ordering attribute checked, the two routes return the same items for every store and "
             "query), leg_agree_same_kind / current_same_kind (hint and leg agree on every record whose hinted field is not a number or a "
             "number of the compare value's kind, so on such stores the routes agree on the current tree), bucket_tracks_store / bucketRouteS_run (the stateful buckets serve what the specification says, after any "
             "history of saves, deletes, reloads and build steps), closed witnesses for each currently false fact and for each "
             "mutation kind that might not reach a bucket, and routes_agree_partial for the fragment that avoids them; "
             "classify_sound ties the decision to facts extracted from bucket_planner.go, bucket_exec.go, gateway.go, "
             "filter_native.go, filter.go and bucket.go."),
    "note": ("Trusted: Lean kernel; extract/c08.go; harness/c08.go (msgpack bodies are decoded by the real library and compared with "
             "the text the model reads). The ordered index read of the scan route is modelled by C07's Spec; for the four index types C08 uses "
             "(key, creation, update, expiration time) that is Hv.C07.holds_current_nonvalue on the current tree, and the run moves "
             "timestamps by updates between queries so a stale index would show as a route disagreement. The field bucket is modelled as "
             "state (Hv/Query/Bucket.lean: lazy build over a snapshot, pending buffer, drain, OnInsert/OnUpdate/OnDelete) and "
             "bucket_tracks_store proves it files exactly the live records under the canonical key of their current body after "
             "every history, given the extracted notification facts; floats are k/4 with |k| small, integers below 2^53 (no NaN/Inf, "
             "no lossy int-float conversion); filters are body-field comparison / IN / emptiness legs plus a geo-distance leg generated as an "
             "opaque, never-hinted leg (residual_carries_opaque; phrase / vector / nested-slice legs go the same way through "
             "cloneGroupHeader, whose field list is pinned against hydrapb.FilterGroup, and are not generated); msgpack times are whole "
             "seconds; IncludedKeys / ExcludeKeys / KeysOnly are applied by the per-row loop after the route is chosen and are not "
             "generated; both stream handlers (GetByIndexStream, GetByIndexStreamFromMany) are run and extracted; forcing the scan route by "
             "wrapping the filter as the single sub-group of an OR group (planOr bypasses on sub-groups; verified by extract)."),
    "design_ref": "§8 C08",
}

FINDINGS = {
    "C08-scan-equality-not-canonical": "EQUAL/IN on the scan route convert the field with toInt64/toUint64 (floats truncated; times only for integer compare values) while the bucket compares canonically: a float 5.75 field matches `= 5` on the scan route only",
    "C08-special-path-hinted": "indexableHint accepts paths with [*] / #len; the bucket reads them as literal keys and returns nothing while the scan route matches",
    "C08-paging-before-residual": "From/Limit are applied to the hint's candidates on the bucket route and to the whole index on the scan route, in both cases before the (rest of the) predicate: pages differ",
    "C08-indexed-leg-label-dropped": "the bucket route evaluates only the residual, so the label of the indexed leg (all labels of an OR-union) is missing from MatchedLabels",
    "C08-bucket-route-ignores-index-attribute": "ordered by a time index, the bucket route also returns records that do not carry that timestamp; the scan route (the index) does not contain them",
}

FINDINGS.update({
    "C08-bucket-misses-insert": "SaveFunction does not tell the built field buckets about a new key: the accelerated route misses the record",
    "C08-bucket-misses-update": "SaveFunction does not tell the built field buckets about a modified treasure: the accelerated route serves it under its old field value",
    "C08-bucket-misses-delete": "deleteHandler does not tell the built field buckets: the accelerated route still serves the deleted treasure",
    "C08-bucket-build-drops-pending": "mutations that arrive while a bucket build is in flight are not replayed by DrainPending",
    "C08-bucket-notified-before-add": "SaveFunction tells the buckets about a new key before the record is in beaconKey: a bucket build that starts in between snapshots without the record and has no notification in its buffer",
    "C08-bucket-served-before-drain": "a field bucket is EqualityInitialized as soon as BuildEquality returns, before its builder drained the pending buffer: a reader that comes in that window is served without the saves/deletes that completed meanwhile",
})
FINDINGS["C08-window-on-key-index"] = ("with the key index and a time window the scan route ignores the window (findInKeyBeacon) while "
                                       "applyTimeRange filters the candidates by timestamp 0: FromTime > 0 empties the accelerated route")

TIME = {"created": 0, "updated": 1, "expire": 2}


class Shadow:
    def __init__(self):
        self.ts = {}
        self.texts = {}
        self.queried = False            # a query ran in this case (a bucket may be built)
        self.mutated_after_query = False
        self.held = False               # a first query is held inside GetOrBuildBucket (op bq … release)
        self.mutated_while_held = False

    def put(self, k, c, u, e, text):
        old = self.ts.get(k, (0, 0, 0))
        self.ts[k] = (c or old[0], u or old[1], e or old[2])
        self.texts[k] = text
        self.mutated_after_query = self.mutated_after_query or self.queried
        self.mutated_while_held = self.mutated_while_held or self.held

    def delete(self, k):
        self.ts.pop(k, None)
        self.texts.pop(k, None)
        self.mutated_after_query = self.mutated_after_query or self.queried
        self.mutated_while_held = self.mutated_while_held or self.held

    def attr(self, idx, key):
        if idx == "key":
            return key
        return self.ts.get(key, (0, 0, 0))[TIME[idx]]


def items_of(part):
    if part in ("", "nd") or part.startswith("err:"):
        return None if part != "" else []
    return part.split(",")


def canon(sh, idx, part):
    """ties free: runs of equal sort value are sorted by key"""
    it = items_of(part)
    if it is None:
        return part
    out, i = [], 0
    key_of = lambda x: x.split("[", 1)[0]
    while i < len(it):
        a = sh.attr(idx, key_of(it[i]))
        j = i
        while j < len(it) and sh.attr(idx, key_of(it[j])) == a:
            j += 1
        out += sorted(it[i:j])
        i = j
    return ",".join(out)


def split_reply(line):
    m = re.match(r"^b=(\S*) s=(\S*)$", line)
    return (m.group(1), m.group(2)) if m else None


def parse_text(t):
    """the body text of a `body` op line → nested (kind, payload): kinds n T F i u f t s a m"""
    pos = [0]

    def val():
        c = t[pos[0]]
        if c in "nTF":
            pos[0] += 1
            return (c, None)
        if c in "iutf":
            j = pos[0] + 1
            while j < len(t) and t[j] not in ",]}":
                j += 1
            out = (c, t[pos[0] + 1:j])
            pos[0] = j
            return out
        if c == "'":
            j = t.index("'", pos[0] + 1)
            out = ("s", t[pos[0] + 1:j])
            pos[0] = j + 1
            return out
        if c == "[":
            pos[0] += 1
            items = []
            while t[pos[0]] != "]":
                if t[pos[0]] == ",":
                    pos[0] += 1
                    continue
                items.append(val())
            pos[0] += 1
            return ("a", items)
        if c == "{":
            pos[0] += 1
            fields = {}
            while t[pos[0]] != "}":
                if t[pos[0]] == ",":
                    pos[0] += 1
                    continue
                j = t.index(":", pos[0])
                k = t[pos[0]:j]
                pos[0] = j + 1
                v = val()
                fields.setdefault(k, v)     # the first of two equal keys is the one both extractors find
            pos[0] += 1
            return ("m", fields)
        raise ValueError(t[pos[0]:])

    return val()


NUM_CLASS = {"i": 0, "t": 0, "u": 1, "f": 2}       # signed / unsigned / float; everything else: not a number
CV_CLASS = {"i8": 0, "i16": 0, "i32": 0, "i64": 0, "u8": 1, "u16": 1, "u32": 1, "u64": 1, "f32": 2, "f64": 2}


def eq_leaves(filt):
    """the equality-type legs (EQUAL / …_IN) with a plain path, anywhere in the filter text: (path, op, cv type)"""
    out = []
    for tok in re.split(r"[(),&|]", filt):
        p = tok.split("~")
        if len(p) == 4 and p[1] in ("eq", "sin", "i32in", "i64in") and "[*]" not in p[0] and "#len" not in p[0] and p[0]:
            out.append((p[0].split("."), p[1], p[2].split(":", 1)[0]))
    return out


def cross_kind(text, leaves):
    """does the record's body hold, at the path of one of the legs, a NUMBER of another kind than the
    leg compares with?  (Hv.Query.sameKind, negated — the only records on which hint and leg can differ)"""
    if text is None:
        return False
    try:
        body = parse_text(text)
    except (ValueError, IndexError):
        return True                      # cannot tell: do not reject the signature on a parser gap
    for path, op, cvt in leaves:
        cur = body
        for seg in path:
            cur = cur[1].get(seg, ("n", None)) if cur[0] == "m" else ("n", None)
        vc = NUM_CLASS.get(cur[0], 3)
        if vc == 3 or op == "sin":
            continue
        if op in ("i32in", "i64in"):
            if vc != 0:
                return True
        elif CV_CLASS.get(cvt, 3) != 3 and CV_CLASS[cvt] != vc:
            return True
    return False


def signature(fid, f, sh, ib=None, is_=None):
    """coarse decidable predicate on the failing input, independent of the model"""
    idx, frm, lim, filt = f[1], int(f[3]), int(f[4]), f[8]
    if fid == "C08-scan-equality-not-canonical":
        # Symptom on the two replies: every record that one route returns and the other does not (or
        # that they label differently) holds, at the path of an equality-type leg of this filter, a
        # number of another kind than the leg compares with.  On same-kind operands the routes agree
        # (Hv.C08.current_same_kind), so nothing else can hide behind this finding.
        leaves = eq_leaves(filt)
        kb = {x.split("[", 1)[0]: x for x in (ib.split(",") if ib else [])}
        ks = {x.split("[", 1)[0]: x for x in (is_.split(",") if is_ else [])}
        differing = [k for k in set(kb) | set(ks) if kb.get(k) != ks.get(k)]
        if frm or lim or int(f[7]):
            # a cut (offset / limit / MaxResults) shifts which records fall inside it: one cross-kind record
            # earlier in the order moves same-kind ones in or out — then some live record must be cross-kind
            return bool(leaves) and bool(differing) and any(cross_kind(t, leaves) for t in sh.texts.values())
        return bool(leaves) and bool(differing) and all(cross_kind(sh.texts.get(k), leaves) for k in differing)
    if fid == "C08-bucket-served-before-drain":
        return sh.held and sh.mutated_while_held   # only a reader inside the window, after a mutation inside the window
    if fid.startswith("C08-bucket-misses-") or fid == "C08-bucket-build-drops-pending":
        return sh.mutated_after_query   # a bucket can only be stale about something that changed after it was built
    if fid == "C08-special-path-hinted":
        return "[*]" in filt or "#len" in filt
    if fid == "C08-paging-before-residual":
        return frm > 0 or lim > 0
    if fid == "C08-indexed-leg-label-dropped":
        return re.search(r"~L\d", filt) is not None
    if fid == "C08-window-on-key-index":
        return idx == "key" and (f[5] != "-" or f[6] != "-")
    if fid == "C08-bucket-route-ignores-index-attribute":
        return idx in TIME and any(v[TIME[idx]] == 0 for v in sh.ts.values())
    return False


def judge(c):
    sh = Shadow()
    stats = {"queries": 0, "nonempty": 0, "impl_routes_disagree": 0, "nd": 0, "by_index": {}}
    unexplained, mism = [], []
    n = max(len(c.ops), len(c.impl), len(c.model))
    for i in range(n):
        op = c.ops[i] if i < len(c.ops) else ""
        impl = c.impl[i] if i < len(c.impl) else "<missing>"
        model = c.model[i] if i < len(c.model) else "<missing>"
        flags = c.flags[i] if i < len(c.flags) else []
        f = op.split(" ")
        if f[0] == "case":
            sh = Shadow()
        elif f[0] == "body" and len(f) == 7:
            sh.put(f[1], int(f[2]), int(f[3]), int(f[4]), f[6])
        elif f[0] == "plain" and len(f) == 5:
            sh.put(f[1], int(f[2]), int(f[3]), int(f[4]), None)
        elif f[0] == "del" and len(f) == 2:
            sh.delete(f[1])
        elif f[0] == "bq" and impl == "held":
            sh.held, sh.mutated_while_held, sh.queried = True, False, True
            stats["held_builds"] = stats.get("held_builds", 0) + 1
        elif f[0] == "release":
            sh.held = False
        if f[0] != "q" or len(f) not in (9, 10):
            if impl != model:
                mism.append(i)
            continue
        stats["queries"] += 1
        if sh.held:
            stats["queries_while_build_held"] = stats.get("queries_while_build_held", 0) + 1
        if sh.mutated_after_query:
            stats["after_mutation_of_built_bucket"] = stats.get("after_mutation_of_built_bucket", 0) + 1
        stats["by_index"][f[1] + "/" + f[2]] = stats["by_index"].get(f[1] + "/" + f[2], 0) + 1
        ri, rm = split_reply(impl), split_reply(model)
        if ri is None or rm is None:
            if impl != model:
                mism.append(i)
            if ri is None:
                unexplained.append((i, "reply `%s`" % impl))
            continue
        ib, is_ = canon(sh, f[1], ri[0]), canon(sh, f[1], ri[1])
        mb, ms = canon(sh, f[1], rm[0]), canon(sh, f[1], rm[1])
        if ib or is_:
            stats["nonempty"] += 1
        nd = mb == "nd" or ms == "nd"
        if nd:
            stats["nd"] += 1
        ok = (mb == "nd" or mb == ib) and (ms == "nd" or ms == is_)
        if not ok:
            mism.append(i)
        else:
            c.model[i] = impl
        disagree = ib != is_
        if nd:
            c.flags[i] = []
            continue
        if disagree:
            stats["impl_routes_disagree"] += 1
            sigs = [x for x in flags if x in FINDINGS and signature(x, f, sh, ib, is_)]
            if ok and flags and not sigs and all(x in FINDINGS for x in flags):
                unexplained.append((i, "routes disagree (b=%s s=%s); the model blames %s but no signature predicate holds" % (ib, is_, flags)))
            if not flags and ok:
                unexplained.append((i, "routes disagree (b=%s s=%s) and the model does not flag it" % (ib, is_)))
        elif flags and ok:
            unexplained.append((i, "model flags %s but the implementation's routes agree" % flags))
            c.flags[i] = []
        sh.queried = True
    c.mismatch = mism
    return stats, unexplained


def spec_violated(rep):
    """route agreement on the last line of the replay"""
    sh = Shadow()
    last = len(rep["ops"]) - 1
    for i, (op, impl) in enumerate(zip(rep["ops"], rep["impl"])):
        f = op.split(" ")
        if f[0] == "case":
            sh = Shadow()
        elif f[0] == "body" and len(f) == 7:
            sh.put(f[1], int(f[2]), int(f[3]), int(f[4]), f[6])
        elif f[0] == "plain" and len(f) == 5:
            sh.put(f[1], int(f[2]), int(f[3]), int(f[4]), None)
        elif f[0] == "del" and len(f) == 2:
            sh.delete(f[1])
        elif f[0] == "q" and len(f) in (9, 10) and i == last:
            r = split_reply(impl)
            if impl.startswith("conc-diff"):
                return "`%s`: concurrent first queries on a not yet built bucket saw a different answer than a lone caller: %s" % (op, impl)
            if r is None:
                return "`%s` answered `%s`" % (op, impl)
            b, s = canon(sh, f[1], r[0]), canon(sh, f[1], r[1])
            if b != s:
                return "`%s`: accelerated route returned [%s], full-scan route returned [%s]" % (op, b, s)
    return None


def drv_args(facts):
    return ["%s=%s" % kv for kv in sorted(facts.items())]


def run(ctx):
    facts, _, _ = K.extract_facts(ctx)
    K.lean_verdict(ctx)
    corrs, stats, unexplained = [], {}, []
    if K.build_hx(ctx) and K.build_drv(ctx):
        args = drv_args(facts)
        c = K.correspondence(ctx, "C08", args)
        if not c.err:
            stats, unexplained = judge(c)
        corrs.append(("C08", args, c))
    else:
        ctx.violation("harness does not build against /repo", {"correspondence": "C08", "log": getattr(ctx, "hx_log", "")[-2000:]},
                      tag="build", found_input=False)
    K.decide_standard(ctx, corrs, FINDINGS)
    K.report_mismatch(ctx, spec_violated)
    c = corrs[0][2] if corrs else K.Corr()
    mism = set(c.mismatch)
    for i, why in unexplained[:1]:
        cs = K.case_of(c, i)
        rep = K.case_replay(c, cs, upto=i)
        rep.update({"correspondence": "C08", "oracle": why})
        ctx.violation("implementation violates the property (route agreement, not explained by any listed finding): " + why, rep, tag="oracle")
    if ctx.thorough:
        ok, out = K.leanchecker(ctx, ["Hv.Props.C08", "Hv.Query.Lemmas", "Hv.Query.Bucket", "Hv.Query.SameKind", "Hv.Query.Routes", "Hv.Query.Filter", "Hv.Query.Value"])
        ctx.cov["leanchecker"] = "ok" if ok else out[-500:]
        if not ok:
            ctx.violation("leanchecker rejected the compiled proofs", {"log": out[-2000:]}, tag="leanchecker", found_input=False)
    samples = []
    for cs in c.cases[6:8]:
        samples.append({"ops": [c.ops[i][:200] for i in cs][:10], "impl": [c.impl[i][:120] for i in cs if i < len(c.impl)][:10]})
    return K.finish(
        ctx, "proof",
        rule=("cases = 8 corpus cases (the proved witnesses, a sound-fragment case with mutation after the bucket was built, two with a "
              "first query held inside GetOrBuildBucket after its snapshot / after BuildEquality while saves, a delete and a "
              "second reader arrive) + random "
              "cases of 5..30 ops (..54 thorough) over 2..8 keys, every third on a persistent swamp that is closed and reloaded "
              "between queries: msgpack bodies (nil/bool/int/uint/float/string/time scalars in every "
              "wire width, boundary values MaxInt64/MinInt64/2^53+-1/MaxUint64/2^63/-0.0/NaN/+-Inf, nested map, scalar array, array of maps; fields sometimes missing), records without a body, deletes, and "
              "queries (key/creation/update/expiration order x asc/desc x From 0..2 x Limit 0..3 x window x MaxResults) whose filter "
              "trees (AND/OR, depth <= 3, EQUAL/IN/range/emptiness legs, plain, [*] and #len paths, labels) are seeded from a live "
              "body; every query runs through the accelerated route and, wrapped as the only sub-group of an OR group, through the "
              "full-scan route; in every second non-paging case a first query is held at hook bucket.snapshot / bucket.built for 1..4 ops "
              "(saves, queries) and then released. A route disagreement is accepted as the recorded scan-equality finding only if "
              "every differing record holds, at the path of an equality-type leg, a number of another kind than the leg compares "
              "with. Non-trivial = case with >= 3 ops; distinct = distinct op texts."),
        samples=samples,
        evaluations=len(c.ops),
        distinct_nontrivial=K.distinct_cases(c),
        extra_cov={"correspondence": {"domain": "C08", "cases": len(c.cases), "op_lines": len(c.ops), "mismatching_lines": len(c.mismatch),
                                      "op_histogram": c.op_hist, "queries": stats,
                                      "lines_flagged_by_model": sum(1 for f in c.flags if f)}},
        trusted=["Lean 4.33.0 kernel", "axioms: propext, Classical.choice, Quot.sound", "extract/c08.go", "harness/c08.go",
                 "ASSUMED: ordered index read correct (C07); floats k/4, integers < 2^53"],
    )
