"""C29 — fast swamp-name discovery agrees with the stored name."""
from . import common as K
from . import storage_common as S

META = {
    "level": "proof",
    "technique": ("Lean 4 theorems over the byte-level model of the name area, FileWriter and ReadSwampName / LoadIndex fallback / "
                  "explorer scanFile (all names, all histories, V3 and legacy V2) + go/ast fact tie + correspondence of the real "
                  "ReadSwampName and explorer listing with the model on files written by the real writer"),
    "text": ("Hv.C29.holds_of_good: for every swamp name the constructor accepts, every later history of writer calls (any entries, any "
             "block size, any lawful codec/checksum) ReadSwampName returns the creating name (name_roundtrip_v3, via the shape invariant "
             "runOps_shape that needs no hypothesis on the data) and the explorer lists the file under exactly that name iff it has three "
             "'/'-separated parts (scan_v3); for every legacy version-2 file whose first entry is the __swamp_meta__ entry, also after "
             "any appending by the current writer, the fallback returns that name (name_roundtrip_v2_fallback). longName_truncates / "
             "not_holds_of_acceptsLongName: a 65536-byte name reads back empty; not_holds_of_noFallback. compaction_keeps_name / "
             "compacted_v3 / compacted_v2: compaction (modelled on the same writer) yields a V3 file answering the same name."),
    "note": ("Trusted: Lean kernel; extract/c29.go; harness/c29.go; os.File as a byte string; snappy/CRC-32 parameters (executable copies "
             "differential-tested). Directory walking (filepath.WalkDir, worker pool) of the explorer is exercised, not modelled: the "
             "model decides per file. Files rewritten by compaction are outside this check (C03)."),
    "design_ref": "§8 C29",
}

FINDINGS = {
    "C29-long-name-truncated": "NewFileWriterWithName accepts a swamp name longer than 65535 bytes; NameLength wraps, ReadSwampName returns \"\" and the explorer skips the file",
    "C29-tui-truncates-large-realm": "the explorer TUI opens a realm with one ListSwamps(Limit 10000) call; the explorer clamps the limit to 1000 and the TUI does not page: swamps beyond the first 1000 of a realm are never shown",
    "C29-no-v2-fallback": "ReadSwampName does not fall back to the metadata entry for version-2 files",
    "C29-name-mismatch": "ReadSwampName returns a name other than the one the file was written under",
}

ENGINE = {"v3", "v3app", "v3open", "v2", "v2app", "v2resv", "v3cmp", "v2cmp", "v3torn"}


def oracle(ops, impl):
    """Spec on implementation replies: engine-written files answer their name; the listing of a
    case is exactly the three-part names of its files."""
    bad = []
    expect = []          # per file of the case, in creation order: its three-part name (hex) or None
    listing_ok = True
    for i, (op, rep) in enumerate(zip(ops, impl)):
        f = op.split(" ")
        if f[0] == "case":
            expect, listing_ok = [], True
        elif f[0] == "wipe":
            expect = []
        elif f[0] == "rmlast":
            expect = expect[:-1]
        elif f[0] == "create":
            if rep == "ok":
                n = S.spec_bytes(f[1])
                expect.append((n.hex() or "-") if n.count(b"/") >= 2 else None)
        elif f[0] == "f":
            want = S.spec_bytes(f[2])
            if f[3] in ENGINE:
                got = rep[5:] if rep.startswith("name ") else rep
                if got != (want.hex() or "-"):
                    bad.append((i, "ReadSwampName of a %s file written under a %d-byte name returned %s" % (f[3], len(want), got[:60]),
                                "C29-long-name-truncated" if len(want) > 65535 else None))
                    listing_ok = False
                    expect.append(None)
                else:
                    expect.append(want.hex() if want.count(b"/") >= 2 else None)
            else:
                # not engine-written: whatever name it answers, it is a file of the directory
                got = rep[5:] if rep.startswith("name ") and not rep.startswith("name err") else ""
                raw = bytes.fromhex(got) if got and got != "-" else b""
                expect.append(got if raw.count(b"/") >= 2 else None)
        elif f[0] == "scan" and listing_ok:
            names = rep.split("names=")[-1].split(" ")[0]
            if names.startswith("digest:"):
                import zlib
                want = ",".join(sorted(set(x for x in expect if x), key=lambda h: bytes.fromhex(h)))
                if names != "digest:%d:%08x" % (len(set(x for x in expect if x)), zlib.crc32(want.encode()) & 0xFFFFFFFF):
                    bad.append((i, "explorer listing of a large directory differs from the files on disk (%s)" % names, None))
                continue
            if " paged=" in rep and (" paged=ok" not in rep or " detail=ok" not in rep):
                bad.append((i, "the paginated / per-swamp queries of the explorer disagree with its own full listing: " + rep.split(" paged=")[1][:60], None))
            got = set() if names == "none" else set(names.split(","))
            want_set = set(x for x in expect if x)
            if got != want_set:
                bad.append((i, "explorer listing differs from the files on disk: missing %s, extra %s" %
                            ([x[:40] for x in sorted(want_set - got)][:2], [x[:40] for x in sorted(got - want_set)][:2]), None))
    return bad


def spec_violated(rep):
    bad = oracle(rep["ops"], rep["impl"])
    return bad[0][1] if bad else None


def run(ctx):
    facts, _, _ = K.extract_facts(ctx)
    K.lean_verdict(ctx)
    corrs = []
    if K.build_hx(ctx) and K.build_drv(ctx):
        args = S.drv_args(facts)
        try:
            c = K.correspondence(ctx, "C29", args, timeout=3000)
        except Exception as e:
            c = K.Corr()
            c.err = "harness did not finish: %r" % (e,)
        corrs.append(("C29", args, c))
    else:
        ctx.violation("harness does not build against the repository", {"correspondence": "C29", "log": getattr(ctx, "hx_log", "")[-2000:]},
                      tag="build", found_input=False)
    K.decide_standard(ctx, corrs, FINDINGS)
    K.report_mismatch(ctx, spec_violated)
    c = corrs[0][2] if corrs else K.Corr()
    known = K.known_ids(ctx.pid)
    hits = {}
    if not c.err:
        for i, what, sig in oracle(c.ops, c.impl):
            hits.setdefault(sig, []).append((i, what))
    for sig, hs in hits.items():
        i, what = hs[0]
        rep = {"ops": [c.ops[i][:300] + " … " + c.ops[i][-80:]], "impl": [c.impl[i][:300]], "correspondence": "C29", "signature": sig,
               "oracle": "python: name reply == name written; listing == three-part names of the case's files"}
        if sig is not None and sig in known:
            if sig not in [k for k, _ in ctx.known_hits]:
                ctx.known_hits.append((sig, FINDINGS.get(sig, sig)))
        else:
            ctx.violation("implementation violates the property: " + what, rep, tag=sig or "impl")
    if ctx.thorough:
        ok, out = K.leanchecker(ctx, ["Hv.Props.C29", "Hv.Storage.NameLemmas", "Hv.Storage.CompactLemmas", "Hv.Storage.Listing"])
        ctx.cov["leanchecker"] = "ok" if ok else out[-500:]
        if not ok:
            ctx.violation("leanchecker rejected the compiled proofs", {"log": out[-2000:]}, tag="leanchecker", found_input=False)
    kinds = {}
    for op in c.ops:
        f = op.split(" ")
        if f[0] == "f":
            kinds[f[3]] = kinds.get(f[3], 0) + 1
    files = [l for l in c.ops if l.startswith("f ")]
    return K.finish(
        ctx, "proof",
        rule=("directories = corpus (names of 65535/65536/65537/70000 bytes, one V3, one legacy V2) + random cases of 1..14 files: V3 fresh / "
              "appended over 1..3 further sessions / snapshot while the writer is open / without a name / rewritten by the real Compactor; legacy V2 synthesised as the old "
              "writer laid it out, appended to by the current writer, with non-zero reserved bytes 44..45, without metadata entry; names: "
              "UTF-8, binary, 0..6 slashes, 1..65535 bytes; each directory is scanned by the real explorer; every `f` line is "
              "non-trivial; distinct = distinct file bytes"),
        samples=[{"op": c.ops[i][:100] + " … " + c.ops[i][-60:], "impl": c.impl[i][:200]} for i in range(1, min(len(c.ops), 30), 4) if i < len(c.impl)],
        evaluations=len(files) + c.op_hist.get("scan", 0) + c.op_hist.get("create", 0), distinct_nontrivial=len(set(l.split(" ")[1] for l in files)),
        extra_cov={"correspondence": {"domain": "C29", "cases": len(c.cases), "op_lines": len(c.ops), "mismatching_lines": len(c.mismatch),
                                      "files_by_kind": kinds, "directories_scanned_by_explorer": c.op_hist.get("scan", 0),
                                      "lines_flagged_by_model": sum(1 for f in c.flags if f),
                                      "oracle_violations_by_signature": {str(k): len(v) for k, v in hits.items()}}},
        trusted=["Lean 4.33.0 kernel", "axioms: propext, Classical.choice, Quot.sound", "extract/c29.go", "harness/c29.go",
                 "explorer directory walk / worker pool: exercised, not modelled", "compaction: C03"],
    )
