"""Shared pieces of the kv checks (C06, C05, C30): driver arguments from facts, the independent
Spec oracle over the implementation's replies, evidence helpers."""
from . import common as K
from . import kvspec


def drv_args(*fact_dicts):
    args = {}
    for d in fact_dicts:
        args.update(d)
    kvspec.EXP_NE0 = args.get("wireExpNe0") == "yes" or args.get("wireGet") == "ne0"
    return ["%s=%s" % kv for kv in sorted(args.items())]


def cases_of(c):
    """[(list of line indices)] per case"""
    return [cs for cs in c.cases if c.ops[cs[0]].startswith("case ")]


def run_oracle(ctx, c, pid, known, exempt_model_marked=False):
    """Independent reference over implementation replies.  Lines the model attributes to a LISTED
    finding are skipped (and make the oracle forget the keys involved).  Returns
    (checked_lines, deviations) and records a violation for the first deviation."""
    checked, devs = 0, []
    raw = []
    if exempt_model_marked:
        try:
            with open(ctx.path(pid + ".model")) as f:
                raw = f.read().split("\n")
        except OSError:
            raw = []
    for cs in cases_of(c):
        ops = [c.ops[i] for i in cs]
        impl = [c.impl[i] if i < len(c.impl) else "<missing>" for i in cs]
        skip = set()
        for j, i in enumerate(cs):
            fl = c.flags[i] if i < len(c.flags) else []
            if fl and all(f in known for f in fl):
                skip.add(j)
            elif exempt_model_marked and i < len(raw) and "\t#D:" in raw[i]:
                skip.add(j)
        bad = kvspec.check_case(ops, impl, skip)
        checked += len(cs) - 1
        for (j, op, exp, got) in bad:
            devs.append({"case": ops[0], "line": j, "op": op, "expected": exp, "got": got,
                         "ops": ops[:j + 1], "impl": impl[:j + 1]})
    if devs:
        d = devs[0]
        ctx.violation("Spec oracle (independent reference over implementation replies): `%s` answered `%s`, documented semantics give `%s`"
                      % (d["op"], d["got"], d["expected"]),
                      {"correspondence": pid, "ops": d["ops"], "impl": d["impl"], "expected": d["expected"],
                       "deviations": len(devs)}, tag="oracle")
    return checked, devs


def spec_violated_factory(known, ctx=None):
    """for report_mismatch: does the implementation's reply at the mismatching line contradict the
    reference?  (rep has ops/impl/model of the case up to the mismatch.)  Lines of that case which the
    model attributes to listed findings are handed to the oracle as accounted for."""
    def spec_violated(rep):
        ops, impl = rep["ops"], rep["impl"]
        skip = set()
        mf = getattr(ctx, "mismatch_first", None) if ctx is not None else None
        if mf is not None:
            _, _, c, i = mf
            cs = K.case_of(c, i)
            for j, li in enumerate(cs):
                if li >= i:
                    break
                fl = c.flags[li] if li < len(c.flags) else []
                if fl and all(f in known for f in fl):
                    skip.add(j)
        bad = kvspec.check_case(ops, impl, skip)
        for (j, op, exp, got) in bad:
            if j == len(ops) - 1:
                return "`%s` answered `%s`, documented semantics give `%s`" % (op, got, exp)
        return None
    return spec_violated


def prefer_decidable_mismatch(ctx, known, decide=None):
    """report_mismatch looks at the FIRST mismatching line only.  When the reference cannot judge that
    one (it does not know enough of the state there), look for a later mismatching line it can judge
    and make that the reported one — a failing input beats `no-failing-input-found`."""
    mf = getattr(ctx, "mismatch_first", None)
    if mf is None:
        return
    domain, drv_args, c, first = mf
    decide = decide or spec_violated_factory(known, ctx)
    seen_cases = set()
    for i in c.mismatch[:400]:
        cs = K.case_of(c, i)
        if cs[0] in seen_cases:
            continue          # only the first mismatch of a case: later lines follow from it
        seen_cases.add(cs[0])
        rep = K.case_replay(c, cs, upto=i)
        ctx.mismatch_first = (domain, drv_args, c, i)
        if decide(rep):
            rep.update({"correspondence": domain, "drv_args": list(drv_args), "mismatches": len(c.mismatch)})
            ctx.pending_mismatch = rep
            return
    ctx.mismatch_first = mf
