"""Shared pieces of the kv checks (C06, C05, C30): driver arguments from facts, the independent
Spec oracle over the implementation's replies, evidence helpers."""
from . import common as K
from . import kvspec


def drv_args(*fact_dicts):
    args = {}
    for d in fact_dicts:
        args.update(d)
    kvspec.EXP_NE0 = args.get("wireExpNe0") == "yes" or args.get("wireGet") == "ne0"
    return ["%s=%s" % kv for kv in sorted(args.items())]


def cases_of(c):
    """[(list of line indices)] per case"""
    return [cs for cs in c.cases if c.ops[cs[0]].startswith("case ")]


def run_oracle(ctx, c, pid, known, exempt_model_marked=False):
    """Independent reference over implementation replies, ALWAYS run (also when implementation and
    model disagree somewhere: then each case is judged up to its first mismatching line).  Lines the
    model attributes to a LISTED finding are skipped (the oracle forgets the keys involved).
    Returns (evaluated_lines, deviations, stats) and records a violation for the first deviation."""
    devs, stats = [], {}
    raw = []
    if exempt_model_marked:
        try:
            with open(ctx.path(pid + ".model")) as f:
                raw = f.read().split("\n")
        except OSError:
            raw = []
    mism = set(c.mismatch)
    for cs in cases_of(c):
        cut = len(cs)
        for j, i in enumerate(cs):
            if i in mism:
                cut = j + 1           # the mismatching line itself is still an implementation reply
                break
        ops = [c.ops[i] for i in cs[:cut]]
        impl = [c.impl[i] if i < len(c.impl) else "<missing>" for i in cs[:cut]]
        skip = set()
        for j, i in enumerate(cs[:cut]):
            if i in mism:
                continue
            fl = c.flags[i] if i < len(c.flags) else []
            if fl and all(f in known for f in fl):
                skip.add(j)
            elif exempt_model_marked and i < len(raw) and "\t#D:" in raw[i]:
                skip.add(j)
        bad = kvspec.check_case(ops, impl, skip, stats)
        for (j, op, exp, got) in bad:
            devs.append({"case": ops[0], "line": j, "op": op, "expected": exp, "got": got,
                         "ops": ops[:j + 1], "impl": impl[:j + 1]})
    if devs:
        d = devs[0]
        ctx.violation("implementation violates the property (independent reference over its replies): `%s` answered `%s`, documented semantics give `%s`"
                      % (d["op"], d["got"], d["expected"]),
                      {"correspondence": pid, "ops": d["ops"], "impl": d["impl"], "expected": d["expected"],
                       "deviations": len(devs)}, tag="impl")
    return stats.get("evaluated", 0), devs, stats


def spec_violated_factory(known, ctx=None):
    """for report_mismatch: does the implementation's reply at the mismatching line contradict the
    reference?  rep has ops/impl/model/flags of the case up to the mismatch; lines the model
    attributes to listed findings are handed to the oracle as accounted for."""
    def spec_violated(rep):
        ops, impl = rep["ops"], rep["impl"]
        flags = rep.get("flags") or []
        skip = {j for j, fl in enumerate(flags[:-1]) if fl and all(f in known for f in fl)}
        bad = kvspec.check_case(ops, impl, skip)
        for (j, op, exp, got) in bad:
            if j == len(ops) - 1:
                return "`%s` answered `%s`, documented semantics give `%s`" % (op, got, exp)
        return None
    return spec_violated


def prefer_decidable_mismatch(ctx, known, decide=None):
    """report_mismatch looks at the FIRST mismatching line only.  When the reference cannot judge that
    one (it does not know enough of the state there), look for a later mismatching line it can judge
    and make that the reported one — a failing input beats `no-failing-input-found`."""
    mf = getattr(ctx, "mismatch_first", None)
    if mf is None:
        return
    domain, drv_args, c, first = mf
    decide = decide or spec_violated_factory(known, ctx)
    seen_cases = set()
    for i in c.mismatch[:400]:
        cs = K.case_of(c, i)
        if cs[0] in seen_cases:
            continue          # only the first mismatch of a case: later lines follow from it
        seen_cases.add(cs[0])
        rep = K.case_replay(c, cs, upto=i)
        ctx.mismatch_first = (domain, drv_args, c, i)
        if decide(rep):
            rep.update({"correspondence": domain, "drv_args": list(drv_args), "mismatches": len(c.mismatch)})
            ctx.pending_mismatch = rep
            return
    ctx.mismatch_first = mf
