"""Shared pieces of the kv checks (C06, C05, C30): driver arguments from facts, the independent
Spec oracle over the implementation's replies, evidence helpers."""
from . import common as K
from . import kvspec


def drv_args(*fact_dicts):
    args = {}
    for d in fact_dicts:
        args.update(d)
    return ["%s=%s" % kv for kv in sorted(args.items())]


def cases_of(c):
    """[(list of line indices)] per case"""
    return [cs for cs in c.cases if c.ops[cs[0]].startswith("case ")]


def run_oracle(ctx, c, pid, known, exempt_model_marked=False):
    """Independent reference over implementation replies.  Lines the model attributes to a LISTED
    finding are skipped (and make the oracle forget the keys involved).  Returns
    (checked_lines, deviations) and records a violation for the first deviation."""
    checked, devs = 0, []
    raw = []
    if exempt_model_marked:
        try:
            with open(ctx.path(pid + ".model")) as f:
                raw = f.read().split("\n")
        except OSError:
            raw = []
    for cs in cases_of(c):
        ops = [c.ops[i] for i in cs]
        impl = [c.impl[i] if i < len(c.impl) else "<missing>" for i in cs]
        skip = set()
        for j, i in enumerate(cs):
            fl = c.flags[i] if i < len(c.flags) else []
            if fl and all(f in known for f in fl):
                skip.add(j)
            elif exempt_model_marked and i < len(raw) and "\t#D:" in raw[i]:
                skip.add(j)
        bad = kvspec.check_case(ops, impl, skip)
        checked += len(cs) - 1
        for (j, op, exp, got) in bad:
            devs.append({"case": ops[0], "line": j, "op": op, "expected": exp, "got": got,
                         "ops": ops[:j + 1], "impl": impl[:j + 1]})
    if devs:
        d = devs[0]
        ctx.violation("Spec oracle (independent reference over implementation replies): `%s` answered `%s`, documented semantics give `%s`"
                      % (d["op"], d["got"], d["expected"]),
                      {"correspondence": pid, "ops": d["ops"], "impl": d["impl"], "expected": d["expected"],
                       "deviations": len(devs)}, tag="oracle")
    return checked, devs


def spec_violated_factory(known):
    """for report_mismatch: does the implementation's reply at the mismatching line (or before)
    contradict the reference?  (rep has ops/impl/model up to the mismatch)"""
    def spec_violated(rep):
        ops, impl, model = rep["ops"], rep["impl"], rep["model"]
        skip = set()
        # lines on which implementation and model agree and which the model attributed to a finding
        # cannot be told from the replay dict (flags are stripped); be conservative: only the last line
        bad = kvspec.check_case(ops, impl, skip)
        for (j, op, exp, got) in bad:
            if j == len(ops) - 1:
                return "`%s` answered `%s`, documented semantics give `%s`" % (op, got, exp)
        return None
    return spec_violated
