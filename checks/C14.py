"""C14 — business lock: exclusive, FIFO, TTL-released, deadlock-free."""
from . import common as K
from . import proto_util as P

META = {
    "level": "proof",
    "technique": "Lean 4 inductive-invariant proof over the per-key lock LTS (all schedules) + go/ast fact tie + forced-schedule "
                 "correspondence on the real lock package and gateway handlers through hook points",
    "text": ("Lean theorem Hv.C14.holds_good: for every schedule of enqueue/acquire/cancel/unlock/ttl of any length, granted = {head} "
             "(mutual exclusion and no blocked waiter), grants in arrival order with nobody skipped unless cancelled while waiting, "
             "stale/foreign unlock is an error that changes nothing, head removal hands over to exactly the next caller, no ready channel "
             "closed twice, gateway TTL always positive; waiter_variant / granted_when_ahead_gone (liveness as a safety bound: a removal ahead of a waiter moves it exactly one place forward, nothing ever overtakes it, and once the n callers ahead have left it is the granted head; each holder leaves at the latest when its TTL watchdog fires — timers are trusted), waiter_id_is_a_capability (what the code would do with a waiter's id, and why the property does not quantify over it); closed counterexamples refutes_wakeLast / refutes_wakeNone / refutes_doubleClose / "
             "refutes_ttlFloor for mutated shapes; classify_sound ties the decision to 15 facts (incl. the gateway TTL floor AND upper clamp — ttlPositive is stated over the int64-wrapped time.Duration, refutes_ttlOverflow —, the id source: uuid vs per-queue counter; foreign_unlock_noop is proved over the multi-key map model for globally unique ids, refutes_ticketIds otherwise) extracted from lock.go and gateway.go; the "
             "model is run against the real lock under forced schedules (hooks lock.enq/rm/select/acq/cancel/ttl), including the "
             "cancel-vs-grant race of Lock's select and TTL expiry through a hook-stopped watchdog."),
    "note": ("Trusted: Lean kernel; extract/c14.go; harness/c14.go + app/verifhook; Go channel/select/sync.Mutex semantics (each q.mu "
             "critical section is one atomic step; select with two ready cases may take either — the observed branch is passed to the "
             "model, which validates that it is enabled); caller IDs are UUIDs, modelled as distinct increasing naturals; an id is only "
             "known to the caller whose Lock returned it."),
    "design_ref": "§8 C14, Appendix E (business lock)",
}

FINDINGS = {
    "C14-wakes-last-waiter": "remove wakes the last instead of the next waiter: a caller that is not the head is granted",
    "C14-no-wake": "remove does not wake the next waiter when the head leaves: waiters stay blocked with no holder",
    "C14-ready-closed-twice": "remove closes the head's ready channel again when a waiter leaves (panic: close of closed channel)",
    "C14-ttl-floor": "the gateway can hand the locker a TTL <= 0",
    "C14-ttl-overflow": "gateway Lock: time.Duration(TTL)*time.Millisecond wraps negative for TTL > 9223372036854 ms (no upper clamp): a lock requested 'forever' is released by its watchdog at once",
    "C14-foreign-id-unlock": "lock ids are not globally unique: an Unlock with an id issued for another key releases / evicts a caller of this key",
}


def annotate(op, reply):
    if op == "gwrace" and reply.startswith("gwrace "):
        w = reply.split()
        if len(w) > 1 and w[1] in ("acq", "cancel"):
            return op + " " + w[1]
    if op.startswith("go ") and reply.startswith("go "):
        w = reply.split()
        if len(w) > 2 and w[2] in ("acq", "cancel"):
            return op + " " + w[2]
    return op


def spec_violated(rep):
    """Spec oracle on implementation replies only."""
    if rep.get("correspondence") == "C14s":
        # the log itself is the implementation's behaviour: grants per queue must follow enqueue order,
        # and a `hang` line means a caller was never served
        heads = {}
        for op in rep["ops"]:
            w = op.split()
            if w and w[0] == "hang":
                return "a Lock call never returned under concurrent load (log ends with `hang`)"
            if len(w) == 3 and w[0] == "acq":
                k, n = w[1], int(w[2])
                if n < heads.get(k, 0):
                    return "queue %s granted caller %d after caller %d (not arrival order)" % (k, n, heads[k])
                heads[k] = n
        return None
    key_of, last = {}, {}
    for op, line in zip(rep["ops"], rep["impl"]):
        if op.startswith("case "):
            key_of, last = {}, {}
        for bad in ("panic", "unexpected-", "stuck=", "timeout"):
            if bad in line and not (bad == "timeout" and line.startswith("gwttl ")):
                return "`%s` → `%s`: the real lock %s" % (op, line, "panicked" if bad == "panic" else "left a caller blocked / did not react")
        w = line.split()
        if op.startswith("gwttl ") and w and w[0] == "gwttl":
            for item, asked in zip(w[1:], op.split()[1:]):
                if item.endswith("lock-err-residual"):
                    return "gateway Lock(TTL=%s) answered with an error but its caller is still queued on the key (the key can never be locked again)" % asked
                if item.endswith(":timeout=0") and int(asked) > 1000:
                    return ("gateway Lock(TTL=%s ms) was released by its watchdog at once: time.Duration(TTL)*time.Millisecond "
                            "overflowed int64 nanoseconds" % asked)
                if item.endswith(":timeout=0"):
                    return "gateway Lock(TTL=%s ms) was released at once (TTL floor missing)" % asked
        if w and w[0] == "gwrace" and len(w) == 4:
            if w[3] != "left=0":
                return "the Lock RPC whose caller gave up while it was being granted left a caller on the key (%s)" % line
            if (w[1], w[2]) not in (("acq", "ok"), ("cancel", "err")):
                return "the Lock RPC took the `%s` branch but answered `%s` (%s)" % (w[1], w[2], line)
        if op.startswith("unlockx ") and len(w) > 3 and w[0] == "unlockx" and w[3].startswith("ok"):
            return ("unlock with a foreign ID released another caller's lock: `%s` (an id issued on another key) was accepted on key %s (%s)"
                    % (op, w[2], line))
        if op.startswith("lock ") and len(w) > 1 and w[0] == "enq":
            key_of[w[1]] = op.split()[1]
        L = P.lists_of(line)
        if "q" not in L:
            continue
        q, g, h = L["q"], L.get("g", []), L.get("h", [])
        if L.get("e"):
            return ("after `%s` caller(s) %s are still in the queue %s although their Lock call returned an error: "
                    "nobody will ever unlock them (no watchdog, no id handed out) — the key stays locked" % (op, L["e"], q))
        if g != q[:1]:
            return "after `%s` the granted callers are %s but the queue is %s (granted must be exactly the head)" % (op, g, q)
        if len(h) > 1 or (h and h != q[:1]):
            return "after `%s` callers %s believe they hold the key (queue %s)" % (op, h, q)
        if g and g[0].isdigit():
            k = key_of.get(g[0])
            if k in last and int(g[0]) < last[k]:
                return "grant order is not arrival order on key %s: caller %s granted after caller %d" % (k, g[0], last[k])
            last[k] = int(g[0])
    return None


def run(ctx):
    facts, _, _ = K.extract_facts(ctx)
    K.lean_verdict(ctx)
    corrs = []
    if K.build_hx(ctx) and K.build_drv(ctx):
        args = ["%s=%s" % (k, facts.get(k, "unknown")) for k in ("wake", "wakeOnlyIfHead", "ttlThresh", "ttlFloor", "ttlCap", "gwWithoutCancel", "idSource")]
        c = P.correspondence_observed(ctx, "C14", args, annotate)
        corrs.append(("C14", args, c))
        # genuinely concurrent run of the real lock; its hook log (written under each queue's own mutex)
        # must be a trace of the model
        targs = args + ["mode=trace"]
        ct = K.correspondence(ctx, "C14s", targs, drv_domain="C14")
        corrs.append(("C14s", targs, ct))
        ctx.cov["trace_inclusion"] = {"domain": "C14s", "log_lines": len(ct.ops), "rounds": len(ct.cases),
                                      "lines_rejected_by_model": len(ct.mismatch), "event_histogram": ct.op_hist}
    else:
        ctx.violation("harness does not build against the repository", {"correspondence": "C14", "log": getattr(ctx, "hx_log", "")[-2000:]},
                      tag="build", found_input=False)
    K.decide_standard(ctx, corrs, FINDINGS)
    K.report_mismatch(ctx, spec_violated)
    # Spec oracle over the whole run, on the implementation's replies only
    if not getattr(ctx, "pending_mismatch", None):
        for name, dargs, c in corrs:
            if c.err:
                continue
            for cs in c.cases:
                rep = K.case_replay(c, cs)
                rep["correspondence"], rep["drv_args"] = name, dargs
                why = spec_violated(rep)
                if why:
                    ctx.violation("implementation violates the property: " + why, rep, tag="impl")
                    break
    if ctx.thorough:
        ok, out = K.leanchecker(ctx, ["Hv.Props.C14", "Hv.Conc.LockLemmas", "Hv.Conc.Lock"])
        ctx.cov["leanchecker"] = "ok" if ok else out[-500:]
        if not ok:
            ctx.violation("leanchecker rejected the compiled proofs", {"log": out[-2000:]}, tag="leanchecker", found_input=False)
    c = corrs[0][2] if corrs else K.Corr()
    races = [l.split()[2] for o, l in zip(c.ops, c.impl) if o.startswith("go ") and len(o.split()) == 3]
    return K.finish(
        ctx, "proof",
        rule=("schedules = 8 corpus cases (FIFO chain with cancelled waiter and stale/foreign unlocks, TTL expiry, 4x cancel-vs-grant race, "
              "cancelled head, gateway TTL floor (measured in whole seconds, lag-tolerant) and WithoutCancel) followed by random sequences of lock K long|short [hold] / go S / cancel S / "
              "unlock S / unlockraw / expire S (4..25 ops quick, ..53 thorough) on keys a,b; non-trivial = at least 3 ops; distinct = distinct op "
              "texts; each op's reply (event, queue, granted set, believing holders read through a verif-only accessor) is compared between "
              "the real lock and the Lean model"),
        samples=P.std_samples(c),
        evaluations=len(c.ops),
        distinct_nontrivial=K.distinct_cases(c),
        extra_cov={"correspondence": {"domain": "C14", "cases": len(c.cases), "op_lines": len(c.ops), "mismatching_lines": len(c.mismatch),
                                      "op_histogram": c.op_hist, "reply_histogram": c.reply_hist,
                                      "go_branch_observed": {k: races.count(k) for k in sorted(set(races))},
                                      "lines_flagged_by_model": sum(1 for f in c.flags if f)}},
        trusted=["Lean 4.33.0 kernel", "axioms: propext, Classical.choice, Quot.sound", "extract/c14.go", "harness/c14.go + app/verifhook",
                 "Go channel/select/sync.Mutex semantics (q.mu critical sections atomic)", "UUID caller ids are distinct"],
    )
