"""C20 — swamp addressing is deterministic, in range and SDK/server-consistent."""
import os

from . import common as K
from . import miscutil as U

META = {
    "level": "proof",
    "technique": "Lean 4 theorems over every 64-bit hash value, island count, depth and folders-per-level (hash function abstract) + "
                 "go/ast fact tie over both name packages + differential run of both Go packages incl. crafted short-hash names",
    "text": ("Lean theorems Hv.C20.island_range / island_range_server (1 <= island <= N), island_sdk_eq_server (N <= 65535), "
             "route_partition / every_name_routed (when the configured server ranges partition 1..N the client's table routes every island, "
             "hence every name, to exactly one configured server), "
             "path_no_panic_iff (the level loop does not panic iff depth = 0 or (depth-1)*charsPerLevel <= len of the unpadded %x "
             "rendering), path_no_panic_default (the shipped depth <= 1 never panics, for every hash value), location_inj (equal "
             "locations imply equal hash values: injective modulo hash collisions), distinct_names_distinct_paths (separator-free "
             "triples have distinct canonical paths), holds_repaired (full statement once start is clamped and '/' rejected); closed "
             "witnesses deep_layout_panics, short_hash_witness, canon_collision; classify_sound ties the decision to the facts. "
             "End to end (Hv/Misc/Stack.lean, a model of what the server does: folder = f(name, request.IslandID), open swamps keyed by name): "
             "sdk_requests_one_folder (requests of SDK clients sharing N — each RPC carries GetIslandID(N) — keep every name under its "
             "hash-derived island only), checked_requests_one_folder (a server that validated the island would do so for ANY requests), "
             "unchecked_two_swamps / same_name_two_islands (the server as it is does not)."),
    "note": ("Trusted: Lean kernel (propext, Classical.choice, Quot.sound); extract/c20.go; harness/c20.go; the Lean xxhash64 is used only "
             "by the driver and is differential-tested against cespare/xxhash on every run (no theorem depends on it). Injectivity of "
             "locations is modulo collisions of the 64-bit hash (pigeonhole makes the literal statement false for any hash). Routing: all "
             "configured servers are assumed reachable; the real client is exercised over loopback TLS stub servers. Per-object caches: idempotent for a fixed N; a different N on the same "
             "name object returns the cached island (finding C20-island-cache-stale). N = 0 is excluded from every claim: both packages "
             "panic with an integer divide by zero (theorem island_zero_panics, confirmed by op `n ... 0 ...`). "
             "Glue: the facts rpcIslandFromName (all 60 IslandID literals of the SDK), serverPathPerRequest (hydra.go), gatewayThreeParts and "
             "serverChecksIsland are structural (anything unrecognised = undetermined); ops `srv` (raw requests through the real gateway, "
             "folders listed on disk) and `wire` (all 60 name-carrying SDK methods called through reflection against a recording gRPC server) "
             "compare the running code with the model. GetFolderNumber (srvIsland) is dead code on the server: its agreement with the SDK is "
             "proved and tested but nothing depends on it."),
    "design_ref": "§8 C20",
}

FINDINGS = {
    "C20-slice-out-of-range": "generateHashedDirectoryPath clamps only `end`: when (depth-1)*charsPerLevel exceeds the length of the "
                              "unpadded %x hash the slice hashHex[start:end] panics (e.g. depth 6 with 70000 folders per level: [20:16]; "
                              "or any depth >= 2 for a name whose hash renders short)",
    "C20-separator-collision": "name parts may contain '/' in both name packages: (\"a/b\",\"c\",\"d\") and (\"a\",\"b/c\",\"d\") have the same canonical path and "
                               "the same location (no longer reachable through the gateway, which now refuses names without exactly three non-empty parts)",
    "C20-routing-unvalidated": "the SDK client accepts any server ranges: an island of 1..allIslands that no range covers has no route "
                               "(GetServiceClient returns nil), an island covered twice silently goes to the later entry",
    "C20-unrouted-island-panics": "an SDK call for a name whose island has no route dereferences the nil client returned by GetServiceClient "
                                  "and panics (nil pointer) instead of returning an error",
    "C20-path-cache-stale": "GetFullHashPath memoises the first path on the name object and returns it for ANY later root / island / depth / "
                            "folders-per-level: asked for island 1 and then island 2 it still answers /r/1/…",
    "C20-island-cache-stale": "GetIslandID / GetFolderNumber memoise the first island on the name object and return it for ANY later island "
                              "count: users/profiles/alice answers 956 for N=1000 and still 956 when asked for N=5",
    "C20-island-unvalidated": "the server derives nothing from the name: the folder is GetFullHashPath(root, request.IslandID, …) and no handler compares "
                              "request.IslandID with the name (GetFolderNumber has no caller under app/): the same name written with IslandID 956 "
                              "and, once the swamp has closed, with IslandID 7 is two swamps with separate data (documented in the .proto: "
                              "\"the server simply accepts the IslandID\")",
    "C20-island-off-by-one": "island number is 0-based, out of 1..N, or differs between SDK and server",
    "C20-default-config-panics": "the shipped depth / folders-per-level lets a crafted swamp name panic the path computation",
}


def _kv(line):
    return dict(p.split("=", 1) for p in line.split(" ") if "=" in p)


def oracle(rep):
    """Spec oracle on the implementation's replies only."""
    for op, line in zip(rep["ops"], rep["impl"]):
        f = op.split(" ")
        if line.startswith("timeout"):
            continue   # the rig did not answer in time (load): common.py re-runs such a case alone with a larger budget
        if f[0] == "n":
            kv = _kv(line)
            N, depth = int(f[4]), int(f[5])
            if N >= 1:
                if not kv.get("sdk", "").isdigit() or not (1 <= int(kv["sdk"]) <= N):
                    return ("C20-island-off-by-one", "SDK island %s for N=%d (`%s`)" % (kv.get("sdk"), N, op))
                if kv.get("srv") != "na" and kv.get("srv") != kv.get("sdk"):
                    return ("C20-island-off-by-one", "SDK island %s but server island %s for N=%d (`%s`)" % (kv.get("sdk"), kv.get("srv"), N, op))
            if depth >= 0 and kv.get("path") == "panic":
                return ("C20-slice-out-of-range", "GetFullHashPath panicked for depth=%d foldersPerLevel=%s (`%s`)" % (depth, f[6], op))
            if kv.get("again") != "same":
                return (None, "a second call on the same name object returned something else (`%s`)" % op)
        elif f[0] == "n2":
            kv = _kv(line)
            for side in ("sdk", "srv"):
                got, fresh = kv.get(side, ",!").split(",")[1].split("!")
                if got != fresh:
                    return ("C20-island-cache-stale", "%s: second call on the same name object for N=%s answers %s, a fresh object answers %s (`%s`)"
                            % (side, f[5], got, fresh, op))
        elif f[0] == "path2":
            got, fresh = line.split(" p2=")[1].split("!")
            if got != fresh:
                return ("C20-path-cache-stale", "second GetFullHashPath on the same name object answers %s, a fresh object answers %s (`%s`)" % (got, fresh, op))
        elif f[0] == "chain":
            if not line.endswith("fresh=true"):
                return (None, "a name built step by step answers differently from a freshly built one (`%s` -> %s)" % (op, line))
        elif f[0] == "routes":
            N = int(f[1])
            rs = [] if f[2] == "-" else [tuple(int(x) for x in r.split("-")) for r in f[2].split(",")]
            cover = {i: [j for j, (a, b) in enumerate(rs) if a <= i <= b] for i in range(1, N + 1)}
            call = line.split(" call=")[1] if " call=" in line else None
            line = line.split(" call=")[0]
            if call == "panic":
                return ("C20-unrouted-island-panics", "an SDK call for an island without a route panics (`%s`)" % op)
            got = dict(c.split(":") for c in line.split(",")) if ":" in line else {}
            if all(len(v) == 1 for v in cover.values()):
                want = {str(i): str(v[0]) for i, v in cover.items()}
                if got != want:
                    return (None, "ranges %s partition 1..%d but the client routes %s" % (f[2], N, line))
            elif line != "err":
                bad = [i for i, v in cover.items() if len(v) != 1][0]
                return ("C20-routing-unvalidated", "client accepted ranges %s for %d islands: island %d is covered by %d entries and routed to %s"
                        % (f[2], N, bad, len(cover[bad]), got.get(str(bad))))
        elif f[0] == "srv":
            if line.startswith("err rig"):
                continue
            kv = _kv(line)
            i1, i2 = int(f[4]), int(f[5])
            isl = lambda p: int(p.split("/")[2])
            tail = lambda p: p.split("/", 3)[3]
            p1, p2, p3 = ([] if kv.get(k, "-") == "-" else kv[k].split(",") for k in ("p1", "p2", "p3"))
            if kv.get("set1") != "ok" or len(p1) != 1 or isl(p1[0]) != i1:
                return (None, "a write with IslandID %d did not create exactly one swamp folder under island %d (`%s` -> %s)" % (i1, i1, op, line))
            if kv.get("ex2") != str(i1 == i2).lower():
                return (None, "IsSwampExist with IslandID %d answers %s while the only folder of the name is under island %d (`%s` -> %s)"
                        % (i2, kv.get("ex2"), i1, op, line))
            if kv.get("four") != "refused" or p3 != p2:
                return (None, "a four-part swamp name was not refused by the gateway (`%s` -> %s)" % (op, line))
            if kv.get("ex3") != "false":
                return (None, "IsSwampExist under a third island answers %s (`%s` -> %s)" % (kv.get("ex3"), op, line))
            if kv.get("set2") == "ok":
                if sorted(isl(p) for p in p2) != sorted({i1, i2}) or len({tail(p) for p in p2}) != 1:
                    return (None, "after writes with IslandID %d and %d the folders are %s (`%s`)" % (i1, i2, kv.get("p2"), op))
                if i1 != i2:
                    return ("C20-island-unvalidated", "one name written with IslandID %d and with IslandID %d: two swamp folders %s (`%s`)"
                            % (i1, i2, kv.get("p2"), op))
        elif f[0] == "wire":
            kv = _kv(line)
            N = int(f[4])
            if kv.get("reached") != "ok":
                return (None, "only %s SDK methods got a request onto the wire: the wire check is not evidence (`%s`)" % (kv.get("reached"), op))
            if not kv.get("islands", "").isdigit() or not (1 <= int(kv["islands"]) <= N):
                return (None, "the SDK's RPCs carry the IslandIDs {%s} for ONE name and %d islands (`%s`)" % (kv.get("islands"), N, op))
        elif f[0] == "pair":
            unhex = lambda h: b"" if h == "-" else bytes.fromhex(h)
            if f[1:4] != f[4:7] and line.endswith(" same") and b"/".join(map(unhex, f[1:4])) != b"/".join(map(unhex, f[4:7])):
                return (None, "two names with DIFFERENT canonical paths resolve to the same location (`%s` -> %s)" % (op, line))
            if f[1:4] != f[4:7] and line.endswith(" same"):
                return ("C20-separator-collision", "two different triples resolve to the same location (`%s` -> %s)" % (op, line))
    return None


def spec_violated(rep):
    # ops of this domain are independent: judge the op at which model and implementation part ways
    r = oracle({"ops": rep["ops"][-1:], "impl": rep["impl"][-1:]})
    return r[1] if r else None


def run(ctx):
    facts, _, _ = U.extract_facts(ctx)
    K.lean_verdict(ctx)
    os.environ["C20_DEFAULT"] = "%s,%s" % (facts.get("defDepth", "1"), facts.get("defPer", "1000"))
    corrs = U.run_corr(ctx, "C20", facts)
    K.decide_standard(ctx, corrs, FINDINGS)
    K.report_mismatch(ctx, spec_violated)
    c = corrs[0][2] if corrs else K.Corr()
    hits = 0
    if corrs:
        # one op per "case" for the oracle: ops are independent
        for i, (op, line) in enumerate(zip(c.ops, c.impl)):
            r = oracle({"ops": [op], "impl": [line]})
            if r:
                hits += 1
                fid, text = r
                if fid and (fid in getattr(ctx, "confirmed", {}) or fid in K.known_ids(ctx.pid)):
                    continue   # a recorded finding (reported by decide_standard when the model predicts it)
                ctx.violation("implementation violates the property: " + text,
                              {"correspondence": "C20", "drv_args": corrs[0][1], "ops": [op], "impl": [line],
                               "model": [c.model[i] if i < len(c.model) else "<missing>"]}, tag=fid or "impl")
                break
    U.leancheck(ctx, ["Hv.Props.C20", "Hv.Misc.Stack", "Hv.Misc.NameLemmas", "Hv.Misc.Name", "Hv.Misc.NameBase"])
    panics = sum(1 for l in c.impl if "path=panic" in l)
    short = sum(1 for l in c.impl if l.startswith("sdk=") and "path=/r/" in l and len(l.split("path=")[1].split(" ")[0].rsplit("/", 1)[1]) < 16)
    return K.finish(
        ctx, "proof",
        rule=("ops = corpus (depth 6 x 70000, separator collision, Load with 0..4 parts, N=0) + 96 ops on names crafted by inverting "
              "xxhash64 so that the hash has 1..8 hex digits + random ops: n (random/adversarial byte triples incl. empty, '/', '*', "
              "invalid UTF-8, 31/32/33/64/97-byte parts; N from boundary table or random; depth -1..33; folders-per-level from a "
              "boundary table incl. negatives), n2 (cache), load, pair (separator moved / part dropped / unrelated); every op is "
              "non-trivial; distinct = distinct op lines; both Go packages' replies compared with the Lean model line by line"),
        samples=[{"op": c.ops[i][:200], "impl": c.impl[i][:200]} for i in range(1, min(len(c.ops), 6))],
        evaluations=len(c.ops), distinct_nontrivial=max(len(set(c.ops)) - len(c.cases), 0),
        extra_cov={"correspondence": {"domain": "C20", "op_lines": len(c.ops), "mismatching_lines": len(c.mismatch),
                                      "op_histogram": c.op_hist, "path_panics": panics, "paths_with_short_hash": short,
                                      "oracle_hits": hits, "lines_flagged_by_model": sum(1 for f in c.flags if f)}},
        trusted=["Lean 4.33.0 kernel", "axioms: propext, Classical.choice, Quot.sound", "extract/c20.go", "harness/c20.go",
                 "Lean xxhash64: executable side only, differential-tested each run"],
    )
