"""C18 — at most one live in-memory instance per swamp."""
from . import common as K
from . import proto_util as P

META = {
    "level": "proof",
    "technique": "Lean 4 inductive-invariant proof over the summon wait-slot LTS for reference-counted slots, closed counterexample for the "
                 "current bookkeeping, go/ast fact tie, forced schedules of real concurrent SummonSwamp calls through hook points with a "
                 "live-instance counter",
    "text": ("Lean theorems Hv.C18.summon_mutex (when every entrant counts itself atomically with the lookup and the decrement deletes at "
             "zero atomically, no schedule of any number of summoners, give-ups, cancelled contexts and close callbacks has two live "
             "instances; the mapped instance is the live one; at most one summoner is inside the critical section), refutes_current / "
             "witness_two_live / refutes_staleCallback (closed witnesses for waiter-only counting and for the by-name close callback: the owner's decrement drops the slot under a waiter, a third "
             "summoner gets a fresh slot, two creations); classify_sound ties the decision to 7 facts (with recognisers for the counted lookup, the atomic release and the comparing callback) from hydra.go; the model is run "
             "against the real hydra: concurrent SummonSwamp goroutines stopped at the summon hooks, live instances counted by hooks in "
             "swamp.New / sendClosedEvent."),
    "note": ("Trusted: Lean kernel; extract/c18.go; harness/c18.go + rig + app/verifhook + hydra.Verif* accessors; sync.Map operations are "
             "atomic; the wait loop and the ready flip run under the slot's mutex (no lost wake-up there: check and Wait are under the lock "
             "the broadcaster holds); an instance's close callback may run again after it is gone (Destroy after Close — modelled as staleCallback); a closing-but-still-mapped instance (the 30 s wait) is "
             "abstracted to 'the summoner stays inside'; the correspondence keeps at most one waiter per slot so that wake-ups are not a race."),
    "design_ref": "§8 C18, Appendix E (summon)",
}

FINDINGS = {
    "C18-hands-out-closed-instance": "SummonSwamp's deferred exit does not re-check the instance: one that its idle listener closed while the summoner "
                                     "was leaving the wait slot is handed out, and what the caller writes into it is acknowledged and never flushed",
    "C18-stale-callback-unmaps-live-instance": "the close callback is swamps.Delete(name): a second callback of an already closed instance "
                                               "(Destroy() on a stale handle after Close()) removes the map entry of the live successor; the "
                                               "next summoner constructs another instance next to it",
    "C18-slot-dropped-while-in-use": "SummonSwamp deletes the wait slot while a waiter still uses it (only waiters are counted, everybody "
                                     "decrements): two summoners end up inside the critical section on different slots and both create the swamp",
}


def annotate(op, reply):
    """which of several woken waiters enters after a Broadcast is the Go runtime's choice: copy the observation into the op"""
    if op.startswith("go ") and len(op.split()) == 2:
        for x in reply.split():
            if x.startswith("woke=") and x[5:].isdigit():
                return op + " " + x[5:]
    return op


def spec_trace(rep):
    """C18s: the log is the implementation's behaviour"""
    inside, creating, live = set(), set(), set()
    for op in rep["ops"]:
        w = op.split()
        if not w:
            continue
        if w[0] == "hang":
            return "a SummonSwamp call never returned under concurrent load (log ends with `hang`)"
        if w[0] == "ready":
            if inside:
                return "`%s`: call %s enters the summon body while call(s) %s are inside it (two wait slots for one name)" % (op, w[1], sorted(inside))
            inside.add(w[1])
        elif w[0] == "unready":
            inside.discard(w[1])
        elif w[0] == "create":
            if live or creating:
                return ("`%s`: call %s constructs an instance of the swamp while instance(s) %s are alive (stored and not yet closed): "
                        "two instances with open files on one swamp" % (op, w[1], sorted(live) or "under construction"))
            creating.add(w[1])
        elif w[0] == "stored" and len(w) == 3:
            creating.discard(w[1])
            live.add(w[2])
        elif w[0] == "callback" and len(w) == 2:
            live.discard(w[1])
    return None


def spec_violated(rep):
    if rep.get("correspondence") == "C18s":
        return spec_trace(rep)
    for op, line in zip(rep["ops"], rep["impl"]):
        kv = dict(x.split("=", 1) for x in line.split() if "=" in x and not x.startswith("slots="))
        try:
            if int(kv.get("live", "0")) > 1:
                return "after `%s` %s instances of the swamp are alive at once (%s)" % (op, kv["live"], line)
        except ValueError:
            pass
        if "handed-closed" in line:
            return "`%s`: SummonSwamp handed out an instance that is closing (what the caller writes into it is never flushed) (%s)" % (op, line)
        for bad in ("unexpected-", "-timeout"):
            if bad in line:
                return "`%s` → `%s`" % (op, line)
    return None


def run(ctx):
    facts, _, _ = K.extract_facts(ctx)
    K.lean_verdict(ctx)
    corrs = []
    if K.build_hx(ctx) and K.build_drv(ctx):
        rc = "yes" if (facts.get("everyEntrantCounts") == "yes" and facts.get("decDeleteAtomic") == "yes") else "no"
        args = ["refCounted=" + rc, "callbackCompares=" + facts.get("callbackCompares", "unknown"),
                "exitRechecksClosing=" + facts.get("exitRechecksClosing", "unknown")]
        c = P.correspondence_observed(ctx, "C18", args, annotate)
        corrs.append(("C18", args, c))
        # genuinely concurrent summoners, closers and stale handles; the hook log must be a trace of the model
        targs = args + ["mode=trace"]
        ct = K.correspondence(ctx, "C18s", targs, drv_domain="C18")
        corrs.append(("C18s", targs, ct))
        ctx.cov["trace_inclusion"] = {"domain": "C18s", "log_lines": len(ct.ops), "rounds": len(ct.cases),
                                      "lines_rejected_by_model": len(ct.mismatch), "event_histogram": ct.op_hist}
    else:
        ctx.violation("harness does not build against the repository", {"correspondence": "C18", "log": getattr(ctx, "hx_log", "")[-2000:]},
                      tag="build", found_input=False)
    K.decide_standard(ctx, corrs, FINDINGS)
    K.report_mismatch(ctx, spec_violated)
    # Spec oracle over the whole run (implementation replies only): two live instances anywhere the
    # model did not predict them (i.e. not the listed finding) is a violation of its own
    for name, dargs, c in corrs:
        if c.err:
            continue
        done = False
        if name == "C18s":
            for cs in c.cases:
                rep = K.case_replay(c, cs)
                rep["correspondence"], rep["drv_args"] = name, dargs
                why = spec_trace(rep)
                if why and not any(rep["flags"]):
                    ctx.violation("implementation violates the property: " + why, rep, tag="impl")
                    break
            continue
        for cs in c.cases:
            for i in cs:
                if i >= len(c.impl):
                    continue
                why = spec_violated({"ops": [c.ops[i]], "impl": [c.impl[i]]})
                if why and not (i < len(c.flags) and c.flags[i]):
                    ctx.violation("implementation violates the property: " + why, K.case_replay(c, cs, upto=i), tag="impl")
                    done = True
                    break
            if done:
                break
    if ctx.thorough:
        ok, out = K.leanchecker(ctx, ["Hv.Props.C18", "Hv.Conc.SummonLemmas", "Hv.Conc.Summon"])
        ctx.cov["leanchecker"] = "ok" if ok else out[-500:]
        if not ok:
            ctx.violation("leanchecker rejected the compiled proofs", {"log": out[-2000:]}, tag="leanchecker", found_input=False)
    c = corrs[0][2] if corrs else K.Corr()
    maxlive, twolive_cases = 0, 0
    for cs in c.cases:
        two = False
        for i in cs:
            if i < len(c.impl):
                for x in c.impl[i].split():
                    if x.startswith("live="):
                        try:
                            v = int(x[5:])
                            maxlive = max(maxlive, v)
                            two = two or v > 1
                        except ValueError:
                            pass
        twolive_cases += 1 if two else 0
    return K.finish(
        ctx, "proof",
        rule=("cases = 4 corpus cases (the two Lean witnesses: dropped slot, stale close callback; a lone summoner whose slot count goes to -1 and is never deleted; a waiter served the "
              "stored instance, close, re-summon) followed by random schedules of go T / cancel T / close / closeold K / destroyold K over 2..4 summoners (6..31 ops "
              "quick, ..55 thorough); non-trivial = at least 3 ops; distinct = distinct op texts; each reply (protocol step reached, live "
              "instance count, whether an instance is mapped, which slot is mapped, every slot's ready flag and count — all observed) is "
              "compared between the real hydra and the Lean model"),
        samples=P.std_samples(c),
        evaluations=len(c.ops),
        distinct_nontrivial=K.distinct_cases(c),
        extra_cov={"correspondence": {"domain": "C18", "cases": len(c.cases), "op_lines": len(c.ops), "mismatching_lines": len(c.mismatch),
                                      "op_histogram": c.op_hist, "reply_histogram": c.reply_hist, "max_live_instances_seen": maxlive,
                                      "cases_with_two_live_instances": twolive_cases,
                                      "lines_flagged_by_model": sum(1 for f in c.flags if f)}},
        trusted=["Lean 4.33.0 kernel", "axioms: propext, Classical.choice, Quot.sound", "extract/c18.go", "harness/c18.go + rig + app/verifhook",
                 "sync.Map / sync.Cond semantics as modelled", "close callback runs once per instance"],
    )
