"""C16 — acknowledged writes survive eviction, auto-destroy and shutdown."""
import re

from . import common as K

META = {
    "level": "proof",
    "technique": "Lean 4 inductive-invariant proof over a lifecycle LTS (summon / vigil / write / delete with auto-destroy / idle "
                 "listener / close / flush; all schedules) + go/ast fact tie + forced schedules through lifecycle hook points on the real "
                 "in-process server (acknowledged set compared with the re-opened swamp)",
    "text": ("Hv.C16.durable_repaired: for the repaired protocol (Destroy re-checks emptiness after the vigil drain; an instance is "
             "handed out with its vigil taken under the lock that covers the listener's idle decision and the closing flip) every "
             "reachable state keeps every acknowledged, not deleted write in the memory of the mapped, not yet flushed instance or in "
             "the file — for every schedule, any number of request threads and any initial file; closed counterexamples for the "
             "unrepaired facts: destroy_loses_acked_write and idle_close_loses_acked_write; classify_sound over three extracted facts.  "
             "In the repaired model a destroy that finds a record after the drain becomes a close (flush, unmap)."),
    "note": ("PARTIAL: time is abstracted to listener read/decide steps (the 30 s summon wait and the 10 s + 30 s forced-close "
             "timeouts of GracefulStop are not modelled); graceful stop is `Close()` of every mapped instance with nothing in flight, "
             "followed by the process exit (`Act.exit`, enabled only once nothing is mapped) — tryToCloseAllSwamps calls Close() "
             "without looking at vigils, the same window as the idle close, not forced here; the three CloneAndDelete* auto-destroy "
             "sites share the DeleteTreasure shape (all four go through destroyIfEmpty, checked by the extractor) and are not driven "
             "separately; an explicit Destroy() is not an action of the model; keys are a set (values, delete markers and the "
             "re-created-key case are carried by the driver, not by a theorem); acknowledged *deletes* are checked by the "
             "correspondence and the Spec oracle only.  The Go scheduler is driven, not enumerated.  Trusted: Lean kernel, "
             "extract/c16.go, harness/c16.go, sync.Cond / atomic semantics."),
    "design_ref": "§8 C16",
}

FINDINGS = {
    "C16-auto-destroy-loses-acked-write": "Destroy (after the last record was deleted) drains in-flight vigils and then deletes the file "
                                          "without looking again: an insert acknowledged during the drain disappears with the swamp",
    "C16-delete-after-recreate-resurrects": "delete, set, delete on a key that is in the file: the set drops the queued delete marker and "
                                            "the second delete sees an object without a file pointer and queues nothing, so the "
                                            "acknowledged delete never reaches the file and the old record is back after re-opening",
    "C16-double-cease-unblocks-drain": "a delete (or shift) that empties the swamp calls CeaseVigil before Destroy and the handler's deferred "
                                       "CeaseVigil runs again; when Destroy returns at once because another request is already destroying, "
                                       "the counter has lost a vigil that belongs to a third request: the drain passes while that request "
                                       "is in flight, the file is deleted, its acknowledged write is gone",
    "C16-delete-continues-on-closed-instance": "a Delete request goes on deleting its remaining keys on the instance it holds after its own "
                                               "auto-destroy has closed that instance: the delete is acknowledged, no delete entry reaches "
                                               "the file, the record is back after re-opening",
    "C16-stop-returns-before-swamps-closed": "GracefulStop returns while swamps are still mapped (their close has not flushed yet): the "
                                             "process exits and acknowledged writes that were only in memory are gone",
    "C16-summon-replaces-closing-instance": "SummonSwamp does not go back to the swamp map after WaitForGracefulClose: it creates and maps a "
                                            "fresh instance while the closing one's callback — which removes the map entry by name — is "
                                            "still to come; the fresh instance is unmapped, its acknowledged writes are never found again",
    "C16-idle-close-loses-acked-write": "the close listener decides from a last-interaction time it read before taking its lock, and "
                                        "SummonSwamp hands out the instance before the caller's BeginVigil: a request that was just "
                                        "handed the instance writes into an instance that is already closed; the acknowledged write is "
                                        "never flushed",
}


def spec_violated(rep):
    """acknowledged-set oracle on the implementation's replies"""
    ops, impl = rep["ops"], rep["impl"]
    live = {}
    pend = {}
    vigil = set()
    for op, line in zip(ops[1:], impl[1:]):
        f = op.split()
        if f[0] == "set" and line in ("NEW", "UPDATED", "SAME"):
            live[f[1]] = f[2]
        if f[0] == "del" and line == "DELETED":
            live.pop(f[1], None)
        if f[0] in ("spawn", "spawnw", "spawnv"):
            pend[f[1]] = f[2:]
        m = re.match(r"(\w) done (\w+)", line)
        if m and m.group(1) in pend:
            p = pend.pop(m.group(1))
            if p[0] == "set" and m.group(2) in ("NEW", "UPDATED", "SAME"):
                live[p[1]] = p[2]
            if p[0] == "del" and m.group(2) == "DELETED":
                live.pop(p[1], None)
            if p[0] == "delm":
                sts = line.split(" done ", 1)[1].split()[0].split(",")
                for kk, ss in zip(p[1:3], sts):
                    if ss == "DELETED":
                        live.pop(kk, None)
        mv = re.match(r"(\w)@gw\.set\.vigil", line)
        if mv:
            vigil.add(mv.group(1))
        md = re.match(r"(\w) done ", line)
        if md:
            vigil.discard(md.group(1))
        if line == "tick closed" and vigil:
            return "the idle listener closed the swamp while request %s holds a vigil on it" % sorted(vigil)
        if "stuck" in line or line == "hang":
            return "request hangs at `%s`" % op
        m2 = re.match(r"stopped open=(\d+)", line)
        if m2 and int(m2.group(1)) > 0:
            return "GracefulStop returned with %s swamp(s) still mapped: a process exit now loses %s" % (m2.group(1), sorted(live))
        if f[0] == "reopen" and not pend and line != "keys=?":
            got = dict(x.split(":") for x in re.match(r"keys=\[([^\]]*)\]", line).group(1).split(",") if x)
            for k, v in live.items():
                if got.get(k) != v:
                    return "acknowledged write %s=%s is %s after re-opening the swamp" % (k, v, "absent" if k not in got else "=" + got[k])
            for k in got:
                if k not in live:
                    return "deleted key %s is back after re-opening the swamp" % k
    return None


def run(ctx):
    facts, _, _ = K.extract_facts(ctx)
    K.lean_verdict(ctx)
    corrs = []
    if K.build_hx(ctx) and K.build_drv(ctx):
        args = ["%s=%s" % (k, facts.get(k, "unknown")) for k in
                ("destroyRechecksAfterDrain", "listenerReadsTouchUnderLock", "summonTakesVigil", "recreateDropsDeleteMarker", "summonWaitsForUnmap", "stopWaitsUntilClosed", "ceasesVigilOnce", "deleteRefusesClosedInstance")]
        c = K.correspondence(ctx, "C16", args, timeout=900)
        corrs.append(("C16", args, c))
    else:
        ctx.violation("harness does not build against /repo", {"correspondence": "C16", "log": getattr(ctx, "hx_log", "")[-2000:]},
                      tag="build", found_input=False)
    K.decide_standard(ctx, corrs, FINDINGS)
    K.report_mismatch(ctx, spec_violated)
    if ctx.thorough:
        ok, out = K.leanchecker(ctx, ["Hv.Props.C16", "Hv.Conc.Lifecycle"])
        ctx.cov["leanchecker"] = "ok" if ok else out[-500:]
        if not ok:
            ctx.violation("leanchecker rejected the compiled proofs", {"log": out[-2000:]}, tag="leanchecker", found_input=False)
    c = corrs[0][2] if corrs else K.Corr()
    samples = []
    for cs in c.cases[:3]:
        samples.append({"ops": [c.ops[i] for i in cs], "impl": [c.impl[i] for i in cs if i < len(c.impl)]})
    return K.finish(
        ctx, "proof",
        rule=("(besides the cases below: a request summoning while a closing instance is flushed but still mapped; random histories "
              "around one request parked between summon / vigil / write; graceful stop on a server of its own with the data "
              "directory copied at the instant GracefulStop returns)  cases: four corpus cases (auto-destroy draining an in-flight insert; idle close with a stale reading while a request "
              "holds the instance without a vigil; the same two shapes without the race) followed by random sequential histories of "
              "set / del / close / reopen (4..11 ops, 3 keys) ending in close + reopen.  Every reply (status, park point, keys found "
              "after re-opening) is compared between the real server and the Lean model; the Spec oracle compares the acknowledged set "
              "with the re-opened swamp.  Non-trivial = >= 3 ops."),
        samples=samples,
        evaluations=len(c.ops),
        distinct_nontrivial=K.distinct_cases(c),
        extra_cov={"correspondence": {"domain": "C16", "cases": len(c.cases), "op_lines": len(c.ops),
                                      "mismatching_lines": len(c.mismatch), "op_histogram": c.op_hist,
                                      "lines_flagged_by_model": sum(1 for f in c.flags if f)}},
        trusted=["Lean 4 kernel", "axioms: propext, Classical.choice, Quot.sound", "extract/c16.go", "harness/c16.go + app/verifhook",
                 "sync.Cond / atomic semantics"],
    )
