"""C11 — claims hand out disjoint, matching, oldest-first records."""
import re

from . import common as K

META = {
    "level": "proof",
    "technique": "Lean 4 inductive-invariant proof over a claim LTS (shift claims, PatchExpired select/patch/reindex, savers, deleters; "
                 "all schedules) + go/ast fact tie + forced schedules through hook points after candidate construction, after the "
                 "PatchExpired selection and around ReindexExpiration + concurrent-claimer stress on the real gateway",
    "text": ("Hv.C11.claims_safe: with atomic selection, `counter < howMany`, the `exp != 0` test, the indexed filter leg re-evaluated at "
             "selection, and existence checks in the PatchExpired patch and reindex steps, every schedule keeps: (a) no record handed "
             "out twice and none of them still indexed, (b) every claim met its criteria at the claim step, (c) at most HowMany per "
             "call, in index order, (d) the index lists only live records and acknowledged deletes stay deleted; claims_disjoint is "
             "(a); seven closed counterexamples (w_nonatomic, w_counter, w_expzero, w_stale, w_empty, w_patch, w_reindex) refute the "
             "statement for each defective fact; holds_partial: (a),(c),(d) for every schedule without PatchExpired patch/reindex steps "
             "whatever the predicate facts are.  Deadlock clause (HoldsAll = claims_safe + DeadlockFree): Hv.LockOrder.no_deadlock — if every "
             "waiting acquisition ranks above everything its thread holds, no reachable state is stuck; instantiated for the four "
             "request kinds (selection pass, clone pass, delete, index-refreshing save) as no_deadlock_repaired (guard -> beacon lock: "
             "passes only try the guards / clone outside the lock) and no_deadlock_beacon_first; closed witnesses deadlock_mixed_order "
             "(delete or save vs selection pass) and deadlock_mixed_order_clone for the mixed order."),
    "note": ("PARTIAL: a shift claim is a selection step (under the beacon lock) followed by one delete step per selected record, "
             "other requests run in between (forced through the shift.selected hook in both CloneAndDelete* functions); keys are "
             "never re-created in the model; Cap budgets are C12's.  The deadlock clause covers the beacon locks and the record guards only (swamp-level locks, the "
             "bucket locks and the chronicler are not in the lock model); the lock programs of the four request kinds are written "
             "by hand from the code, two extracted facts select the variant.  The Go scheduler is driven, not enumerated.  Trusted: Lean "
             "kernel, extract/c11.go, harness/c11.go, sync.RWMutex semantics."),
    "design_ref": "§8 C11",
}

FINDINGS = {
    "C11-stale-candidate-set": "the candidate key set of an indexable filter leg is computed before the selection lock and the leg is not "
                               "re-evaluated: a record patched out of the filter in between is still claimed (ShiftMatching and PatchExpired)",
    "C11-empty-candidate-set-matches-all": "ShiftMatching: an empty candidate set becomes a nil map and the predicate only consults the set "
                                           "when it is non-nil, so a filter that matches nothing claims every record of the index",
    "C11-patch-resurrects-deleted": "PatchExpired patches a selected record that was deleted meanwhile (never-persisted record): the "
                                    "acknowledged delete is undone by the patch's save",
    "C11-reindex-resurrects-deleted": "ReindexExpiration re-inserts a selected record that was deleted meanwhile into the expiration "
                                      "index; a later ShiftExpired returns the deleted record",
    "C11-claim-returns-deleted-record": "a shift claim returns a record that was deleted before its selection step",
    "C11-shift-delete-not-revalidated": "CloneAndDelete{Expired,Matching}Treasures: the selection pass runs under the beacon lock, the per-record "
                                        "deleteHandler calls run afterwards and look at nothing: a record deleted by somebody else in "
                                        "between is handed out all the same, a write acknowledged in between is dropped and the copy "
                                        "of the selection pass is handed out",
    "C11-claim-delete-deadlock": "two lock orders in use: beacon lock -> record guard (ShiftExpired / ShiftMatching / ShiftMany / "
                                 "Clone*Treasures wait for each record's guard under b.mu) and record guard -> beacon lock "
                                 "(deleteHandler and a Save that re-indexes update the beacons under the guard); a claim, a delete "
                                 "and an index-refreshing save (or GetAll / the first bucket build) hang forever",
    "C11-selection-not-atomic": "a selection pass does not run under the beacon's write lock",
    "C11-claims-more-than-requested": "the selection pass compares `counter <= howMany`",
    "C11-claims-unexpiring-record": "the expired test lacks `exp != 0`",
}


def spec_violated(rep):
    ops, impl = rep["ops"], rep["impl"]
    want, how = {}, {}
    deleted, status, exp = set(), {}, {}
    has_pexp = any(o.startswith("spawn") and " pexp " in o for o in ops)
    for op, line in zip(ops[1:], impl[1:]):
        f = op.split()
        if f[0] == "stress":
            m = re.match(r"ok claimed=(\d+) dup=(\d+) overmax=(\d+) disorder=(\d+) left=(\d+)", line)
            if not m:
                return "concurrent claimers did not finish: " + line
            if int(m.group(1)) != int(f[2]) or any(int(m.group(i)) for i in (2, 3, 4, 5)):
                return "concurrent claimers: " + line
            continue
        if "stuck" in line or line == "hang":
            return "request hangs (lock-order inversion) at `%s`" % op
        if f[0] == "seed":
            status[f[1]] = f[2]
            exp[f[1]] = int(f[3])
            deleted.discard(f[1])
        if f[0] == "patch" and line == "PATCHED":
            status[f[1]] = f[2]
        if f[0] == "del" and line == "DELETED":
            deleted.add(f[1])
        if f[0] == "spawn" and f[2] == "shiftm":
            want[f[1]], how[f[1]] = f[4], int(f[3])
        if f[0] == "spawn" and f[2] == "pexp":
            how[f[1]] = int(f[3])
            if f[4] != "-":
                want[f[1]] = f[4]
        m = re.search(r"keys=\[([^\]]*)\]", line)
        if m and f[0] in ("go", "shiftm", "shiftmm", "shiftw", "shiftexp", "spawn"):
            got = [x.split(":") for x in m.group(1).split(",") if x]
            w = f[2] if f[0] == "shiftm" else (f[3] if f[0] == "shiftmm" else (f[4] if f[0] == "shiftw" else (want.get(f[1]) if f[0] == "go" else None)))
            n = int(f[1]) if f[0] in ("shiftm", "shiftexp", "shiftw") else (min(int(f[1]), int(f[2])) if f[0] == "shiftmm" else how.get(f[1], 10 ** 9))
            if f[0] == "shiftw" and not has_pexp:
                # the window is half-open: FromTime <= expiration time < ToTime
                for k, _ in got:
                    if k in exp and not (int(f[2]) <= exp[k] < int(f[3])):
                        return "`%s` returned %s, whose expiration time base%+ds lies outside the window [%s, %s)" % (op, k, exp[k], f[2], f[3])
            if len(got) > n:
                return "`%s` returned %d records, more than requested" % (op, len(got))
            for k, s in got:
                if k in deleted:
                    return "`%s` returned %s, whose delete had been acknowledged" % (op, k)
                if w is not None and s != w:
                    return "`%s` returned %s with status %s, the filter asks for %s" % (op, k, s, w)
                if not has_pexp and k in status and s not in (status[k], "void"):
                    return "`%s` returned %s with status %s; the acknowledged status is %s (an acknowledged write was dropped)" % (op, k, s, status[k])
                deleted.add(k)
        m = re.search(r"patched=\[([^\]]*)\]", line)
        if m:
            for x in m.group(1).split(","):
                if x and x.endswith(":PATCHED") and x.split(":")[0] in deleted:
                    return "`%s` patched %s, whose delete had been acknowledged" % (op, x.split(":")[0])
        m = re.match(r"idx=\[([^\]]*)\] keys=\[([^\]]*)\]", line)
        if m:
            idx = [x for x in m.group(1).split(",") if x]
            keys = [x.split(":")[0] for x in m.group(2).split(",") if x]
            for k in idx:
                if k not in keys:
                    return "the expiration index lists %s, which is not in the swamp" % k
            for k in keys:
                if k in deleted:
                    return "%s is back in the swamp after its delete was acknowledged" % k
    return None


def run(ctx):
    facts, _, _ = K.extract_facts(ctx)
    K.lean_verdict(ctx)
    corrs = []
    if K.build_hx(ctx) and K.build_drv(ctx):
        args = ["%s=%s" % (k, facts.get(k, "unknown")) for k in
                ("selectUnderLock", "counterCmp", "checksExpNonZero", "rechecksIndexedLeg", "reindexChecksExists",
                 "patchChecksExists", "emptyCandMeansAll", "guardUnderBeaconLock", "beaconUnderGuard", "shiftDeleteRevalidates")]
        c = K.correspondence(ctx, "C11", args, timeout=900)
        corrs.append(("C11", args, c))
    else:
        ctx.violation("harness does not build against /repo", {"correspondence": "C11", "log": getattr(ctx, "hx_log", "")[-2000:]},
                      tag="build", found_input=False)
    K.decide_standard(ctx, corrs, FINDINGS)
    K.report_mismatch(ctx, spec_violated)
    if ctx.thorough:
        ok, out = K.leanchecker(ctx, ["Hv.Props.C11", "Hv.Conc.ClaimLemmas", "Hv.Conc.Claim"])
        ctx.cov["leanchecker"] = "ok" if ok else out[-500:]
        if not ok:
            ctx.violation("leanchecker rejected the compiled proofs", {"log": out[-2000:]}, tag="leanchecker", found_input=False)
    c = corrs[0][2] if corrs else K.Corr()
    samples = []
    for cs in (c.cases[:1] + c.cases[2:4] + c.cases[12:13]):
        samples.append({"ops": [c.ops[i] for i in cs], "impl": [c.impl[i] for i in cs if i < len(c.impl)]})
    modes = {}
    for cs in c.cases:
        f = c.ops[cs[0]].split()
        k = " ".join(f[2:4])
        modes[k] = modes.get(k, 0) + 1
    return K.finish(
        ctx, "proof",
        rule=("cases: forced = 2..5 seeded records (+1 without expiry), up to two parked claimers (ShiftMatching with an indexable filter "
              "parked after candidate construction; PatchExpired parked after candidate construction, after its selection and before "
              "ReindexExpiration) with synchronous patch / delete / ShiftExpired / ShiftMatching / state requests in between, in three "
              "configurations (in-memory, persistent unwritten, persistent written); 13 corpus cases first (stale candidates, delete "
              "before patch, delete before reindex, lock-order inversion); stress = 3..6 concurrent ShiftExpired/ShiftMatching callers "
              "over 30..69 expired records (disjoint, bounded, ordered, complete).  Non-trivial = >= 3 ops."),
        samples=samples,
        evaluations=len(c.ops),
        distinct_nontrivial=K.distinct_cases(c),
        extra_cov={"correspondence": {"domain": "C11", "cases": len(c.cases), "case_modes": modes, "op_lines": len(c.ops),
                                      "mismatching_lines": len(c.mismatch), "op_histogram": c.op_hist,
                                      "lines_flagged_by_model": sum(1 for f in c.flags if f)}},
        trusted=["Lean 4 kernel", "axioms: propext, Classical.choice, Quot.sound", "extract/c11.go", "harness/c11.go + app/verifhook",
                 "sync.RWMutex semantics"],
    )
