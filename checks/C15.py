"""C15 — record guard: exclusive, arrival-ordered access."""
from . import common as K

META = {
    "level": "proof",
    "technique": "Lean 4 invariant proof over the guard LTS (all schedules) + go/ast fact tie + forced-schedule correspondence on the real guard",
    "text": ("Lean theorems Hv.C15.holds_noReset (mutual exclusion, holder = queue head, FIFO grants, stale/duplicate/foreign "
             "release is a no-op) for every schedule of any length when guard IDs are never reused, and refutes_reset* (closed "
             "counterexamples) when the ID counter is reset; classify_sound ties the decision to the fact extracted from guard.go; "
             "the model is run against the real guard under forced schedules (hook points guard.enq/wait/acq/rel)."),
    "note": ("Trusted: Lean kernel (axioms propext, Classical.choice, Quot.sound only); extract/c15.go (pattern for writes to "
             "largestGuardID); harness/c15.go; sync.Cond semantics (each guard method body is one atomic step because it runs "
             "under g.cond.L); IDs are capabilities: a session only releases IDs it was given."),
    "design_ref": "§8 C15",
}

FINDINGS = {
    "C15-guard-id-reuse": "ReleaseTreasureGuard resets largestGuardID when the queue empties, so a stale/duplicate release "
                          "of an old ID pops a later holder that was given the same ID (two sessions hold at once)",
}


def spec_violated(rep):
    if rep.get("correspondence") == "C15s":
        # the op lines ARE the implementation's event log: a session holds from its `acq` until its
        # own `pre` (announcement that it is about to release); no acquisition while another holds
        holders = []
        for op in rep["ops"]:
            f = op.split()
            if f and f[0] == "case":
                holders = []
            elif f and f[0] == "acq":
                if holders:
                    return "the real guard granted ID %s while the session with ID %s still held it (event log)" % (f[1], holders[0])
                holders.append(f[1])
            elif f and f[0] == "pre" and f[2] in holders:
                holders.remove(f[2])
            elif f and f[0] == "hang":
                return "a parked waiter was never woken (stress run did not terminate)"
        return None
    # Spec oracle on implementation replies: never more than one believing holder
    for op, line in zip(rep["ops"], rep["impl"]):
        if " h=" in line:
            try:
                if int(line.rsplit(" h=", 1)[1].split()[0]) > 1:
                    return "two sessions hold the guard after `%s` (%s)" % (op, line)
            except ValueError:
                pass
    return None


def run(ctx):
    facts, _, _ = K.extract_facts(ctx)
    K.lean_verdict(ctx)
    corrs = []
    if K.build_hx(ctx) and K.build_drv(ctx):
        args = ["resetsIdOnEmpty=" + facts.get("resetsIdOnEmpty", "unknown")]
        c = K.correspondence(ctx, "C15", args)
        corrs.append(("C15", args, c))
        # genuinely concurrent run of the real guard; its event log must be a trace of the model
        targs = args + ["mode=trace"]
        ct = K.correspondence(ctx, "C15s", targs, drv_domain="C15")
        corrs.append(("C15s", targs, ct))
        ctx.cov["trace_inclusion"] = {"domain": "C15s", "log_lines": len(ct.ops), "rounds": len(ct.cases),
                                      "lines_rejected_by_model": len(ct.mismatch), "event_histogram": ct.op_hist}
    else:
        ctx.violation("harness does not build against /repo", {"correspondence": "C15", "log": getattr(ctx, "hx_log", "")[-2000:]},
                      tag="build", found_input=False)
    K.decide_standard(ctx, corrs, FINDINGS)
    K.report_mismatch(ctx, spec_violated)
    # a Spec violation visible in the implementation replies that the model did not flag
    for _, _, c in corrs:
        if not c.err and not c.mismatch:
            pass
    if ctx.thorough:
        ok, out = K.leanchecker(ctx, ["Hv.Props.C15", "Hv.Conc.GuardLemmas", "Hv.Conc.Guard"])
        ctx.cov["leanchecker"] = "ok" if ok else out[-500:]
        if not ok:
            ctx.violation("leanchecker rejected the compiled proofs", {"log": out[-2000:]}, tag="leanchecker", found_input=False)
    c = corrs[0][2] if corrs else K.Corr()
    samples = []
    for cs in c.cases[:2]:
        samples.append({"ops": [c.ops[i] for i in cs], "impl": [c.impl[i] for i in cs if i < len(c.impl)]})
    return K.finish(
        ctx, "proof",
        rule=("schedules = random sequences of startw/startn/release SID/releaseraw ID (3..27 ops quick, ..63 thorough) preceded by two "
              "corpus cases; a case is non-trivial when it has >= 3 ops; distinct = distinct op texts; each op's reply (event, queue, "
              "counter, number of believing holders) is compared between the real guard and the Lean model"),
        samples=samples,
        evaluations=len(c.ops),
        distinct_nontrivial=K.distinct_cases(c),
        extra_cov={"correspondence": {"domain": "C15", "cases": len(c.cases), "op_lines": len(c.ops), "mismatching_lines": len(c.mismatch),
                                      "op_histogram": c.op_hist, "reply_histogram": c.reply_hist,
                                      "lines_flagged_by_model": sum(1 for f in c.flags if f)}},
        trusted=["Lean 4.33.0 kernel", "axioms: propext, Classical.choice, Quot.sound", "extract/c15.go", "harness/c15.go + app/verifhook",
                 "sync.Cond/Mutex semantics (method bodies atomic)"],
    )
