"""C01 — storage log replays to the last-writer-wins state."""
from . import common as K
from . import storage_common as S

META = {
    "level": "proof",
    "technique": ("Lean 4 theorems over a byte-level model of the .hyd format and of FileWriter/FileReader (all histories, all lawful "
                  "codecs, all checksums) + go/ast fact tie + correspondence of the real writer/reader with the model on generated "
                  "histories, the model reader parsing the real files' bytes"),
    "text": ("Hv.C01.holds_of_good: for every history of write/flush/sync/close/reopen calls, every block size and name, every lawful "
             "codec and checksum, LoadIndex of the file equals the last-writer-wins fold (Hv.Storage.find_specOf, keysNodup_specOf) of "
             "the acknowledged writes that left the buffer, and WriteEntry rejects what the format cannot carry — proved by induction "
             "(decodeEntry_encodeEntry, parseEntries_encodeEntries, readNextBlock_encodeBlock, readAll_render, runOps_inv = "
             "writer_sessions invariant, loadIndex_runOps). not_holds_of_acceptsEmptyKey / acceptsLongKey / noDelete and "
             "badEntry_poisons_file are the closed counterexamples for the defective fact values; replays_partial covers the encodable "
             "fragment. classify_sound ties the decision to the facts extracted from types.go, block.go, writer.go, reader.go."),
    "note": ("Trusted: Lean kernel (propext, Classical.choice, Quot.sound); extract/c01.go; harness/c01.go; the modelling of os.File "
             "as a byte string (append, in-place 64-byte header rewrite); snappy and CRC-32 are parameters of every theorem (the "
             "driver's executable snappy decoder / CRC-32 are differential-tested on every real block). Explicit physical bounds: "
             "payload and block size <= 1 GiB, swamp name < 65536 bytes (C29 covers longer names). Chronicler layer: entryOf/chronWrite "
             "(Hv/Storage/ChronWrite.lean) model Write's INSERT/UPDATE/DELETE choice, insert_update_equivalent proves the choice is "
             "replay-irrelevant, Holds.apiRejects demands that a refused treasure is reported (currently violated: recorded finding). "
             "Exports: inserts_roundtrip (fresh file from distinct-key encodable INSERTs loads back exactly, with its name) is the "
             "byte-level discharge of C23's V2.Lawful on keys of 1..65535 bytes and names < 2^16. Relation to the block-granular "
             "model Hv.BlockStore (C02/C03/C25): its assumption (A1) 'the payload written for a header decodes to that block's "
             "entries' is Hv.Storage.readNextBlock_encodeBlock, which needs GoodBlock (every entry Encodable, < 65536 entries, "
             "< 2 GiB) — i.e. the block model's results hold on acknowledged writes only because WriteEntry now rejects "
             "unencodable keys and Add flushes at 65535 entries (it hard-codes '>=' flush, no count flush, accepts every key); its "
             "(A2) 'anything else fails the checksum' is readNextBlock_crc_mismatch, true up to the 2^-32 CRC residual."),
    "design_ref": "§8 C01",
}

FINDINGS = {
    "C01-empty-key-accepted": "WriteEntry accepts an empty key; Entry.Deserialize rejects it, so LoadIndex of the whole file fails (entry key cannot be empty)",
    "C01-long-key-accepted": "WriteEntry accepts a key longer than 65535 bytes; its 16-bit length field wraps and the file no longer loads (or loads different records)",
    "C01-block-entry-count-overflow": "a block with more than 65535 buffered entries wraps the 16-bit EntryCount; the extra entries are silently dropped on load",
    "C01-delete-not-replayed": "LoadIndex does not remove keys on OpDelete",
    "C01-api-acks-unstorable-name": ("the gateway accepts a swamp name longer than 65535 bytes that the file writer refuses: Set answers NEW, "
                                     "every chronicler Write fails in ensureWriter and is only logged; after a restart the swamp does not exist"),
    "C01-chronicler-drops-refused-entry": ("chroniclerV2.Write only logs an entry the writer refuses (empty / >65535-byte key) and has no result: "
                                           "the swamp and the gateway have already acknowledged the record, which is gone after a reload"),
}

DRV_FACTS = ["rejectsEmptyKey", "rejectsLongKey", "flushCmp", "flushAtCount", "deleteRemoves"]


# A case the Lean driver would need minutes for (its index is an association list): run in the quick
# tier on the implementation only and judged by the Python Spec oracle; the thorough tier runs it
# through the model as well.  70 000 live keys, then a forced compaction.
BIG_CASE = ["case 0", "cfg 0 x:612f622f63", "wk 70000 3 0", "w 3 x:00000000 x:-", "close", "load", "compact", "load",
            "reopen", "wk 10 3 70000", "close", "load"]


def impl_only_case(ctx, ops):
    import os
    import subprocess
    p = subprocess.run([os.path.join(K.BIN, "hx"), "run", "C01"], input="\n".join(ops) + "\n", stdout=subprocess.PIPE,
                       stderr=subprocess.PIPE, text=True, timeout=1800)
    impl = p.stdout.split("\n")[:-1]
    return impl, S.history_oracle(ops, impl)


def spec_violated(rep):
    bad = S.history_oracle(rep["ops"], rep["impl"])
    return bad[0][1] if bad else None


def run(ctx):
    facts, _, _ = K.extract_facts(ctx)
    K.lean_verdict(ctx)
    corrs = []
    if K.build_hx(ctx) and K.build_drv(ctx):
        args = S.drv_args(facts)
        try:
            c = K.correspondence(ctx, "C01", args, timeout=3000)
        except Exception as e:  # e.g. the real reader hangs on what a mutated writer produced
            c = K.Corr()
            c.err = "harness did not finish: %r" % (e,)
        corrs.append(("C01", args, c))
    else:
        ctx.violation("harness does not build against the repository", {"correspondence": "C01", "log": getattr(ctx, "hx_log", "")[-2000:]},
                      tag="build", found_input=False)
    K.decide_standard(ctx, corrs, FINDINGS)
    K.report_mismatch(ctx, spec_violated)
    c = corrs[0][2] if corrs else K.Corr()
    # independent Spec oracle over every implementation reply of the run
    known = K.known_ids(ctx.pid)
    oracle_hits = {}
    if not c.err:
        for i, what, sig in S.history_oracle(c.ops, c.impl, api_validates=facts.get("apiValidatesKeys") == "yes"):
            oracle_hits.setdefault(sig, []).append((i, what))
    for sig, hits in oracle_hits.items():
        i, what = hits[0]
        cs = K.case_of(c, i)
        rep = K.case_replay(c, cs, upto=i)
        rep.update({"correspondence": "C01", "oracle": "python dict fold over acknowledged writes", "signature": sig})
        if sig is not None and sig in known:
            if sig not in [k for k, _ in ctx.known_hits]:
                ctx.known_hits.append((sig, FINDINGS.get(sig, sig)))
        else:
            ctx.violation("implementation violates the property: " + what, rep, tag=sig or "impl")
    # the large-live-set compaction case, implementation + oracle only
    big_bad = []
    if getattr(ctx, "hx_ok", False):
        try:
            big_impl, big_bad = impl_only_case(ctx, BIG_CASE)
        except Exception as e:
            big_impl, big_bad = [], [(0, "the 70 000-key compaction case did not finish: %r" % (e,), None)]
        for i, what, sig in big_bad[:1]:
            rep = {"ops": BIG_CASE[:i + 1], "impl": big_impl[:i + 1], "correspondence": "C01 (implementation + Python Spec oracle only)",
                   "signature": sig}
            if sig is not None and sig in known:
                if sig not in [k for k, _ in ctx.known_hits]:
                    ctx.known_hits.append((sig, FINDINGS.get(sig, sig)))
            else:
                ctx.violation("implementation violates the property: " + what, rep, tag=sig or "impl")
    ctx.cov["large_live_set_compaction_case"] = {"ops": BIG_CASE, "oracle_violations": len(big_bad)}
    if ctx.thorough:
        ok, out = K.leanchecker(ctx, ["Hv.Props.C01", "Hv.Storage.WriterLemmas", "Hv.Storage.ReaderLemmas", "Hv.Storage.FormatLemmas",
                                      "Hv.Storage.SpecLemmas", "Hv.Storage.OverflowLemmas", "Hv.Storage.CompactLemmas",
                                      "Hv.Storage.ChronWrite", "Hv.Storage.BlockAssumptions", "Hv.Storage.BlockView", "Hv.Storage.Bytes"])
        ctx.cov["leanchecker"] = "ok" if ok else out[-500:]
        if not ok:
            ctx.violation("leanchecker rejected the compiled proofs", {"log": out[-2000:]}, tag="leanchecker", found_input=False)
    samples = []
    for cs in c.cases[:1] + c.cases[7:9]:
        samples.append({"ops": [c.ops[i][:120] for i in cs][:14], "impl": [c.impl[i][:160] for i in cs if i < len(c.impl)][:14]})
    raws = sum(1 for l in c.ops if l.startswith("raw "))
    return K.finish(
        ctx, "proof",
        rule=("histories = 7 corpus cases (three-session demo, empty key, 65536/70000-byte keys, 65535-byte key with 200 kB payload, "
              "65537 entries in one 1 MiB block, metadata/unknown ops) + random cases: block size 0/1..65536/1 MiB, names 0..300 bytes "
              "incl. binary, key pool with lengths 0..70000 incl. binary, payloads 0..200 kB (2 MiB thorough), insert/update/delete mix, "
              "random flush/sync/close/reopen, load at random points, raw file bytes parsed by the Lean reader; 40 chronicler cases "
              "(Write of treasures incl. a 70000-byte and an empty key, deletes, Close, Load by a fresh chronicler); a case is non-trivial "
              "with >= 3 ops; distinct = distinct op texts"),
        samples=samples, evaluations=len(c.ops), distinct_nontrivial=K.distinct_cases(c),
        extra_cov={"correspondence": {"domain": "C01", "cases": len(c.cases), "op_lines": len(c.ops), "mismatching_lines": len(c.mismatch),
                                      "op_histogram": c.op_hist, "reply_histogram": c.reply_hist, "real_files_parsed_by_model_reader": raws,
                                      "lines_flagged_by_model": sum(1 for f in c.flags if f),
                                      "oracle_violations_by_signature": {str(k): len(v) for k, v in oracle_hits.items()}}},
        trusted=["Lean 4.33.0 kernel", "axioms: propext, Classical.choice, Quot.sound", "extract/c01.go", "harness/c01.go",
                 "os.File modelled as a byte string", "snappy / CRC-32: parameters of the theorems; executable copies in Driver/StorageCodec.lean are differential-tested"],
    )
