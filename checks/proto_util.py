"""Helpers shared by the concurrency-protocol checks (C12, C14, C17, C18, C28)."""
import os
import re

from . import common as K


def correspondence_observed(ctx, domain, drv_args, annotate, gen_args=(), hx_env=None, ops_text=None, timeout=3000):
    """Like common.correspondence, but for protocols with one scheduler-dependent choice the
    harness cannot force (Go's `select` with two ready cases): the implementation runs first,
    `annotate(op, impl_reply) -> op'` copies the *observed* choice into the op line, and the model
    is driven by the annotated ops (it validates that the observed branch is enabled — the
    impl ⊆ model direction safety theorems need).  The returned Corr carries the annotated ops,
    so replays are self-contained."""
    c = K.Corr()
    hx = os.path.join(K.BIN, "hx")
    if ops_text is None:
        rc, out = K.sh([hx, "gen", domain, "-seed", str(ctx.seed), "-tier", ctx.tier, *gen_args], timeout=timeout)
        if rc != 0:
            c.err = "hx gen failed: " + out[-500:]
            return c
        ops_text = out
    ops = ops_text.split("\n")
    if ops and ops[-1] == "":
        ops.pop()
    env = dict(os.environ, **(hx_env or {}))
    try:
        rc1, impl, err1 = K.run_lines([hx, "run", domain], ops_text, timeout=timeout, env=env)
    except K.subprocess.TimeoutExpired:
        c.err = "hx run timed out"
        return c
    ops2 = [annotate(o, impl[i] if i < len(impl) else "") for i, o in enumerate(ops)]
    ops2_text = "\n".join(ops2) + "\n"
    with open(ctx.path(domain + ".ops"), "w") as f:
        f.write(ops2_text)
    try:
        rc2, model, err2 = K.run_lines([K.drv_path(), domain, *drv_args], ops2_text, timeout=timeout)
    except K.subprocess.TimeoutExpired:
        c.err = "drv timed out"
        return c
    with open(ctx.path(domain + ".impl"), "w") as f:
        f.write("\n".join(impl) + "\n")
    with open(ctx.path(domain + ".model"), "w") as f:
        f.write("\n".join(model) + "\n")
    if rc1 != 0:
        c.err = "hx run exit %d: %s" % (rc1, err1[-800:])
    if rc2 != 0:
        c.err = (c.err or "") + " drv exit %d: %s" % (rc2, err2[-800:])
    c.ops, c.impl = ops2, impl
    for l in model:
        parts = l.split("\t")
        c.model.append(parts[0])
        c.flags.append([p[3:] for p in parts[1:] if p.startswith("#F:")])
    n = max(len(c.ops), len(c.impl), len(c.model))
    for i in range(n):
        a = c.impl[i] if i < len(c.impl) else "<missing>"
        b = c.model[i] if i < len(c.model) else "<missing>"
        if a != b:
            c.mismatch.append(i)
    c.cases = K.split_cases(c.ops)
    for l in c.ops:
        k = l.split(" ", 1)[0]
        c.op_hist[k] = c.op_hist.get(k, 0) + 1
    for l in c.impl:
        k = " ".join(l.split(" ")[:1] + [w for w in l.split(" ")[2:3] if not w.startswith("q=")])
        c.reply_hist[k] = c.reply_hist.get(k, 0) + 1
    return c


_LIST = re.compile(r"(\w+)=\[([^\]]*)\]")


def lists_of(reply):
    """`q=[1,2] g=[1]` → {'q': ['1','2'], 'g': ['1']}"""
    return {k: [x for x in v.split(",") if x] for k, v in _LIST.findall(reply)}


def std_samples(c, n=2):
    out = []
    for cs in c.cases[:n]:
        out.append({"ops": [c.ops[i] for i in cs], "impl": [c.impl[i] for i in cs if i < len(c.impl)]})
    return out
