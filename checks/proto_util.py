"""Helpers shared by the concurrency-protocol checks (C12, C14, C17, C18, C28)."""
import os
import re

from . import common as K


def correspondence_observed(ctx, domain, drv_args, annotate, gen_args=(), hx_env=None, ops_text=None, timeout=3000):
    """Like common.correspondence, but for protocols with one scheduler-dependent choice the
    harness cannot force (Go's `select` with two ready cases): the implementation runs first,
    `annotate(op, impl_reply) -> op'` copies the *observed* choice into the op line, and the model
    is driven by the annotated ops (it validates that the observed branch is enabled — the
    impl ⊆ model direction safety theorems need).  The returned Corr carries the annotated ops,
    so replays are self-contained."""
    c = K.Corr()
    hx = os.path.join(K.BIN, "hx")
    ops_text_given = ops_text
    if ops_text is None:
        rc, out = K.sh([hx, "gen", domain, "-seed", str(ctx.seed), "-tier", ctx.tier, *gen_args], timeout=timeout)
        if rc != 0:
            c.err = "hx gen failed: " + out[-500:]
            return c
        ops_text = out
    ops = ops_text.split("\n")
    if ops and ops[-1] == "":
        ops.pop()
    env = dict(os.environ, **(hx_env or {}))
    try:
        rc1, impl, err1 = K.run_lines([hx, "run", domain], ops_text, timeout=timeout, env=env)
    except K.subprocess.TimeoutExpired:
        c.err = "hx run timed out"
        return c
    ops2 = [annotate(o, impl[i] if i < len(impl) else "") for i, o in enumerate(ops)]
    ops2_text = "\n".join(ops2) + "\n"
    with open(ctx.path(domain + ".ops"), "w") as f:
        f.write(ops2_text)
    try:
        rc2, model, err2 = K.run_lines([K.drv_path(), domain, *drv_args], ops2_text, timeout=timeout)
    except K.subprocess.TimeoutExpired:
        c.err = "drv timed out"
        return c
    with open(ctx.path(domain + ".impl"), "w") as f:
        f.write("\n".join(impl) + "\n")
    with open(ctx.path(domain + ".model"), "w") as f:
        f.write("\n".join(model) + "\n")
    if rc1 != 0:
        c.err = "hx run exit %d: %s" % (rc1, err1[-800:])
    if rc2 != 0:
        c.err = (c.err or "") + " drv exit %d: %s" % (rc2, err2[-800:])
    c.ops, c.impl = ops2, impl
    for l in model:
        parts = l.split("\t")
        c.model.append(parts[0])
        c.flags.append([p[3:] for p in parts[1:] if p.startswith("#F:")])
    n = max(len(c.ops), len(c.impl), len(c.model))
    for i in range(n):
        a = c.impl[i] if i < len(c.impl) else "<missing>"
        b = c.model[i] if i < len(c.model) else "<missing>"
        if a != b:
            c.mismatch.append(i)
    c.cases = K.split_cases(c.ops)
    # common.recheck_slow_cases would re-run the ANNOTATED ops (a stale observation): the re-check of timing-shaped
    # mismatches is done here, on the original ops, with a fresh observation
    c.no_recheck = True
    if ops_text_given is None:
        _recheck_slow(ctx, domain, drv_args, annotate, c, ops, hx_env)
    for l in c.ops:
        k = l.split(" ", 1)[0]
        c.op_hist[k] = c.op_hist.get(k, 0) + 1
    for l in c.impl:
        k = " ".join(l.split(" ")[:1] + [w for w in l.split(" ")[2:3] if not w.startswith("q=")])
        c.reply_hist[k] = c.reply_hist.get(k, 0) + 1
    return c


_SLOW = re.compile(r"\b(hang|hung|timeout|timed-out|stuck|broken|aborted|unexpected-timeout|err)\b")


def _recheck_slow(ctx, domain, drv_args, annotate, c, raw_ops, hx_env, max_cases=4):
    """Same policy as common.recheck_slow_cases: a mismatch whose implementation reply is timing-shaped is re-run
    ALONE with HX_TIMEOUT_SCALE=6 and believed only if it reproduces."""
    if c.err or not c.mismatch:
        return
    todo, seen = [], set()
    for i in c.mismatch:
        cs = K.case_of(c, i)
        if cs[0] in seen:
            continue
        seen.add(cs[0])
        if not _SLOW.search(c.impl[i] if i < len(c.impl) else ""):
            return
        todo.append(cs)
    if len(todo) > max_cases:
        return
    keep = {}
    for ext in (".ops", ".impl", ".model"):
        try:
            keep[ext] = open(ctx.path(domain + ext)).read()
        except OSError:
            pass
    fixed = 0
    try:
        for cs in todo:
            ops = [raw_ops[i] for i in cs if i < len(raw_ops)]
            if not ops or not ops[0].startswith("case "):
                return
            env = dict(hx_env or {}, HX_TIMEOUT_SCALE="6")
            r = correspondence_observed(ctx, domain, drv_args, annotate, hx_env=env, ops_text="\n".join(ops) + "\n", timeout=1800)
            if r.err or r.mismatch or len(r.impl) != len(ops):
                return
            for k, i in enumerate(cs):
                c.ops[i] = r.ops[k]
                if i < len(c.impl):
                    c.impl[i] = r.impl[k]
                if i < len(c.model):
                    c.model[i] = r.model[k]
                    c.flags[i] = r.flags[k]
            fixed += 1
    finally:
        for ext, txt in keep.items():
            with open(ctx.path(domain + ext), "w") as f:
                f.write(txt)
        c.mismatch = [i for i in range(max(len(c.ops), len(c.impl), len(c.model)))
                      if (c.impl[i] if i < len(c.impl) else "<missing>") != (c.model[i] if i < len(c.model) else "<missing>")]
        if fixed:
            ctx.cov["rechecked_slow_cases"] = ctx.cov.get("rechecked_slow_cases", 0) + fixed
            ctx.notes.append("%d case(s) of %s with a timing-shaped mismatch agreed when re-run alone with 6x timeouts" % (fixed, domain))


_LIST = re.compile(r"(\w+)=\[([^\]]*)\]")


def lists_of(reply):
    """`q=[1,2] g=[1]` → {'q': ['1','2'], 'g': ['1']}"""
    return {k: [x for x in v.split(",") if x] for k, v in _LIST.findall(reply)}


def std_samples(c, n=2):
    out = []
    for cs in c.cases[:n]:
        out.append({"ops": [c.ops[i] for i in cs], "impl": [c.impl[i] for i in cs if i < len(c.impl)]})
    return out
