"""C12 — cap-bearing operations never push the match count above the cap."""
from . import common as K
from . import proto_util as P

META = {
    "level": "proof",
    "technique": "Lean 4 inductive-invariant proof over the Cap batch LTS (all contents, caps, batches, interleavings) + go/ast fact tie + "
                 "forced interleavings of two real PatchTreasures RPCs on the in-process server through hook points",
    "text": ("Lean theorems Hv.C12.cap_inv (count taken under capMu: matching <= max is invariant over every interleaving of any number of "
             "cap-bearing batches and of operations that only remove records from the filter, for every initial content within the cap), "
             "four_cell (budget decremented iff not-pre and post and budget > 0; exactly that cell is rejected at budget 0; the record is "
             "otherwise written with the patched value), refutes_current / witness_overshoots (closed witness for count-then-lock: two "
             "batches, cap 1, both count 0, final count 2); refutes_createFromSeed and refutes_expiredEarlyUnlock (closed witnesses: pre-state of a create taken from the seed; PatchExpired releasing capMu after its select step); classify_sound ties the decision to 9 facts (AST shapes) from gateway_patch.go, "
             "swamp_patch.go, swamp_patch_expired.go, beacon.go; the model is run against real concurrent PatchTreasures (incl. creates with a seed), PatchExpiredTreasures (stopped at pexp.selected, between select and patches) and ShiftMatchingTreasures RPCs carrying the cap."),
    "note": ("Trusted: Lean kernel; extract/c12.go; harness/c12.go + rig + app/verifhook + swamp.VerifCapMuFree; records are abstracted to "
             "one bit (matches Cap.Filter); CountMatching is one atomic read under the beacon lock; PatchFields on one key is atomic under "
             "the record guard; ShiftMatching only removes records (model action `delete`): its capMu hold is tied by a fact but no theorem needs it (dropping it cannot raise the count)."),
    "design_ref": "§8 C12, Appendix E (cap batch)",
}

FINDINGS = {
    "C12-create-counts-as-prematched": "PatchFields computes the pre-state of a create from the InitialMsgpackOnCreate seed: a create whose "
                                       "seed matches Cap.Filter spends no budget and is never rejected",
    "C12-patchexpired-releases-capmu-early": "PatchExpired releases capMu after its count+select step: a second cap-bearing call counts before "
                                             "the selected records have been patched and spends the same budget again",
    "C12-patchexpired-counts-expiring-records-only": "PatchExpired takes its cap count over the expiration-time index only: records that match "
                                                     "Cap.Filter but carry no ExpiredAt (e.g. created by a cap-bearing PatchTreasures) are not counted, so one "
                                                     "sequential PatchExpired pushes the number of matching records above Cap.MaxMatching",
    "C12-count-before-capmu": "capPreCount counts the matching records before taking capMu: two concurrent cap-bearing PatchTreasures batches "
                              "both start from the same count and together push the number of matching records above Cap.MaxMatching",
}


def annotate(op, reply):
    """which waiting batch gets capMu when it is released is the Go runtime's choice: copy the observed order into the op"""
    if op.startswith("step ") and len(op.split()) == 2:
        order = [x[len("unblocked="):].split("@")[0] for x in reply.split() if x.startswith("unblocked=")]
        if order:
            return op + " u=" + ",".join(order)
    return op


def spec_trace(rep):
    """C12s: the log is the implementation's behaviour"""
    cap, held = None, None
    for op in rep["ops"]:
        w = op.split()
        if not w:
            continue
        if w[0] == "hang":
            return "a cap-bearing RPC never returned under concurrent load (log ends with `hang`)"
        if w[0] == "init" and len(w) > 1 and w[1].isdigit():
            cap = int(w[1])
        elif w[0] == "quiet" and len(w) == 2 and w[1].isdigit() and cap is not None and int(w[1]) > cap:
            return "at a quiescent point %s records match the cap's filter, the cap is %d (every operation of the run carried that cap)" % (w[1], cap)
        elif w[0] in ("lock", "xlock") and len(w) == 2:
            if held is not None:
                return "`%s`: two cap-bearing calls hold capMu at once (%s and %s)" % (op, held, w[1])
            held = w[1]
        elif w[0] in ("unlock", "xunlock") and len(w) == 2:
            held = None
    return None


def spec_violated(rep):
    if rep.get("correspondence") == "C12s":
        return spec_trace(rep)
    cap = None
    for op, line in zip(rep["ops"], rep["impl"]):
        w = op.split()
        if w and w[0] == "init" and len(w) > 1:
            try:
                cap = int(w[1])
            except ValueError:
                cap = None
        kv = dict(x.split("=", 1) for x in line.split() if "=" in x and not x.startswith("r="))
        try:
            if cap is not None and int(kv.get("m", "-1")) > cap:
                return "after `%s` %s records match the cap's filter, the cap is %d (%s)" % (op, kv["m"], cap, line)
        except ValueError:
            pass
        for bad in ("unexpected-", "unblocked-timeout", "done error"):
            if bad in line:
                return "`%s` → `%s`" % (op, line)
    return None


def run(ctx):
    facts, _, _ = K.extract_facts(ctx)
    K.lean_verdict(ctx)
    corrs = []
    if K.build_hx(ctx) and K.build_drv(ctx):
        args = ["%s=%s" % (k, facts.get(k, "unknown")) for k in ("countAfterLock", "createPreFalse", "expiredHoldsCapMu", "expiredCountsAll", "shiftReevaluatesFilter")]
        c = P.correspondence_observed(ctx, "C12", args, annotate)
        corrs.append(("C12", args, c))
        # genuinely concurrent cap-bearing RPCs (PatchTreasures, PatchExpired, Deletes in flight, ShiftMatching);
        # the hook log (batch lines written while capMu is held) must be a trace of the model
        targs = args + ["mode=trace"]
        ct = K.correspondence(ctx, "C12s", targs, drv_domain="C12")
        corrs.append(("C12s", targs, ct))
        ctx.cov["trace_inclusion"] = {"domain": "C12s", "log_lines": len(ct.ops), "rounds": len(ct.cases),
                                      "lines_rejected_by_model": len(ct.mismatch), "event_histogram": ct.op_hist}
    else:
        ctx.violation("harness does not build against the repository", {"correspondence": "C12", "log": getattr(ctx, "hx_log", "")[-2000:]},
                      tag="build", found_input=False)
    K.decide_standard(ctx, corrs, FINDINGS)
    K.report_mismatch(ctx, spec_violated)
    for name, dargs, c in corrs:
        if c.err or getattr(ctx, "confirmed", {}):
            continue
        for cs in c.cases:
            rep = K.case_replay(c, cs)
            rep["correspondence"], rep["drv_args"] = name, dargs
            why = spec_violated(rep)
            if why:
                ctx.violation("implementation violates the property: " + why, rep, tag="impl")
                break
    if ctx.thorough:
        ok, out = K.leanchecker(ctx, ["Hv.Props.C12", "Hv.Conc.CapLemmas", "Hv.Conc.Cap"])
        ctx.cov["leanchecker"] = "ok" if ok else out[-500:]
        if not ok:
            ctx.violation("leanchecker rejected the compiled proofs", {"log": out[-2000:]}, tag="leanchecker", found_input=False)
    c = corrs[0][2] if corrs else K.Corr()
    cells = {"P": 0, "X": 0}
    for l in c.impl:
        if " r=[" in l:
            for x in l.split(" r=[", 1)[1].split("]")[0].split(","):
                if x in cells:
                    cells[x] += 1
    return K.finish(
        ctx, "proof",
        rule=("cases = 3 corpus cases (the Lean witness; all four (pre,post) cells; budget exhaustion across two sequential batches) followed "
              "by random cases: 2..5 records, cap 1..3, initial matching <= cap, two batches of 1..3 SET-status patches, a random interleaving "
              "of their steps (count / lock / each patch / return) until both have returned; non-trivial = at least 3 ops; distinct = distinct "
              "op texts; each reply (stop reached or blocked, per-key results, CapReached, matching count, capMu state — all observed) is "
              "compared between the real RPCs and the Lean model"),
        samples=P.std_samples(c),
        evaluations=len(c.ops),
        distinct_nontrivial=K.distinct_cases(c),
        extra_cov={"correspondence": {"domain": "C12", "cases": len(c.cases), "op_lines": len(c.ops), "mismatching_lines": len(c.mismatch),
                                      "op_histogram": c.op_hist, "reply_histogram": c.reply_hist, "patch_results": cells,
                                      "blocked_on_capmu": sum(1 for l in c.impl if " blocked " in l),
                                      "lines_flagged_by_model": sum(1 for f in c.flags if f)}},
        trusted=["Lean 4.33.0 kernel", "axioms: propext, Quot.sound", "extract/c12.go", "harness/c12.go + rig + app/verifhook",
                 "one-bit record abstraction", "beacon lock / record guard atomicity"],
    )
