"""C30 — expiry semantics are consistent across every read and claim path."""
from . import common as K
from . import kvcommon as KV

META = {
    "level": "proof",
    "technique": ("Lean 4 theorems over all (expiry, now) pairs for the comparison extracted at every expiry-aware site (16 go/ast facts: "
                  "operator and zero guard of IsExpired, ShiftExpired, SelectExpiredForPatchWithCap, the five index-membership "
                  "guards, the ExpiredAt filter, IS_EMPTY, SetExpirationTime, patch-meta order, wire output); correspondence of an "
                  "executable model of the expiry-aware requests with the real gateway"),
    "text": ("Hv.Data.paths_agree: with `exp != 0 && exp < now` at every claim site and `exp != 0` at every index-membership site, all "
             "paths decide 'expired' exactly as the definition for ALL times, IS_EMPTY is exp = 0, clear wins over set; "
             "Hv.C30.holds_nonneg adds reply visibility for times >= 0 (wire_agrees_nonneg); not_holds_gt0 / preepoch_disagreement: "
             "with `> 0` on the wire a pre-epoch expiry is expired, indexed and invisible; not_holds_of_not_good: any deviating site "
             "(<=, missing guard, missing zero filter, swapped clear/set) has a closed witness; reload_exp: the expiry survives "
             "close + reload under either encoding; FailKeepsExpiry (fail_keeps_expiry / not_fail_keeps_expiry): a conditional Increment that "
             "answers 'not incremented' leaves every expiry as it was iff incFailClean — the one write path that bypasses the index; "
             "Full = Holds ∧ FailKeepsExpiry is what the verdict is about; stale_index_witness / preepoch_patch_witness: closed "
             "request-level witnesses."),
    "note": ("Trusted: Lean kernel; extract/c30.go; harness/c30.go + c06.go (GetByIndexStream through an in-process stream stub). The "
             "theorems are about mechanisms (the extracted predicates, the failure branch of Increment); the request-level clauses — ShiftExpired / "
             "GetByIndex / the ExpiredAt filter answer alike on every history, ordered reads are sorted, reload preserves the index — are "
             "TESTED (correspondence + the expiry oracle over implementation replies), not proved; that the handlers apply the predicates as modelled (index build and maintenance, "
             "claim walks, patch metadata) is validated by the correspondence run, not proved. Expiries of different keys are kept "
             "distinct (the index sort is unstable). Timing: past expiries may be arbitrarily close to the case base (requests run after it), future ones are >= 120 s away and every case ends with a real-time bracket (`within 60000`: answered `hang slow` on a machine too slow, which makes /verif/check re-run the case alone); the one expiry that passes during a case is bracketed by `within 2800` before and a wait that ends after it. "
             "NOT COVERED: Holds is a list of per-site equalities (IsExpired, ShiftExpired, SelectExpiredForPatchWithCap, five index-membership guards, the `<` filter, IS_EMPTY, SetExpirationTime, clear-over-set, wire) — of the filter operators only `ExpiredAt < ref` is in a theorem (le / gt / ge / ne / empty / notempty are exercised by fexp requests); there is no clause and no test for the claim re-validation under the record guard (swamp.go, shift of a record whose expiry moved between selection and claim), the ShiftMatching window or findTimeRangeBounds."),
    "design_ref": "§8 C30",
}

FINDINGS = {
    "C30-preepoch-expiry-invisible": ("an expiry before the Unix epoch (settable through PatchTreasures metadata, Increment metadata, and Set "
                                      "when it has a sub-second part) makes the record expired and indexed — ShiftExpired claims it, the "
                                      "ExpiredAt filter matches it — while Get / GetByIndex / Shift replies omit ExpiredAt (`> 0` test)"),
    "C30-failed-increment-leaves-trace": ("an Increment whose condition fails has already moved the record's ExpiredAt in memory without "
                                          "re-indexing it: Get and the ExpiredAt filter see an expired record that GetByIndex(EXPIRATION_TIME) "
                                          "and ShiftExpiredTreasures skip"),
}


def run(ctx):
    facts, _, _ = K.extract_facts(ctx)
    K.lean_verdict(ctx)
    known = K.known_ids(ctx.pid)
    corrs = []
    if K.build_hx(ctx) and K.build_drv(ctx):
        args = KV.drv_args({(k[3:] if k.startswith("kv.") else k): v for k, v in facts.items()})
        c = K.correspondence(ctx, "C30", args)
        corrs.append(("C30", args, c))
    else:
        ctx.violation("harness does not build against the repository", {"correspondence": "C30", "log": getattr(ctx, "hx_log", "")[-2000:]},
                      tag="build", found_input=False)
    K.decide_standard(ctx, corrs, FINDINGS)
    K.report_mismatch(ctx, expiry_oracle)
    c = corrs[0][2] if corrs else K.Corr()
    ostats, devs = ({}, [])
    if corrs and not c.err:
        ostats, devs = expiry_oracle_run(ctx, c, known)
    if ctx.thorough:
        ok, out = K.leanchecker(ctx, ["Hv.Props.C30", "Hv.Data.Expiry"])
        ctx.cov["leanchecker"] = "ok" if ok else out[-500:]
        if not ok:
            ctx.violation("leanchecker rejected the compiled proofs", {"log": out[-2000:]}, tag="leanchecker", found_input=False)
    flagged = {}
    for fl in c.flags:
        for f in fl:
            flagged[f] = flagged.get(f, 0) + 1
    samples = [{"ops": [c.ops[i] for i in cs][:10], "impl": [c.impl[i] for i in cs if i < len(c.impl)][:10]} for cs in c.cases[:2]]
    return K.finish(
        ctx, "proof",
        rule=("histories = 8 corpus cases (pre-epoch expiry through patch / Set / increment metadata; zero, epoch and clear; claim limits "
              "and patch-expired slide; an expiry that passes during a 3 s wait, expiries 50 ms and 1 µs in the past; reload; failed conditional increment) + random "
              "mixes of Set with expiry, PatchTreasures metadata (set / slide / clear, clear+set), Increment with expiry metadata, "
              "ShiftExpiredTreasures, PatchExpiredTreasures, GetByIndex(EXPIRATION_TIME asc/desc, from/limit), ExpiredAt filters "
              "(lt le gt ge ne IS_EMPTY IS_NOT_EMPTY against now / base / epoch), Get/GetAll/Delete, close+reload on persistent "
              "swamps; expiries are an hour / 50 ms / 1 µs before and an hour / two minutes after the case base, 1970+1 s, pre-epoch, epoch; every case ends with "
              "GetAll, GetByIndex, filter, ShiftExpired, GetAll; non-trivial = >= 3 ops; distinct = distinct case texts"),
        samples=samples,
        evaluations=len(c.ops),
        distinct_nontrivial=K.distinct_cases(c),
        extra_cov={"correspondence": {"domain": "C30", "cases": len(c.cases), "op_lines": len(c.ops),
                                      "mismatching_lines": len(c.mismatch), "op_histogram": c.op_hist,
                                      "lines_flagged_by_model": flagged},
                   "oracle": {"expiry_replies_judged": ostats.get("checked", 0), "expiry_request_lines": ostats.get("expiry_lines", 0),
                              "deviations": len(devs)}},
        trusted=["Lean 4.33.0 kernel", "axioms: propext, Classical.choice, Quot.sound", "extract/c30.go", "harness/c30.go, harness/c06.go"],
    )


# ---- independent oracle on implementation replies only ------------------------------------------
# Within one case it tracks, from GetAll replies alone, which keys exist and what expiry each shows,
# and checks the expiry-aware replies that directly follow a GetAll (no request in between):
# ShiftExpired(0) must return exactly the records GetAll showed with an expiry in the past, the
# `ExpiredAt < now` filter the same keys, GetByIndex(asc,0,0) the records with an expiry, oldest first.

SLACK_NS = 60_000_000_000     # a future expiry closer than this to the evaluation is not judged


def _tok(tok):
    """expiry token of a reply -> (era, n): era 0 = absolute ns (1970-ish or earlier), era 1 = relative to the case base"""
    return (0 if tok[0] == "a" else 1, int(tok[1:]))


def _past(tok, waited):
    """True / False / None (too close to call): every evaluation happens at base + waited or later, and
    (cases being short) well before base + waited + SLACK_NS"""
    if tok == "":
        return False
    era, n = _tok(tok)
    if era == 0:
        return True
    if n < waited:
        return True
    if n > waited + SLACK_NS:
        return False
    return None


_READS = ("get", "gbk", "count", "issw", "iske", "arek", "fexp", "getidx")


def expiry_case_devs(ops, impl, skip, stats=None):
    stats = stats if stats is not None else {}
    devs = []
    view = None          # key -> expiry token from the last GetAll, valid until the next mutating op
    before_close = None  # the view of a GetAll that a close directly followed
    tainted = "kind=mem" in ops[0]    # an in-memory swamp keeps nothing across a close
    waited = 0
    for i in range(1, min(len(ops), len(impl))):
        f = ops[i].split(" ")
        got = impl[i]
        if got.startswith("hang") or got == "skip":
            break
        if f[0] == "within":
            continue
        if f[0] == "busyshift":
            view = None
            continue
        if f[0] == "wait":
            waited += int(f[1]) * 1_000_000
            continue         # a wait changes no record: the view stays, `waited` moves
        if f[0] == "inc" and len(f) > 4 and f[4] != "-":
            tainted = True       # a failed conditional Increment may have left an unsaved expiry (listed finding of C05)
        if f[0] in ("close", "closeidle", "restart") and got == "ok":
            # GetAll / close / GetAll: every record keeps its expiry (and exists) across the reload
            before_close = view if (i > 1 and ops[i - 1] == "getall" and not tainted and i - 1 not in skip) else None
            view = None
            continue
        if f[0] == "getall" and got.startswith("getall"):
            view = {}
            for item in got.split(" ")[1:]:
                k, rec = item.split("=", 1)
                view[k] = rec.split("|")[5]
            if before_close is not None and i > 1 and ops[i - 1] in ("close", "closeidle", "restart"):
                stats["checked"] = stats.get("checked", 0) + 1
                if view != before_close:
                    want = " ".join("%s:%s" % (k, before_close[k] or "-") for k in sorted(before_close))
                    devs.append((i, ops[i], "the expiries shown before the close (" + want + ")", got))
            before_close = None
            continue
        if view is None or i in skip:
            if f[0] not in _READS:
                view = None
            continue
        verdicts = {k: _past(t, waited) for k, t in view.items()}
        decided = all(v is not None for v in verdicts.values())
        if f[0] == "shiftexp" and f[1] == "0" and got.startswith("shiftexp"):
            if decided:
                stats["checked"] = stats.get("checked", 0) + 1
                want = sorted(k for k, v in verdicts.items() if v)
                have = sorted(x.split("=", 1)[0] for x in got.split(" ")[1:])
                if want != have:
                    devs.append((i, ops[i], "shiftexp of exactly " + " ".join(want), got))
            view = None
        elif f[0] == "fexp" and f[1] == "lt" and len(f) > 2 and f[2] == "now" and got.startswith("fexp"):
            if decided:
                stats["checked"] = stats.get("checked", 0) + 1
                want = sorted(k for k, v in verdicts.items() if v)
                have = sorted(got.split(" ")[1:])
                if want != have:
                    devs.append((i, ops[i], "fexp " + " ".join(want), got))
        elif f[0] == "getidx" and f[1:] == ["asc", "0", "0"] and got.startswith("getidx"):
            stats["checked"] = stats.get("checked", 0) + 1
            withexp = [(_tok(t), k) for k, t in view.items() if t != ""]
            have = [x.split("=", 1)[0] for x in got.split(" ")[1:]]
            if len({e for e, _ in withexp}) == len(withexp):
                want = [k for _, k in sorted(withexp)]            # ordered: oldest expiry first
            else:
                want, have = sorted(k for _, k in withexp), sorted(have)   # equal expiries: order is open
            if want != have:
                devs.append((i, ops[i], "getidx in this order: " + " ".join(want), got))
        elif f[0] not in _READS:
            view = None
    return devs


def expiry_oracle(rep):
    flags = rep.get("flags") or []
    ops, impl = rep["ops"], rep["impl"]
    first = next((j for j, fl in enumerate(flags[:-1]) if fl), None)
    if first is not None:
        return None          # a hidden expiry may exist (listed finding): GetAll cannot serve as a view
    d = expiry_case_devs(ops, impl, set())
    for (j, op, exp, got) in d:
        if j == len(ops) - 1:
            return "`%s` answered `%s`; the records shown by the preceding GetAll require %s" % (op, got, exp)
    return None


def expiry_oracle_run(ctx, c, known):
    """always run; each case is judged up to its first mismatching line (inclusive) and up to the first
    line the model attributes to a finding (exclusive: a record whose expiry the wire hides would
    falsify the GetAll view)."""
    stats, devs = {}, []
    mism = set(c.mismatch)
    for cs in KV.cases_of(c):
        cut = len(cs)
        for j, i in enumerate(cs):
            if i in mism:
                cut = j + 1
                break
            if i < len(c.flags) and c.flags[i]:
                cut = j
                break
        ops = [c.ops[i] for i in cs[:cut]]
        impl = [c.impl[i] if i < len(c.impl) else "<missing>" for i in cs[:cut]]
        stats["expiry_lines"] = stats.get("expiry_lines", 0) + sum(
            1 for i in cs if c.ops[i].split(" ")[0] in ("shiftexp", "fexp", "getidx"))
        d = expiry_case_devs(ops, impl, set(), stats)
        for (j, op, exp, got) in d:
            devs.append({"case": ops[0], "op": op, "expected": exp, "got": got, "ops": ops[:j + 1], "impl": impl[:j + 1]})
    if devs:
        d = devs[0]
        ctx.violation("implementation violates the property (expiry oracle over its replies only): `%s` answered `%s`; the preceding GetAll requires %s"
                      % (d["op"], d["got"], d["expected"]),
                      {"correspondence": "C30", "ops": d["ops"], "impl": d["impl"], "deviations": len(devs)}, tag="impl")
    return stats, devs
