"""C24 — compression round-trips and never hides corruption (wrapper level; libraries are parameters)."""
from . import common as K

META = {
    "level": "proof",
    "technique": "Lean 4 theorem over all library behaviours (wrapper faithfulness) + go/ast fact tie + differential fuzz of wrapper vs. libraries",
    "text": ("Lean theorem Hv.C24.holds_of_allPropagate: for every library behaviour, algorithm and byte string the wrapper returns "
             "exactly the library's result (never turns an error into a success), so it inherits the library's round-trip and "
             "corruption detection; not_faithful_of_swallow refutes it whenever any error site returns a nil error. The libraries "
             "themselves are parameters: their round-trip and corruption detection are tested by the correspondence run, not proved "
             "(partial by construction, DESIGN §8 C24)."),
    "note": ("Trusted: Lean kernel (propext, Quot.sound); extract/c24.go (shape of the five `if e != nil { return nil, X }` sites); "
             "harness/c24.go. Assumed, tested only: gzip/lz4/snappy/zstd libraries round-trip and what they detect."),
    "design_ref": "§8 C24",
}

FINDINGS = {
    "C24-gzip-swallows-error": "decompressGzip returns its nil named result instead of the library error: corrupt gzip data yields (empty, nil)",
    "C24-snappy-no-checksum": "raw snappy blocks carry no checksum: a damaged block can decode to different data with no error",
    "C24-lz4-truncated-frame-header": "an lz4 frame cut at or before its first block-size field decodes to empty data with no error",
    "C24-lz4-missing-endmark-accepted": "an lz4 frame whose block size was enlarged ends without an end mark and decodes to the original plus trailing bytes with no error",
    "C24-zstd-empty-input": "a zstd frame truncated to zero bytes decodes to empty data with no error",
    "C24-lz4-lib-undetected-corruption": "a damaged lz4 frame decoded to different data with no error",
    "C24-gzip-lib-undetected-corruption": "a damaged gzip stream decoded to different data with no error",
    "C24-zstd-lib-undetected-corruption": "a damaged zstd frame decoded to different data with no error",
}


def spec_violated(rep):
    for op, line in zip(rep["ops"], rep["impl"]):
        f = op.split(" ")
        if f[0] == "dec" and line.startswith("ok") and line[3:] != f[2]:
            return "Decompress(%s) of damaged data returned different data with a nil error" % f[1]
        if f[0] in ("rt", "rtb", "rtc") and line != "ok":
            return "round trip through %s returned %s" % (f[1], line)
        if line == "panic":
            return "Decompress(%s) panicked" % f[1]
    return None


def run(ctx):
    facts, _, _ = K.extract_facts(ctx)
    K.lean_verdict(ctx)
    corrs = []
    if K.build_hx(ctx) and K.build_drv(ctx):
        args = ["%s=%s" % kv for kv in sorted(facts.items())]
        c = K.correspondence(ctx, "C24", args)
        corrs.append(("C24", args, c))
    else:
        ctx.violation("harness does not build against /repo", {"correspondence": "C24", "log": getattr(ctx, "hx_log", "")[-2000:]},
                      tag="build", found_input=False)
    K.decide_standard(ctx, corrs, FINDINGS)
    K.report_mismatch(ctx, spec_violated)
    if ctx.thorough:
        ok, out = K.leanchecker(ctx, ["Hv.Props.C24", "Hv.Misc.Compressor"])
        ctx.cov["leanchecker"] = "ok" if ok else out[-500:]
        if not ok:
            ctx.violation("leanchecker rejected the compiled proofs", {"log": out[-2000:]}, tag="leanchecker", found_input=False)
    c = corrs[0][2] if corrs else K.Corr()
    by_alg = {}
    for op, rep in zip(c.ops, c.impl):
        f = op.split(" ")
        if f[0] in ("dec", "rt", "rtb", "rtc"):
            lib = f[0] if f[0] != "dec" else ("lib-" + ("ok" if f[4].startswith("O:") else f[4]))
            k = "%s/%s/%s" % (f[1], lib, rep.split(" ")[0])
            by_alg[k] = by_alg.get(k, 0) + 1
    distinct = len(set(c.ops))
    return K.finish(
        ctx, "proof",
        rule=("inputs = random/compressible/run-length payloads (0..600 B quick, ..4000 B thorough) per algorithm; each compressed form is "
              "bit-flipped, overwritten, truncated, extended, tail-flipped or left intact; an op is non-trivial when it is a dec or rt line; "
              "distinct = distinct op lines; wrapper reply compared with the Lean wrapper model fed with the library's own verdict"),
        samples=[{"op": c.ops[i][:160], "impl": c.impl[i][:80]} for i in range(1, min(len(c.ops), len(c.impl), 6))] or [{"op": "none"}],
        evaluations=len(c.ops), distinct_nontrivial=max(distinct - 1, 0),
        extra_cov={"correspondence": {"domain": "C24", "op_lines": len(c.ops), "mismatching_lines": len(c.mismatch),
                                      "by_algorithm_lib_wrapper": by_alg,
                                      "lines_flagged_by_model": sum(1 for f in c.flags if f)}},
        trusted=["Lean 4.33.0 kernel", "axioms: propext, Quot.sound", "extract/c24.go", "harness/c24.go",
                 "ASSUMED (tested, not proved): gzip/lz4/snappy/zstd libraries"],
    )
