"""C26 — malformed requests fail cleanly without side effects."""
import json
import os
import re

from . import common as K

META = {
    "level": "proof",
    "technique": ("Lean 4: guard-program model of every gateway handler's validation prefix with Go's panic/defer/recover rules, "
                  "a static checker proved sound for all shapes (outcome_defined, counters_balanced, reject_pure) + go/ast extraction of "
                  "the guard programs of all 50 handlers + structural request generation through the in-process gateway"),
    "text": ("Theorems Hv.C26.outcome_defined / counters_balanced / reject_pure: for every handler program accepted by the checker, every "
             "request shape (any number of swamp entries, every combination of the inspected features) is answered by a response or a gRPC "
             "error, never (nil, nil) or an escaping panic; the safeops and vigil counters return to their pre-request value on every path "
             "including recovered and escaping panics, for every defer order; a request rejected by the prefix of a writing handler never "
             "entered the engine. not_holds_of_firstBad refutes the statement from a concrete shape when a program is unsafe. The programs "
             "are extracted from the AST on every run; the model's prediction (outcome class, error code and message, counters, store "
             "change) is compared with the real handler on generated requests. "
             "WHAT IS PROVED AND WHAT IS TESTED, clause by clause. "
             "(1) `defined` (an answer or a gRPC error, never (nil, nil) / an escaping panic): PROVED for the validation prefix of every handler "
             "and for the defer discipline around the engine call, under the hypothesis EnginesAnswer (the engine below the first engine call "
             "returns instead of panicking). Five engine facts are NOT under that hypothesis: they are `need` steps of the extracted programs, "
             "decided by the same checker, and a live one makes the verdict `violated`: negative paging offset unless the beacon clamps it; a "
             "non-writing handler must know the swamp exists before SummonSwamp creates it; a creating handler must exclude keys the V2 "
             "writer refuses; a summoning writer must exclude a swamp name the V2 header cannot carry; Lock must wait on its caller's context. "
             "Everything else the engine does is TESTED per request (every generated request, plus a panic injected at SummonSwamp). "
             "(2) `rejectPure` (a request the prefix of a writing handler rejects never entered the engine): PROVED. The wider reading "
             "\"a malformed request never corrupts stored data\" is NOT proved; it is TESTED: every touched swamp and the seeded swamps are closed, "
             "reloaded and compared (classes errchanged = error reply with a changed store, corrupt = a treasure the request did not address "
             "differs, lostack = an acknowledged write is not there after reload). "
             "(3) `balanced` (the server can still shut down): PROVED for the safeops system lock and the vigil counter, on every path including "
             "recovered and escaping panics, for every defer order. Record guards (treasure guards), business locks and hangs are NOT in the "
             "model; they are TESTED: every touched swamp must close (a leaked record guard blocks the close or the repeated request of mode f), "
             "StopHydra must return at the end of each case, every unary request carries a client deadline and must be back after it ended, a "
             "granted business lock must be releasable with the returned ID, and a Lock on a held key must end with its caller's context. "
             "The vigil clause is about the vigil the handler takes before its first engine call (flag v: every such BeginVigil is followed by "
             "its deferred CeaseVigil). Vigils taken INSIDE the engine part are below the model's `body` step: Delete re-summons the swamp for "
             "each remaining key when an earlier key emptied (and closed) the instance and takes a vigil for that one DeleteTreasure (repo 0f74b58; "
             "given back by a defer since 4c6ec17). A BeginVigil there that is NOT followed by its defer is listed by the extractor as an "
             "observation (evidence: fact_errors) — a panic inside the wrapped call would leave the vigil (witness plainCease_leaks); the only "
             "panic injection point, summon.enter, fires before such a vigil is taken, so this is not exercised. PatchTreasures' existence test "
             "before summoning (without CreateIfNotExist, repo 569b5c8) is an early success inside the engine part for the model: its `body` "
             "prediction admits the per-key KEY_NOT_FOUND answer, the block is checked to be free of panicking constructs."),
    "note": ("Trusted: Lean kernel (propext, Classical.choice, Quot.sound); extract/c26.go (statement shapes it accepts; anything else "
             "makes the handler unrecognised and the verdict undetermined); harness/c26.go (shape abstraction of a request, snapshot "
             "comparison). Assumed and only tested: the engine below the prefix does not panic; repeated message fields never hold nil "
             "(protobuf-go decoding). Every unary request carries a client context with a deadline (10 s; Lock on a held key: 400 ms); `hang` "
             "means: not back 50 s (Lock: 5 s) after that context ended. A granted business lock is unlocked at once with the returned ID, so no "
             "request waits for an earlier one; Lock TTL boundary values (0, 1, 1000, 1001, -1, MinInt64, MaxInt64, the clamp limit and limit+1) "
             "are explicit requests that must be granted (`expect=resp`, and for TTL > 10 s the lock must still be there when it is unlocked); "
             "Lock on a key held by another caller must come back with an error once its own context has ended (`expect=err`)."),
    "design_ref": "§8 C26",
}

SPEC_TEXT = {
    "nilnil": "the handler returned (nil, nil): no response and no error",
    "panic": "a panic left the handler (for DestroyBulk: in a worker goroutine, the process dies)",
}


def fields(line):
    """'<class…> p=.. lock=.. vig=.. store=.. close=..' -> (class, dict)"""
    toks = line.split(" ")
    cls, kv = [], {}
    for t in toks:
        if "=" in t and t.split("=", 1)[0] in ("p", "lock", "vig", "store", "close", "stop"):
            k, v = t.split("=", 1)
            kv[k] = v
        else:
            cls.append(t)
    return " ".join(cls), kv


def prefix_keys(facts):
    """rpc -> set of message keys the prefix itself can reject with"""
    out = {}
    ck = set(re.findall(r"rej:\w+:([\w~]+)", facts.get("checkName", "")))
    for h in facts.get("handlers", "").split("\n"):
        parts = h.split("|")
        if len(parts) != 5:
            continue
        ks = set(re.findall(r"rej:\w+:([\w~]+)", parts[3] + ";" + parts[4]))
        if "cn " in parts[3] + ";" + parts[4]:
            ks |= ck
        out[parts[0]] = ks
    return out


HAZARD_TAGS = ("-missingswamp", "-negfrom", "-badkey", "-ctxignored", "-name65k")


def compatible(op, impl, model, pkeys, flags=()):
    """model prediction vs implementation reply, field by field"""
    if impl == model:
        return True
    if not op.startswith("req "):
        return False
    rpc = op.split(" ")[1]
    ci, fi = fields(impl)
    cm, fm = fields(model)
    if any(f.endswith(t) for f in flags for t in HAZARD_TAGS) and impl_violation(op, impl):
        return True          # the model flags an engine fact (`need` step) here and the implementation shows the violation
    for k in ("p", "lock", "vig", "close"):
        if fi.get(k) != fm.get(k):
            return False
    if fi.get("store") in ("corrupt", "lostack"):
        return False
    if fm.get("store") != "any" and fi.get("store") != fm.get("store"):
        return False
    if ci == cm:
        return True
    if cm.startswith("bodyor "):
        if ci == cm[len("bodyor "):]:
            return True
        cm = "body"
    if cm == "body":
        if ci == "resp":
            return True
        if ci.startswith("err "):
            key = ci.split(" ")[2] if len(ci.split(" ")) > 2 else ""
            return key not in pkeys.get(rpc, set())
        return False
    # dynamic message (err.Error() of another error): code must agree
    if cm.startswith("err ") and cm.endswith(" ~") and ci.startswith("err "):
        return ci.split(" ")[1] == cm.split(" ")[1]
    return False


def impl_violation(op, line):
    """Spec oracle on the implementation's reply alone."""
    cls, kv = fields(line)
    rpc = op.split(" ")[1] if op.startswith("req ") else "?"
    injected = op.startswith("req ") and op.split(" ")[2] == "p"      # engine panic injected by the harness
    if cls == "nilnil" and injected:
        cls = "recovered"                                               # the expected outcome of a recovering handler
    if cls == "resp" and injected:
        return "%s: the injected engine panic did not reach the handler (harness)" % rpc
    if cls in ("nilnil", "panic"):
        return "%s: %s" % (rpc, SPEC_TEXT[cls])
    if cls == "hang":
        if kv.get("lock") == "1":
            return "%s never returned, not even after its caller's context had ended (it keeps the system lock, so the server can no longer shut down)" % rpc
        return "%s never returned, not even after its caller's context had ended (the handler's goroutine stays behind)" % rpc
    if cls == "lostlock":
        return "%s granted a lock with a TTL of more than ten seconds that was already gone when it was given back at once" % rpc
    lab = op.rsplit(" | m=", 1)[1] if " | m=" in op else ""
    if lab.endswith(":expect=resp") and cls != "resp":
        return "%s with %s must be granted (TTL is clamped to 1 s .. the largest representable duration), got: %s" % (rpc, lab.split(":")[0], cls)
    if lab.endswith(":expect=err") and not cls.startswith("err "):
        return "%s on a key held by another caller must come back with an error once its own context has ended, got: %s" % (rpc, cls)
    if kv.get("store") == "corrupt":
        return "%s damaged a stored treasure the request did not address" % rpc
    if kv.get("store") == "lostack":
        return "%s acknowledged a write (NEW / UPDATED / CREATED / PATCHED / incremented) of a key that is not there after close + reload" % rpc
    if kv.get("lock") == "1":
        return "%s left the safeops system lock held" % rpc
    if kv.get("vig") == "1":
        return "%s left a vigil active on a swamp" % rpc
    if kv.get("close") == "hang":
        return "a swamp touched by %s could not be closed" % rpc
    if cls.startswith("err ") and kv.get("store") == "changed":
        return "%s answered an error (%s) but the stored data changed" % (rpc, cls)
    if kv.get("stop") == "hang":
        return "StopHydra did not return"
    if cls in ("rig-error", "child-error") or cls.startswith("child-error") or cls.startswith("rig-error"):
        return "harness could not run the request: " + line
    return None


def shape_tag(op):
    sh = op.split(" | ", 1)[1] if " | " in op else ""
    ents = [t.split("=", 1)[1] for t in sh.split(" ") if t.startswith("e=")] or [t.split("=", 1)[1] for t in sh.split(" ") if t.startswith("top=")]
    short = any(re.match(r"p[12],ne0", e) for e in ents)
    empty = any(",ne1," in e for e in ents)
    if short:
        return "shortname"
    if empty:
        return "emptyname"
    if any(",kE," in e for e in ents):
        return "emptykeys"
    if any(",kN," in e for e in ents):
        return "nilkeys"
    if any(",x0," in e for e in ents):
        return "missingswamp"
    return "valid"


def engine_class(line):
    """short tag of what went wrong, for findings below the validation prefix"""
    cls, kv = fields(line)
    if cls in ("nilnil", "panic", "hang", "lostlock"):
        return cls
    if kv.get("store") == "corrupt":
        return "corrupt"
    if kv.get("store") == "lostack":
        return "lostack"
    if cls.startswith("err ") and kv.get("store") == "changed":
        return "errchanged"
    if kv.get("lock") == "1":
        return "lock"
    if kv.get("vig") == "1":
        return "vigil"
    if kv.get("close") == "hang":
        return "closehang"
    return "other"


def label_of(op):
    return op.rsplit(" | m=", 1)[1] if " | m=" in op else ""


def spec_violated(rep):
    for op, line in zip(rep["ops"], rep["impl"]):
        why = impl_violation(op, line)
        if why:
            return why + " (request: %s)" % op[:200]
    return None


def run(ctx):
    facts, _, errs = K.extract_facts(ctx)
    K.lean_verdict(ctx)
    corrs = []
    known = K.known_ids("C26")
    impl_findings = {}      # finding id -> replay (Spec oracle on implementation replies alone)
    c = K.Corr()
    if K.build_hx(ctx) and K.build_drv(ctx):
        args = ["%s=%s" % (k, facts.get(k, "unknown")) for k in ("loadChecksLen", "checkName", "handlers")]
        c = K.correspondence(ctx, "C26", args, timeout=1500)
        if not c.err:
            pk = prefix_keys(facts)
            still = []
            for i in c.mismatch:
                op = c.ops[i] if i < len(c.ops) else ""
                a = c.impl[i] if i < len(c.impl) else "<missing>"
                b = c.model[i] if i < len(c.model) else "<missing>"
                if not compatible(op, a, b, pk, c.flags[i] if i < len(c.flags) else ()):
                    still.append(i)
            c.mismatch = still
            # independent Spec oracle over every implementation reply.  A violation on a line the model
            # flags too is a prefix-level finding keyed by (rpc, shape); otherwise it happened below the
            # prefix (the model's engine parameter) and is keyed by (rpc, what went wrong) + the mutated field
            # a line the model flags because of an engine fact (`need` step) counts as reproduced only where the
            # implementation's own reply shows the violation (e.g. only the legacy engine persists the empty swamp)
            for i, fl in enumerate(c.flags):
                if fl and any(fl[0].endswith(t) for t in HAZARD_TAGS):
                    op = c.ops[i] if i < len(c.ops) else ""
                    if i < len(c.impl) and not impl_violation(op, c.impl[i]):
                        c.flags[i] = []
            engine_known = set()
            for i, line in enumerate(c.impl):
                op = c.ops[i] if i < len(c.ops) else ""
                why = impl_violation(op, line)
                if not why:
                    continue
                rpc = op.split(" ")[1] if op.startswith("req ") else "server"
                if i < len(c.flags) and c.flags[i]:
                    fid = c.flags[i][0]
                else:
                    fid = "C26-%s-engine-%s" % (rpc, engine_class(line))
                    ent = known.get(fid)
                    rx = ((ent or {}).get("signature") or {}).get("label_regex")
                    if ent is not None and rx and re.search(rx, label_of(op)):
                        engine_known.add(i)
                    elif ent is not None:
                        fid += "-" + (re.sub(r"\W+", "_", label_of(op)) or "unlabelled")   # same rpc, different input: new
                if fid not in impl_findings:
                    cs = K.case_of(c, i)
                    rep = {"ops": [c.ops[cs[0]], op], "impl": [c.impl[cs[0]], line],
                           "model": [c.model[cs[0]] if cs[0] < len(c.model) else "", c.model[i] if i < len(c.model) else ""],
                           "correspondence": "C26", "finding": fid, "what_fails": why}
                    impl_findings[fid] = rep
            # a recorded engine-level finding explains its own line: the model's assumption "the engine answers" is
            # what fails there, not the correspondence
            c.mismatch = [i for i in c.mismatch if i not in engine_known]
        corrs.append(("C26", args, c))
    else:
        ctx.violation("harness does not build against /repo", {"correspondence": "C26", "log": getattr(ctx, "hx_log", "")[-2000:]},
                      tag="build", found_input=False)
    texts = {}
    for fid in set(list(impl_findings) + list(ctx.lean.findings)):
        texts[fid] = (known.get(fid) or {}).get("what") or impl_findings.get(fid, {}).get("what_fails", fid)
    # findings classified from the facts are reported per (rpc, shape); a classified finding whose RPC the
    # harness cannot exercise stays a verdict-level finding
    K.decide_standard(ctx, corrs, texts, require_flag_for_verdict=True)
    K.report_mismatch(ctx, spec_violated)
    # Spec violations seen on the implementation that the model did not flag (or whose line mismatched)
    confirmed = getattr(ctx, "confirmed", {})
    for fid, rep in sorted(impl_findings.items()):
        if fid in confirmed or fid in ctx.lean.findings:
            continue
        if fid in known:
            ctx.known_hits.append((fid, known[fid].get("what", fid)))
        else:
            ctx.violation("implementation violates the property: " + rep["what_fails"], rep, tag=fid)
    if ctx.thorough:
        ok, out = K.leanchecker(ctx, ["Hv.Props.C26", "Hv.Misc.RequestLemmas", "Hv.Misc.RequestCheck", "Hv.Misc.Request"])
        ctx.cov["leanchecker"] = "ok" if ok else out[-500:]
        if not ok:
            ctx.violation("leanchecker rejected the compiled proofs", {"log": out[-2000:]}, tag="leanchecker", found_input=False)
    by_rpc, classes = {}, {}
    for op, rep in zip(c.ops, c.impl):
        if op.startswith("req "):
            rpc = op.split(" ")[1]
            cls = fields(rep)[0].split(" ")
            k = cls[0] + ("-" + cls[1] if len(cls) > 1 else "")
            by_rpc.setdefault(rpc, {})
            by_rpc[rpc][k] = by_rpc[rpc].get(k, 0) + 1
            classes[k] = classes.get(k, 0) + 1
    nreq = sum(1 for o in c.ops if o.startswith("req "))
    distinct = len(set(o for o in c.ops if o.startswith("req ")))
    hs = [h.split("|") for h in facts.get("handlers", "").split("\n") if h]
    return K.finish(
        ctx, "proof",
        rule=("requests = per RPC one valid base request and every single-field mutation of it (names: empty, 1/2/4 parts, empty parts, "
              "missing swamp, 300-char; key lists: absent, [\"\"], unknown, duplicate, 70000-byte key, and non-nil empty in-process; nil "
              "sub-messages; enums 0/max/99/-1; integer and float boundaries; malformed bytes; Cap variants; a second malformed entry after "
              "a valid one), name and key-list mutations first then a seeded sample up to the tier budget; a request is non-trivial when it "
              "differs from the base request; distinct = distinct (rpc, wire bytes, mode); after every request: outcome class, recovered "
              "panics, SystemLocked, HasActiveVigils, close + reload + compare of every touched swamp; StopHydra per case"),
        samples=[{"op": c.ops[i][:200], "impl": c.impl[i] if i < len(c.impl) else "", "model": c.model[i] if i < len(c.model) else ""}
                 for i in range(1, min(len(c.ops), 7))],
        evaluations=nreq, distinct_nontrivial=max(distinct - len(by_rpc), 0),
        extra_cov={"correspondence": {"domain": "C26", "rpcs_exercised": len(by_rpc), "request_lines": nreq, "mismatching_lines": len(c.mismatch),
                                      "reply_classes": classes, "by_rpc": by_rpc,
                                      "lines_flagged_by_model": sum(1 for f in c.flags if f)},
                   "handlers_extracted": len(hs), "handlers_unrecognised": [h[0] for h in hs if "u" in h[1]],
                   "defer_orders": sorted(set(h[2] for h in hs if len(h) > 2)),
                   "fact_errors": errs[:20]},
        trusted=["Lean 4.33.0 kernel", "axioms: propext, Classical.choice, Quot.sound", "extract/c26.go", "harness/c26.go",
                 "ASSUMED (tested, not proved): the engine below the validation prefix does not panic",
                 "ASSUMED: repeated message fields never contain nil (protobuf-go)"],
    )
