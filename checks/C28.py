"""C28 — lock bookkeeping does not grow without bound."""
from . import common as K
from . import proto_util as P

META = {
    "level": "proof",
    "technique": "Lean 4 inductive-invariant proof over the lock-map LTS (heap of queue objects + sync.Map) for the pruning variant, closed "
                 "counterexample + monotonicity theorem for the current code, go/ast fact tie, history correspondence counting map entries "
                 "on the real lock through a verif-only accessor",
    "text": ("Lean theorems Hv.C28.queues_pruned (with a dead-queue flag, deletion under it and retry of getQueue, every map entry is "
             "justified by a queued caller, an in-flight Lock call or a deletion under way; quiescent ⇒ map empty), safe_any (C14's "
             "granted = {head} and one live queue per key hold in the map model with and without pruning, in particular across the "
             "retry), refutes_current / witness_grows (closed witness: three keys locked and released, three entries remain) and "
             "current_never_shrinks (without pruning |map| = number of queue objects ever created, for every schedule); classify_sound "
             "ties the decision to the facts (no deleting call on lock.queues); the model is compared with the real lock on generated "
             "lock/unlock/expiry/cancel histories over up to 12 keys."),
    "note": ("SCOPE: the property's statement and anchors are the business lock (app/core/hydra/lock/lock.go: the per-key queue map); "
             "that is what is proved and exercised here. NOT covered although the title says `guard`: the swamp's in-flight-create tracker "
             "`creatingTreasures` (swamp.go; an entry is stored by CreateTreasure and deleted by the first Save — a create whose operation "
             "fails before Save, e.g. a failed increment/patch on a new key, can leave its entry until the swamp closes; swamp_patch.go "
             "removes it explicitly, the Increment* paths are not checked by this property) and the per-treasure guard queues. "
             "Trusted: Lean kernel; extract/c28.go; harness/c28.go + lock.VerifQueueCount; sync.Map Load/LoadOrStore/CompareAndDelete "
             "are atomic; the queue-level shape is C14's (facts wake/wakeOnlyIfHead re-extracted). The correspondence runs histories (as the property quantifies) plus the one interleaving that matters to pruning — a caller stopped between getQueue and enqueue while its queue is emptied (hook lock.gotq) — other interleavings of the map protocol are covered by the theorems and by C14's forced schedules / C14s trace inclusion on the same code. The property's title also names guard bookkeeping: treasure guards are fields of their treasure object (guard.New() per treasure, no registry map), freed with the treasure — there is no per-key guard state to prune."),
    "design_ref": "§8 C28, Appendix E (business lock)",
}

FINDINGS = {
    "C28-queues-never-pruned": "lock.queues is never pruned: after all locks are released the map keeps one empty queue per distinct key ever locked",
}


def annotate(op, reply):
    if op.startswith("lockc ") and reply.startswith("lockc "):
        w = reply.split()
        if len(w) > 2 and w[2] in ("acq", "cancel"):
            return op + " " + w[2]
    return op


def spec_safety(rep):
    """mutual exclusion / liveness on the implementation's replies"""
    for op, line in zip(rep["ops"], rep["impl"]):
        w = dict(x.split("=", 1) for x in line.split() if "=" in x)
        try:
            if int(w.get("residual", "0")) > 0:
                return ("after `%s` %s caller(s) whose Lock call returned an error are still queued (%s): nobody can "
                        "unlock them, their keys stay locked and their queues can never be pruned" % (op, w["residual"], line))
        except ValueError:
            pass
        try:
            if int(w.get("holders", "0")) > 1:
                return "after `%s` %s callers hold the same key at once (%s)" % (op, w["holders"], line)
        except ValueError:
            pass
        for bad in ("panic", "unexpected-", "stuck="):
            if bad in line:
                return "`%s` → `%s`" % (op, line)
    return None


def spec_prune(rep):
    for op, line in zip(rep["ops"], rep["impl"]):
        w = dict(x.split("=", 1) for x in line.split() if "=" in x)
        try:
            if int(w.get("queued", "1")) == 0 and int(w.get("inflight", "0")) == 0 and int(w.get("entries", "0")) > 0:
                return "after `%s` nothing is queued on any key but the queue map holds %s entries (%s)" % (op, w["entries"], line)
        except ValueError:
            pass
    return None


def spec_trace(rep):
    """C28s: the log is the implementation's behaviour"""
    for op in rep["ops"]:
        w = op.split()
        if w and w[0] == "hang":
            return "a Lock call never returned under concurrent load (log ends with `hang`)"
        if len(w) == 3 and w[0] == "count" and w[2] == "0" and w[1] != "0":
            return "at a quiescent point nothing is queued on any key but the queue map holds %s entries" % w[1]
    # two queue objects of one key holding callers at the same time
    live = {}
    for op in rep["ops"]:
        w = op.split()
        if len(w) == 4 and w[0] == "dead":
            # (logged before the map delete; the `rm` line of the same removal follows it)
            live.setdefault(w[1], {})[w[2]] = False
        if len(w) == 6 and w[0] in ("enq", "rm") and w[5].startswith("c=["):
            key, q = w[1], w[2]
            live.setdefault(key, {})[q] = w[5] != "c=[]"
            if sum(1 for v in live[key].values() if v) > 1:
                return "after `%s` two queue objects of key %s hold callers at once: both heads believe they own the key" % (op, key)
    return None


def spec_violated(rep):
    if rep.get("correspondence") == "C28s":
        return spec_trace(rep)
    return spec_safety(rep) or spec_prune(rep)


def run(ctx):
    facts, _, _ = K.extract_facts(ctx)
    K.lean_verdict(ctx)
    corrs = []
    if K.build_hx(ctx) and K.build_drv(ctx):
        prune = "yes" if (facts.get("pruneVariant") == "yes" and facts.get("deleteCalls") not in ("0", "unknown")) else "no"
        args = ["prune=" + prune]
        c = P.correspondence_observed(ctx, "C28", args, annotate)
        corrs.append(("C28", args, c))
        # genuinely concurrent run; the hook log (each line written under the queue's own mutex) must be a
        # trace of the lock-map model
        targs = args + ["mode=trace"]
        ct = K.correspondence(ctx, "C28s", targs, drv_domain="C28")
        corrs.append(("C28s", targs, ct))
        ctx.cov["trace_inclusion"] = {"domain": "C28s", "log_lines": len(ct.ops), "rounds": len(ct.cases),
                                      "lines_rejected_by_model": len(ct.mismatch), "event_histogram": ct.op_hist}
    else:
        ctx.violation("harness does not build against the repository", {"correspondence": "C28", "log": getattr(ctx, "hx_log", "")[-2000:]},
                      tag="build", found_input=False)
    K.decide_standard(ctx, corrs, FINDINGS)
    K.report_mismatch(ctx, spec_violated)
    # the Spec oracle over the whole run (implementation replies only), independent of the model
    for name, dargs, c in corrs:
        if c.err:
            continue
        pruned_seen = False
        for cs in c.cases:
            rep = K.case_replay(c, cs)
            rep["correspondence"], rep["drv_args"] = name, dargs
            why = spec_trace(rep) if rep.get("correspondence") == "C28s" else spec_safety(rep)
            if why:
                ctx.violation("implementation violates the property: " + why, rep, tag="impl")
                break
            if rep.get("correspondence") == "C28s":
                continue
            if not pruned_seen and "C28-queues-never-pruned" not in getattr(ctx, "confirmed", {}):
                why = spec_prune(rep)
                if why:
                    pruned_seen = True
                    ctx.violation("implementation violates the property: " + why, rep, tag="impl")
    if ctx.thorough:
        ok, out = K.leanchecker(ctx, ["Hv.Props.C28", "Hv.Conc.LockMapLemmas", "Hv.Conc.LockMap"])
        ctx.cov["leanchecker"] = "ok" if ok else out[-500:]
        if not ok:
            ctx.violation("leanchecker rejected the compiled proofs", {"log": out[-2000:]}, tag="leanchecker", found_input=False)
    c = corrs[0][2] if corrs else K.Corr()
    maxe = 0
    for l in c.impl:
        for x in l.split():
            if x.startswith("entries="):
                try:
                    maxe = max(maxe, int(x[8:]))
                except ValueError:
                    pass
    return K.finish(
        ctx, "proof",
        rule=("histories = 2 corpus cases (the Lean witness; TTL/cancel releases) followed by random sequences of lock K long|short / unlock S / "
              "expire S / cancel S / count over 1..12 keys (4..33 ops quick, ..83 thorough), each ending with a release of everything and a "
              "count; non-trivial = at least 3 ops; distinct = distinct op texts; each reply (event, map entries, queued callers) is compared "
              "between the real lock and the Lean model"),
        samples=P.std_samples(c),
        evaluations=len(c.ops),
        distinct_nontrivial=K.distinct_cases(c),
        extra_cov={"correspondence": {"domain": "C28", "cases": len(c.cases), "op_lines": len(c.ops), "mismatching_lines": len(c.mismatch),
                                      "op_histogram": c.op_hist, "reply_histogram": c.reply_hist, "max_map_entries_seen": maxe,
                                      "lines_flagged_by_model": sum(1 for f in c.flags if f)}},
        trusted=["Lean 4.33.0 kernel", "axioms: propext, Classical.choice, Quot.sound", "extract/c28.go", "harness/c28.go + lock.VerifQueueCount",
                 "sync.Map atomicity", "C14 queue-level facts"],
    )
