"""Helpers shared by the checks C20, C21, C22, C27 (kept out of common.py on purpose)."""
import os

from . import common as K


def extract_facts(ctx):
    """common.extract_facts now passes -out itself; kept as a thin alias for the four checks."""
    return K.extract_facts(ctx)


def fact_args(facts):
    return ["%s=%s" % kv for kv in sorted(facts.items())]


def run_corr(ctx, domain, facts, **kw):
    """build hx + drv and run one correspondence domain; returns the list for decide_standard"""
    corrs = []
    if K.build_hx(ctx) and K.build_drv(ctx):
        args = fact_args(facts)
        c = K.correspondence(ctx, domain, args, **kw)
        corrs.append((domain, args, c))
    else:
        ctx.violation("harness or driver does not build against the repository",
                      {"correspondence": domain, "log": getattr(ctx, "hx_log", "")[-2000:]},
                      tag="build", found_input=False)
    return corrs


def leancheck(ctx, modules):
    if ctx.thorough:
        ok, out = K.leanchecker(ctx, modules)
        ctx.cov["leanchecker"] = "ok" if ok else out[-500:]
        if not ok:
            ctx.violation("leanchecker rejected the compiled proofs", {"log": out[-2000:]}, tag="leanchecker", found_input=False)


def oracle_sweep(ctx, c, domain, drv_args, oracle, covered_by=()):
    """Run the implementation-only Spec oracle over every case of a clean correspondence.
    oracle(replay dict) -> (finding id or None, text) | None.  A hit whose finding id is a known,
    confirmed finding is not reported again; anything else is a VIOLATION with the case as replay."""
    if c.err:
        return 0
    hits = 0
    for cs in c.cases:
        rep = K.case_replay(c, cs)
        r = oracle(rep)
        if not r:
            continue
        fid, text = r
        hits += 1
        if fid and (fid in getattr(ctx, "confirmed", {}) or fid in K.known_ids(ctx.pid)):
            continue    # decide_standard already reported it (as KNOWN-FINDING or as VIOLATION) / a recorded finding
        if fid and fid in covered_by:
            continue
        rep.update({"correspondence": domain, "drv_args": list(drv_args), "oracle": text})
        ctx.violation("implementation violates the property: " + text, rep, tag=fid or "impl")
        break
    return hits
