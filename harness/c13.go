package main

// Domain C13: the real msgpackpatch package (Parse / ApplyWithCondition) and, for a subset,
// swamp.PatchFields end-to-end on a treasure of an in-process hydra.
//
// ops:   case N
//        parse HEX                        → ok TREE | err CLASS
//        ap BODY COND OP…                 → out HEX wf=0/1 | err CLASS | panic
//        pf STORED CREATE SEED COND OP…   → st=N absent|other|b:HEX wf=0/1 new=HEX|- | panic
// COND = `-` | op:pathhex:thresholdhex      OP = kind:pathhex:valuehex     empty hex = `-`/""
// TREE = L<hex> | M{<keyhex>:TREE,…} | A[TREE,…]
// wf   = does the REAL parser accept the output body
//
// Generated documents: depth ≤ 4, every leaf code, every header width (also non-minimal),
// duplicate keys, keys the path grammar cannot name.  Op lists mix valid and malformed values
// and paths (negative / out-of-range indices, through non-containers, missing intermediates).
// Declared 32-bit lengths/counts stay small: msgpackpatch and the msgpack library size
// allocations by them before reading (see known finding C13-prealloc-untrusted-count; those
// inputs are exercised in a memory-limited child by the `probe` lines only).

import (
	"bufio"
	"bytes"
	"context"
	"encoding/binary"
	"encoding/hex"
	"errors"
	"fmt"
	"math"
	"math/rand"
	"strconv"
	"strings"
	"time"

	"github.com/hydraide/hydraide/app/core/hydra/swamp"
	"github.com/hydraide/hydraide/app/core/hydra/swamp/treasure"
	"github.com/hydraide/hydraide/app/core/hydra/swamp/treasure/msgpackpatch"
	"github.com/hydraide/hydraide/app/core/settings"
	"github.com/hydraide/hydraide/app/name"
	hydrapb "github.com/hydraide/hydraide/sdk/go/hydraidego/v3/hydraidepbgo"
	"google.golang.org/protobuf/types/known/timestamppb"
)

func init() { Register("C13", Domain{Gen: c13Gen, Run: c13Run}) }

// ---------------------------------------------------------------- document model (generator side)

type c13Node struct {
	kind int // 0 leaf, 1 map, 2 array
	raw  []byte
	keys [][]byte
	kids []*c13Node
	hdr  int   // container header: 0 minimal, 1 16-bit, 2 32-bit
	khdr []int // key header: 0 minimal, 1 str8, 2 str16, 3 str32
}

func c13be(k int, n uint64) []byte {
	b := make([]byte, 8)
	binary.BigEndian.PutUint64(b, n)
	return b[8-k:]
}

func c13StrHdr(n int, w int, fix, c8, c16, c32 byte) []byte {
	switch {
	case w == 0 && n < 32 && fix != 0:
		return []byte{fix | byte(n)}
	case w <= 1 && n < 256 && c8 != 0:
		return append([]byte{c8}, c13be(1, uint64(n))...)
	case w <= 2 && n < 65536:
		return append([]byte{c16}, c13be(2, uint64(n))...)
	}
	return append([]byte{c32}, c13be(4, uint64(n))...)
}

func c13CountHdr(n, w int, fix, c16, c32 byte) []byte {
	switch {
	case w == 0 && n < 16:
		return []byte{fix | byte(n)}
	case w <= 1 && n < 65536:
		return append([]byte{c16}, c13be(2, uint64(n))...)
	}
	return append([]byte{c32}, c13be(4, uint64(n))...)
}

func (n *c13Node) enc() []byte {
	switch n.kind {
	case 0:
		return n.raw
	case 1:
		out := c13CountHdr(len(n.kids), n.hdr, 0x80, 0xde, 0xdf)
		for i, k := range n.kids {
			out = append(out, c13StrHdr(len(n.keys[i]), n.khdr[i], 0xa0, 0xd9, 0xda, 0xdb)...)
			out = append(out, n.keys[i]...)
			out = append(out, k.enc()...)
		}
		return out
	}
	out := c13CountHdr(len(n.kids), n.hdr, 0x90, 0xdc, 0xdd)
	for _, k := range n.kids {
		out = append(out, k.enc()...)
	}
	return out
}

func c13Bytes(rng *rand.Rand, n int) []byte {
	b := make([]byte, n)
	for i := range b {
		if rng.Intn(3) == 0 {
			b[i] = byte(rng.Intn(256))
		} else {
			b[i] = "abcxyz019_"[rng.Intn(10)]
		}
	}
	return b
}

var c13Floats64 = []uint64{
	0, 0x8000000000000000, 0x3ff0000000000000, 0xbff0000000000000, 0x7ff0000000000000, 0xfff0000000000000,
	0x7ff8000000000000, 0x7ff8000000000001, 0xfff8000000000000, 0x7ff0000000000001, 0x0000000000000001,
	0x000fffffffffffff, 0x0010000000000000, 0x7fefffffffffffff, 0x7fe0000000000000, 0x4340000000000000,
	0x3ca0000000000000, 0x3ff0000000000001, 0x36a0000000000000, 0x369fffffffffffff, 0x47efffffe0000000,
	0x47effffff0000000, 0x380fffffe0000000, 0x3810000000000000, 0x400921fb54442d18,
}
var c13Floats32 = []uint32{
	0, 0x80000000, 0x3f800000, 0xbf800000, 0x7f800000, 0xff800000, 0x7fc00000, 0x7fc00001, 0x7f800001,
	0x00000001, 0x007fffff, 0x00800000, 0x7f7fffff, 0x4b800000, 0x33800000, 0x40490fdb,
}

func c13F64(rng *rand.Rand) uint64 {
	switch rng.Intn(4) {
	case 0:
		return c13Floats64[rng.Intn(len(c13Floats64))]
	case 1:
		return math.Float64bits(float64(rng.Intn(2000)-1000) / 8)
	case 2:
		return math.Float64bits(math.Ldexp(rng.Float64()*2-1, rng.Intn(2200)-1100))
	}
	return rng.Uint64()
}

func c13F32(rng *rand.Rand) uint32 {
	switch rng.Intn(4) {
	case 0:
		return c13Floats32[rng.Intn(len(c13Floats32))]
	case 1:
		return math.Float32bits(float32(rng.Intn(2000)-1000) / 8)
	case 2:
		return math.Float32bits(float32(math.Ldexp(rng.Float64()*2-1, rng.Intn(300)-150)))
	}
	return rng.Uint32()
}

// far-apart operands: MinInt64, MinInt64+1, -1, 0, 1, MaxInt64 (= 2^63-1), 2^63, MaxUint64
var c13Boundary = []uint64{0x8000000000000000, 0x8000000000000001, 0xffffffffffffffff, 0, 1, 0x7fffffffffffffff, 10, 0xfffffffffffffff6}

func c13IntPattern(rng *rand.Rand, k int) uint64 {
	if k == 8 && rng.Intn(3) == 0 {
		return c13Boundary[rng.Intn(len(c13Boundary))]
	}
	switch rng.Intn(5) {
	case 0:
		return uint64(rng.Intn(4))
	case 1:
		return ^uint64(0) - uint64(rng.Intn(3)) // -1, -2, -3 / max
	case 2:
		return (uint64(1) << uint(8*k-1)) - uint64(rng.Intn(2)) // sign boundary
	case 3:
		return uint64(rng.Intn(200))
	}
	return rng.Uint64()
}

// one complete leaf value; kind selects the format code family
func c13Leaf(rng *rand.Rand) []byte {
	switch rng.Intn(36) {
	case 0, 1:
		return []byte{byte(rng.Intn(128))} // positive fixint
	case 2:
		return []byte{byte(0xe0 + rng.Intn(32))} // negative fixint
	case 3:
		return []byte{0xc0}
	case 4:
		return []byte{0xc2}
	case 5:
		return []byte{0xc3}
	case 6, 7: // fixstr
		n := rng.Intn(32)
		if rng.Intn(3) > 0 {
			n = rng.Intn(6)
		}
		return append([]byte{0xa0 | byte(n)}, c13Bytes(rng, n)...)
	case 8: // str8 — around the 31/32 boundary too
		n := []int{0, 1, 31, 32, 33, 40}[rng.Intn(6)]
		return append([]byte{0xd9, byte(n)}, c13Bytes(rng, n)...)
	case 9:
		n := []int{0, 3, 255, 256, 257}[rng.Intn(5)]
		if rng.Intn(2) == 0 {
			n = rng.Intn(8)
		}
		return append(append([]byte{0xda}, c13be(2, uint64(n))...), c13Bytes(rng, n)...)
	case 10:
		n := rng.Intn(10)
		return append(append([]byte{0xdb}, c13be(4, uint64(n))...), c13Bytes(rng, n)...)
	case 11:
		n := rng.Intn(12)
		return append([]byte{0xc4, byte(n)}, c13Bytes(rng, n)...)
	case 12:
		n := rng.Intn(12)
		return append(append([]byte{0xc5}, c13be(2, uint64(n))...), c13Bytes(rng, n)...)
	case 13:
		n := rng.Intn(12)
		return append(append([]byte{0xc6}, c13be(4, uint64(n))...), c13Bytes(rng, n)...)
	case 14:
		return append([]byte{0xca}, c13be(4, uint64(c13F32(rng)))...)
	case 15, 16:
		return append([]byte{0xcb}, c13be(8, c13F64(rng))...)
	case 17, 18, 19, 20: // uint8..64
		k := 1 << uint(rng.Intn(4))
		code := map[int]byte{1: 0xcc, 2: 0xcd, 4: 0xce, 8: 0xcf}[k]
		return append([]byte{code}, c13be(k, c13IntPattern(rng, k))...)
	case 21, 22, 23, 24: // int8..64
		k := 1 << uint(rng.Intn(4))
		code := map[int]byte{1: 0xd0, 2: 0xd1, 4: 0xd2, 8: 0xd3}[k]
		return append([]byte{code}, c13be(k, c13IntPattern(rng, k))...)
	case 25: // fixext 1/2/4/8/16, type: time (-1) or other
		i := rng.Intn(5)
		n := 1 << uint(i)
		ty := byte(rng.Intn(256))
		if rng.Intn(2) == 0 {
			ty = 0xff
		}
		return append([]byte{0xd4 + byte(i), ty}, c13Bytes(rng, n)...)
	case 26: // ext8
		n := []int{0, 3, 4, 8, 12, 5}[rng.Intn(6)]
		ty := byte(rng.Intn(256))
		if rng.Intn(2) == 0 {
			ty = 0xff
		}
		return append([]byte{0xc7, byte(n), ty}, c13Bytes(rng, n)...)
	case 27:
		n := []int{0, 4, 12, 7}[rng.Intn(4)]
		return append(append(append([]byte{0xc8}, c13be(2, uint64(n))...), 0xff), c13Bytes(rng, n)...)
	case 28:
		n := []int{0, 8, 12, 2}[rng.Intn(4)]
		return append(append(append([]byte{0xc9}, c13be(4, uint64(n))...), byte(rng.Intn(256))), c13Bytes(rng, n)...)
	case 29, 30: // 64-bit integers from the boundary table
		return append([]byte{[]byte{0xd3, 0xcf}[rng.Intn(2)]}, c13be(8, c13Boundary[rng.Intn(len(c13Boundary))])...)
	case 31: // narrow typed numbers (INC must keep them narrow)
		return [][]byte{{0xd0, 0xcc}, {0xcc, 0xfe}, {0xd1, 0x7f, 0xff}, {0xcd, 0xff, 0xff}, {0xca, 0x3f, 0x80, 0, 0}, {0xd2, 0x80, 0, 0, 0}}[rng.Intn(6)]
	}
	return []byte{byte(rng.Intn(128))}
}

var c13KeyPool = []string{"a", "b", "c", "d", "k1", "x", "y", "n", "tags", "m", "v0", "A_b"}

func c13Key(rng *rand.Rand) []byte {
	switch rng.Intn(20) {
	case 0:
		return []byte{} // empty key: not nameable by a path
	case 1:
		return []byte("p.q")
	case 2:
		return []byte("e[0]")
	case 3:
		return []byte("#len")
	case 4:
		return c13Bytes(rng, 1+rng.Intn(3))
	case 5:
		return bytes.Repeat([]byte("L"), []int{31, 32, 33}[rng.Intn(3)])
	}
	return []byte(c13KeyPool[rng.Intn(len(c13KeyPool))])
}

func c13Tree(rng *rand.Rand, depth int, budget *int) *c13Node {
	if depth <= 0 || *budget <= 0 || rng.Intn(10) < 4 {
		*budget--
		return &c13Node{kind: 0, raw: c13Leaf(rng)}
	}
	n := &c13Node{kind: 1 + rng.Intn(2)}
	if rng.Intn(6) == 0 {
		n.hdr = 1 + rng.Intn(2)
	}
	cnt := rng.Intn(5)
	if rng.Intn(12) == 0 {
		cnt = 15 + rng.Intn(3) // fixmap/map16 boundary
	}
	for i := 0; i < cnt && *budget > 0; i++ {
		if n.kind == 1 {
			k := c13Key(rng)
			if len(n.keys) > 0 && rng.Intn(8) == 0 {
				k = n.keys[rng.Intn(len(n.keys))] // duplicate key
			}
			n.keys = append(n.keys, k)
			w := 0
			if rng.Intn(6) == 0 {
				w = 1 + rng.Intn(3)
			}
			n.khdr = append(n.khdr, w)
		}
		if n.kind == 2 && len(n.kids) > 0 && rng.Intn(5) == 0 {
			n.kids = append(n.kids, n.kids[rng.Intn(len(n.kids))]) // an element twice (REMOVE_VAL: the first match only)
			*budget--
			continue
		}
		n.kids = append(n.kids, c13Tree(rng, depth-1, budget))
	}
	return n
}

func c13Doc(rng *rand.Rand) *c13Node {
	budget := 4 + rng.Intn(14)
	switch rng.Intn(20) {
	case 0:
		return &c13Node{kind: 0, raw: c13Leaf(rng)} // non-container body
	case 1:
		t := c13Tree(rng, 3, &budget)
		return t
	}
	for {
		t := c13Tree(rng, 4, &budget)
		if t.kind == 1 {
			return t
		}
		budget = 4 + rng.Intn(14)
	}
}

// ---------------------------------------------------------------- paths

type c13Addr struct {
	path string
	node *c13Node
}

func c13Nameable(k []byte) bool {
	if len(k) == 0 || k[0] == '#' {
		return false
	}
	return !bytes.ContainsAny(k, ".[]")
}

// every node a path can name (first match among duplicate keys), root excluded
func c13Collect(n *c13Node, prefix string, out *[]c13Addr) {
	switch n.kind {
	case 1:
		seen := map[string]bool{}
		for i, k := range n.keys {
			if !c13Nameable(k) || seen[string(k)] {
				continue
			}
			seen[string(k)] = true
			p := string(k)
			if prefix != "" {
				p = prefix + "." + p
			}
			*out = append(*out, c13Addr{p, n.kids[i]})
			c13Collect(n.kids[i], p, out)
		}
	case 2:
		if prefix == "" {
			return
		}
		for i, k := range n.kids {
			p := fmt.Sprintf("%s[%d]", prefix, i)
			if c13NegSpell(i) {
				p = fmt.Sprintf("%s[%d]", prefix, i-len(n.kids))
			}
			*out = append(*out, c13Addr{p, k})
			c13Collect(k, p, out)
		}
	}
}

// deterministic mix of positive and negative index spellings
func c13NegSpell(i int) bool { return i%3 == 2 }

var c13BadPaths = []string{"", ".", "a..b", "a.", ".a", "a[", "a[*]", "#len", "a.#len", "a[1]x", "[0]", "a]", "a[]]", "a[1", "a[x]",
	"a[+1]", "a[-0]", "a[99999999999999999999]", "a[-9223372036854775808]", "a[9223372036854775807]", "a[9223372036854775808]",
	"a[0][0]", "a[][]", "a[].b", "a[ 1]", "a[1_0]", "a[0x1]", "a[--1]", "tags[]", "tags[0]", "tags[-1]", "m.x", "a[00]", "a[-01]"}

func c13Path(rng *rand.Rand, addrs []c13Addr) (string, *c13Node) {
	r := rng.Intn(100)
	if len(addrs) == 0 || r < 8 {
		if rng.Intn(2) == 0 {
			return c13BadPaths[rng.Intn(len(c13BadPaths))], nil
		}
		return []string{"q", "q.w", "q.w.e", "q[]", "q.w[]", "q[0]", "q.w[0].e", "q[].w"}[rng.Intn(8)], nil
	}
	a := addrs[rng.Intn(len(addrs))]
	nk := c13KeyPool[rng.Intn(len(c13KeyPool))]
	switch {
	case r < 55:
		return a.path, a.node
	case r < 63:
		return a.path + "." + nk, nil
	case r < 69:
		return a.path + "." + nk + ".z", nil
	case r < 72:
		return a.path + "." + nk + ".z[]", nil
	case r < 80:
		return a.path + "[]", a.node
	case r < 88:
		n := len(a.node.kids)
		i := []int{0, n - 1, n, n + 1, -1, -n, -n - 1, 1}[rng.Intn(8)]
		return fmt.Sprintf("%s[%d]", a.path, i), nil
	case r < 92:
		return a.path + "." + nk + "[]", nil
	case r < 95:
		return a.path + "[0]." + nk, nil
	case r < 97:
		return a.path + "[].x", nil
	}
	return a.path + c13BadPaths[rng.Intn(len(c13BadPaths))], nil
}

// ---------------------------------------------------------------- values

func c13ValidValue(rng *rand.Rand) []byte {
	if rng.Intn(5) == 0 {
		b := 2 + rng.Intn(4)
		return c13Tree(rng, 2, &b).enc()
	}
	return c13Leaf(rng)
}

func c13Malformed(rng *rand.Rand) []byte {
	switch rng.Intn(9) {
	case 0:
		return nil
	case 1:
		return []byte{0xc1}
	case 2: // truncated
		v := c13ValidValue(rng)
		if len(v) > 1 {
			return v[:1+rng.Intn(len(v)-1)]
		}
		return []byte{0xd9}
	case 3: // trailing garbage
		return append(append([]byte(nil), c13ValidValue(rng)...), byte(rng.Intn(256)))
	case 4: // non-string key
		return []byte{0x81, 0x01, 0x02}
	case 5: // nested non-string key
		return []byte{0x81, 0xa1, 'a', 0x81, 0xc0, 0x02}
	case 6: // c1 nested
		return []byte{0x92, 0x01, 0xc1}
	case 7: // declared length longer than the data
		return []byte{0xdb, 0x00, 0x00, 0x01, 0x00, 'a'}
	}
	return []byte{0xdc, 0x00, 0x03, 0x01}
}

func c13Value(rng *rand.Rand) []byte {
	if rng.Intn(100) < 18 {
		return c13Malformed(rng)
	}
	return c13ValidValue(rng)
}

func c13ClassOf(c byte) int { // 0 none 1 int 2 uint 3 float
	switch {
	case c == 0xca || c == 0xcb:
		return 3
	case c >= 0xd0 && c <= 0xd3:
		return 1
	case c >= 0xcc && c <= 0xcf:
		return 2
	case c <= 0x7f:
		return 2
	case c >= 0xe0:
		return 1
	}
	return 0
}

func c13Numeric(rng *rand.Rand, class int) []byte {
	switch class {
	case 1:
		if rng.Intn(4) == 0 {
			return []byte{byte(0xe0 + rng.Intn(32))}
		}
		k := 1 << uint(rng.Intn(4))
		code := map[int]byte{1: 0xd0, 2: 0xd1, 4: 0xd2, 8: 0xd3}[k]
		return append([]byte{code}, c13be(k, c13IntPattern(rng, k))...)
	case 2:
		if rng.Intn(4) == 0 {
			return []byte{byte(rng.Intn(128))}
		}
		k := 1 << uint(rng.Intn(4))
		code := map[int]byte{1: 0xcc, 2: 0xcd, 4: 0xce, 8: 0xcf}[k]
		return append([]byte{code}, c13be(k, c13IntPattern(rng, k))...)
	}
	if rng.Intn(3) == 0 {
		return append([]byte{0xca}, c13be(4, uint64(c13F32(rng)))...)
	}
	return append([]byte{0xcb}, c13be(8, c13F64(rng))...)
}

func c13MergeValue(rng *rand.Rand, target *c13Node) []byte {
	if rng.Intn(100) < 15 {
		return c13Malformed(rng)
	}
	m := &c13Node{kind: 1}
	if rng.Intn(8) == 0 {
		m.hdr = 1 + rng.Intn(2)
	}
	cnt := rng.Intn(4)
	for i := 0; i < cnt; i++ {
		k := c13Key(rng)
		if target != nil && target.kind == 1 && len(target.keys) > 0 && rng.Intn(2) == 0 {
			k = target.keys[rng.Intn(len(target.keys))]
		}
		if len(m.keys) > 0 && rng.Intn(8) == 0 {
			k = m.keys[0]
		}
		m.keys = append(m.keys, k)
		w := 0
		if rng.Intn(8) == 0 {
			w = 1 + rng.Intn(3)
		}
		m.khdr = append(m.khdr, w)
		b := 1 + rng.Intn(3)
		m.kids = append(m.kids, c13Tree(rng, 2, &b))
	}
	v := m.enc()
	switch rng.Intn(14) {
	case 0:
		v = append(v, 0x01) // trailing byte after the map
	case 1:
		v = append(v[:len(v):len(v)], 0x81, 0xa1, 'z') // something else trailing
	}
	return v
}

func c13H(b []byte) string {
	if len(b) == 0 {
		return "-"
	}
	return hex.EncodeToString(b)
}

var c13Kinds = []string{"set", "del", "inc", "app", "pre", "rmat", "rmval", "merge"}

// c13Fit picks an address whose node suits the op kind (numeric leaf for INC, array for
// APPEND/PREPEND/REMOVE_*, map for MERGE), so that a good share of the ops succeed.
func c13Fit(rng *rand.Rand, addrs []c13Addr, kind string) (string, *c13Node, bool) {
	var fit []c13Addr
	for _, a := range addrs {
		switch kind {
		case "inc":
			if a.node.kind == 0 && c13ClassOf(a.node.raw[0]) != 0 {
				fit = append(fit, a)
			}
		case "app", "pre", "rmval":
			if a.node.kind == 2 {
				fit = append(fit, a)
			}
		case "rmat":
			if a.node.kind == 2 && len(a.node.kids) > 0 {
				fit = append(fit, a)
			}
		case "merge":
			if a.node.kind == 1 {
				fit = append(fit, a)
			}
		}
	}
	if len(fit) == 0 {
		return "", nil, false
	}
	a := fit[rng.Intn(len(fit))]
	switch kind {
	case "app", "pre":
		return a.path + "[]", a.node, true
	case "rmat":
		n := len(a.node.kids)
		i := rng.Intn(n)
		if rng.Intn(2) == 0 {
			i -= n
		}
		return fmt.Sprintf("%s[%d]", a.path, i), a.node, true
	}
	return a.path, a.node, true
}

func c13Op(rng *rand.Rand, addrs []c13Addr) string {
	kind := c13Kinds[rng.Intn(len(c13Kinds))]
	if rng.Intn(150) == 0 {
		kind = "unk"
	}
	path, node := c13Path(rng, addrs)
	if rng.Intn(100) < 55 {
		if p, n, ok := c13Fit(rng, addrs, kind); ok {
			path, node = p, n
		}
	}
	var val []byte
	switch kind {
	case "set", "app", "pre":
		val = c13Value(rng)
	case "inc":
		cl := 1 + rng.Intn(3)
		if node != nil && node.kind == 0 && c13ClassOf(node.raw[0]) != 0 && rng.Intn(10) < 8 {
			cl = c13ClassOf(node.raw[0])
		}
		val = c13Numeric(rng, cl)
		switch rng.Intn(25) {
		case 0:
			val = c13Value(rng)
		case 1:
			val = append(val, 0xff) // trailing byte after the delta
		case 2:
			val = val[:len(val)-1]
		}
	case "rmval":
		val = c13Value(rng)
		if node != nil && node.kind == 2 && len(node.kids) > 0 && rng.Intn(10) < 7 {
			val = node.kids[rng.Intn(len(node.kids))].enc()
		}
	case "merge":
		val = c13MergeValue(rng, node)
	case "del", "rmat":
		if rng.Intn(6) == 0 {
			val = c13Value(rng)
		}
	default:
		val = c13Value(rng)
	}
	return kind + ":" + hex.EncodeToString([]byte(path)) + ":" + hex.EncodeToString(val)
}

// c13Twice: two ops on the same numeric leaf — SET then INC, or INC then INC — so that the
// second op works on a leaf the first one already replaced (narrow types must stay narrow).
func c13Twice(rng *rand.Rand, addrs []c13Addr) (string, bool) {
	var nums []c13Addr
	for _, a := range addrs {
		if a.node.kind == 0 && c13ClassOf(a.node.raw[0]) != 0 {
			nums = append(nums, a)
		}
	}
	if len(nums) == 0 {
		return "", false
	}
	a := nums[rng.Intn(len(nums))]
	ph := hex.EncodeToString([]byte(a.path))
	cl := c13ClassOf(a.node.raw[0])
	var first string
	if rng.Intn(2) == 0 {
		// SET a narrow typed number of some class, then INC in that class
		cl = 1 + rng.Intn(3)
		var v []byte
		for {
			v = c13Numeric(rng, cl)
			if len(v) > 1 && len(v) < 9 {
				break
			}
		}
		first = "set:" + ph + ":" + hex.EncodeToString(v)
	} else {
		first = "inc:" + ph + ":" + hex.EncodeToString(c13Numeric(rng, cl))
	}
	second := "inc:" + ph + ":" + hex.EncodeToString(c13Numeric(rng, cl))
	return " " + first + " " + second, true
}

var c13CondOps = []string{"eq", "ne", "gt", "ge", "lt", "le", "ex", "nex"}

func c13Cond(rng *rand.Rand, addrs []c13Addr) string {
	if rng.Intn(100) < 60 {
		return "-"
	}
	op := c13CondOps[rng.Intn(len(c13CondOps))]
	if rng.Intn(80) == 0 {
		op = "unk"
	}
	path, node := c13Path(rng, addrs)
	if rng.Intn(100) < 60 {
		// prefer an existing leaf: comparisons need one
		var leaves []c13Addr
		for _, a := range addrs {
			if a.node.kind == 0 {
				leaves = append(leaves, a)
			}
		}
		if len(leaves) > 0 {
			a := leaves[rng.Intn(len(leaves))]
			path, node = a.path, a.node
		}
	}
	var thr []byte
	switch {
	case node != nil && node.kind == 0 && c13ClassOf(node.raw[0]) == 3 && rng.Intn(10) < 2:
		// float field: NaN threshold (float64 or float32, quiet or signalling)
		thr = [][]byte{{0xcb, 0x7f, 0xf8, 0, 0, 0, 0, 0, 0}, {0xca, 0x7f, 0xc0, 0, 0}, {0xcb, 0xff, 0xf0, 0, 0, 0, 0, 0, 1},
			{0xca, 0x7f, 0x80, 0, 1}}[rng.Intn(4)]
	case node != nil && node.kind == 0 && (c13ClassOf(node.raw[0]) == 1 || c13ClassOf(node.raw[0]) == 2) && rng.Intn(10) < 3:
		// integer field: a 64-bit threshold from the boundary table (operands up to 2^64 apart)
		code := byte(0xd3)
		if c13ClassOf(node.raw[0]) == 2 {
			code = 0xcf
		}
		thr = append([]byte{code}, c13be(8, c13Boundary[rng.Intn(len(c13Boundary))])...)
	case node != nil && node.kind == 0 && rng.Intn(10) < 3:
		thr = node.raw
	case node != nil && node.kind == 0 && c13ClassOf(node.raw[0]) != 0 && rng.Intn(10) < 7:
		thr = c13Numeric(rng, c13ClassOf(node.raw[0]))
	case node != nil && node.kind == 0 && rng.Intn(10) < 5:
		// same family, different content
		thr = append([]byte(nil), node.raw...)
		if len(thr) > 1 {
			thr[len(thr)-1] ^= byte(1 + rng.Intn(3))
		}
	default:
		thr = c13Value(rng)
	}
	if rng.Intn(30) == 0 {
		thr = append(append([]byte(nil), thr...), 0x00)
	}
	return op + ":" + hex.EncodeToString([]byte(path)) + ":" + hex.EncodeToString(thr)
}

func c13Gen(rng *rand.Rand, tier string, w *bufio.Writer) {
	docs, pfEvery := 2600, 15
	if tier == "thorough" {
		docs, pfEvery = 60000, 60
	}
	fmt.Fprintln(w, "case 0")
	// corpus: the recorded witnesses and the documented examples
	for _, l := range []string{
		"ap 81a17801 - set:78:c1",                                              // SET x ← 0xc1
		"ap 81a17801 - set:78:0102",                                            // trailing byte in a SET value
		"ap 81a17801 - set:78:810102",                                          // non-string-keyed map value
		"ap 81a17801 - inc:79:d005ff",                                          // INC seed with a trailing byte
		"ap 81a17801 - merge:6d:81a161810102",                                  // MERGE field value with non-string key
		"ap 81a17801 - merge:6d:81a1610102",                                    // MERGE value with trailing byte
		"ap 81a166cb7ff8000000000000 eq:66:cb7ff8000000000000 set:7a:01",       // EQUAL NaN on a NaN field
		"ap 81a166cb7ff8000000000000 eq:66:cb3ff0000000000000 set:7a:01",       // EQUAL 1.0 on a NaN field
		"ap 81a166cb7ff8000000000000 ne:66:cb7ff8000000000000 set:7a:01",       // NOT_EQUAL NaN
		"ap 81a166ca7fc00000 le:66:ca3f800000 set:7a:01",                       // float32 NaN <= 1
		"ap 82a16101a16102 - set:61:09",                                        // duplicate keys: first match
		"ap 82a16101a16102 - del:61:",                                          //
		"ap de0001d9016101 -",                                                  // non-minimal headers, zero ops
		"ap 81a17801 - inc:78:02",                                              // fixint target widens to uint64
		"ap 81a178ff - inc:78:fe",                                              // negative fixint → int64
		"ap 81a178d07f - inc:78:d001",                                          // int8 wraps, stays int8
		"ap 81a178ccff - inc:78:cc01",                                          // uint8 wraps
		"ap 81a166ca7f7fffff - inc:66:ca7f7fffff",                              // float32 overflow → +Inf
		"apn 81a166cb7ff0000000000000 - inc:66:cbfff0000000000000",             // Inf + -Inf = NaN (payload: platform)
		"apn 81a166cb7ff8000000000001 - inc:66:cb3ff0000000000000",             // NaN + 1
		"apn 81a166ca3f800000 - inc:66:cb7ff80000deadbeef",                     // float32 + NaN delta
		"ap 81a178d3800000000000000001 gt:78:d3000000000000000a set:7a:01",     // MinInt64+1 > 10 ? no
		"ap 81a178d3800000000000000001 lt:78:d3000000000000000a set:7a:01",     // MinInt64+1 < 10 ? yes
		"ap 81a178cf8000000000000000 gt:78:cf0000000000000001 set:7a:01",       // 2^63 > 1 (uint64) ? yes
		"ap 81a178cfffffffffffffffff le:78:05 set:7a:01",                       // MaxUint64 <= 5 ? no
		"ap 81a17801 - set:78:d0cc inc:78:d001",                                // SET int8 then INC: stays int8
		"ap 81a17801 - set:78:cd0100 inc:78:01",                                // SET uint16 256 then INC 1: stays uint16
		"ap 81a178ca3f800000 - inc:78:ca3f800000 inc:78:cb3ff0000000000000",    // float32 INC twice: stays float32
		"ap 81a178ccfe - inc:78:01 inc:78:01",                                  // uint8 wraps twice, stays uint8
		"ap 81a17493010203 - rmat:745b2d315d:",                                 // t[-1]
		"ap 81a17493010203 - rmat:745b2d345d:",                                 // t[-4] out of range
		"ap 81a17493010203 - pre:745b5d:09 app:745b5d:0a rmval:74:02",          //
		"ap 81a174919101 - rmval:74:9101",                                      // REMOVE_VAL of a container element parsed from the body
		"ap 81a17492810a0b9101 - rmval:74:de00010a0b",                         // body with a non-string key: rejected
		"ap 81a1749281a16101a161 - rmval:74:de0001a16101",                      // container value with a non-minimal header
		"ap 81a17490 - app:745b5d:dc000101 rmval:74:9101",                      // spliced non-minimal array, removed by its canonical form
		"ap 81a17490 - app:745b5d:9101 rmval:74:9101",
		"ap 81a17493010201 - rmval:74:01",                                       // the FIRST match only: [1,2,1] → [2,1]
		"ap 81a174949101029101a161 - rmval:74:9101 rmat:745b325d:",              // … containers too; the second [1] is still there at t[1]
		"pf b:c70081a17493010201 0 - - - rmval:74:01",
		// the wire: every operator and op kind by its proto number, through both RPCs
		"gp b:c70081a17805 0 - - eq:78:05 set:79:01", "gp b:c70081a17805 0 - - ne:78:05 set:79:01", "gp b:c70081a17805 0 - - ne:78:04 set:79:01",
		"gp b:c70081a17805 0 - - gt:78:05 set:79:01", "gp b:c70081a17805 0 - - ge:78:05 set:79:01", "gp b:c70081a17805 0 - - lt:78:05 set:79:01",
		"gp b:c70081a17805 0 - - le:78:05 set:79:01", "gp b:c70081a17805 0 - - le:78:04 set:79:01", "gp b:c70081a17805 0 - - ex:78: set:79:01",
		"gp b:c70081a17805 0 - - nex:78: set:79:01", "gp b:c70081a17805 0 - - unk:78:05 set:79:01",
		"gx b:c70081a17805@1500000000000000000 0 - - eq:78:05 set:79:01", "gx b:c70081a17805@1500000000000000000 0 - - ne:78:05 set:79:01",
		"gx b:c70081a17805@1500000000000000000 0 - - ne:78:04 set:79:01", "gx b:c70081a17805@1500000000000000000 0 - - gt:78:04 set:79:01",
		"gx b:c70081a17805@1500000000000000000 0 - - ge:78:06 set:79:01", "gx b:c70081a17805@1500000000000000000 0 - - lt:78:06 set:79:01",
		"gx b:c70081a17805@1500000000000000000 0 - - le:78:04 set:79:01", "gx b:c70081a17805@1500000000000000000 0 - - ex:79: set:79:01",
		"gx b:c70081a17805@1500000000000000000 0 - - nex:79: set:79:01",
		"gp b:c70082a17805a174920102 0 - - - del:78:", "gp b:c70081a17805 0 - - - inc:78:01", "gp b:c70081a1749101 0 - - - app:745b5d:02",
		"gp b:c70081a1749101 0 - - - pre:745b5d:02", "gp b:c70081a174920102 0 - - - rmat:745b305d:", "gp b:c70081a174920102 0 - - - rmval:74:02",
		"gp b:c70081a16d80 0 - - - merge:6d:81a16101", "gp b:c70081a17805 0 - - - unk:78:01",
		"gx b:c70081a17805@1500000000000000000 0 - - - inc:78:01", "gx b:c70081a174920102@1500000000000000000 0 - - - rmval:74:02",
		"gx b:c70081a16d80@1500000000000000000 0 - - - merge:6d:81a16101",
		// numbers no operator has: 8, 99, and the ones that differ from an operator by a multiple of 256
		"gp b:c70081a17805 0 - - w8:78:05 set:79:01", "gp b:c70081a17805 0 - - w257:78:05 set:79:01", "gp b:c70081a17805 0 - - w-255:78:05 set:79:01",
		"gp b:c70081a17805 0 - - - w256:79:01", "gp b:c70081a17805 0 - - - w-255:78:", "gx b:c70081a17805@1500000000000000000 0 - - w257:78:04 w256:79:01",
		// PatchExpiredTreasures: meta-only, failed condition / op keep the treasure and its ExpiredAt, other content types
		"gx b:c70081a17805@1500000000000000000 0 - exp=1900000000000000000,ua,ub=626f62 - set:79:01",
		"gx b:c70081a17805@1500000000000000000 0 - exp=1900000000000000000 eq:78:04 set:79:01",
		"gx b:c70081a17805@1500000000000000000 0 - clr,ca,cb=616c - inc:78:a161",
		"gx b:81a17805@1500000000000000000 0 - - - set:79:01", "gx other@1500000000000000000 0 - - - set:79:01",
		// a seed that is not a map: documented TYPE_MISMATCH, with and without ops
		"pf absent 1 01 - -", "pf absent 1 9101 - -", "pf absent 1 a161 ua,ca -", "gp absent 1 01 - -", "pf absent 1 01 - nex:78:",
		"pf absent 1 01 - - set:78:01", "pf absent 1 80 - -", "pf absent 1 - - -", "pf b:c70081a17801 1 01 - -", "pf b:c70081a17801 0 01 - -",
		"gp absent 1 81a17805 ua,ca,cb=616c - set:79:01", "gp absent 0 - - - set:79:01", "gp other 0 - - - set:79:01",
		"ap 80 - set:78:81a16101 set:782e61:02",                                // into a value SET earlier in the same patch
		"ap 80 - app:745b5d:9101 app:745b305d5b5d:02",                          // into an array APPENDed earlier
		"ap 80 - merge:6d:81a16181a16201 inc:6d2e612e62:01",                    // into a MERGEd field value
		"ap 81a16d81a16101 - merge:6d:82a16102a16203",                          // MERGE overrides a, adds b
		"ap 80 - set:612e622e63:01",                                            // auto-create a.b.c
		"ap 80 - app:612e625b5d:01",                                            // auto-create a.b[]
		"ap 81a17801 - set:782e79:01",                                          // through a leaf
		"parse dfffffff",                                                       // truncated map32 header
		"parse c1",
		"parse 81a161",
		"parse 8101a161",
		"parse 0101",
		"parse -",
		"parse 81d9206161616161616161616161616161616161616161616161616161616161616101", // str8 key of length 32
		// PatchFields: every status of classifyPatchError and of the content / prefix checks
		"pf absent 1 - - - set:61:01",                    // CREATED from the empty-map seed
		"pf absent 0 - - - set:61:01",                    // KEY_NOT_FOUND
		"pf absent 1 81a17801 - - inc:78:02",             // CREATED from a seed
		"pf absent 1 c1 - - set:61:01",                   // invalid seed → TYPE_MISMATCH
		"pf absent 1 01 - - set:61:01",                   // non-map seed: SET on a leaf root → TYPE_MISMATCH
		"pf b:c70081a17801 0 - - - set:79:02",            // PATCHED
		"pf b:c70081a17801 1 c1 - - set:79:02",           // existing key, invalid seed still rejected
		"pf b:c70081a17801 0 - - eq:78:02 set:79:02",     // CONDITION_NOT_MET
		"pf b:c70081a17801 0 - - - inc:78:a161",          // TYPE_MISMATCH
		"pf b:c70081a17801 0 - - - set:782e:01",          // malformed path → PATH_INVALID
		"pf b:c70081a17801 0 - - - set:79:",              // ErrInvalidOp (empty value) → PATH_INVALID
		"pf b:c70081a17801 0 - - - unk:79:01",            // unknown op kind → PATH_INVALID
		"pf b:c70081a17801 0 - - unk:78:01 set:79:01",    // unknown condition op → PATH_INVALID
		"pf b:c7008101a17801 0 - - - set:79:02",          // non-string key body → ENCODING_NOT_SUPPORTED
		"pf b:c70081a178 0 - - - set:79:02",              // truncated body → ENCODING_NOT_SUPPORTED
		"pf b:81a17801 0 - - - set:79:02",                // no magic prefix → ENCODING_NOT_SUPPORTED
		"pf b:c7 0 - - - set:79:02",                      // one byte only
		"pf b:c70181a17801 0 - - - set:79:02",            // wrong second prefix byte
		"pf other 0 - - - set:79:02",                     // not a ByteArray → TYPE_MISMATCH
		"pf b:c70081a17801 0 - - - set:79:c1",            // malformed value
		"pf b:c70081a166cb7ff8000000000000 0 - - eq:66:cb7ff8000000000000 set:7a:01", // NaN condition
		// PatchFieldsMeta: stamped on success only; Created* only on create; ClearExpiredAt beats SetExpiredAt
		"pf absent 1 - ua,ub=626f62,ca,cb=616c,exp=1900000000000000000 - set:61:01",   // create with every field
		"pf b:c70081a17801 0 - ua,ub=626f62,ca,cb=616c,exp=1900000000000000000 - set:79:02", // patch: Created* ignored
		"pf b:c70081a17801@1800000000000000000 0 - exp=1900000000000000000 - set:79:02",  // slide the TTL forward
		"pf b:c70081a17801@1800000000000000000 0 - clr - set:79:02",                    // clear the TTL
		"pf b:c70081a17801@1800000000000000000 0 - clr,exp=1900000000000000000 - set:79:02", // clear wins
		"pf b:c70081a17801@1800000000000000000 0 - ub=626f62 - del:78:",                 // TTL untouched without exp/clr
		"pf b:c70081a17801@1800000000000000000 0 - ua,exp=1900000000000000000 eq:78:02 set:79:02", // condition not met: no meta
		"pf b:c70081a17801@1800000000000000000 0 - ua,clr - inc:78:a161",                // failed op: no meta
		"pf absent 0 - ua,exp=1900000000000000000 - set:61:01",                          // key not found: nothing created
		"pf b:c70081a17801 0 - exp=0 - set:79:02",                                       // SetExpiredAt = Unix epoch: stored as 0 (never)
	} {
		fmt.Fprintln(w, l)
	}
	for c := 1; c <= docs; c++ {
		fmt.Fprintf(w, "case %d\n", c)
		doc := c13Doc(rng)
		body := doc.enc()
		if len(body) > 300 && tier != "thorough" {
			continue
		}
		var addrs []c13Addr
		c13Collect(doc, "", &addrs)
		if rng.Intn(10) == 0 {
			// damaged body (parser error classes)
			d := append([]byte(nil), body...)
			switch rng.Intn(3) {
			case 0:
				if len(d) > 0 {
					d = d[:rng.Intn(len(d))]
				}
			case 1:
				if len(d) > 0 {
					d[rng.Intn(len(d))] = byte(rng.Intn(256))
					if len(d) >= 5 && (d[0] == 0xdf || d[0] == 0xdd) {
						d[1], d[2] = 0, 0 // keep 32-bit counts small (see header comment)
					}
				}
			default:
				d = append(d, byte(rng.Intn(256)))
			}
			d = c13Tame(d)
			fmt.Fprintf(w, "parse %s\n", c13H(d))
			dop := " " + c13Op(rng, addrs)
			dverb := "ap"
			if strings.Contains(dop, " inc:") && (c13HasSpecialFloat(d) || c13OpsSpecialFloat(dop)) {
				dverb = "apn"
			}
			fmt.Fprintf(w, "%s %s %s%s\n", dverb, c13H(d), c13Cond(rng, addrs), dop)
			continue
		}
		fmt.Fprintf(w, "parse %s\n", c13H(body))
		lines := 3 + rng.Intn(4)
		for i := 0; i < lines; i++ {
			nops := []int{0, 1, 1, 1, 1, 2, 2, 3, 4}[rng.Intn(9)]
			var sb strings.Builder
			if tw, ok := c13Twice(rng, addrs); ok && rng.Intn(8) == 0 {
				sb.WriteString(tw)
				nops = rng.Intn(2)
			}
			for j := 0; j < nops; j++ {
				sb.WriteString(" " + c13Op(rng, addrs))
			}
			// an INC that may involve NaN / ±Inf yields a NaN whose payload bits are platform-defined
			// (amd64 SSE2 here): such lines are `apn` — both sides print NaN leaves canonically
			verb := "ap"
			if strings.Contains(sb.String(), " inc:") && (c13HasSpecialFloat(body) || c13OpsSpecialFloat(sb.String())) {
				verb = "apn"
			}
			fmt.Fprintf(w, "%s %s %s%s\n", verb, c13H(body), c13Cond(rng, addrs), sb.String())
		}
		if c%pfEvery == 0 {
			stored := "absent"
			switch rng.Intn(6) {
			case 0:
			case 1:
				stored = "other"
			case 2:
				stored = "b:" + c13H(body) // no magic prefix
			case 3:
				stored = "b:" + c13H([]byte{0xc7})
			default:
				stored = "b:c700" + hex.EncodeToString(body)
			}
			seed := "-"
			if rng.Intn(4) == 0 {
				seed = c13H(c13Value(rng))
			} else if rng.Intn(3) == 0 {
				seed = c13H(body)
			}
			meta := "-"
			if rng.Intn(2) == 0 {
				var ms []string
				for _, m := range []string{"ua", "ub=" + hex.EncodeToString(c13Bytes(rng, 1+rng.Intn(3))), "ca",
					"cb=" + hex.EncodeToString(c13Bytes(rng, 1+rng.Intn(3))), fmt.Sprintf("exp=%d", 1700000000000000000+rng.Int63n(1e18)), "clr"} {
					if rng.Intn(3) == 0 {
						ms = append(ms, m)
					}
				}
				if len(ms) > 0 {
					meta = strings.Join(ms, ",")
				}
			}
			if strings.HasPrefix(stored, "b:") && rng.Intn(3) == 0 {
				stored += fmt.Sprintf("@%d", 1700000000000000000+rng.Int63n(1e18))
			}
			create, cnd, op := rng.Intn(2), c13Cond(rng, addrs), c13Op(rng, addrs)
			if rng.Intn(5) == 0 {
				op = "" // no op at all: the body (or the seed) is stored as it is
			}
			fmt.Fprintf(w, "%s\n", strings.TrimRight(fmt.Sprintf("pf %s %d %s %s %s %s", stored, create, seed, meta, cnd, op), " "))
			// the same call over the wire: Gateway.PatchTreasures with the proto enums, and — for a stored treasure —
			// Gateway.PatchExpiredTreasures on an expired copy of it (the second copy of the per-key flow)
			wcnd, wop := c13WireTok(rng, cnd, c13CondDoc), c13WireTok(rng, op, c13OpDoc)
			fmt.Fprintf(w, "%s\n", strings.TrimRight(fmt.Sprintf("gp %s %d %s %s %s %s", stored, create, seed, meta, wcnd, wop), " "))
			if stored != "absent" && (op != "" || meta != "-") {
				base := stored
				if i := strings.IndexByte(base, '@'); i >= 0 {
					base = base[:i]
				}
				wcnd, wop = c13WireTok(rng, cnd, c13CondDoc), c13WireTok(rng, op, c13OpDoc)
				fmt.Fprintf(w, "%s\n", strings.TrimRight(fmt.Sprintf("gx %s@%d 0 - %s %s %s", base, 1000000000000000000+rng.Int63n(7e17), meta, wcnd, wop), " "))
			}
		}
	}
}

// hydraide.proto: PatchOp.Kind and PatchCondition.Op by number
var c13OpDoc = []string{"set", "del", "inc", "app", "pre", "rmat", "rmval", "merge"}
var c13CondDoc = []string{"eq", "ne", "gt", "ge", "lt", "le", "ex", "nex"}

// c13WireTok: sometimes spell the operator of `kind:path:value` as a bare wire number — the documented
// one, one that differs from it by a multiple of 256, or one no operator has
func c13WireTok(rng *rand.Rand, tok string, doc []string) string {
	if tok == "-" || rng.Intn(4) != 0 {
		return tok
	}
	i := strings.IndexByte(tok, ':')
	if i < 0 {
		return tok
	}
	n := -1
	for k, d := range doc {
		if d == tok[:i] {
			n = k
		}
	}
	if n < 0 {
		n = rng.Intn(len(doc))
	}
	switch rng.Intn(6) {
	case 0:
		n += 256
	case 1:
		n -= 256
	case 2:
		n += 256 * (2 + rng.Intn(1000))
	case 3:
		n = []int{8, 9, 99, 255, 128}[rng.Intn(5)]
	}
	return fmt.Sprintf("w%d%s", n, tok[i:])
}

// c13Special: is the 4/8-byte big-endian float pattern NaN or ±Inf (exponent all ones)?
func c13Special(p []byte) bool {
	if len(p) == 4 {
		return p[0]&0x7f == 0x7f && p[1]&0x80 == 0x80
	}
	return len(p) == 8 && p[0]&0x7f == 0x7f && p[1]&0xf0 == 0xf0
}

// c13Scan walks one msgpack value structurally (no allocation by declared counts) and calls
// leaf(code offset) for every float32/float64 leaf it fully contains; it stops silently at the
// first malformed or truncated item.  The same walk is `canonNaN` in lean/Driver/C13.lean.
func c13Scan(b []byte, float func(off, n int)) {
	pending, i := 1, 0
	for pending > 0 && i < len(b) {
		c := b[i]
		pending--
		fixed, lenp, ext, count := -1, 0, 0, -1
		switch {
		case c <= 0x7f || c >= 0xe0 || c == 0xc0 || c == 0xc2 || c == 0xc3:
			fixed = 0
		case c >= 0x80 && c <= 0x8f:
			pending += 2 * int(c-0x80)
			i++
			continue
		case c >= 0x90 && c <= 0x9f:
			pending += int(c - 0x90)
			i++
			continue
		case c >= 0xa0 && c <= 0xbf:
			fixed = int(c - 0xa0)
		case c == 0xc1:
			return
		case c == 0xca:
			fixed = 4
		case c == 0xcb:
			fixed = 8
		case c == 0xcc || c == 0xd0:
			fixed = 1
		case c == 0xcd || c == 0xd1:
			fixed = 2
		case c == 0xce || c == 0xd2:
			fixed = 4
		case c == 0xcf || c == 0xd3:
			fixed = 8
		case c >= 0xd4 && c <= 0xd8:
			fixed = 1 + (1 << uint(c-0xd4))
		case c == 0xc4 || c == 0xd9:
			lenp = 1
		case c == 0xc5 || c == 0xda:
			lenp = 2
		case c == 0xc6 || c == 0xdb:
			lenp = 4
		case c == 0xc7:
			lenp, ext = 1, 1
		case c == 0xc8:
			lenp, ext = 2, 1
		case c == 0xc9:
			lenp, ext = 4, 1
		case c == 0xdc || c == 0xde:
			count = 2
		case c == 0xdd || c == 0xdf:
			count = 4
		}
		switch {
		case fixed >= 0:
			if i+1+fixed > len(b) {
				return
			}
			if c == 0xca || c == 0xcb {
				float(i, fixed)
			}
			i += 1 + fixed
		case lenp > 0:
			if i+1+lenp > len(b) {
				return
			}
			m := 0
			for _, x := range b[i+1 : i+1+lenp] {
				m = m<<8 | int(x)
			}
			if i+1+lenp+m+ext > len(b) {
				return
			}
			i += 1 + lenp + m + ext
		default:
			if i+1+count > len(b) {
				return
			}
			m := 0
			for _, x := range b[i+1 : i+1+count] {
				m = m<<8 | int(x)
			}
			if c == 0xde || c == 0xdf {
				m *= 2
			}
			pending += m
			i += 1 + count
		}
	}
}

func c13HasSpecialFloat(b []byte) bool {
	found := false
	c13Scan(b, func(off, n int) {
		if c13Special(b[off+1 : off+1+n]) {
			found = true
		}
	})
	return found
}

// any op value in the (already rendered) op list that contains a NaN / ±Inf float
func c13OpsSpecialFloat(ops string) bool {
	for _, tok := range strings.Fields(ops) {
		p := strings.Split(tok, ":")
		if len(p) == 3 && c13HasSpecialFloat(c13Unhex(p[2])) {
			return true
		}
	}
	return false
}

// c13CanonNaN rewrites every NaN float leaf to the canonical quiet NaN (7fc00000 / 7ff8000000000000)
func c13CanonNaN(b []byte) []byte {
	out := append([]byte(nil), b...)
	c13Scan(b, func(off, n int) {
		p := b[off+1 : off+1+n]
		isNaN := false
		if n == 4 {
			isNaN = p[0]&0x7f == 0x7f && p[1]&0x80 == 0x80 && (p[1]&0x7f != 0 || p[2] != 0 || p[3] != 0)
		} else {
			isNaN = p[0]&0x7f == 0x7f && p[1]&0xf0 == 0xf0 && (p[1]&0x0f != 0 || p[2] != 0 || p[3] != 0 || p[4] != 0 || p[5] != 0 || p[6] != 0 || p[7] != 0)
		}
		if isNaN {
			for k := range out[off+1 : off+1+n] {
				out[off+1+k] = 0
			}
			if n == 4 {
				out[off+1], out[off+2] = 0x7f, 0xc0
			} else {
				out[off+1], out[off+2] = 0x7f, 0xf8
			}
		}
	})
	return out
}

// c13Tame clears the high bytes of any 32-bit count/length field that a random byte flip may
// have produced at the front of a damaged body (allocation hazard, see header comment).
func c13Tame(d []byte) []byte {
	for i := 0; i+4 < len(d); i++ {
		switch d[i] {
		case 0xdf, 0xdd, 0xdb, 0xc6, 0xc9:
			d[i+1], d[i+2] = 0, 0
		}
	}
	return d
}

// ---------------------------------------------------------------- runner

func c13Class(err error) string {
	switch {
	case errors.Is(err, msgpackpatch.ErrConditionNotMet):
		return "cond"
	case errors.Is(err, msgpackpatch.ErrTypeMismatch):
		return "type"
	case errors.Is(err, msgpackpatch.ErrPathInvalid):
		return "path"
	case errors.Is(err, msgpackpatch.ErrInvalidOp):
		return "op"
	case errors.Is(err, msgpackpatch.ErrInvalidMsgpack):
		return "msgpack"
	case errors.Is(err, msgpackpatch.ErrNonStringKey):
		return "nonstr"
	}
	return "other"
}

func c13Unhex(s string) []byte {
	if s == "-" || s == "" {
		return []byte{}
	}
	b, _ := hex.DecodeString(s)
	return b
}

func c13ParseOps(fs []string) ([]msgpackpatch.Op, bool) {
	kinds := map[string]msgpackpatch.OpKind{"set": msgpackpatch.OpSet, "del": msgpackpatch.OpDelete, "inc": msgpackpatch.OpInc,
		"app": msgpackpatch.OpAppend, "pre": msgpackpatch.OpPrepend, "rmat": msgpackpatch.OpRemoveAt,
		"rmval": msgpackpatch.OpRemoveVal, "merge": msgpackpatch.OpMerge, "unk": msgpackpatch.OpKind(99)}
	var ops []msgpackpatch.Op
	for _, f := range fs {
		p := strings.Split(f, ":")
		if len(p) != 3 {
			return nil, false
		}
		k, ok := kinds[p[0]]
		if !ok {
			return nil, false
		}
		ops = append(ops, msgpackpatch.Op{Kind: k, Path: string(c13Unhex(p[1])), Value: c13Unhex(p[2])})
	}
	return ops, true
}

func c13ParseCond(s string) (*msgpackpatch.Condition, bool) {
	if s == "-" {
		return nil, true
	}
	p := strings.Split(s, ":")
	if len(p) != 3 {
		return nil, false
	}
	ops := map[string]msgpackpatch.CondOp{"eq": msgpackpatch.CondEqual, "ne": msgpackpatch.CondNotEqual, "gt": msgpackpatch.CondGreaterThan,
		"ge": msgpackpatch.CondGreaterThanOrEqual, "lt": msgpackpatch.CondLessThan, "le": msgpackpatch.CondLessThanOrEqual,
		"ex": msgpackpatch.CondExists, "nex": msgpackpatch.CondNotExists, "unk": msgpackpatch.CondOp(99)}
	o, ok := ops[p[0]]
	if !ok {
		return nil, false
	}
	return &msgpackpatch.Condition{Path: string(c13Unhex(p[1])), Op: o, Threshold: c13Unhex(p[2])}, true
}

func c13Dump(s *msgpackpatch.Skeleton, blob []byte, sb *strings.Builder) {
	switch s.Kind {
	case msgpackpatch.KindLeaf:
		sb.WriteString("L")
		if s.RawBytes != nil {
			sb.WriteString(hex.EncodeToString(s.RawBytes))
		} else {
			sb.WriteString(hex.EncodeToString(blob[s.LeafStart:s.LeafEnd]))
		}
	case msgpackpatch.KindMap:
		sb.WriteString("M{")
		for i, f := range s.MapFields {
			if i > 0 {
				sb.WriteString(",")
			}
			sb.WriteString(hex.EncodeToString([]byte(f.Key)))
			sb.WriteString(":")
			c13Dump(f.Value, blob, sb)
		}
		sb.WriteString("}")
	case msgpackpatch.KindArray:
		sb.WriteString("A[")
		for i, it := range s.ArrayItems {
			if i > 0 {
				sb.WriteString(",")
			}
			c13Dump(it, blob, sb)
		}
		sb.WriteString("]")
	}
}

type c13PF struct {
	rig *Rig
	sw  swamp.Swamp
	xw  swamp.Swamp // the swamp of the `gx` lines (PatchExpiredTreasures)
	n   int
}

var c13FieldsName = name.New().Sanctuary("c13").Realm("patch").Swamp("fields")
var c13ExpiredName = name.New().Sanctuary("c13").Realm("patch").Swamp("expired")

func (p *c13PF) swamp() (swamp.Swamp, error) {
	if p.sw != nil {
		return p.sw, nil
	}
	rig, err := NewRig(3, 2000, 3600, 0)
	if err != nil {
		return nil, err
	}
	p.rig = rig
	rig.Settings.RegisterPattern(name.New().Sanctuary("c13").Realm("*").Swamp("*"), true, 3600,
		&settings.FileSystemSettings{WriteIntervalSec: 1, MaxFileSizeByte: 8192})
	sw, err := rig.Zeus.GetHydra().SummonSwamp(context.Background(), 1, c13FieldsName)
	if err != nil {
		return nil, err
	}
	sw.BeginVigil()
	p.sw = sw
	xw, err := rig.Zeus.GetHydra().SummonSwamp(context.Background(), 1, c13ExpiredName)
	if err != nil {
		return nil, err
	}
	xw.BeginVigil()
	// a treasure without ExpiredAt keeps the swamp alive when a line's treasure is deleted again
	t := xw.CreateTreasure("keep")
	g := t.StartTreasureGuard(true)
	t.SetContentByteArray(g, []byte{0xc7, 0x00, 0x80})
	t.Save(g)
	t.ReleaseTreasureGuard(g)
	p.xw = xw
	return sw, nil
}

// the wire: op / operator tokens → the proto enum constants of hydraide.pb.go (`wN`: the bare number N)
func c13WireKind(tok string) (hydrapb.PatchOp_Kind, bool) {
	kinds := map[string]hydrapb.PatchOp_Kind{"set": hydrapb.PatchOp_SET, "del": hydrapb.PatchOp_DELETE, "inc": hydrapb.PatchOp_INC,
		"app": hydrapb.PatchOp_APPEND, "pre": hydrapb.PatchOp_PREPEND, "rmat": hydrapb.PatchOp_REMOVE_AT,
		"rmval": hydrapb.PatchOp_REMOVE_VAL, "merge": hydrapb.PatchOp_MERGE, "unk": hydrapb.PatchOp_Kind(99)}
	if k, ok := kinds[tok]; ok {
		return k, true
	}
	if strings.HasPrefix(tok, "w") {
		n, err := strconv.ParseInt(tok[1:], 10, 32)
		return hydrapb.PatchOp_Kind(n), err == nil
	}
	return 0, false
}

func c13WireCondOp(tok string) (hydrapb.PatchCondition_Op, bool) {
	ops := map[string]hydrapb.PatchCondition_Op{"eq": hydrapb.PatchCondition_EQUAL, "ne": hydrapb.PatchCondition_NOT_EQUAL,
		"gt": hydrapb.PatchCondition_GREATER_THAN, "ge": hydrapb.PatchCondition_GREATER_THAN_OR_EQUAL, "lt": hydrapb.PatchCondition_LESS_THAN,
		"le": hydrapb.PatchCondition_LESS_THAN_OR_EQUAL, "ex": hydrapb.PatchCondition_EXISTS, "nex": hydrapb.PatchCondition_NOT_EXISTS,
		"unk": hydrapb.PatchCondition_Op(99)}
	if o, ok := ops[tok]; ok {
		return o, true
	}
	if strings.HasPrefix(tok, "w") {
		n, err := strconv.ParseInt(tok[1:], 10, 32)
		return hydrapb.PatchCondition_Op(n), err == nil
	}
	return 0, false
}

func c13WireOps(fs []string) ([]*hydrapb.PatchOp, bool) {
	var ops []*hydrapb.PatchOp
	for _, f := range fs {
		p := strings.Split(f, ":")
		if len(p) != 3 {
			return nil, false
		}
		k, ok := c13WireKind(p[0])
		if !ok {
			return nil, false
		}
		ops = append(ops, &hydrapb.PatchOp{Op: k, Path: string(c13Unhex(p[1])), Value: c13Unhex(p[2])})
	}
	return ops, true
}

func c13WireCond(s string) (*hydrapb.PatchCondition, bool) {
	if s == "-" {
		return nil, true
	}
	p := strings.Split(s, ":")
	if len(p) != 3 {
		return nil, false
	}
	o, ok := c13WireCondOp(p[0])
	if !ok {
		return nil, false
	}
	return &hydrapb.PatchCondition{Path: string(c13Unhex(p[1])), Operator: o, Threshold: c13Unhex(p[2])}, true
}

func c13WireMeta(m *swamp.PatchFieldsMeta, tok string) *hydrapb.PatchMeta {
	if m == nil {
		return nil
	}
	out := &hydrapb.PatchMeta{SetUpdatedAt: m.SetUpdatedAt, SetCreatedAt: m.SetCreatedAt, ClearExpiredAt: m.ClearExpiredAt}
	for _, t := range strings.Split(tok, ",") {
		switch {
		case strings.HasPrefix(t, "ub="):
			v := m.SetUpdatedBy
			out.SetUpdatedBy = &v
		case strings.HasPrefix(t, "cb="):
			v := m.SetCreatedBy
			out.SetCreatedBy = &v
		case strings.HasPrefix(t, "exp="):
			out.SetExpiredAt = timestamppb.New(m.SetExpiredAt)
		}
	}
	return out
}

// pf STORED CREATE SEED META COND OP…
//   STORED = absent | other | b:HEX[@EXPNANOS]          (treasure under the key before the call)
//   META   = - | comma list of  ua  ub=HEX  ca  cb=HEX  exp=NANOS  clr      (PatchFieldsMeta)
// reply:   st=N STORED wf=0/1 new=HEX|- exp=NANOS mat=0/1 mby=HEX|- cat=0/1 cby=HEX|-
func (p *c13PF) run(f []string) string {
	sw, err := p.swamp()
	if err != nil {
		return "rig-error " + err.Error()
	}
	if len(f) < 6 {
		return "bad-op"
	}
	var ops []msgpackpatch.Op
	var cond *msgpackpatch.Condition
	if f[0] == "pf" {
		var ok1, ok2 bool
		ops, ok1 = c13ParseOps(f[6:])
		cond, ok2 = c13ParseCond(f[5])
		if !ok1 || !ok2 {
			return "bad-op"
		}
	}
	var meta *swamp.PatchFieldsMeta
	if f[4] != "-" {
		meta = &swamp.PatchFieldsMeta{}
		for _, tok := range strings.Split(f[4], ",") {
			switch {
			case tok == "ua":
				meta.SetUpdatedAt = true
			case tok == "ca":
				meta.SetCreatedAt = true
			case tok == "clr":
				meta.ClearExpiredAt = true
			case strings.HasPrefix(tok, "ub="):
				meta.SetUpdatedBy = string(c13Unhex(tok[3:]))
			case strings.HasPrefix(tok, "cb="):
				meta.SetCreatedBy = string(c13Unhex(tok[3:]))
			case strings.HasPrefix(tok, "exp="):
				n, perr := strconv.ParseInt(tok[4:], 10, 64)
				if perr != nil {
					return "bad-op"
				}
				meta.SetExpiredAt = time.Unix(0, n)
			default:
				return "bad-op"
			}
		}
	}
	p.n++
	key := fmt.Sprintf("k%d", p.n)
	verb := f[0]
	if verb == "gx" {
		sw = p.xw
	}
	spec, exp0 := f[1], int64(0)
	if i := strings.IndexByte(spec, '@'); i >= 0 {
		exp0, _ = strconv.ParseInt(spec[i+1:], 10, 64)
		spec = spec[:i]
	}
	switch {
	case spec == "absent":
		if verb == "gx" {
			return "bad-op"
		}
	case spec == "other" || strings.HasPrefix(spec, "b:"):
		t := sw.CreateTreasure(key)
		g := t.StartTreasureGuard(true)
		if spec == "other" {
			t.SetContentString(g, "not a byte array")
		} else {
			t.SetContentByteArray(g, c13Unhex(spec[2:]))
		}
		if exp0 != 0 {
			t.SetExpirationTime(g, time.Unix(0, exp0))
		}
		t.Save(g)
		t.ReleaseTreasureGuard(g)
	default:
		return "bad-op"
	}
	status, echo := 0, "-"
	switch verb {
	case "pf":
		res, err := sw.PatchFields(key, ops, cond, swamp.PatchFieldsOptions{CreateIfNotExist: f[2] == "1",
			InitialMsgpackOnCreate: c13Unhex(f[3]), Meta: meta})
		if err != nil {
			return "error " + err.Error()
		}
		status = int(res.Status)
		if res.NewMsgpack != nil {
			echo = c13H(res.NewMsgpack)
		}
	case "gp", "gx":
		wops, ok1 := c13WireOps(f[6:])
		wcond, ok2 := c13WireCond(f[5])
		if !ok1 || !ok2 {
			return "bad-op"
		}
		wmeta := c13WireMeta(meta, f[4])
		ctx, cancel := context.WithTimeout(context.Background(), HxScale(30*time.Second))
		defer cancel()
		if verb == "gp" {
			req := &hydrapb.PatchTreasuresRequest{IslandID: 1, SwampName: c13FieldsName.Get(), CreateIfNotExist: f[2] == "1",
				Patches: []*hydrapb.TreasurePatch{{Key: key, Ops: wops, Condition: wcond}}}
			if f[3] != "-" {
				req.InitialMsgpackOnCreate = c13Unhex(f[3])
			}
			if p.n%2 == 0 { // the request-level Meta and the per-patch Meta take turns
				req.Meta = wmeta
			} else {
				req.Patches[0].Meta = wmeta
				if wmeta != nil {
					req.Meta = &hydrapb.PatchMeta{SetUpdatedAt: true, ClearExpiredAt: true} // fully replaced by the patch's own
				}
			}
			resp, err := p.rig.GW.PatchTreasures(ctx, req)
			if err != nil {
				return "error " + err.Error()
			}
			if resp == nil || len(resp.GetResults()) != 1 || resp.GetResults()[0].GetKey() != key {
				return fmt.Sprintf("results=%d", len(resp.GetResults()))
			}
			status = int(resp.GetResults()[0].GetStatus())
		} else {
			resp, err := p.rig.GW.PatchExpiredTreasures(ctx, &hydrapb.PatchExpiredTreasuresRequest{IslandID: 1, SwampName: c13ExpiredName.Get(),
				HowMany: 0, Ops: wops, Meta: wmeta, Condition: wcond})
			if err != nil {
				return "error " + err.Error()
			}
			if resp == nil || len(resp.GetPatched()) != 1 || resp.GetPatched()[0].GetKey() != key {
				return fmt.Sprintf("patched=%d", len(resp.GetPatched()))
			}
			e := resp.GetPatched()[0]
			status = int(e.GetStatus())
			if e.NewMsgpack != nil {
				echo = c13H(e.GetNewMsgpack())
			}
			defer func() { _ = sw.DeleteTreasure(key, false) }()
		}
	default:
		return "bad-op"
	}
	stored, wf := "absent", 0
	exp, mat, cat, mby, cby := int64(0), 0, 0, "-", "-"
	if t, err := sw.GetTreasure(key); err == nil && t != nil {
		switch t.GetContentType() {
		case treasure.ContentTypeVoid:
		case treasure.ContentTypeByteArray:
			b, _ := t.GetContentByteArray()
			stored = "b:" + c13H(b)
			if len(b) >= 2 {
				if _, perr := msgpackpatch.Parse(b[2:]); perr == nil {
					wf = 1
				}
			}
		default:
			stored = "other"
		}
		exp = t.GetExpirationTime()
		if t.GetModifiedAt() != 0 {
			mat = 1
		}
		if t.GetCreatedAt() != 0 {
			cat = 1
		}
		mby, cby = c13H([]byte(t.GetModifiedBy())), c13H([]byte(t.GetCreatedBy()))
	}
	return fmt.Sprintf("st=%d %s wf=%d new=%s exp=%d mat=%d mby=%s cat=%d cby=%s", status, stored, wf, echo, exp, mat, mby, cat, cby)
}

func c13Run(in *bufio.Scanner, w *bufio.Writer) {
	pf := &c13PF{}
	defer func() {
		if pf.rig != nil {
			pf.sw.CeaseVigil()
			if pf.xw != nil {
				pf.xw.CeaseVigil()
			}
			pf.rig.Stop(true)
		}
	}()
	for in.Scan() {
		line := in.Text()
		f := strings.Split(line, " ")
		func() {
			defer func() {
				if r := recover(); r != nil {
					fmt.Fprintln(w, "panic")
				}
			}()
			switch {
			case f[0] == "case":
				fmt.Fprintln(w, line)
			case f[0] == "parse" && len(f) == 2:
				blob := c13Unhex(f[1])
				s, err := msgpackpatch.Parse(blob)
				if err != nil {
					fmt.Fprintln(w, "err "+c13Class(err))
					return
				}
				var sb strings.Builder
				c13Dump(s, blob, &sb)
				fmt.Fprintln(w, "ok "+sb.String())
			case (f[0] == "ap" || f[0] == "apn") && len(f) >= 3:
				ops, ok1 := c13ParseOps(f[3:])
				cond, ok2 := c13ParseCond(f[2])
				if !ok1 || !ok2 {
					fmt.Fprintln(w, "bad-op")
					return
				}
				body := c13Unhex(f[1])
				keep := append([]byte(nil), body...)
				out, err := msgpackpatch.ApplyWithCondition(body, ops, cond)
				if !bytes.Equal(body, keep) {
					fmt.Fprintln(w, "input-mutated")
					return
				}
				if err != nil {
					if out != nil {
						fmt.Fprintln(w, "err-with-output "+c13Class(err))
						return
					}
					fmt.Fprintln(w, "err "+c13Class(err))
					return
				}
				wf := 0
				if _, perr := msgpackpatch.Parse(out); perr == nil {
					wf = 1
				}
				if f[0] == "apn" {
					out = c13CanonNaN(out)
				}
				fmt.Fprintf(w, "out %s wf=%d\n", c13H(out), wf)
			case (f[0] == "pf" || f[0] == "gp" || f[0] == "gx") && len(f) >= 6:
				fmt.Fprintln(w, pf.run(f))
			default:
				fmt.Fprintln(w, "bad-op")
			}
		}()
	}
}
