package main

// Domain C22: struct tags of SDK catalog models.
//
//	tag T        unit level, through the verif accessors of the SDK (the REAL conversion functions):
//	             reflect-built probe structs {K string `key`; X <string|time.Time> `T`}
//	             reply: shape=S body=NAMES es=… et=… ds=… dt=…
//	               shape/body  inspectCatalogModel (0 key-only, 1 single value, 2 map body; body names hex, comma separated)
//	               es / et     what the ENCODER put into the KeyValuePair for X = "xv" / X = a fixed time
//	               ds / dt     what the DECODER left in X (string / time probe) from a treasure with every slot filled
//	rt T KIND EXTRA   end to end: CatalogSave + CatalogRead through gRPC (bufconn) and the in-process gateway.
//	             model = [K `key`] + X `T` (KIND s: string, t: time.Time) + [Zz `Zz` body field] + EXTRA=meta: the five
//	             metadata fields (placed BEFORE X, so that a hijacking X overrides them visibly); a field is left out
//	             when X's tag head already names its slot.  After the save the
//	             treasure is read back into the same type and into a probe struct with the exact metadata tags.
//	             reply: ok | bad | err-shape | bad-op
//	val …        value round trips per Go kind: see c22val.go;  mval / mupd / mpupd: the same on a sanctuary registered
//	             with EncodingMsgPack (complex values and map bodies are msgpack- instead of gob-encoded)
//	many V       the read loops (CatalogReadMany / ReadBatch / ReadManyStream, ProfileReadBatch): see c22many.go
//
// T is hex ("-" = empty tag).

import (
	"bufio"
	"context"
	"encoding/hex"
	"fmt"
	"math/rand"
	"os"
	"reflect"
	"strconv"
	"strings"
	"time"

	"github.com/hydraide/hydraide/sdk/go/hydraidego/v3"
	"github.com/hydraide/hydraide/sdk/go/hydraidego/v3/hydraidepbgo"
	sdkname "github.com/hydraide/hydraide/sdk/go/hydraidego/v3/name"
	"github.com/vmihailenco/msgpack/v5"
	"google.golang.org/protobuf/types/known/timestamppb"
)

func init() { Register("C22", Domain{Gen: c22Gen, Run: c22Run}) }

var c22Reserved = []string{"key", "value", "expireAt", "createdBy", "createdAt", "updatedBy", "updatedAt"}

func c22Head(t string) string {
	if i := strings.IndexByte(t, ','); i >= 0 {
		return t[:i]
	}
	return t
}

func c22IsReserved(h string) bool {
	for _, r := range c22Reserved {
		if h == r {
			return true
		}
	}
	return false
}

// ---- generator -------------------------------------------------------------------------------

var c22Corpus = []string{
	"keywords", "values", "createdAtX", "key,omitempty", "value,omitempty", "Title", "monkey", "keyboard", "hotkey", "turkey",
	"valued", "revalue", "evaluate", "updatedByUser", "expireAtUnix", "lastUpdatedAt", "reupdatedAt", "createdByX", "KEY", "Key",
	"values,omitempty", "value ", " value", "", ",", "-", "omitempty", "key,", "keyvalue", "valuekey", "createdAtcreatedBy",
	"value,createdBy", "createdBy,omitempty", "expireAt,omitempty", "updatedAt,omitempty", "createdAt", "createdBy", "updatedAt",
	"updatedBy", "expireAt", "value", "key", "Status", "ClaimedBy,omitempty", "Score,omitempty,deletable", "searchMeta", "ключ",
	"valeur", "expire", "At", "created", "keyed_value", "a.key", "key.a", "xvalue,omitempty",
}

var c22Frags = []string{"key", "value", "expireAt", "createdBy", "createdAt", "updatedBy", "updatedAt", "ke", "valu", "created", "updated",
	"At", "By", "X", "s", "_", ".", "my", "Name", "id", "Id", "0", "omitempty", "deletable"}

func c22RandTag(rng *rand.Rand) string {
	var b strings.Builder
	for k := 1 + rng.Intn(3); k > 0; k-- {
		if rng.Intn(3) == 0 {
			const alpha = "abcdefghijklmnopqrstuvwxyzABCDEFGHIJKLMNOPQRSTUVWXYZ"
			for j := 1 + rng.Intn(5); j > 0; j-- {
				b.WriteByte(alpha[rng.Intn(len(alpha))])
			}
		} else {
			b.WriteString(c22Frags[rng.Intn(len(c22Frags))])
		}
	}
	switch rng.Intn(6) {
	case 0:
		b.WriteString(",omitempty")
	case 1:
		b.WriteString("," + c22Frags[rng.Intn(len(c22Frags))])
	}
	return b.String()
}

func c22HexTag(t string) string {
	if t == "" {
		return "-"
	}
	return hex.EncodeToString([]byte(t))
}

// kinds allowed for an end-to-end model whose X field carries tag t
func c22KindOK(t, kind string) bool {
	switch c22Head(t) {
	case "key", "createdBy", "updatedBy":
		return kind == "s"
	case "expireAt", "createdAt", "updatedAt":
		return kind == "t"
	}
	return c22Head(t) != "Zz"
}

func c22Gen(rng *rand.Rand, tier string, w *bufio.Writer) {
	nTag, nRt := 1500, 250
	if tier == "thorough" {
		nTag, nRt = 40000, 4000
	}
	fmt.Fprintln(w, "case 0")
	for _, t := range c22Corpus {
		fmt.Fprintf(w, "tag %s\n", c22HexTag(t))
	}
	emitRt := func(t string) {
		for _, kind := range []string{"s", "t"} {
			if c22KindOK(t, kind) {
				extra := "none"
				if rng.Intn(2) == 0 {
					extra = "meta"
				}
				fmt.Fprintf(w, "rt %s %s %s\n", c22HexTag(t), kind, extra)
			}
		}
	}
	for _, t := range c22Corpus {
		emitRt(t)
	}
	fmt.Fprintln(w, "case 1")
	for i := 0; i < nTag; i++ {
		fmt.Fprintf(w, "tag %s\n", c22HexTag(c22RandTag(rng)))
	}
	fmt.Fprintln(w, "case 2")
	for i := 0; i < nRt; i++ {
		emitRt(c22RandTag(rng))
	}
	fmt.Fprintln(w, "case 3")
	var vals []string
	c22GenVals(rng, tier, func(l string) { vals = append(vals, l); fmt.Fprintln(w, l) })
	// the read loops (ReadMany / ReadBatch / ReadManyStream / ProfileReadBatch) on two records with different optional fields
	fmt.Fprintln(w, "case 4")
	for _, v := range []string{"value", "body", "profile"} {
		fmt.Fprintln(w, "many "+v)
	}
	// the value matrices once more on a sanctuary registered with EncodingMsgPack
	fmt.Fprintln(w, "case 5")
	for _, l := range vals {
		fmt.Fprintln(w, "m"+l)
	}
}

// ---- unit probes -----------------------------------------------------------------------------

var (
	c22T0 = time.Date(2031, 2, 3, 4, 5, 6, 0, time.UTC) // probe value of a time-typed X
	c22TE = time.Date(2041, 1, 1, 0, 0, 1, 0, time.UTC) // treasure expireAt
	c22TC = time.Date(2021, 1, 1, 0, 0, 2, 0, time.UTC) // treasure createdAt
	c22TU = time.Date(2022, 1, 1, 0, 0, 3, 0, time.UTC) // treasure updatedAt
	c22TB = time.Date(2023, 1, 1, 0, 0, 4, 0, time.UTC) // body value
	c22TV = time.Unix(1900000000, 0).UTC()              // typed value
)

func c22Field(name string, typ reflect.Type, tag string) reflect.StructField {
	return reflect.StructField{Name: name, Type: typ, Tag: reflect.StructTag("hydraide:" + strconv.Quote(tag))}
}

var c22TimeType = reflect.TypeOf(time.Time{})
var c22StringType = reflect.TypeOf("")

func c22ErrClass(err error) string {
	m := err.Error()
	switch {
	case strings.Contains(m, "key field must be"):
		return "err:key"
	case strings.Contains(m, "key field not found"):
		return "err:nokey"
	case strings.Contains(m, "mixes"):
		return "err:mix"
	}
	for _, s := range c22Reserved[2:] {
		if strings.Contains(m, s+" field must be") {
			return "err:" + s
		}
	}
	return "err:other"
}

func c22EncProbe(tag string, timeProbe bool) (out string) {
	defer func() {
		if r := recover(); r != nil {
			out = "panic"
		}
	}()
	xt := c22StringType
	if timeProbe {
		xt = c22TimeType
	}
	st := reflect.StructOf([]reflect.StructField{c22Field("K", c22StringType, "key"), c22Field("X", xt, tag)})
	v := reflect.New(st)
	v.Elem().Field(0).SetString("kk")
	if timeProbe {
		v.Elem().Field(1).Set(reflect.ValueOf(c22T0))
	} else {
		v.Elem().Field(1).SetString("xv")
	}
	kv, err := hydraidego.VerifCatalogEncode(v.Interface(), hydraidego.EncodingGOB)
	if err != nil {
		return c22ErrClass(err)
	}
	parts := []string{"K=" + kv.GetKey()}
	if kv.StringVal != nil || kv.Int64Val != nil {
		parts = append(parts, "V")
	}
	if kv.ExpiredAt != nil {
		parts = append(parts, "EA")
	}
	if kv.CreatedBy != nil {
		parts = append(parts, "CB")
	}
	if kv.CreatedAt != nil {
		parts = append(parts, "CA")
	}
	if kv.UpdatedBy != nil {
		parts = append(parts, "UB")
	}
	if kv.UpdatedAt != nil {
		parts = append(parts, "UA")
	}
	if len(kv.BytesVal) > 0 {
		parts = append(parts, "B")
	}
	return strings.Join(parts, ",")
}

func c22DecProbe(tag string, timeProbe bool) (out string) {
	defer func() {
		if r := recover(); r != nil {
			out = "panic"
		}
	}()
	xt := c22StringType
	if timeProbe {
		xt = c22TimeType
	}
	st := reflect.StructOf([]reflect.StructField{c22Field("K", c22StringType, "key"), c22Field("X", xt, tag)})
	v := reflect.New(st)
	cb, ub := "tcb", "tub"
	tr := &hydraidepbgo.Treasure{Key: "tk", IsExist: true, CreatedBy: &cb, UpdatedBy: &ub,
		ExpiredAt: timestamppb.New(c22TE), CreatedAt: timestamppb.New(c22TC), UpdatedAt: timestamppb.New(c22TU)}
	var bodyVal any = "tb"
	if timeProbe {
		iv := c22TV.Unix()
		tr.Int64Val = &iv
		bodyVal = c22TB
	} else {
		sv := "tv"
		tr.StringVal = &sv
	}
	if h := c22Head(tag); h != "" && !c22IsReserved(h) {
		blob, err := msgpack.Marshal(map[string]any{h: bodyVal})
		if err != nil {
			return "err:probe"
		}
		tr.BytesVal = blob
	}
	if err := hydraidego.VerifCatalogDecode(tr, v.Interface()); err != nil {
		return "err"
	}
	if timeProbe {
		t := v.Elem().Field(1).Interface().(time.Time)
		if t.IsZero() {
			return "zero"
		}
		return strconv.FormatInt(t.Unix(), 10)
	}
	return "s:" + v.Elem().Field(1).String()
}

// ---- end to end ------------------------------------------------------------------------------

type c22Probe struct {
	K  string    `hydraide:"key"`
	EA time.Time `hydraide:"expireAt"`
	CB string    `hydraide:"createdBy"`
	CA time.Time `hydraide:"createdAt"`
	UB string    `hydraide:"updatedBy"`
	UA time.Time `hydraide:"updatedAt"`
}

var (
	c22XT = time.Date(2033, 3, 3, 3, 3, 3, 0, time.UTC)
	c22MA = map[string]time.Time{
		"expireAt":  time.Date(2044, 4, 4, 4, 4, 4, 0, time.UTC),
		"createdAt": time.Date(2024, 4, 4, 4, 4, 5, 0, time.UTC),
		"updatedAt": time.Date(2025, 5, 5, 5, 5, 5, 0, time.UTC),
	}
	c22MB = map[string]string{"createdBy": "cb", "updatedBy": "ub"}
)

func c22Rt(sdk *miscSDK, idx int, tag, kind, extra string) (out string) {
	defer func() {
		if r := recover(); r != nil {
			fmt.Fprintf(os.Stderr, "c22 rt %q: panic %v\n", tag, r)
			out = "bad"
		}
	}()
	if !c22KindOK(tag, kind) || (kind != "s" && kind != "t") || (extra != "none" && extra != "meta") {
		return "bad-op"
	}
	head := c22Head(tag)
	var fields []reflect.StructField
	type setter func(v reflect.Value)
	var sets []setter
	// expected metadata seen through the probe struct
	wantStr := map[string]string{}
	wantTime := map[string]time.Time{}
	add := func(name string, typ reflect.Type, tg string, val any) {
		i := len(fields)
		fields = append(fields, c22Field(name, typ, tg))
		sets = append(sets, func(v reflect.Value) { v.Field(i).Set(reflect.ValueOf(val)) })
	}
	key := "k1"
	if head != "key" {
		add("K", c22StringType, "key", "k1")
	} else {
		key = "xv"
	}
	if extra == "meta" {
		for i, s := range []string{"expireAt", "createdBy", "createdAt", "updatedBy", "updatedAt"} {
			if head == s {
				continue
			}
			if tv, ok := c22MA[s]; ok {
				add(fmt.Sprintf("M%d", i), c22TimeType, s, tv)
				wantTime[s] = tv
			} else {
				add(fmt.Sprintf("M%d", i), c22StringType, s, c22MB[s])
				wantStr[s] = c22MB[s]
			}
		}
	}
	xIdx := len(fields)
	if kind == "s" {
		add("X", c22StringType, tag, "xv")
		if _, ok := c22MB[head]; ok {
			wantStr[head] = "xv"
		}
	} else {
		add("X", c22TimeType, tag, c22XT)
		if _, ok := c22MA[head]; ok {
			wantTime[head] = c22XT
		}
	}
	if head != "value" {
		add("Zz", c22StringType, "Zz", "zv")
	}
	st := reflect.StructOf(fields)
	// is X part of the stored model at all? (reserved slot, or one of the body fields the shape detector reports)
	persisted := c22IsReserved(head)
	if _, names, err := hydraidego.VerifCatalogShape(st); err == nil {
		for _, n := range names {
			persisted = persisted || n == head
		}
	}
	m := reflect.New(st)
	for _, s := range sets {
		s(m.Elem())
	}
	ctx, cancel := context.WithTimeout(context.Background(), HxScale(30*time.Second))
	defer cancel()
	swamp := sdkname.New().Sanctuary("c22").Realm("rt").Swamp("s" + strconv.Itoa(idx))
	if _, err := sdk.H.CatalogSave(ctx, swamp, m.Interface()); err != nil {
		if strings.Contains(err.Error(), "mixes") {
			return "err-shape"
		}
		fmt.Fprintf(os.Stderr, "c22 rt %q: save: %v\n", tag, err)
		if miscIsTimeout(err) {
			return "timeout"
		}
		return "bad"
	}
	defer func() { _ = sdk.H.Destroy(context.Background(), swamp) }()
	back := reflect.New(st)
	if err := sdk.H.CatalogRead(ctx, swamp, key, back.Interface()); err != nil {
		fmt.Fprintf(os.Stderr, "c22 rt %q: read: %v\n", tag, err)
		if miscIsTimeout(err) {
			return "timeout"
		}
		return "bad"
	}
	for i := range fields {
		if i == xIdx && !persisted {
			continue // a field whose tag head is empty (or a skip marker) is not persisted by design
		}
		a, b := m.Elem().Field(i).Interface(), back.Elem().Field(i).Interface()
		same := a == b
		if ta, ok := a.(time.Time); ok {
			same = ta.Equal(b.(time.Time))
		}
		if !same {
			fmt.Fprintf(os.Stderr, "c22 rt %q: field %s `%s`: saved %v, read %v\n", tag, fields[i].Name, fields[i].Tag, a, b)
			return "bad"
		}
	}
	var p c22Probe
	if err := sdk.H.CatalogRead(ctx, swamp, key, &p); err != nil {
		fmt.Fprintf(os.Stderr, "c22 rt %q: probe read: %v\n", tag, err)
		if miscIsTimeout(err) {
			return "timeout"
		}
		return "bad"
	}
	gotStr := map[string]string{"createdBy": p.CB, "updatedBy": p.UB}
	gotTime := map[string]time.Time{"expireAt": p.EA, "createdAt": p.CA, "updatedAt": p.UA}
	for s, g := range gotStr {
		if g != wantStr[s] {
			fmt.Fprintf(os.Stderr, "c22 rt %q: treasure %s = %q, model says %q\n", tag, s, g, wantStr[s])
			return "bad"
		}
	}
	for s, g := range gotTime {
		w, has := wantTime[s]
		if (has && !g.Equal(w)) || (!has && !g.IsZero()) {
			fmt.Fprintf(os.Stderr, "c22 rt %q: treasure %s = %v, model says %v (set: %v)\n", tag, s, g, w, has)
			return "bad"
		}
	}
	if p.K != key {
		return "bad"
	}
	return "ok"
}

// ---- runner ----------------------------------------------------------------------------------

func c22Run(in *bufio.Scanner, w *bufio.Writer) {
	miscQuiet()
	var sdk *miscSDK
	defer func() {
		if sdk != nil {
			sdk.Stop()
		}
	}()
	idx := 0
	for in.Scan() {
		line := in.Text()
		f := strings.Split(line, " ")
		idx++
		tagOf := func(s string) (string, bool) {
			if s == "-" {
				return "", true
			}
			b, err := hex.DecodeString(s)
			return string(b), err == nil
		}
		switch {
		case f[0] == "case":
			fmt.Fprintln(w, line)
		case f[0] == "tag" && len(f) == 2:
			t, ok := tagOf(f[1])
			if !ok {
				fmt.Fprintln(w, "bad-op")
				continue
			}
			st := reflect.StructOf([]reflect.StructField{c22Field("K", c22StringType, "key"), c22Field("X", c22StringType, t)})
			shape, names, err := hydraidego.VerifCatalogShape(st)
			sh := strconv.Itoa(shape)
			if err != nil {
				sh = "err"
			}
			var hx []string
			for _, n := range names {
				hx = append(hx, hex.EncodeToString([]byte(n)))
			}
			fmt.Fprintf(w, "shape=%s body=%s es=%s et=%s ds=%s dt=%s\n", sh, strings.Join(hx, ","),
				c22EncProbe(t, false), c22EncProbe(t, true), c22DecProbe(t, false), c22DecProbe(t, true))
		case (f[0] == "rt" && len(f) == 4) || ((f[0] == "val" || f[0] == "mval") && len(f) == 5) || ((f[0] == "upd" || f[0] == "mupd") && len(f) == 6) ||
			(f[0] == "shape" && len(f) == 2) || (f[0] == "many" && len(f) == 2) || ((f[0] == "pupd" || f[0] == "mpupd") && len(f) == 5):
			t, ok := tagOf(f[1])
			if f[0] != "rt" {
				t, ok = "", true
			}
			if !ok {
				fmt.Fprintln(w, "bad-op")
				continue
			}
			if sdk == nil {
				var err error
				sdk, err = miscNewSDK(600, 0)
				if err != nil {
					fmt.Fprintln(w, "timeout rig")
					continue
				}
				ctx, cancel := context.WithTimeout(context.Background(), HxScale(30*time.Second))
				errs := sdk.H.RegisterSwamp(ctx, &hydraidego.RegisterSwampRequest{
					SwampPattern:    sdkname.New().Sanctuary("c22").Realm("*").Swamp("*"),
					CloseAfterIdle:  600 * time.Second,
					IsInMemorySwamp: true,
				})
				cancel()
				if len(errs) > 0 {
					fmt.Fprintln(os.Stderr, "c22: register:", errs)
				}
				// the same matrices a second time on swamps whose complex values and map bodies are msgpack-encoded
				ctx, cancel = context.WithTimeout(context.Background(), HxScale(30*time.Second))
				errs = sdk.H.RegisterSwamp(ctx, &hydraidego.RegisterSwampRequest{
					SwampPattern:   sdkname.New().Sanctuary("c22m").Realm("*").Swamp("*"),
					CloseAfterIdle: 600 * time.Second,
					FilesystemSettings: &hydraidego.SwampFilesystemSettings{WriteInterval: time.Second, MaxFileSize: 8192,
						EncodingFormat: hydraidego.EncodingMsgPack},
				})
				cancel()
				if len(errs) > 0 {
					fmt.Fprintln(os.Stderr, "c22: register msgpack:", errs)
				}
			}
			enc := ""
			if f[0] == "mval" || f[0] == "mupd" || f[0] == "mpupd" {
				enc, f[0] = "m", f[0][1:]
			}
			if f[0] == "many" {
				fmt.Fprintln(w, c22Many(sdk, idx, f[1]))
			} else if f[0] == "shape" {
				fmt.Fprintln(w, c22Shape(sdk, idx, f[1]))
			} else if f[0] == "pupd" {
				fmt.Fprintln(w, c22Val(sdk, idx, enc, "p", f[1], f[2], f[3], f[4]))
			} else if f[0] == "val" {
				fmt.Fprintln(w, c22Val(sdk, idx, enc, f[1], f[2], f[3], f[4], ""))
			} else if f[0] == "upd" {
				fmt.Fprintln(w, c22Val(sdk, idx, enc, f[1], f[2], f[3], f[4], f[5]))
			} else {
				fmt.Fprintln(w, c22Rt(sdk, idx, t, f[2], f[3]))
			}
		default:
			fmt.Fprintln(w, "bad-op")
		}
	}
}
