package main

// Domain C24: the compressor wrappers against the libraries they wrap.
//
// ops:   case N
//        rt  ALG HEX                      compress then decompress through the wrapper
//        dec ALG ORIGHEX DAMAGEDHEX LIB   wrapper.Decompress(damaged); LIB is the library's own
//                                         verdict on the same bytes, computed by the generator:
//                                         H (gzip header rejected) | E (error) | O:HEX (decoded)
// reply: ok | diff | err            for rt
//        err | ok HEX               for dec

import (
	"bufio"
	"bytes"
	"compress/gzip"
	"encoding/hex"
	"fmt"
	"io"
	"math/rand"
	"strings"
	"sync"
	"sync/atomic"

	"github.com/golang/snappy"
	"github.com/hydraide/hydraide/app/core/compressor"
	"github.com/klauspost/compress/zstd"
	"github.com/pierrec/lz4"
)

func init() { Register("C24", Domain{Gen: genC24, Run: runC24}) }

var c24Algs = []string{"gzip", "lz4", "snappy", "zstd"}

func c24Type(a string) compressor.Type {
	switch a {
	case "gzip":
		return compressor.Gzip
	case "lz4":
		return compressor.LZ4
	case "snappy":
		return compressor.Snappy
	}
	return compressor.Zstd
}

// the library's own verdict (independent of the wrapper under test)
func c24Lib(alg string, c []byte) string {
	ok := func(d []byte) string { return "O:" + hex.EncodeToString(d) }
	switch alg {
	case "gzip":
		zr, err := gzip.NewReader(bytes.NewReader(c))
		if err != nil {
			return "H"
		}
		d, err := io.ReadAll(zr)
		if err != nil {
			return "E"
		}
		return ok(d)
	case "lz4":
		d, err := io.ReadAll(lz4.NewReader(bytes.NewReader(c)))
		if err != nil {
			return "E"
		}
		return ok(d)
	case "snappy":
		d, err := snappy.Decode(nil, c)
		if err != nil {
			return "E"
		}
		return ok(d)
	default:
		dec, err := zstd.NewReader(bytes.NewReader(c))
		if err != nil {
			return "E"
		}
		d, err := dec.DecodeAll(c, nil)
		if err != nil {
			return "E"
		}
		return ok(d)
	}
}

func c24Payload(rng *rand.Rand, max int) []byte {
	n := 0
	switch rng.Intn(6) {
	case 0:
		n = 0
	case 1:
		n = 1 + rng.Intn(4)
	default:
		n = rng.Intn(max)
	}
	b := make([]byte, n)
	switch rng.Intn(3) {
	case 0: // random
		rng.Read(b)
	case 1: // repetitive (compressible)
		for i := range b {
			b[i] = "abcabcabd"[i%9]
		}
	default: // runs
		v := byte(rng.Intn(256))
		for i := range b {
			if rng.Intn(17) == 0 {
				v = byte(rng.Intn(256))
			}
			b[i] = v
		}
	}
	return b
}

func genC24(rng *rand.Rand, tier string, w *bufio.Writer) {
	n, max := 600, 600
	if tier == "thorough" {
		n, max = 12000, 4000
	}
	fmt.Fprintln(w, "case 0")
	// corpus: the hand-reproduced gzip case ("not gzip") and an empty input per algorithm
	for _, a := range c24Algs {
		fmt.Fprintf(w, "rt %s \n", a)
		bad := []byte("not gzip")
		fmt.Fprintf(w, "dec %s %s %s %s\n", a, hex.EncodeToString([]byte("x")), hex.EncodeToString(bad), c24Lib(a, bad))
	}
	// corpus: the two recorded library-level findings (lz4 frame cut inside its header; snappy
	// literal byte flipped) — the library verdict is recomputed, never hard-coded
	{
		p := bytes.Repeat([]byte("hydraide"), 40)
		c, _ := compressor.New(compressor.LZ4).Compress(p)
		d := c[:6]
		fmt.Fprintf(w, "dec lz4 %s %s %s\n", hex.EncodeToString(p), hex.EncodeToString(d), c24Lib("lz4", d))
		// a compressed form truncated to nothing, for every algorithm
		for _, a := range c24Algs {
			fmt.Fprintf(w, "dec %s %s  %s\n", a, hex.EncodeToString(p), c24Lib(a, nil))
		}
		// lz4: the size field of a one-byte stored block enlarged to swallow end mark + checksum
		{
			q := []byte("a")
			cq, _ := compressor.New(compressor.LZ4).Compress(q)
			if len(cq) == 20 && cq[7] == 0x01 && cq[10] == 0x80 {
				dq := append([]byte(nil), cq...)
				dq[7] = 0x09
				fmt.Fprintf(w, "dec lz4 %s %s %s\n", hex.EncodeToString(q), hex.EncodeToString(dq), c24Lib("lz4", dq))
			}
		}
		p = []byte("abcdefghijklmnopqrstuvwxyz0123456789")
		c, _ = compressor.New(compressor.Snappy).Compress(p)
		d = append([]byte(nil), c...)
		d[len(d)-1] ^= 0x01
		fmt.Fprintf(w, "dec snappy %s %s %s\n", hex.EncodeToString(p), hex.EncodeToString(d), c24Lib("snappy", d))
	}
	// a few large inputs (window / block-size / memory-limit boundaries of the libraries)
	for _, a := range c24Algs {
		for _, sz := range []int{70 << 10, 1<<20 + 4096} {
			if tier != "thorough" && sz > 1<<20 && a != "zstd" {
				continue
			}
			b := make([]byte, sz)
			for i := range b {
				b[i] = byte(i*7 + i/251)
			}
			fmt.Fprintf(w, "rt %s %s\n", a, hex.EncodeToString(b))
		}
	}
	// concurrent use of ONE compressor object (goroutines x values)
	for _, a := range c24Algs {
		fmt.Fprintf(w, "rtc %s 6", a)
		for j := 0; j < 6; j++ {
			q := make([]byte, 300+j)
			rng.Read(q)
			fmt.Fprintf(w, " %s", hex.EncodeToString(q))
		}
		fmt.Fprintln(w)
	}
	for i := 0; i < n; i++ {
		a := c24Algs[rng.Intn(4)]
		p := c24Payload(rng, max)
		if rng.Intn(4) == 0 {
			fmt.Fprintf(w, "rt %s %s\n", a, hex.EncodeToString(p))
			continue
		}
		if rng.Intn(8) == 0 {
			// batch: compress several values first, decompress afterwards (a compressed form must
			// stay valid while later values are compressed — same-sized values provoke buffer reuse)
			k := 2 + rng.Intn(3)
			fmt.Fprintf(w, "rtb %s", a)
			for j := 0; j < k; j++ {
				q := c24Payload(rng, max)
				if rng.Intn(2) == 0 && len(p) > 0 {
					q = make([]byte, len(p))
					rng.Read(q)
				}
				fmt.Fprintf(w, " %s", hex.EncodeToString(q))
			}
			fmt.Fprintln(w)
			continue
		}
		c, err := compressor.New(c24Type(a)).Compress(p)
		if err != nil {
			continue
		}
		d := append([]byte(nil), c...)
		switch rng.Intn(6) {
		case 0: // single bit flip
			if len(d) > 0 {
				d[rng.Intn(len(d))] ^= 1 << uint(rng.Intn(8))
			}
		case 1: // byte overwrite(s)
			for k := 1 + rng.Intn(3); k > 0 && len(d) > 0; k-- {
				d[rng.Intn(len(d))] = byte(rng.Intn(256))
			}
		case 2: // truncate
			if len(d) > 0 {
				d = d[:rng.Intn(len(d))]
			}
		case 3: // append garbage
			d = append(d, byte(rng.Intn(256)))
		case 4: // flip in the tail (checksums / last block)
			if len(d) > 0 {
				k := len(d) - 1 - rng.Intn(min(len(d), 8))
				d[k] ^= byte(1 + rng.Intn(255))
			}
		default: // undamaged
		}
		fmt.Fprintf(w, "dec %s %s %s %s\n", a, hex.EncodeToString(p), hex.EncodeToString(d), c24Lib(a, d))
	}
}

func runC24(in *bufio.Scanner, w *bufio.Writer) {
	for in.Scan() {
		f := strings.Split(in.Text(), " ")
		switch {
		case f[0] == "case":
			fmt.Fprintln(w, in.Text())
		case f[0] == "rt" && len(f) == 3:
			p, _ := hex.DecodeString(f[2])
			cp := compressor.New(c24Type(f[1]))
			c, err := cp.Compress(p)
			if err != nil {
				fmt.Fprintln(w, "err")
				continue
			}
			d, err := cp.Decompress(c)
			switch {
			case err != nil:
				fmt.Fprintln(w, "err")
			case bytes.Equal(d, p):
				fmt.Fprintln(w, "ok")
			default:
				fmt.Fprintln(w, "diff")
			}
		case f[0] == "rtb" && len(f) >= 3:
			cp := compressor.New(c24Type(f[1]))
			var ps, cs [][]byte
			bad := ""
			for _, h := range f[2:] {
				p, _ := hex.DecodeString(h)
				c, err := cp.Compress(p)
				if err != nil {
					bad = "err"
				}
				ps, cs = append(ps, p), append(cs, c)
			}
			// every decompressed result is kept and compared only at the end: neither a compressed form
			// nor an earlier decompressed result may be invalidated by later calls (buffer aliasing)
			var ds [][]byte
			for i := range cs {
				d, err := cp.Decompress(cs[i])
				if err != nil {
					bad = "err"
				}
				ds = append(ds, d)
			}
			for i := range ds {
				if bad == "" && !bytes.Equal(ds[i], ps[i]) {
					bad = "diff"
				}
			}
			if bad == "" {
				bad = "ok"
			}
			fmt.Fprintln(w, bad)
		case f[0] == "rtc" && len(f) >= 4:
			cp := compressor.New(c24Type(f[1]))
			var wg sync.WaitGroup
			var bad atomic.Int32
			for _, h := range f[3:] {
				p, _ := hex.DecodeString(h)
				for g := 0; g < 3; g++ {
					wg.Add(1)
					go func(p []byte) {
						defer wg.Done()
						for k := 0; k < 4; k++ {
							c, err := cp.Compress(p)
							if err != nil {
								bad.Store(1)
								return
							}
							d, err := cp.Decompress(c)
							if err != nil || !bytes.Equal(d, p) {
								bad.Store(1)
								return
							}
						}
					}(p)
				}
			}
			wg.Wait()
			if bad.Load() != 0 {
				fmt.Fprintln(w, "diff")
			} else {
				fmt.Fprintln(w, "ok")
			}
		case f[0] == "dec" && len(f) == 5:
			c, _ := hex.DecodeString(f[3])
			func() {
				defer func() {
					if r := recover(); r != nil {
						fmt.Fprintln(w, "panic")
					}
				}()
				d, err := compressor.New(c24Type(f[1])).Decompress(c)
				if err != nil {
					fmt.Fprintln(w, "err")
				} else {
					fmt.Fprintln(w, "ok "+hex.EncodeToString(d))
				}
			}()
		default:
			fmt.Fprintln(w, "bad-op")
		}
	}
}
