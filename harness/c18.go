package main

// Domain C18: forced schedules of concurrent SummonSwamp calls for one swamp name on the real
// hydra (in-process server of harness/rig.go), through the summon hook points; live instances
// are counted by the hooks in swamp.New and swamp.sendClosedEvent.
//
// ops:   case N
//        go T        advance summoner T (1..6) by one protocol step, whatever it is stopped at:
//                    not started → LoadOrStore of the wait slot        reply `lookup slot=<k>`
//                    after lookup → the wait loop                       `inside` | `waiting` | `gaveup`
//                    inside → the body up to its next stop              `cancelled` | `found` | `creating`
//                                 (the first two run the deferred ready=false+Broadcast; a waiter that
//                                  thereby enters is reported ` woke=<T'>`)
//                    creating → createNewSwamp + Store + ready=false    `created` [ woke=<T'>]
//                    after ready=false → the count decrement            `dec`
//                    after the decrement → the zero test (+ Delete)     `deleted` | `kept`
//                    waiting / finished → nothing                       `skip`
//                    (several waiters may sleep on one slot: which of them enters after a Broadcast is the
//                     runtime's choice — it is observed (` woke=<T'>`) and handed to the model; the others go back
//                     to sleep, or give up when their context is cancelled: ` gaveup=[…]`)
//        cancel T    cancel T's context
//        close       Close() the instance stored in hydra's swamps map
//        closeold K / destroyold K   Close() / Destroy() on the K-th instance ever constructed (0,1,…) through a
//                    handle kept from the time it was mapped — stale or not (gateway.Destroy holds no vigil;
//                    Destroy always ends in the close callback, also after an earlier Close)
// reply: <event> live=<instances constructed and not closing/closed> made=<swamp.New calls> mapped=<0|1> cur=<index of the mapped wait slot|-> slots=[k:ready:count …]
//
// Thread identity travels in the context passed to SummonSwamp (the hooks hand the ctx back).

import (
	"bufio"
	"context"
	"fmt"
	"math/rand"
	"os"
	"sort"
	"strconv"
	"strings"
	"sync"
	"sync/atomic"
	"time"

	"github.com/hydraide/hydraide/app/core/hydra"
	"github.com/hydraide/hydraide/app/core/hydra/swamp"
	"github.com/hydraide/hydraide/app/core/settings"
	"github.com/hydraide/hydraide/app/name"
	"github.com/hydraide/hydraide/app/verifhook"
)

type c18Key struct{}

type c18Event struct {
	t    int
	name string
	w    *hydra.SwampWaiter
	rel  chan struct{} // non-nil: the thread is stopped here
}

type c18Thread struct {
	n         int
	stage     string // "", looked, waiting, inside, create, leave.unready, leave.dec, done
	rel       chan struct{}
	slot      *hydra.SwampWaiter
	cancel    context.CancelFunc
	cancelled bool
	sawDel    bool        // its Delete of the wait slot has been observed
	got       swamp.Swamp // the instance it left the body with (found or created)
	ret       swamp.Swamp // what SummonSwamp returned (read after done)
	done      chan struct{}
}

type c18World struct {
	mu         sync.Mutex
	hy         hydra.Hydra
	swName     name.Name
	events     chan c18Event
	passAll    bool
	nested     map[int]bool // threads whose deferred exit summons again: that second SummonSwamp runs unobserved
	nestedSeen bool
	threads    map[int]*c18Thread
	slots      []*hydra.SwampWaiter
	insts      []swamp.Swamp // every instance seen in the swamps map, in construction order
	destroyed  map[int]bool
	news       atomic.Int64
	closed     atomic.Int64
	broken     bool
}

var c18BrokenCases int

var c18Forced = map[string]bool{"looked": true, "wait": true, "inside": true, "giveup": true, "create": true,
	"leave.unready": true, "leave.dec": true, "leave.del": true,
	// the two Broadcasts, reported under the slot's mutex (so they are ordered exactly against the `wait` reports)
	"giveup.locked": true, "ready.clear": true}

var c18Blocking = map[string]bool{"looked": true, "inside": true, "create": true, "leave.unready": true, "leave.dec": true}

func (w *c18World) handler(hook string, args ...any) {
	switch hook {
	case "swamp.new", "swamp.closed":
		if n, _ := args[0].(string); n == w.swName.Get() {
			if hook == "swamp.new" {
				w.news.Add(1)
			} else {
				w.closed.Add(1)
			}
		}
		return
	}
	if !strings.HasPrefix(hook, "summon.") || len(args) < 3 {
		return
	}
	ctx, _ := args[0].(context.Context)
	n, _ := args[1].(string)
	if ctx == nil || n != w.swName.Get() {
		return
	}
	t, ok := ctx.Value(c18Key{}).(int)
	if !ok {
		return
	}
	w.mu.Lock()
	pass := w.passAll || w.nested[t]
	if w.nested[t] {
		w.nestedSeen = true // the call is inside its second SummonSwamp
		if s, ok := args[2].(*hydra.SwampWaiter); ok && s != nil {
			known := false
			for _, x := range w.slots {
				if x == s {
					known = true
				}
			}
			if !known {
				w.slots = append(w.slots, s) // (read again only after the call has returned)
			}
		}
	}
	w.mu.Unlock()
	if pass {
		return
	}
	ev := c18Event{t: t, name: strings.TrimPrefix(hook, "summon.")}
	if !c18Forced[ev.name] {
		return // points used by the stress domain only
	}
	if os.Getenv("C18_DEBUG") != "" {
		fmt.Fprintf(os.Stderr, "%s emit t=%d %s ctxErr=%v\n", time.Now().Format("05.000000"), t, ev.name, ctx.Err())
	}
	ev.w, _ = args[2].(*hydra.SwampWaiter)
	if c18Blocking[ev.name] {
		ev.rel = make(chan struct{})
	}
	w.events <- ev
	if ev.rel != nil {
		<-ev.rel
	}
}

func (w *c18World) timeout() {
	if !w.broken {
		w.broken = true
		c18BrokenCases++
	}
}

// next waits for the next event of thread t (events of other threads are applied to their state).
func (w *c18World) next(t int, d time.Duration) (c18Event, bool) {
	deadline := time.After(d)
	for {
		select {
		case ev := <-w.events:
			w.apply(ev)
			if ev.t == t && ev.name != "leave.del" {
				return ev, true
			}
		case <-deadline:
			return c18Event{}, false
		}
	}
}

func (w *c18World) apply(ev c18Event) {
	if os.Getenv("C18_DEBUG") != "" {
		fmt.Fprintf(os.Stderr, "event t=%d %s\n", ev.t, ev.name)
	}
	th := w.threads[ev.t]
	if th == nil {
		return
	}
	switch ev.name {
	case "giveup.locked", "ready.clear":
		return
	case "wait":
		th.stage = "waiting"
	case "giveup":
		th.stage = "done"
	case "leave.del":
		th.sawDel = true
	default:
		th.stage = ev.name
		th.rel = ev.rel
	}
	if ev.w != nil {
		th.slot = ev.w
		known := false
		for _, s := range w.slots {
			if s == ev.w {
				known = true
			}
		}
		if !known {
			w.slots = append(w.slots, ev.w)
		}
	}
}

func (w *c18World) slotIndex(s *hydra.SwampWaiter) string {
	for i, x := range w.slots {
		if x == s {
			return strconv.Itoa(i)
		}
	}
	return "?"
}

// note records the instance that is mapped right now (handles are what a stale caller would hold).
func (w *c18World) note() {
	if s, ok := hydra.VerifMappedSwamp(w.hy, w.swName.Get()); ok {
		for _, x := range w.insts {
			if x == s {
				return
			}
		}
		w.insts = append(w.insts, s)
	}
}

func (w *c18World) state() string {
	w.note()
	mapped := 0
	if _, ok := hydra.VerifMappedSwamp(w.hy, w.swName.Get()); ok {
		mapped = 1
	}
	live := 0
	for _, x := range w.insts {
		if !x.IsClosing() {
			live++
		}
	}
	cur := "-"
	if s, ok := hydra.VerifSummonSlot(w.hy, w.swName.Get()); ok {
		cur = w.slotIndex(s)
	}
	var ss []string
	for i, s := range w.slots {
		r, c := hydra.VerifWaiterState(s)
		rb := 0
		if r {
			rb = 1
		}
		ss = append(ss, fmt.Sprintf("%d:%d:%d", i, rb, c))
	}
	return fmt.Sprintf("live=%d made=%d mapped=%d cur=%s slots=[%s]", live, w.news.Load(), mapped, cur, strings.Join(ss, " "))
}

// waitersOf lists the threads parked on a slot (to be called before the slot's owner is released).
func (w *c18World) waitersOf(slot *hydra.SwampWaiter) []*c18Thread {
	var out []*c18Thread
	for _, th := range w.threads {
		if th.stage == "waiting" && th.slot == slot {
			out = append(out, th)
		}
	}
	return out
}

// await waits for thread t's next own event and, meanwhile, follows every Broadcast on t's slot to
// its end: a Broadcast (reported under the slot's mutex) wakes every thread that is asleep on the
// slot; each of them re-evaluates its loop exactly once — it enters (at most one can), goes back to
// sleep, or gives up, which is another Broadcast.  Returns t's event, the thread that entered and
// the threads that gave up on the way.
func (w *c18World) await(t int, d time.Duration) (c18Event, bool, string) {
	deadline := time.After(d)
	pending := map[int]bool{}
	var got *c18Event
	entered := 0
	var gave []int
	for got == nil || len(pending) > 0 {
		select {
		case ev := <-w.events:
			if ev.name == "giveup.locked" || ev.name == "ready.clear" {
				for _, o := range w.threads {
					if o.n != ev.t && o.stage == "waiting" && o.slot == ev.w && !pending[o.n] {
						pending[o.n] = true
					}
				}
				continue
			}
			w.apply(ev)
			if pending[ev.t] && (ev.name == "wait" || ev.name == "inside" || ev.name == "giveup") {
				delete(pending, ev.t)
				switch ev.name {
				case "inside":
					entered = ev.t
				case "giveup":
					gave = append(gave, ev.t)
				}
				continue
			}
			if ev.t == t && ev.name != "leave.del" {
				e := ev
				got = &e
			}
		case <-deadline:
			if got != nil {
				return *got, false, " settle-timeout"
			}
			return c18Event{}, false, ""
		}
	}
	tail := ""
	if entered != 0 {
		tail += " woke=" + strconv.Itoa(entered)
	}
	if len(gave) > 0 {
		sort.Ints(gave)
		var g []string
		for _, x := range gave {
			g = append(g, strconv.Itoa(x))
		}
		tail += " gaveup=[" + strings.Join(g, ",") + "]"
	}
	return *got, true, tail
}

func (w *c18World) cleanup() {
	w.mu.Lock()
	w.passAll = true
	w.mu.Unlock()
	for _, th := range w.threads {
		if th.cancel != nil {
			th.cancel()
		}
		if th.rel != nil {
			close(th.rel)
			th.rel = nil
		}
	}
	deadline := time.After(HxScale(1500 * time.Millisecond))
	for _, th := range w.threads {
		if th.done == nil {
			continue
		}
		for alive := true; alive; {
			select {
			case <-th.done:
				alive = false
			case ev := <-w.events:
				if ev.rel != nil {
					close(ev.rel)
				}
			case <-deadline:
				alive = false // parked on an orphaned slot: nobody will ever broadcast there
			}
		}
	}
}

func init() {
	Register("C18", Domain{Gen: genC18, Run: runC18})
}

func genC18(rng *rand.Rand, tier string, w *bufio.Writer) {
	cases, maxLen := 120, 26
	if tier == "thorough" {
		cases, maxLen = 1500, 50
	}
	// corpus: the Lean witness; a lone summoner (count goes to -1, the slot is never deleted); waiter served
	// the stored instance; close and re-summon
	fmt.Fprintln(w, "case 0\ngo 1\ngo 1\ngo 2\ngo 2\ncancel 1\ngo 1\ngo 1\ngo 1\ngo 3\ngo 3\ngo 2\ngo 3\ngo 2\ngo 3")
	fmt.Fprintln(w, "case 1\ngo 1\ngo 1\ngo 1\ngo 1\ngo 1\ngo 1\ngo 2\ngo 2\ngo 2\ngo 2\ngo 2")
	fmt.Fprintln(w, "case 2\ngo 1\ngo 1\ngo 2\ngo 2\ngo 1\ngo 1\ngo 1\ngo 1\ngo 2\ngo 2\ngo 2\nclose\ngo 3\ngo 3\ngo 3\ngo 3")
	// the stale close callback: instance 0 closes, instance 1 is summoned, Destroy() on the old handle
	// deletes the map entry by name, the next summoner constructs instance 2 next to the live instance 1
	fmt.Fprintln(w, "case 3\ngo 1\ngo 1\ngo 1\ngo 1\ngo 1\ngo 1\nclose\ngo 2\ngo 2\ngo 2\ngo 2\ngo 2\ngo 2\ndestroyold 0\ngo 3\ngo 3\ngo 3\ngo 3\ncloseold 1\ndestroyold 1\ndestroyold 1")
	// genuinely concurrent summoners of a fresh name: exactly one instance, no slot left behind
	fmt.Fprintln(w, "case 4\nburst 24")
	fmt.Fprintln(w, "case 5\nburst 8")
	// three waiters asleep on one slot (one of them cancelled meanwhile): the owner's Broadcast wakes all three, one
	// enters (observed), the cancelled one gives up — another Broadcast —, the rest sleep again; then the chain unwinds
	fmt.Fprintln(w, "case 6\ngo 1\ngo 1\ngo 2\ngo 2\ngo 3\ngo 3\ngo 4\ngo 4\ncancel 3\ngo 1\ngo 1\ngo 1\ngo 1\ngo 2\ngo 3\ngo 4\ngo 2\ngo 3\ngo 4\ngo 2\ngo 3\ngo 4\ngo 2\ngo 3\ngo 4\ngo 2\ngo 4")
	// a cancelled newcomer gives up while two waiters sleep: its Broadcast wakes both, both sleep again
	fmt.Fprintln(w, "case 7\ngo 1\ngo 1\ngo 2\ngo 2\ngo 3\ngo 3\ngo 4\ncancel 4\ngo 4\ngo 1\ngo 1\ngo 1\ngo 1\ngo 2\ngo 3\ngo 2\ngo 3\ngo 2\ngo 3\ngo 2\ngo 3")
	for c := 8; c < cases; c++ {
		if c%15 == 0 {
			fmt.Fprintf(w, "case %d\nburst %d\n", c, 4+rng.Intn(28))
			continue
		}
		fmt.Fprintf(w, "case %d\n", c)
		n := 6 + rng.Intn(maxLen)
		nt := 2 + rng.Intn(4)
		for i := 0; i < n; i++ {
			r := rng.Intn(100)
			switch {
			case r < 86:
				fmt.Fprintf(w, "go %d\n", 1+rng.Intn(nt))
			case r < 93:
				fmt.Fprintf(w, "cancel %d\n", 1+rng.Intn(nt))
			case r < 96:
				fmt.Fprintln(w, "close")
			case r < 98:
				fmt.Fprintf(w, "destroyold %d\n", rng.Intn(3))
			default:
				fmt.Fprintf(w, "closeold %d\n", rng.Intn(3))
			}
		}
	}
}

func runC18(in *bufio.Scanner, out *bufio.Writer) {
	rig, err := NewRig(2, 100, 3600, 1)
	if err != nil {
		for in.Scan() {
			fmt.Fprintln(out, "rig-error")
		}
		return
	}
	defer rig.Stop(true)
	rig.Settings.RegisterPattern(name.New().Sanctuary("c18").Realm("*").Swamp("*"), true, 3600, &settings.FileSystemSettings{WriteIntervalSec: 1, MaxFileSizeByte: 8192})
	runID := time.Now().UnixNano()
	var w *c18World
	install := func(caseNo string) {
		if w != nil {
			w.cleanup()
		}
		w = &c18World{hy: rig.Zeus.GetHydra(), events: make(chan c18Event, 64), threads: map[int]*c18Thread{}, destroyed: map[int]bool{}, nested: map[int]bool{},
			swName: name.New().Sanctuary("c18").Realm("case").Swamp(fmt.Sprintf("%s-%d", caseNo, runID))}
		verifhook.SetHandler(w.handler)
	}
	install("boot")
	defer func() { w.cleanup(); verifhook.SetHandler(nil) }()
	for in.Scan() {
		line := strings.TrimSpace(in.Text())
		f := strings.Fields(line)
		if len(f) == 0 {
			fmt.Fprintln(out, "bad-op")
			continue
		}
		if c18BrokenCases > 3 {
			fmt.Fprintln(out, "aborted")
			continue
		}
		if w.broken && f[0] != "case" {
			fmt.Fprintln(out, "broken")
			continue
		}
		switch f[0] {
		case "case":
			install(f[len(f)-1])
			fmt.Fprintln(out, line)
		case "cancel":
			t, _ := strconv.Atoi(f[1])
			th := w.threads[t]
			if th == nil || th.cancelled || th.stage == "done" {
				fmt.Fprintln(out, "skip")
				break
			}
			th.cancelled = true
			th.cancel()
			fmt.Fprintf(out, "cancel %d %s\n", t, w.state())
		case "close":
			s, ok := hydra.VerifMappedSwamp(w.hy, w.swName.Get())
			if !ok {
				fmt.Fprintf(out, "close none %s\n", w.state())
				break
			}
			fin := make(chan struct{})
			go func() { s.Close(); close(fin) }()
			select {
			case <-fin:
				fmt.Fprintf(out, "close ok %s\n", w.state())
			case <-time.After(HxScale(3 * time.Second)):
				w.timeout()
				fmt.Fprintf(out, "close unexpected-timeout %s\n", w.state())
			}
		case "burst":
			// N genuinely concurrent SummonSwamp calls (no goroutine is stopped; several waiters share the slot)
			n, err := strconv.Atoi(f[len(f)-1])
			if err != nil || len(f) != 2 || n < 2 || n > 64 || len(w.threads) > 0 || w.news.Load() > 0 {
				fmt.Fprintln(out, "skip")
				break
			}
			var wg sync.WaitGroup
			start := make(chan struct{})
			errs := atomic.Int64{}
			for i := 0; i < n; i++ {
				wg.Add(1)
				go func() {
					defer wg.Done()
					<-start
					if _, err := w.hy.SummonSwamp(context.Background(), 1, w.swName); err != nil {
						errs.Add(1)
					}
				}()
			}
			close(start)
			fin := make(chan struct{})
			go func() { wg.Wait(); close(fin) }()
			res := "ok"
			select {
			case <-fin:
			case <-time.After(HxScale(10 * time.Second)):
				w.timeout()
				res = "unexpected-timeout"
			}
			_, mapped := hydra.VerifMappedSwamp(w.hy, w.swName.Get())
			_, slot := hydra.VerifSummonSlot(w.hy, w.swName.Get())
			fmt.Fprintf(out, "burst %d %s errors=%d made=%d mapped=%v slotleft=%v\n", n, res, errs.Load(), w.news.Load(), mapped, slot)
		case "closeold", "destroyold":
			k, err := strconv.Atoi(f[len(f)-1])
			if err != nil || len(f) != 2 || k < 0 || k >= len(w.insts) {
				fmt.Fprintln(out, "skip")
				break
			}
			inst := w.insts[k]
			res := "noop"
			if f[0] == "closeold" {
				if !inst.IsClosing() {
					res = "ok"
				}
			} else if !w.destroyed[k] {
				res = "ok"
				w.destroyed[k] = true
			}
			fin := make(chan struct{})
			go func() {
				if f[0] == "closeold" {
					inst.Close()
				} else {
					inst.Destroy()
				}
				close(fin)
			}()
			select {
			case <-fin:
			case <-time.After(HxScale(3 * time.Second)):
				w.timeout()
				res = "unexpected-timeout"
			}
			fmt.Fprintf(out, "%s %d %s %s\n", f[0], k, res, w.state())
		case "go":
			t, _ := strconv.Atoi(f[1])
			if t < 1 || t > 6 {
				fmt.Fprintln(out, "bad-op")
				break
			}
			th := w.threads[t]
			res := ""
			switch {
			case th == nil:
				ctx, cancel := context.WithCancel(context.WithValue(context.Background(), c18Key{}, t))
				th = &c18Thread{n: t, cancel: cancel, done: make(chan struct{})}
				w.threads[t] = th
				go func(th *c18Thread) {
					th.ret, _ = w.hy.SummonSwamp(ctx, 1, w.swName)
					close(th.done)
				}(th)
				if ev, ok := w.next(t, HxScale(3*time.Second)); !ok || ev.name != "looked" {
					w.timeout()
					res = "unexpected-" + ev.name
				} else {
					res = "lookup slot=" + w.slotIndex(th.slot)
				}
			case th.stage == "looked":
				close(th.rel)
				th.rel = nil
				if ev, ok, tail := w.await(t, HxScale(3*time.Second)); !ok {
					w.timeout()
					res = "unexpected-timeout" + tail
				} else {
					res = map[string]string{"inside": "inside", "wait": "waiting", "giveup": "gaveup"}[ev.name] + tail
					if ev.name == "giveup" {
						<-th.done
					}
				}
			case th.stage == "inside":
				close(th.rel)
				th.rel = nil
				ev, ok, tail := w.await(t, HxScale(3*time.Second))
				switch {
				case !ok:
					w.timeout()
					res = "unexpected-timeout" + tail
				case ev.name == "create":
					res = "creating"
				case ev.name == "leave.unready":
					res = "found"
					if th.cancelled {
						res = "cancelled"
					} else if s, ok := hydra.VerifMappedSwamp(w.hy, w.swName.Get()); ok {
						th.got = s
					}
					res += tail
				default:
					res = "unexpected-" + ev.name
				}
			case th.stage == "create":
				close(th.rel)
				th.rel = nil
				if ev, ok, tail := w.await(t, HxScale(3*time.Second)); !ok || ev.name != "leave.unready" {
					w.timeout()
					res = "unexpected-" + ev.name + tail
				} else {
					res = "created" + tail
					if s, ok := hydra.VerifMappedSwamp(w.hy, w.swName.Get()); ok {
						th.got = s
					}
				}
			case th.stage == "leave.unready":
				close(th.rel)
				th.rel = nil
				if ev, ok := w.next(t, HxScale(3*time.Second)); !ok || ev.name != "leave.dec" {
					w.timeout()
					res = "unexpected-" + ev.name
				} else {
					res = "dec"
				}
			case th.stage == "leave.dec":
				// the end of the deferred exit: an instance that has been closed meanwhile is not handed out — the call
				// summons again.  That second SummonSwamp is an ordinary entrant; it is let run to its end unobserved,
				// which needs the wait slot to itself: while another call is under way the step is refused (`busy`).
				again := th.got != nil && !th.cancelled && th.got.IsClosing()
				if again {
					busy := false
					for _, o := range w.threads {
						if o != th && o.stage != "" && o.stage != "done" && o.stage != "leave.dec" {
							busy = true
						}
					}
					if busy {
						res = "busy"
						break
					}
					w.mu.Lock()
					w.nested[t] = true
					w.mu.Unlock()
				}
				close(th.rel)
				th.rel = nil
				th.stage = "done"
				res = "kept"
				select {
				case <-th.done:
				case <-time.After(HxScale(10 * time.Second)):
					w.timeout()
					res = "unexpected-timeout"
				}
				// the Delete hook, if it fired, is queued already (or was seen with the decrement)
				for drained := false; !drained; {
					select {
					case ev := <-w.events:
						w.apply(ev)
					default:
						drained = true
					}
				}
				if th.sawDel {
					res = "deleted"
				}
				w.mu.Lock()
				seen := w.nestedSeen
				w.nestedSeen = false
				w.mu.Unlock()
				if seen && !strings.HasPrefix(res, "unexpected") {
					res += " resummoned"
				}
				if !strings.HasPrefix(res, "unexpected") && th.ret != nil && th.ret.IsClosing() {
					res += " handed-closed" // the caller got an instance that is closing: its writes would never be flushed
				}
			default:
				res = "skip"
			}
			if res == "skip" || res == "busy" {
				fmt.Fprintln(out, res)
			} else {
				fmt.Fprintf(out, "go %d %s %s\n", t, res, w.state())
			}
		default:
			fmt.Fprintln(out, "bad-op")
		}
		out.Flush()
	}
}
