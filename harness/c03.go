package main

// Domain C03: compaction through every entry point, with and without a leftover temp file,
// and every crash point inside the compaction.
//
//   hx gen C03T            → case scripts (worker commands)
//   hx run C03T < scripts  → ops file (strace-derived logs, see c02.go)
//   hx run C03  < ops      → implementation replies

import (
	"bufio"
	"fmt"
	"math/rand"
	"os"
	"strings"
)

func init() {
	Register("C03T", Domain{Gen: c03Gen, Run: c03Trace})
	Register("C03", Domain{Gen: func(*rand.Rand, string, *bufio.Writer) {}, Run: func(in *bufio.Scanner, w *bufio.Writer) { c02RunOps(in, w, true) }})
}

type c03Hist struct {
	rng  *rand.Rand
	next int // next value token
	cmds []string
}

func (h *c03Hist) val() int { h.next++; return h.next }

func (h *c03Hist) put(k int) string {
	v := h.val()
	return fmt.Sprintf("p:%d:%d:%d", k, v, c02Pad(v))
}

func c03ChronLine(rng *rand.Rand, forceName bool) string {
	if forceName || rng.Intn(3) == 0 {
		// name lengths 3, 4, 6, 12: a crash before/inside the name write shifts later block headers by
		// that many bytes; these shifts put small fields under the reader's CompressedSize, other
		// lengths make readNextBlock allocate up to 4 GiB per image (C04's defect) and the run crawl
		names := []string{"s/w", "swmp", "swamp1", "abcdefghijkl"}
		return "chron name " + names[rng.Intn(len(names))]
	}
	return fmt.Sprintf("chron cfg %d %s", c02Pick(rng, 600, 1500, 4000, 16384), []string{"0.2", "0.3", "0.5"}[rng.Intn(3)])
}

func c03Plant(rng *rand.Rand, kind string) string {
	stale := fmt.Sprintf("p:%d:%d:%d", 7777, 5, c02Pad(5))
	stale2 := fmt.Sprintf("p:%d:%d:%d,p:%d:%d:%d", 7777, 5, c02Pad(5), 1, 6, c02Pad(6))
	name := []string{"-", "zz", "swamp"}[rng.Intn(3)]
	switch kind {
	case "junk":
		return fmt.Sprintf("plant temp junk %d", c02Pick(rng, 1, 30, 64, 200))
	case "stale":
		if rng.Intn(2) == 0 {
			return "plant temp file " + name + " 16384 -1 " + stale
		}
		return "plant temp file " + name + " 300 -1 " + stale2
	case "cut":
		// a stale file whose last block is torn
		return fmt.Sprintf("plant temp file %s 16384 %d %s", name, 64+len(strings.TrimPrefix(name, "-"))+c02Pick(rng, 5, 16, 40, 200), stale)
	case "hdronly":
		return "plant temp file " + name + " 16384 -1 -"
	case "short":
		return fmt.Sprintf("plant temp file %s 16384 %d %s", name, c02Pick(rng, 0, 10, 63), stale)
	}
	return ""
}

// small history: a few keys, updates and deletes; compaction through cli / force
func c03Small(rng *rand.Rand, id int, ep, temp string) []string {
	h := &c03Hist{rng: rng}
	out := []string{fmt.Sprintf("case %d ep=%s temp=%s small", id, ep, temp)}
	chron := c03ChronLine(rng, false)
	out = append(out, chron, "live 1000000")
	nk := 2 + rng.Intn(5)
	nb := 2 + rng.Intn(5)
	for b := 0; b < nb; b++ {
		var items []string
		for n := 1 + rng.Intn(5); n > 0; n-- {
			k := 1 + rng.Intn(nk)
			if rng.Intn(5) == 0 {
				items = append(items, fmt.Sprintf("d:%d", k))
			} else {
				items = append(items, h.put(k))
			}
		}
		out = append(out, "w "+strings.Join(items, ","))
		if rng.Intn(2) == 0 {
			out = append(out, "sync")
		}
	}
	out = append(out, "close")
	if p := c03Plant(rng, temp); p != "" {
		out = append(out, p)
	}
	switch ep {
	case "cli":
		out = append(out, "cli "+[]string{"0.01", "0.2", "0.3"}[rng.Intn(3)])
	case "force":
		out = append(out, "force")
	}
	out = append(out, chron, "load")
	// life goes on after the compaction
	out = append(out, "w "+h.put(1+rng.Intn(nk))+","+h.put(50), "close", chron, "load")
	return out
}

// ForceCompaction in the middle of a session: the writer is open (right after a write tick its buffer
// is empty, or it still holds entries); the same chronicler goes on writing afterwards.
func c03MidSession(rng *rand.Rand, id int) []string {
	h := &c03Hist{rng: rng}
	out := []string{fmt.Sprintf("case %d ep=force temp=none midsession", id)}
	chron := c03ChronLine(rng, false)
	out = append(out, chron, "live 1000000")
	nk := 2 + rng.Intn(4)
	for b := 0; b < 2+rng.Intn(3); b++ {
		out = append(out, "w "+h.put(1+rng.Intn(nk))+","+h.put(1+rng.Intn(nk)), "sync")
	}
	if rng.Intn(2) == 0 {
		out = append(out, "w "+h.put(1+rng.Intn(nk))) // buffered, not synced
	}
	out = append(out, "force")
	out = append(out, "w "+h.put(1+rng.Intn(nk))+","+h.put(60), "sync", "w "+h.put(61), "close", chron, "load")
	return out
}

// large history (≥ 100 entries): the inline triggers and the load self-heal
func c03Large(rng *rand.Rand, id int, ep, temp string) []string {
	h := &c03Hist{rng: rng}
	out := []string{fmt.Sprintf("case %d ep=%s temp=%s large", id, ep, temp)}
	chron := c03ChronLine(rng, false)
	nk := 12 + rng.Intn(14)
	rounds := 100/nk + 2
	out = append(out, chron)
	if ep == "write" {
		out = append(out, fmt.Sprintf("live %d", nk))
	} else {
		out = append(out, "live 1000000")
	}
	if p := c03Plant(rng, temp); p != "" && ep != "load" {
		out = append(out, p)
	}
	for r := 0; r < rounds; r++ {
		var items []string
		for k := 1; k <= nk; k++ {
			items = append(items, h.put(k))
			if len(items) == 9 || k == nk {
				out = append(out, "w "+strings.Join(items, ","))
				items = nil
			}
		}
		if rng.Intn(2) == 0 {
			out = append(out, "sync")
		}
	}
	switch ep {
	case "write":
		out = append(out, "close")
	case "close":
		out = append(out, fmt.Sprintf("live %d", nk), "close")
	case "load":
		out = append(out, "close")
		if p := c03Plant(rng, temp); p != "" {
			out = append(out, p)
		}
	}
	out = append(out, chron, "load")
	out = append(out, "w "+h.put(1)+","+h.put(500), "close", chron, "load")
	return out
}

// the main file itself has a torn tail (a crash image) when the compaction runs
func c03TornMain(rng *rand.Rand, id int, ep string) []string {
	h := &c03Hist{rng: rng}
	out := []string{fmt.Sprintf("case %d ep=%s temp=none tornmain", id, ep)}
	chron := c03ChronLine(rng, false)
	out = append(out, chron, "live 1000000")
	for b := 0; b < 4; b++ {
		out = append(out, "w "+h.put(1+rng.Intn(3))+","+h.put(1+rng.Intn(3)), "sync")
	}
	out = append(out, "close", fmt.Sprintf("cut %d", c02Pick(rng, 1, 5, 17, 60, 300)), chron, "load")
	if ep == "cli" {
		out = append(out, "cli 0.01")
	} else {
		out = append(out, "force")
	}
	out = append(out, chron, "load", "w "+h.put(9), "close", chron, "load")
	return out
}

func c03Gen(rng *rand.Rand, tier string, w *bufio.Writer) {
	temps := []string{"none", "junk", "stale", "cut", "hdronly", "short"}
	id := 0
	emit := func(lines []string) {
		for _, l := range lines {
			fmt.Fprintln(w, l)
		}
		id++
	}
	// corpus first: the reproduced CLI case (stale parseable temp), and one per entry point
	emit(c03Small(rand.New(rand.NewSource(11)), id, "cli", "stale"))
	emit(c03Small(rand.New(rand.NewSource(12)), id, "force", "stale"))
	emit(c03Large(rand.New(rand.NewSource(13)), id, "write", "stale"))
	emit(c03Large(rand.New(rand.NewSource(14)), id, "close", "cut"))
	emit(c03Large(rand.New(rand.NewSource(15)), id, "load", "stale"))
	emit(c03TornMain(rand.New(rand.NewSource(16)), id, "cli"))
	emit(c03TornMain(rand.New(rand.NewSource(17)), id, "force"))
	for i := 0; i < 4; i++ {
		emit(c03TornMain(rng, id, []string{"cli", "force"}[rng.Intn(2)]))
	}
	for i := 0; i < 4; i++ {
		emit(c03MidSession(rng, id))
	}
	nSmall, nLarge := 14, 4
	if tier == "thorough" {
		nSmall, nLarge = 120, 30
	}
	for i := 0; i < nSmall; i++ {
		ep := []string{"cli", "force"}[rng.Intn(2)]
		emit(c03Small(rng, id, ep, temps[rng.Intn(len(temps))]))
	}
	for i := 0; i < nLarge; i++ {
		ep := []string{"write", "close", "load"}[rng.Intn(3)]
		emit(c03Large(rng, id, ep, temps[rng.Intn(len(temps))]))
	}
}

func c03Trace(in *bufio.Scanner, w *bufio.Writer) {
	cases := c02ReadCases(in)
	outs, err := c02TraceCases(cases, nil)
	if err != nil {
		fmt.Fprintln(os.Stderr, "C03T:", err)
	}
	thorough := os.Getenv("HX_TIER") == "thorough"
	for _, co := range outs {
		c02EmitCase(w, co, func(ki int, c c02CmdOut) (bool, bool) {
			return c02HasTempCreateOrWrite(c.Sys), true
		}, thorough, true)
	}
}
