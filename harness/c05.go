package main

// Domain C05: close and reload preserve every record.  Same runner and line protocol as C06
// (harness/c06.go); the generator builds a history on a persistent swamp, forces a close
// (graceful stop + restart on the same data root, or idle eviction through the real close
// listener on the 1 s-idle kinds), reads everything back, optionally continues and closes again.

import (
	"bufio"
	"fmt"
	"math/rand"
	"strings"
)

func init() { Register("C05", Domain{Gen: c05Gen, Run: c06Run}) }

// every value type with its zero-like member and a non-zero twin
var c05ZeroTable = []string{
	"i8:0", "i16:0", "i32:0", "i64:0", "u8:0", "u16:0", "u32:0", "u64:0",
	"f32:00000000", "f64:0000000000000000", "bool:0", "str:", "bytes:", "void",
	"i8:-1", "i16:7", "i32:1", "i64:-9", "u8:255", "u16:1", "u32:1", "u64:1",
	"f32:3f800000", "f64:3ff0000000000000", "bool:1", "str:61", "bytes:00", "u32s:0",
}

func c05TableCase() []string {
	var ops []string
	var keys []string
	for i, v := range c05ZeroTable {
		k := fmt.Sprintf("z%02d", i)
		keys = append(keys, k)
		ops = append(ops, "set 11 "+k+"|"+v+"|a1000000000|u1|||b3600000000000")
	}
	ops = append(ops, "push p0:", "inc i64 n0 5 - - -", "inc i64 n0 -5 - - -", "inc f64 n1 3ff0000000000000 - - -", "inc f64 n1 bff0000000000000 - - -")
	ops = append(ops, "getall", "restart", "getall", "count", "get "+strings.Join(keys[:14], " "), "size p0", "inc u8 z04 1 - - -", "close", "getall")
	return ops
}

// the request mix of C06 plus an occasional CompactSwamp, and one request in five about expiry: Set and
// Increment with an expiry (past, future, pre-epoch), PatchTreasures metadata (set / slide / clear),
// ShiftExpiredTreasures and PatchExpiredTreasures over everything expired (how many and in which order
// they claim is C30's subject: the cases carry sorted=1), ExpiredAt filters
func c05Op(rng *rand.Rand) string {
	if rng.Intn(30) == 0 {
		return "compact"
	}
	if rng.Intn(5) == 0 {
		ki := rng.Intn(len(c06Keys))
		k := c06Keys[ki]
		switch rng.Intn(10) {
		case 0, 1:
			return "set 11 " + k + "|" + c30Val(rng) + "|||||" + c30Exp(rng, ki)
		case 2, 3, 4:
			return "patch " + c06Pick(rng, []string{"0", "1", "1"}) + " " + k + " " + c30Meta(rng, ki)
		case 5:
			meta := "0||0||" + c30Exp(rng, ki)
			return "inc i64 " + k + " 1 " + c06Pick(rng, []string{"-", "-", "eq:77", "ge:0"}) + " " + meta + " " + meta
		case 6, 7:
			return "shiftexp 0"
		case 8:
			if rng.Intn(2) == 0 {
				return "patchexp 0 " + c06Pick(rng, []string{"0", "1"}) + "|" + c06Pick(rng, c06Users) + "|0|||1"
			}
			return "patchexp 0 0|" + c06Pick(rng, []string{"u7", "u8", ""}) + "|0|" + c06Pick(rng, []string{"u7", "u8"}) + "||0"
		}
		return "fexp " + c06Pick(rng, []string{"lt", "le", "gt", "ne", "empty", "notempty"}) + " " + c06Pick(rng, []string{"now", "b0", "a0"})
	}
	return c06RandOp(rng, true)
}

func c05Gen(rng *rand.Rand, tier string, w *bufio.Writer) {
	cases, length, idleCases := 24, 24, 1
	if tier == "thorough" {
		cases, length, idleCases = 150, 60, 12
	}
	n := 0
	emit := func(kind string, ops []string) {
		fmt.Fprintf(w, "case %d kind=%s sorted=1\n", n, kind)
		n++
		for _, o := range ops {
			fmt.Fprintln(w, o)
		}
	}
	// corpus: the zero-like table on both write paths, the unsaved-metadata case, an in-memory swamp
	emit("p1", c05TableCase())
	emit("p0", c05TableCase())
	emit("p0", []string{"set 11 k0|u8:1|||||", "inc u8 k0 1 eq:5 - 0||1|u2|b3600000000000", "get k0", "restart", "get k0"})
	emit("p1", []string{"set 11 k0|u8:1|||||", "restart", "inc u8 k0 1 eq:5 - 0||1|u2|b3600000000000", "get k0", "restart", "get k0"})
	emit("mem", []string{"set 11 k0|i64:5|||||", "restart", "issw", "set 11 k0|i64:0|||||", "get k0"})
	// requests on records that came back from the file
	emit("p1", []string{"set 11 k0|str:68656c6c6f|a1000000000|u1||| k1|i64:7||||| k2|u32s:1,2|||||", "close", "shift k0", "inc i64 k1 1 - - -", "push k2:3", "close", "getall", "shift k1 k2", "issw"})
	// delete, re-create and delete a persisted key within one write interval: the queued delete is
	// replaced by the new treasure, which is then dropped from the write buffer unwritten
	emit("p1", []string{"set 11 k0|i64:5||||| k1|i64:6|||||", "close", "del k0", "inc i64 k0 1 - - -", "del k0", "getall", "close", "getall", "count"})
	emit("p0", []string{"set 11 k0|i64:5||||| k1|i64:6|||||", "close", "del k0", "inc i64 k0 1 - - -", "del k0", "getall", "close", "getall", "count"})
	// a reloaded record receives a Set that changes nothing but the modification stamps (every "changed"
	// flag of the live object is clear at that point, so only the stamp comparison can queue the rewrite)
	for _, k := range []string{"p1", "p0"} {
		emit(k, []string{"set 11 k0|i64:5|a1000000000|u1|a2000000000|u1| k1|str:61|||||", "close",
			"set 11 k0|i64:5|||a3000000000|u2| k1|str:61||||u3|", "get k0 k1", "close", "get k0 k1",
			"set 11 k0|i64:5|||a4000000000|| k1|str:61|||a5000000000||", "restart", "getall"})
	}
	// CompactSwamp in the middle of a session: ten records written, all rewritten (half of the file is dead
	// entries), the forced compaction, then a create, an update and a delete that must survive the reload.
	// p1t: the ticker has flushed before the compaction (writer open, buffer empty); p0: every write is flushed
	// at once; p1: everything is still buffered
	{
		var a, b []string
		for i := 0; i < 10; i++ {
			a = append(a, fmt.Sprintf("c%d|i64:%d|a1000000000||||", i, i+1))
			b = append(b, fmt.Sprintf("c%d|i64:%d|||a2000000000||", i, i+101))
		}
		tail := []string{"compact", "set 11 late|i64:4242|a3000000000||||", "set 11 c0|i64:999|||a3000000000||", "del c1", "getall"}
		ops := append([]string{"set 11 " + strings.Join(a, " "), "wait 2500", "set 11 " + strings.Join(b, " "), "wait 2500"}, tail...)
		emit("p1t", append(append([]string{}, ops...), "close", "getall", "count"))
		ops = append([]string{"set 11 " + strings.Join(a, " "), "set 11 " + strings.Join(b, " ")}, tail...)
		emit("p0", append(append([]string{}, ops...), "close", "getall", "count"))
		emit("p1", append(append([]string{}, ops...), "close", "getall", "compact", "inc i64 c0 1 - - -", "restart", "getall"))
	}
	// keys the file format cannot hold (the entry header stores the key length in 16 bits and refuses an empty
	// key): the empty key and a 65536-byte key next to the longest storable one (65535 bytes) and ordinary keys
	for _, k := range []string{"p1", "p0"} {
		emit(k, []string{"set 11 a|i64:1||||| |i64:2||||| x@65536|i64:4||||| x@65535|i64:5||||| z|i64:3|||||", "getall", "count", "close", "getall", "count",
			"iske x@65535", "iske x@65536", "iske a"})
	}
	// an expiry set in one session and cleared through PatchTreasures in the next stays cleared; a pre-epoch
	// expiry and records claimed by ShiftExpired / PatchExpired are read back as they were left
	for _, k := range []string{"p1", "p0"} {
		emit(k, []string{"set 11 k0|bytes:c70080|||||b3600000000000 k1|bytes:c70080|||||b-3600000000000 k2|bytes:c70080||||| k3|i64:1|||||b-3500000000000",
			"patch 0 k2 0||0||a-5000000000|0", "getall", "close", "getall", "patch 0 k0 0||0|||1", "getall", "close", "getall", "patch 0 k0 0||0||b7200000000000|0", "close", "getall",
			"shiftexp 0", "getall", "close", "getall", "count"})
		emit(k, []string{"set 11 k0|bytes:c70080|||||b-3600000000000 k1|bytes:c70080|||||b-3500000000000 k2|i64:2|||||b-3400000000000", "close",
			"patchexp 0 0||0|u7|b3600000000000|0", "getall", "close", "getall", "patchexp 0 0||0|||1", "shiftexp 0", "getall", "restart", "getall"})
	}
	// enough entries for the inline compaction (100 entries, 30 % of them dead) and the self-heal at load: 45 Sets of the
	// same three keys, one more, close, read; then a few more writes on the compacted file and a second reload
	{
		var ops []string
		for i := 0; i < 46; i++ {
			ops = append(ops, fmt.Sprintf("set 11 c0|i64:%d||||| c1|str:%02x||||| c2|i64:%d|||||", i+1, i, 1000+i))
		}
		ops = append(ops, "getall", "close", "getall", "set 11 c3|i64:7||||| c0|i64:500|||||", "del c1", "getall", "close", "getall", "count")
		emit("p0", ops)
		emit("p1", ops)
	}
	// the write ticker (kind p1t, 1 s): the same delete / re-create / delete around ticker runs, zero-like
	// values written by the ticker rather than by close, and one random history; a wait of 2.5 s
	// precedes every request whose outcome depends on what the ticker has written
	emit("p1t", []string{"set 11 k0|i64:5||||| k1|i64:6|||||", "wait 2500", "del k0", "inc i64 k0 1 - - -", "wait 2500", "del k0", "getall", "close", "getall", "count"})
	if tier == "thorough" {
		emit("p1t", []string{"set 11 k0|i64:0|a1000000000|u1||| k1|u32s:||||| k2|str:||||| k3|void|||||", "wait 2500", "restart", "getall", "set 11 k0|i64:7|||||", "del k1", "wait 2500", "close", "getall"})
	}
	if tier == "thorough" {
		var ops []string
		for j := 0; j < 8; j++ {
			o := c05Op(rng)
			if v := strings.SplitN(o, " ", 2)[0]; v == "del" || v == "shift" || v == "u32del" {
				ops = append(ops, "wait 2500")
			}
			ops = append(ops, o)
		}
		ops = append(ops, "getall", "wait 2500", "close", "getall", "count")
		emit("p1t", ops)
	}
	readBack := func() []string {
		return []string{"getall", "count", "get " + strings.Join(c06Keys, " "), "issw"}
	}
	for i := 0; i < cases; i++ {
		kind := c06Pick(rng, []string{"p0", "p1", "p1", "p0"})
		closer := "close"
		if (tier == "thorough" && i%5 == 4) || i%8 == 7 {
			closer = "restart"
		}
		if i < idleCases {
			kind, closer = c06Pick(rng, []string{"p0s", "p1s"}), "closeidle"
		}
		var ops []string
		for j, l := 0, 6+rng.Intn(length); j < l; j++ {
			ops = append(ops, c05Op(rng))
		}
		ops = append(ops, "getall", closer)
		ops = append(ops, readBack()...)
		if rng.Intn(3) == 0 {
			// re-send values of earlier Sets to the reloaded records with nothing but new stamps
			last := map[string]string{}
			for _, o := range ops {
				if f := strings.Split(o, " "); f[0] == "set" {
					for _, it := range f[2:] {
						if p := strings.Split(it, "|"); len(p) == 7 {
							last[p[0]] = p[1]
						}
					}
				}
			}
			var items []string
			for _, k := range c06Keys {
				if v, ok := last[k]; ok && rng.Intn(2) == 0 {
					items = append(items, fmt.Sprintf("%s|%s|||%s|%s|", k, v,
						c06Pick(rng, []string{"", "a7000000000", "a8000000000"}), c06Pick(rng, []string{"", "u7", "u8"})))
				}
			}
			if len(items) > 0 {
				ops = append(ops, "set 11 "+strings.Join(items, " "), "getall", closer)
				ops = append(ops, readBack()...)
			}
		}
		if rng.Intn(3) == 0 {
			for j, l := 0, 3+rng.Intn(8); j < l; j++ {
				ops = append(ops, c05Op(rng))
			}
			ops = append(ops, "getall", closer)
			ops = append(ops, readBack()...)
		}
		emit(kind, ops)
	}
}
