package main

// Domain C05: close and reload preserve every record.  Same runner and line protocol as C06
// (harness/c06.go); the generator builds a history on a persistent swamp, forces a close
// (graceful stop + restart on the same data root, or idle eviction through the real close
// listener on the 1 s-idle kinds), reads everything back, optionally continues and closes again.

import (
	"bufio"
	"fmt"
	"math/rand"
	"strings"
)

func init() { Register("C05", Domain{Gen: c05Gen, Run: c06Run}) }

// every value type with its zero-like member and a non-zero twin
var c05ZeroTable = []string{
	"i8:0", "i16:0", "i32:0", "i64:0", "u8:0", "u16:0", "u32:0", "u64:0",
	"f32:00000000", "f64:0000000000000000", "bool:0", "str:", "bytes:", "void",
	"i8:-1", "i16:7", "i32:1", "i64:-9", "u8:255", "u16:1", "u32:1", "u64:1",
	"f32:3f800000", "f64:3ff0000000000000", "bool:1", "str:61", "bytes:00", "u32s:0",
}

func c05TableCase() []string {
	var ops []string
	var keys []string
	for i, v := range c05ZeroTable {
		k := fmt.Sprintf("z%02d", i)
		keys = append(keys, k)
		ops = append(ops, "set 11 "+k+"|"+v+"|a1000000000|u1|||b3600000000000")
	}
	ops = append(ops, "push p0:", "inc i64 n0 5 - - -", "inc i64 n0 -5 - - -", "inc f64 n1 3ff0000000000000 - - -", "inc f64 n1 bff0000000000000 - - -")
	ops = append(ops, "getall", "restart", "getall", "count", "get "+strings.Join(keys[:14], " "), "size p0", "inc u8 z04 1 - - -", "close", "getall")
	return ops
}

// op mix without the requests that can hang a case
func c05Op(rng *rand.Rand) string {
	for {
		o := c06RandOp(rng, true)
		if strings.HasPrefix(o, "u32del") && rng.Intn(4) != 0 {
			continue
		}
		return o
	}
}

func c05Gen(rng *rand.Rand, tier string, w *bufio.Writer) {
	cases, length, idleCases := 40, 24, 2
	if tier == "thorough" {
		cases, length, idleCases = 150, 60, 12
	}
	n := 0
	emit := func(kind string, ops []string) {
		fmt.Fprintf(w, "case %d kind=%s\n", n, kind)
		n++
		for _, o := range ops {
			fmt.Fprintln(w, o)
		}
	}
	// corpus: the zero-like table on both write paths, the unsaved-metadata case, an in-memory swamp
	emit("p1", c05TableCase())
	emit("p0", c05TableCase())
	emit("p0", []string{"set 11 k0|u8:1|||||", "inc u8 k0 1 eq:5 - 0||1|u2|b3600000000000", "get k0", "restart", "get k0"})
	emit("p1", []string{"set 11 k0|u8:1|||||", "restart", "inc u8 k0 1 eq:5 - 0||1|u2|b3600000000000", "get k0", "restart", "get k0"})
	emit("mem", []string{"set 11 k0|i64:5|||||", "restart", "issw", "set 11 k0|i64:0|||||", "get k0"})
	// delete, re-create and delete a persisted key within one write interval: the queued delete is
	// replaced by the new treasure, which is then dropped from the write buffer unwritten
	emit("p1", []string{"set 11 k0|i64:5||||| k1|i64:6|||||", "close", "del k0", "inc i64 k0 1 - - -", "del k0", "getall", "close", "getall", "count"})
	emit("p0", []string{"set 11 k0|i64:5||||| k1|i64:6|||||", "close", "del k0", "inc i64 k0 1 - - -", "del k0", "getall", "close", "getall", "count"})
	readBack := func() []string {
		return []string{"getall", "count", "get " + strings.Join(c06Keys, " "), "issw"}
	}
	for i := 0; i < cases; i++ {
		kind := c06Pick(rng, []string{"p0", "p1", "p1", "p0"})
		closer := "close"
		if i%5 == 4 {
			closer = "restart"
		}
		if i < idleCases {
			kind, closer = c06Pick(rng, []string{"p0s", "p1s"}), "closeidle"
		}
		var ops []string
		for j, l := 0, 6+rng.Intn(length); j < l; j++ {
			ops = append(ops, c05Op(rng))
		}
		ops = append(ops, "getall", closer)
		ops = append(ops, readBack()...)
		if rng.Intn(3) == 0 {
			for j, l := 0, 3+rng.Intn(8); j < l; j++ {
				ops = append(ops, c05Op(rng))
			}
			ops = append(ops, "getall", closer)
			ops = append(ops, readBack()...)
		}
		emit(kind, ops)
	}
}
