package main

// Domain C26: every RPC of the in-process gateway under structurally generated requests.
//
// ops:    case N RPC                         fresh server, seeded store, every swamp closed (on disk)
//         req RPC MODE HEX | SHAPE           MODE w = HEX is the wire form of the request;
//                                            MODE e = as w, then every absent `Keys` list of an entry is
//                                            replaced by a non-nil empty one (in-process callers only)
//                                            SHAPE = top=<entry> [e=<entry>]…   (features for the model)
//         end                                StopHydra must return
// reply:  case N RPC
//         <class> p=<recovered panics> lock=<0|1> vig=<0|1> store=<same|changed> close=<ok|hang>
//             class = resp | err CODE KEY | nilnil | panic
//             (a `(nil, nil)` of a response type without fields is `resp`: on the wire a typed nil
//              message marshals to the same zero bytes as the empty message)
//         stop=<ok|hang> lock=<0|1>

import (
	"bufio"
	"bytes"
	"context"
	"encoding/hex"
	"fmt"
	"io"
	"log/slog"
	"math"
	"math/rand"
	"os"
	"os/exec"
	"reflect"
	"runtime"
	"sort"
	"strings"
	"sync"
	"sync/atomic"
	"time"

	"github.com/hydraide/hydraide/app/core/settings"
	"github.com/hydraide/hydraide/app/name"
	"github.com/hydraide/hydraide/app/server/gateway"
	"github.com/hydraide/hydraide/app/server/telemetry"
	"github.com/hydraide/hydraide/app/verifhook"
	hydrapb "github.com/hydraide/hydraide/sdk/go/hydraidego/v3/hydraidepbgo"
	"github.com/vmihailenco/msgpack/v5"
	"google.golang.org/grpc/metadata"
	"google.golang.org/grpc/status"
	"google.golang.org/protobuf/proto"
	"google.golang.org/protobuf/reflect/protoreflect"
	"google.golang.org/protobuf/types/known/timestamppb"
)

func init() {
	Register("C26", Domain{Gen: c26Gen, Run: c26RunPar})
	Register("C26seq", Domain{Gen: func(*rand.Rand, string, *bufio.Writer) {}, Run: c26Run})
	Register("C26child", Domain{Gen: func(*rand.Rand, string, *bufio.Writer) {}, Run: c26RunChild})
}

// ---- recovered-panic counter (handlePanic logs through slog) ----------------

type c26Log struct{ n *int64 }

func (h c26Log) Enabled(context.Context, slog.Level) bool { return true }
func (h c26Log) Handle(_ context.Context, r slog.Record) error {
	if r.Message == "grpc gateway panic" {
		atomic.AddInt64(h.n, 1)
	}
	return nil
}
func (h c26Log) WithAttrs([]slog.Attr) slog.Handler { return h }
func (h c26Log) WithGroup(string) slog.Handler      { return h }

var c26Panics int64

// mode `p`: the engine panics once, at the top of the next SummonSwamp (hook point summon.enter), so the
// recover path of the handler under test is exercised with a request that is otherwise valid
var c26InjectPanic int32

func c26Hook(name string, args ...any) {
	if name == "summon.enter" && atomic.CompareAndSwapInt32(&c26InjectPanic, 1, 0) {
		panic("verif: injected engine panic")
	}
}

// ---- RPC table ---------------------------------------------------------------

type c26Rpc struct {
	name string
	kind string // unary | sstream | bidi
	req  reflect.Type
	resp reflect.Type // unary only
}

var c26Ctxt = reflect.TypeOf((*context.Context)(nil)).Elem()
var c26Err = reflect.TypeOf((*error)(nil)).Elem()
var c26Msg = reflect.TypeOf((*proto.Message)(nil)).Elem()

func c26Rpcs() []c26Rpc {
	var out []c26Rpc
	t := reflect.TypeOf(gateway.Gateway{})
	for i := 0; i < t.NumMethod(); i++ {
		m := t.Method(i)
		ft := m.Type // receiver is arg 0
		switch {
		case ft.NumIn() == 3 && ft.In(1) == c26Ctxt && ft.In(2).Implements(c26Msg) && ft.NumOut() == 2 && ft.Out(0).Implements(c26Msg) && ft.Out(1) == c26Err:
			if _, own := reflect.TypeOf(hydrapb.UnimplementedHydraideServiceServer{}).MethodByName(m.Name); own {
				// promoted default method of the embedded Unimplemented server: only count methods the gateway defines
			}
			out = append(out, c26Rpc{m.Name, "unary", ft.In(2), ft.Out(0)})
		case ft.NumIn() == 3 && ft.In(1).Implements(c26Msg) && ft.NumOut() == 1 && ft.Out(0) == c26Err:
			out = append(out, c26Rpc{name: m.Name, kind: "sstream", req: ft.In(1)})
		case ft.NumIn() == 2 && ft.NumOut() == 1 && ft.Out(0) == c26Err && strings.Contains(ft.In(1).String(), "BidiStreamingServer"):
			out = append(out, c26Rpc{name: m.Name, kind: "bidi", req: reflect.TypeOf(&hydrapb.DestroyBulkRequest{})})
		}
	}
	sort.Slice(out, func(a, b int) bool { return out[a].name < out[b].name })
	return out
}

func c26Find(nm string) (c26Rpc, bool) {
	for _, r := range c26Rpcs() {
		if r.name == nm {
			return r, true
		}
	}
	return c26Rpc{}, false
}

// ---- fake streams ---------------------------------------------------------------

type c26SS[T any] struct {
	ctx  context.Context
	sent int
}

func (s *c26SS[T]) Send(*T) error               { s.sent++; return nil }
func (s *c26SS[T]) SetHeader(metadata.MD) error  { return nil }
func (s *c26SS[T]) SendHeader(metadata.MD) error { return nil }
func (s *c26SS[T]) SetTrailer(metadata.MD)       {}
func (s *c26SS[T]) Context() context.Context     { return s.ctx }
func (s *c26SS[T]) SendMsg(any) error            { s.sent++; return nil }
func (s *c26SS[T]) RecvMsg(any) error            { return io.EOF }

type c26Bidi struct {
	c26SS[hydrapb.DestroyBulkResponse]
	reqs []*hydrapb.DestroyBulkRequest
}

func (s *c26Bidi) Recv() (*hydrapb.DestroyBulkRequest, error) {
	if len(s.reqs) == 0 {
		return nil, io.EOF
	}
	r := s.reqs[0]
	s.reqs = s.reqs[1:]
	return r, nil
}

func c26Stream(rpc string, ctx context.Context) any {
	switch rpc {
	case "GetByIndexStream":
		return &c26SS[hydrapb.GetByIndexStreamResponse]{ctx: ctx}
	case "GetByIndexStreamFromMany":
		return &c26SS[hydrapb.GetByIndexStreamFromManyResponse]{ctx: ctx}
	case "GetStream":
		return &c26SS[hydrapb.GetStreamResponse]{ctx: ctx}
	case "SubscribeToEvents":
		return &c26SS[hydrapb.SubscribeToEventsResponse]{ctx: ctx}
	case "SubscribeToInfo":
		return &c26SS[hydrapb.SubscribeToInfoResponse]{ctx: ctx}
	case "SubscribeToTelemetry":
		return &c26SS[hydrapb.TelemetryEvent]{ctx: ctx}
	}
	return nil
}

// ---- server state ---------------------------------------------------------------

const c26Island = 1

// a handler that has not returned after c26CallTimeout is given c26CallGrace more before it is called hung:
// a loaded machine makes replies slow, not absent
var c26CallTimeout = 10 * time.Second
var c26CallGrace = 50 * time.Second

var c26Seeded = []string{"c26/seed/main", "c26/seed/other"}

type c26State struct {
	poisoned bool
	rig  *Rig
	base map[string]string // swamp name -> snapshot of the on-disk content ("absent" when it does not exist)
}

func c26Mp(v any) []byte { b, _ := msgpack.Marshal(v); return b }

func c26SeedSwamp(st *c26State, nm string) error {
	ctx := context.Background()
	s := func(v string) *string { return &v }
	i32 := func(v int32) *int32 { return &v }
	i64 := func(v int64) *int64 { return &v }
	u32 := func(v uint32) *uint32 { return &v }
	u64 := func(v uint64) *uint64 { return &v }
	f32 := func(v float32) *float32 { return &v }
	f64 := func(v float64) *float64 { return &v }
	kvs := []*hydrapb.KeyValuePair{{Key: "s1", StringVal: s("one")}}
	if nm == "c26/seed/main" {
		past := timestamppb.New(time.Unix(1700000000, 0))
		kvs = append(kvs,
			&hydrapb.KeyValuePair{Key: "s2", StringVal: s("two")},
			&hydrapb.KeyValuePair{Key: "i8", Int8Val: i32(5)}, &hydrapb.KeyValuePair{Key: "i16", Int16Val: i32(5)},
			&hydrapb.KeyValuePair{Key: "i32", Int32Val: i32(5)}, &hydrapb.KeyValuePair{Key: "i64", Int64Val: i64(5)},
			&hydrapb.KeyValuePair{Key: "u8", Uint8Val: u32(5)}, &hydrapb.KeyValuePair{Key: "u16", Uint16Val: u32(5)},
			&hydrapb.KeyValuePair{Key: "u32", Uint32Val: u32(5)}, &hydrapb.KeyValuePair{Key: "u64", Uint64Val: u64(5)},
			&hydrapb.KeyValuePair{Key: "f32", Float32Val: f32(1.5)}, &hydrapb.KeyValuePair{Key: "f64", Float64Val: f64(1.5)},
			&hydrapb.KeyValuePair{Key: "sl", Uint32Slice: []uint32{1, 2, 3}},
			&hydrapb.KeyValuePair{Key: "exp", StringVal: s("old"), ExpiredAt: past},
		)
	}
	r, err := st.rig.GW.Set(ctx, &hydrapb.SetRequest{Swamps: []*hydrapb.SwampRequest{{IslandID: c26Island, SwampName: nm, CreateIfNotExist: true, Overwrite: true, KeyValues: kvs}}})
	if err != nil || r == nil {
		return fmt.Errorf("seed %s: %v", nm, err)
	}
	if nm == "c26/seed/main" {
		pr, err := st.rig.GW.PatchTreasures(ctx, &hydrapb.PatchTreasuresRequest{IslandID: c26Island, SwampName: nm, CreateIfNotExist: true,
			Patches: []*hydrapb.TreasurePatch{{Key: "by", Ops: []*hydrapb.PatchOp{{Op: hydrapb.PatchOp_SET, Path: "a", Value: c26Mp(1)}}}}})
		if err != nil || pr == nil {
			return fmt.Errorf("seed patch: %v", err)
		}
	}
	return nil
}

// options of the current case (`case N RPC eng=v1|v2 tel=0|1`)
var c26Eng, c26Tel = "v2", false

func c26CaseOpts(f []string) {
	c26Eng, c26Tel = "v2", false
	for _, t := range f {
		switch t {
		case "eng=v1":
			c26Eng = "v1"
		case "tel=1":
			c26Tel = true
		}
	}
}

func c26Start() (*c26State, error) {
	slog.SetDefault(slog.New(c26Log{n: &c26Panics}))
	verifhook.SetHandler(c26Hook)
	rig, err := NewRig(3, 2000, 3600, 0)
	if err != nil {
		return nil, err
	}
	if c26Eng == "v2" {
		if err := rig.Settings.SetEngine(settings.EngineV2); err != nil {
			return nil, err
		}
	}
	if c26Tel {
		col := telemetry.New(telemetry.Config{Capacity: 64})
		col.Record(telemetry.Event{ID: "e", Method: "Get", SwampName: "c26/seed/main", Success: false, ErrorCode: "Internal", ErrorMsg: "x"})
		col.Record(telemetry.Event{Method: "Set", SwampName: "c26/seed/main", Success: true})
		rig.GW.TelemetryCollector = col
	}
	rig.Settings.RegisterPattern(name.New().Sanctuary("c26").Realm("*").Swamp("*"), false, 3600,
		&settings.FileSystemSettings{WriteIntervalSec: 1, MaxFileSizeByte: 8192})
	st := &c26State{rig: rig, base: map[string]string{}}
	for _, nm := range c26Seeded {
		if err := c26SeedSwamp(st, nm); err != nil {
			return nil, err
		}
	}
	for _, nm := range c26Seeded {
		c26Close(st, nm)
		st.base[nm] = c26Snapshot(st, nm)
	}
	return st, nil
}

// valid three-part form of a request name (what name.Load would produce), "" when Load would panic
func c26Norm(nm string) string {
	p := strings.Split(nm, "/")
	if len(p) < 3 {
		return ""
	}
	return p[0] + "/" + p[1] + "/" + p[2]
}

// c26Close closes the swamp if it is open; reports active vigils and whether Close returned.
func c26Close(st *c26State, nm string) (vig bool, closed bool) {
	h := st.rig.Zeus.GetHydra()
	n := name.Load(nm)
	ex, err := h.IsExistSwamp(c26Island, n)
	if err != nil || !ex {
		return false, true
	}
	done := make(chan bool, 1)
	go func() {
		sw, err := h.SummonSwamp(context.Background(), c26Island, n)
		if err != nil || sw == nil {
			done <- false
			return
		}
		v := sw.HasActiveVigils()
		sw.Close()
		done <- v
	}()
	select {
	case v := <-done:
		return v, true
	case <-time.After(HxScale(60 * time.Second)):
		return false, false
	}
}

// c26Flush writes the pending treasures of every touched open swamp to disk without closing it.
func c26Flush(st *c26State, names map[string]bool) {
	h := st.rig.Zeus.GetHydra()
	for nm := range names {
		n := name.Load(nm)
		if ex, err := h.IsExistSwamp(c26Island, n); err != nil || !ex {
			continue
		}
		done := make(chan struct{})
		go func() {
			defer close(done)
			if sw, err := h.SummonSwamp(context.Background(), c26Island, n); err == nil && sw != nil {
				sw.WriteTreasuresToFilesystem()
			}
		}()
		select {
		case <-done:
		case <-time.After(HxScale(60 * time.Second)):
		}
	}
}

// c26Snapshot reads the swamp back from disk (it must be closed) and closes it again.
func c26Snapshot(st *c26State, nm string) string {
	h := st.rig.Zeus.GetHydra()
	n := name.Load(nm)
	ex, err := h.IsExistSwamp(c26Island, n)
	if err != nil || !ex {
		return "absent"
	}
	r, err := st.rig.GW.GetAll(context.Background(), &hydrapb.GetAllRequest{IslandID: c26Island, SwampName: nm})
	if err != nil || r == nil {
		return fmt.Sprintf("unreadable(%v)", err)
	}
	var rows []string
	for _, t := range r.Treasures {
		b, _ := proto.MarshalOptions{Deterministic: true}.Marshal(t)
		rows = append(rows, t.Key+"="+hex.EncodeToString(b))
	}
	sort.Strings(rows)
	c26Close(st, nm)
	return fmt.Sprintf("%d:", len(rows)) + strings.Join(rows, ",")
}

func c26Restore(st *c26State, nm string) {
	h := st.rig.Zeus.GetHydra()
	n := name.Load(nm)
	if ex, _ := h.IsExistSwamp(c26Island, n); ex {
		if sw, err := h.SummonSwamp(context.Background(), c26Island, n); err == nil && sw != nil {
			sw.Destroy()
		}
	}
	for _, s := range c26Seeded {
		if s == nm {
			_ = c26SeedSwamp(st, nm)
			c26Close(st, nm)
			st.base[nm] = c26Snapshot(st, nm)
			return
		}
	}
	delete(st.base, nm)
}

func c26StopRig(st *c26State) string {
	done := make(chan struct{})
	go func() { st.rig.Zeus.StopHydra(); close(done) }()
	res := "ok"
	select {
	case <-done:
	case <-time.After(HxScale(60 * time.Second)):
		res = "hang"
	}
	lock := 0
	if st.rig.Zeus.GetSafeops().SystemLocked() {
		lock = 1
	}
	_ = os.RemoveAll(st.rig.Root)
	return fmt.Sprintf("stop=%s lock=%d", res, lock)
}

// ---- one request ---------------------------------------------------------------

func c26MsgKey(msg string) string {
	if len(msg) > 32 {
		msg = msg[:32]
	}
	var b strings.Builder
	for _, r := range msg {
		if (r >= 'a' && r <= 'z') || (r >= 'A' && r <= 'Z') || (r >= '0' && r <= '9') {
			b.WriteRune(r)
		} else {
			b.WriteByte('_')
		}
	}
	if b.Len() == 0 {
		return "_"
	}
	return b.String()
}

func c26CodeTag(err error) string {
	switch status.Code(err).String() {
	case "InvalidArgument":
		return "IA"
	case "FailedPrecondition":
		return "FP"
	case "NotFound":
		return "NF"
	case "Internal":
		return "INT"
	case "Unavailable":
		return "UNAV"
	case "DeadlineExceeded":
		return "DL"
	}
	return "OTHER"
}

// names of all entries of a request (for the snapshot)
func c26Names(m protoreflect.Message, out map[string]bool) {
	m.Range(func(fd protoreflect.FieldDescriptor, v protoreflect.Value) bool {
		switch {
		case fd.Kind() == protoreflect.StringKind && !fd.IsList() && (fd.Name() == "SwampName"):
			if n := c26Norm(v.String()); n != "" {
				out[n] = true
			}
		case fd.Kind() == protoreflect.MessageKind && fd.IsList():
			l := v.List()
			for i := 0; i < l.Len(); i++ {
				c26Names(l.Get(i).Message(), out)
			}
		}
		return true
	})
}

func c26EmptyKeys(m protoreflect.Message) {
	fds := m.Descriptor().Fields()
	for i := 0; i < fds.Len(); i++ {
		fd := fds.Get(i)
		if fd.Name() == "Keys" && fd.IsList() && fd.Kind() == protoreflect.StringKind && m.Get(fd).List().Len() == 0 {
			// through the generated struct: a non-nil empty slice
			f := reflect.ValueOf(m.Interface()).Elem().FieldByName("Keys")
			if f.IsValid() && f.CanSet() {
				f.Set(reflect.MakeSlice(f.Type(), 0, 0))
			}
		}
		if fd.Kind() == protoreflect.MessageKind && fd.IsList() {
			l := m.Get(fd).List()
			for j := 0; j < l.Len(); j++ {
				c26EmptyKeys(l.Get(j).Message())
			}
		}
	}
}

func c26Decode(rpc c26Rpc, mode, hx string) (proto.Message, error) {
	b, err := hex.DecodeString(hx)
	if err != nil {
		return nil, err
	}
	msg := reflect.New(rpc.req.Elem()).Interface().(proto.Message)
	if err := proto.Unmarshal(b, msg); err != nil {
		return nil, err
	}
	if mode == "e" {
		c26EmptyKeys(msg.ProtoReflect())
	}
	return msg, nil
}

// c26Call invokes the handler and classifies what the caller sees.
func c26Call(st *c26State, rpc c26Rpc, msg proto.Message) (class string, recovered int64) {
	return c26CallT(st, rpc, msg, HxScale(c26CallTimeout), HxScale(c26CallGrace))
}

// c26CallT: the client's context ends after `timeout` (as a client deadline does); a handler that is not back `grace`
// after that is hung — it ignores the end of its caller's context, or it is stuck.
func c26CallT(st *c26State, rpc c26Rpc, msg proto.Message, timeout, grace time.Duration) (class string, recovered int64) {
	p0 := atomic.LoadInt64(&c26Panics)
	gw := reflect.ValueOf(*st.rig.GW)
	var out []reflect.Value
	escaped := false
	finished := make(chan struct{})
	go func() {
		defer close(finished)
		defer func() {
			if r := recover(); r != nil {
				escaped = true
			}
		}()
		switch rpc.kind {
		case "unary":
			ctx, cancel := context.WithTimeout(context.Background(), timeout)
			defer cancel()
			out = gw.MethodByName(rpc.name).Call([]reflect.Value{reflect.ValueOf(ctx), reflect.ValueOf(msg)})
		case "sstream":
			ctx, cancel := context.WithCancel(context.Background())
			if strings.HasPrefix(rpc.name, "Subscribe") {
				cancel() // the client is already gone: the handler validates, subscribes, and returns
			}
			defer cancel()
			out = gw.MethodByName(rpc.name).Call([]reflect.Value{reflect.ValueOf(msg), reflect.ValueOf(c26Stream(rpc.name, ctx))})
		case "bidi":
			s := &c26Bidi{reqs: []*hydrapb.DestroyBulkRequest{msg.(*hydrapb.DestroyBulkRequest)}}
			s.ctx = context.Background()
			out = gw.MethodByName(rpc.name).Call([]reflect.Value{reflect.ValueOf(s)})
		}
	}()
	select {
	case <-finished:
	case <-time.After(timeout):
		select {
		case <-finished: // slow, or it waited for its context to end: not stuck
		case <-time.After(grace):
			return "hang", atomic.LoadInt64(&c26Panics) - p0
		}
	}
	recovered = atomic.LoadInt64(&c26Panics) - p0
	if escaped {
		return "panic", recovered
	}
	c26LastResp = reflect.Value{}
	if rpc.kind == "unary" {
		c26LastResp = out[0]
	}
	errV := out[len(out)-1]
	if !errV.IsNil() {
		err := errV.Interface().(error)
		return "err " + c26CodeTag(err) + " " + c26MsgKey(status.Convert(err).Message()), recovered
	}
	if rpc.kind == "unary" {
		if out[0].IsNil() {
			// a typed nil of a message without fields is the empty message on the wire
			if recovered == 0 && out[0].Type().Elem().NumField() == 3 && c26NoFields(out[0].Type()) {
				return "resp", recovered
			}
			return "nilnil", recovered
		}
		return "resp", recovered
	}
	if recovered > 0 {
		return "nilnil", recovered // the stream handler returned nil after a recovered panic
	}
	return "resp", recovered
}

// A granted business lock is given back right away with the ID the response carries, so that no request of the case
// waits for an earlier one (a lock lives until its TTL, which may be 292 years).  A lock that is already gone then —
// although more than ten seconds of TTL were asked for — was not held for its TTL: class `lostlock`.
func c26LockRelease(st *c26State, req *hydrapb.LockRequest, class string) string {
	if class != "resp" || !c26LastResp.IsValid() || c26LastResp.IsNil() {
		return class
	}
	r, ok := c26LastResp.Interface().(*hydrapb.LockResponse)
	if !ok {
		return class
	}
	_, err := st.rig.GW.Unlock(context.Background(), &hydrapb.UnlockRequest{Key: req.GetKey(), LockID: r.GetLockID()})
	if err != nil && req.GetTTL() > 10000 {
		return "lostlock"
	}
	return class
}

// mode `c`: the key is held by someone else (TTL ten minutes) when the request arrives with a client deadline of 400 ms.
// Well defined: the call comes back with an error once its context has ended.  Afterwards the holder unlocks.
func c26LockContended(st *c26State, rpc c26Rpc, req *hydrapb.LockRequest) (string, int64) {
	hold, err := st.rig.GW.Lock(context.Background(), &hydrapb.LockRequest{Key: req.GetKey(), TTL: 600000})
	if err != nil || hold == nil {
		return "rig-error:holder-lock-failed", 0
	}
	class, rec := c26CallT(st, rpc, req, 400*time.Millisecond, HxScale(5*time.Second))
	_, _ = st.rig.GW.Unlock(context.Background(), &hydrapb.UnlockRequest{Key: req.GetKey(), LockID: hold.GetLockID()})
	if class == "resp" {
		// granted although the key was held: exclusivity is C14's subject; give it back and report what was seen
		class = c26LockRelease(st, req, class)
	}
	return class, rec
}

func c26NoFields(t reflect.Type) bool {
	m := reflect.New(t.Elem()).Interface().(proto.Message)
	return m.ProtoReflect().Descriptor().Fields().Len() == 0
}

// keys the response acknowledges as written, per swamp (Set: NEW / UPDATED; PatchTreasures: CREATED / PATCHED;
// Increment* and Uint32SlicePush: the request's keys when the call succeeded)
func c26Acked(rpc c26Rpc, req proto.Message, resp reflect.Value) map[string][]string {
	out := map[string][]string{}
	if !resp.IsValid() {
		return out
	}
	if resp.IsNil() && rpc.name != "Uint32SlicePush" {
		return out
	}
	switch r := resp.Interface().(type) {
	case *hydrapb.SetResponse:
		for _, sw := range r.GetSwamps() {
			for _, ks := range sw.GetKeysAndStatuses() {
				if ks.GetStatus() == hydrapb.Status_NEW || ks.GetStatus() == hydrapb.Status_UPDATED {
					out[sw.GetSwampName()] = append(out[sw.GetSwampName()], ks.GetKey())
				}
			}
		}
	case *hydrapb.PatchTreasuresResponse:
		q := req.(*hydrapb.PatchTreasuresRequest)
		for _, pr := range r.GetResults() {
			if pr.GetStatus() == hydrapb.PatchResult_CREATED || pr.GetStatus() == hydrapb.PatchResult_PATCHED {
				out[q.GetSwampName()] = append(out[q.GetSwampName()], pr.GetKey())
			}
		}
	case *hydrapb.AddToUint32SlicePushResponse:
		q := req.(*hydrapb.AddToUint32SlicePushRequest)
		for _, pr := range q.GetKeySlicePairs() {
			if len(pr.GetValues()) > 0 {
				out[q.GetSwampName()] = append(out[q.GetSwampName()], pr.GetKey())
			}
		}
	default:
		if strings.HasPrefix(rpc.name, "Increment") {
			m := req.ProtoReflect()
			fds := m.Descriptor().Fields()
			inc := resp.Elem().FieldByName("IsIncremented")
			if inc.IsValid() && inc.Bool() {
				out[m.Get(fds.ByName("SwampName")).String()] = []string{m.Get(fds.ByName("Key")).String()}
			}
		}
	}
	return out
}

var c26LastResp reflect.Value

var c26Mode = "w"

// The shape on the op line says which names exist (x1 = one of the seeded swamps).  An earlier request of a long case may have
// emptied — and thereby auto-destroyed — a seeded swamp: it is put back, and its baseline snapshot renewed, before the next
// request is sent, so that the feature the model was given is true of the server.
func c26EnsureSeeded(st *c26State) {
	for _, nm := range c26Seeded {
		r, err := st.rig.GW.IsSwampExist(context.Background(), &hydrapb.IsSwampExistRequest{IslandID: c26Island, SwampName: nm})
		if err == nil && r != nil && r.GetIsExist() {
			continue
		}
		if c26SeedSwamp(st, nm) == nil {
			c26Close(st, nm)
			st.base[nm] = c26Snapshot(st, nm)
		}
	}
}

func c26Do(st *c26State, rpc c26Rpc, msg proto.Message) string {
	c26EnsureSeeded(st)
	touched := map[string]bool{}
	for _, s := range c26Seeded {
		touched[s] = true
	}
	c26Names(msg.ProtoReflect(), touched)
	if c26Mode == "p" {
		atomic.StoreInt32(&c26InjectPanic, 1)
	}
	var class string
	var rec int64
	switch {
	case rpc.name == "Lock" && c26Mode == "c":
		class, rec = c26LockContended(st, rpc, msg.(*hydrapb.LockRequest))
	case rpc.name == "Lock":
		class, rec = c26Call(st, rpc, msg)
		class = c26LockRelease(st, msg.(*hydrapb.LockRequest), class)
	default:
		class, rec = c26Call(st, rpc, msg)
	}
	atomic.StoreInt32(&c26InjectPanic, 0)
	if c26Mode == "f" && class != "hang" {
		// mode `f`: the swamps stay open, what is waiting for the writer is flushed to disk (as the write-interval
		// ticker would do), and the same request is sent once more; the reply of the second one is reported
		c26Flush(st, touched)
		c2, r2 := c26Call(st, rpc, proto.Clone(msg))
		class, rec = c2, rec+r2
	}
	if class == "hang" {
		// the handler never returned: it still holds whatever it took; this server is abandoned
		lock := 0
		if st.rig.Zeus.GetSafeops().SystemLocked() {
			lock = 1
		}
		st.poisoned = true
		return fmt.Sprintf("hang p=%d lock=%d vig=0 store=same close=skip", rec, lock)
	}
	lock := 0
	if st.rig.Zeus.GetSafeops().SystemLocked() {
		lock = 1
	}
	var names []string
	for n := range touched {
		names = append(names, n)
	}
	sort.Strings(names)
	vig, closeRes := 0, "ok"
	for _, n := range names {
		v, ok := c26Close(st, n)
		if v {
			vig = 1
		}
		if !ok {
			closeRes = "hang"
		}
	}
	store := "same"
	corrupt, lost := false, false
	acked := map[string][]string{}
	for sw, keys := range c26Acked(rpc, msg, c26LastResp) {
		if n := c26Norm(sw); n != "" {
			acked[n] = append(acked[n], keys...)
		}
	}
	mentioned := map[string]bool{}
	c26Strings(msg.ProtoReflect(), mentioned)
	if closeRes == "ok" {
		for _, n := range names {
			want, have := st.base[n], c26Snapshot(st, n)
			if want == "" {
				want = "absent"
			}
			// a key the response reported as written must come back from disk
			if class == "resp" {
				rows := c26Rows(have)
				for _, k := range acked[n] {
					if _, ok := rows[k]; !ok {
						lost = true
					}
				}
			}
			if want != have {
				store = "changed"
				if c26Keyed(rpc.name) && c26Collateral(want, have, mentioned) {
					corrupt = true
				}
				c26Restore(st, n)
			}
		}
	}
	if corrupt {
		store = "corrupt"
	}
	if lost {
		store = "lostack"
	}
	return fmt.Sprintf("%s p=%d lock=%d vig=%d store=%s close=%s", class, rec, lock, vig, store, closeRes)
}

// RPCs that address treasures by key: every treasure whose key the request does not mention must
// come back from disk unchanged
func c26Keyed(rpc string) bool {
	switch {
	case rpc == "Set", rpc == "Delete", rpc == "ShiftByKeys", strings.HasPrefix(rpc, "PatchTreasures"),
		strings.HasPrefix(rpc, "Increment"), rpc == "Uint32SlicePush", rpc == "Uint32SliceDelete":
		return true
	}
	return false
}

func c26Rows(snap string) map[string]string {
	out := map[string]string{}
	i := strings.Index(snap, ":")
	if i < 0 || snap == "absent" {
		return out
	}
	for _, r := range strings.Split(snap[i+1:], ",") {
		if j := strings.LastIndex(r, "="); j >= 0 {
			out[r[:j]] = r[j+1:]
		}
	}
	return out
}

// a treasure the request did not mention is missing or different after the reload
func c26Collateral(before, after string, mentioned map[string]bool) bool {
	if strings.HasPrefix(after, "unreadable") {
		return true
	}
	a := c26Rows(after)
	for k, v := range c26Rows(before) {
		if mentioned[k] {
			continue
		}
		if a[k] != v {
			return true
		}
	}
	return false
}

func c26Strings(m protoreflect.Message, out map[string]bool) {
	m.Range(func(fd protoreflect.FieldDescriptor, v protoreflect.Value) bool {
		switch {
		case fd.IsMap():
		case fd.Kind() == protoreflect.StringKind && fd.IsList():
			l := v.List()
			for i := 0; i < l.Len(); i++ {
				out[l.Get(i).String()] = true
			}
		case fd.Kind() == protoreflect.StringKind:
			out[v.String()] = true
		case fd.Kind() == protoreflect.MessageKind && fd.IsList():
			l := v.List()
			for i := 0; i < l.Len(); i++ {
				c26Strings(l.Get(i).Message(), out)
			}
		case fd.Kind() == protoreflect.MessageKind:
			c26Strings(v.Message(), out)
		}
		return true
	})
}

func c26Run(in *bufio.Scanner, w *bufio.Writer) {
	os.Stdout = os.Stderr // the engine prints debug lines with fmt.Println; replies go through w only
	var st *c26State
	stop := func() {
		if st != nil {
			c26StopRig(st)
			st = nil
		}
	}
	defer stop()
	for in.Scan() {
		line := in.Text()
		f := strings.Split(line, " ")
		switch {
		case f[0] == "case":
			stop()
			c26CaseOpts(f)
			var err error
			st, err = c26Start()
			if err != nil {
				fmt.Fprintln(w, "rig-error", err)
				st = nil
				continue
			}
			fmt.Fprintln(w, line)
		case f[0] == "end":
			if st == nil {
				fmt.Fprintln(w, "no-rig")
				continue
			}
			fmt.Fprintln(w, c26StopRig(st))
			st = nil
		case f[0] == "req" && len(f) >= 4:
			rpc, ok := c26Find(f[1])
			if !ok {
				fmt.Fprintln(w, "bad-rpc")
				continue
			}
			if rpc.kind == "bidi" {
				// a panic in a worker goroutine kills the process: run it in a child
				fmt.Fprintln(w, c26Child(line))
				continue
			}
			if st == nil {
				fmt.Fprintln(w, "no-rig")
				continue
			}
			msg, err := c26Decode(rpc, f[2], f[3])
			if err != nil {
				fmt.Fprintln(w, "bad-op", err)
				continue
			}
			c26Mode = f[2]
			fmt.Fprintln(w, c26Do(st, rpc, msg))
			if st.poisoned {
				// cannot be stopped (the stuck handler holds the system lock): leave it behind, start afresh
				st, err = c26Start()
				if err != nil {
					st = nil
				}
			}
		default:
			fmt.Fprintln(w, "bad-op")
		}
		w.Flush()
	}
}

// ---- DestroyBulk in a child process ---------------------------------------------------------------

func c26Child(line string) string {
	exe, err := os.Executable()
	if err != nil {
		return "child-error " + err.Error()
	}
	cmd := exec.Command(exe, "run", "C26child")
	tel := "tel=0"
	if c26Tel {
		tel = "tel=1"
	}
	cmd.Stdin = strings.NewReader("opts eng=" + c26Eng + " " + tel + "\n" + line + "\n")
	var out, errb bytes.Buffer
	cmd.Stdout, cmd.Stderr = &out, &errb
	done := make(chan error, 1)
	if err := cmd.Start(); err != nil {
		return "child-error " + err.Error()
	}
	go func() { done <- cmd.Wait() }()
	select {
	case err = <-done:
	case <-time.After(HxScale(240 * time.Second)):
		_ = cmd.Process.Kill()
		return "panic p=0 lock=0 vig=0 store=same close=hang"
	}
	res := strings.TrimSpace(out.String())
	if err != nil || res == "" {
		if strings.Contains(errb.String(), "panic:") || strings.Contains(errb.String(), "goroutine ") {
			return "panic p=0 lock=0 vig=0 store=same close=ok"
		}
		return "child-error " + c26MsgKey(errb.String())
	}
	return res
}

func c26RunChild(in *bufio.Scanner, w *bufio.Writer) {
	os.Stdout = os.Stderr
	for in.Scan() {
		f := strings.Split(in.Text(), " ")
		if f[0] == "opts" {
			c26CaseOpts(f)
			continue
		}
		if f[0] != "req" || len(f) < 4 {
			continue
		}
		rpc, ok := c26Find(f[1])
		if !ok {
			continue
		}
		st, err := c26Start()
		if err != nil {
			fmt.Fprintln(w, "rig-error", err)
			return
		}
		msg, err := c26Decode(rpc, f[2], f[3])
		if err != nil {
			fmt.Fprintln(w, "bad-op", err)
			return
		}
		res := c26Do(st, rpc, msg)
		c26StopRig(st)
		fmt.Fprintln(w, res)
		w.Flush()
	}
}

// ---- generator ---------------------------------------------------------------

// base requests: a valid request per RPC against the seeded store
func c26Base(rpc c26Rpc) proto.Message {
	const S = "c26/seed/main"
	s := func(v string) *string { return &v }
	setOp := []*hydrapb.PatchOp{{Op: hydrapb.PatchOp_SET, Path: "a", Value: c26Mp(2)}}
	switch rpc.name {
	case "Heartbeat":
		return &hydrapb.HeartbeatRequest{Ping: "p"}
	case "Lock":
		return &hydrapb.LockRequest{Key: "lk", TTL: 1000}
	case "Unlock":
		return &hydrapb.UnlockRequest{Key: "lk", LockID: "no-such-lock"}
	case "RegisterSwamp":
		return &hydrapb.RegisterSwampRequest{SwampPattern: "c26reg/*/*", CloseAfterIdle: 5}
	case "DeRegisterSwamp":
		return &hydrapb.DeRegisterSwampRequest{SwampPattern: "c26reg/*/*"}
	case "Set":
		return &hydrapb.SetRequest{Swamps: []*hydrapb.SwampRequest{{IslandID: c26Island, SwampName: S, CreateIfNotExist: true, Overwrite: true,
			KeyValues: []*hydrapb.KeyValuePair{{Key: "new", StringVal: s("v")}}}}}
	case "Get":
		return &hydrapb.GetRequest{Swamps: []*hydrapb.GetSwamp{{IslandID: c26Island, SwampName: S, Keys: []string{"s1"}}}}
	case "Delete":
		return &hydrapb.DeleteRequest{Swamps: []*hydrapb.DeleteRequest_SwampKeys{{IslandID: c26Island, SwampName: S, Keys: []string{"s2"}}}}
	case "Count":
		return &hydrapb.CountRequest{Swamps: []*hydrapb.CountRequest_SwampIdentifier{{IslandID: c26Island, SwampName: S}}}
	case "Uint32SlicePush":
		return &hydrapb.AddToUint32SlicePushRequest{IslandID: c26Island, SwampName: S, KeySlicePairs: []*hydrapb.KeySlicePair{{Key: "sl", Values: []uint32{7}}}}
	case "Uint32SliceDelete":
		return &hydrapb.Uint32SliceDeleteRequest{IslandID: c26Island, SwampName: S, KeySlicePairs: []*hydrapb.KeySlicePair{{Key: "sl", Values: []uint32{1}}}}
	case "PatchTreasures":
		return &hydrapb.PatchTreasuresRequest{IslandID: c26Island, SwampName: S, Patches: []*hydrapb.TreasurePatch{{Key: "by", Ops: setOp}}}
	case "PatchTreasuresMany":
		return &hydrapb.PatchTreasuresManyRequest{Requests: []*hydrapb.PatchTreasuresRequest{{IslandID: c26Island, SwampName: S, Patches: []*hydrapb.TreasurePatch{{Key: "by", Ops: setOp}}}}}
	case "PatchExpiredTreasures":
		return &hydrapb.PatchExpiredTreasuresRequest{IslandID: c26Island, SwampName: S, Ops: setOp}
	case "PatchExpiredTreasuresMany":
		return &hydrapb.PatchExpiredTreasuresManyRequest{Requests: []*hydrapb.PatchExpiredTreasuresRequest{{IslandID: c26Island, SwampName: S, Ops: setOp}}}
	case "ShiftExpiredTreasuresMany":
		return &hydrapb.ShiftExpiredTreasuresManyRequest{Requests: []*hydrapb.ShiftExpiredTreasuresRequest{{IslandID: c26Island, SwampName: S}}}
	case "ShiftMatchingTreasuresMany":
		return &hydrapb.ShiftMatchingTreasuresManyRequest{Requests: []*hydrapb.ShiftMatchingTreasuresRequest{{IslandID: c26Island, SwampName: S, HowMany: 1}}}
	case "GetByIndexStreamFromMany":
		return &hydrapb.GetByIndexStreamFromManyRequest{Queries: []*hydrapb.SwampQuery{{IslandID: c26Island, SwampName: S, Limit: 3}}}
	case "GetStream":
		return &hydrapb.GetStreamRequest{Queries: []*hydrapb.ProfileSwampQuery{{IslandID: c26Island, SwampName: S, Keys: []string{"s1"}}}}
	case "DestroyBulk":
		return &hydrapb.DestroyBulkRequest{Targets: []*hydrapb.DestroyBulkTarget{{IslandID: c26Island, SwampName: "c26/seed/other"}}}
	case "GetErrorDetails":
		return &hydrapb.ErrorDetailsRequest{EventId: "e"}
	}
	// generic: fill well-known fields by name
	msg := reflect.New(rpc.req.Elem()).Interface().(proto.Message)
	m := msg.ProtoReflect()
	fds := m.Descriptor().Fields()
	key := "s1"
	switch {
	case strings.HasPrefix(rpc.name, "Increment"):
		key = strings.ToLower(strings.TrimPrefix(rpc.name, "Increment"))
		key = strings.Replace(strings.Replace(strings.Replace(key, "int", "i", 1), "ui", "u", 1), "float", "f", 1)
	case strings.HasPrefix(rpc.name, "Uint32Slice"):
		key = "sl"
	}
	for i := 0; i < fds.Len(); i++ {
		fd := fds.Get(i)
		switch string(fd.Name()) {
		case "IslandID":
			m.Set(fd, protoreflect.ValueOfUint64(c26Island))
		case "SwampName":
			m.Set(fd, protoreflect.ValueOfString(S))
		case "Key":
			m.Set(fd, protoreflect.ValueOfString(key))
		case "Keys":
			m.Mutable(fd).List().Append(protoreflect.ValueOfString("s1"))
		case "IncrementBy":
			switch fd.Kind() {
			case protoreflect.FloatKind:
				m.Set(fd, protoreflect.ValueOfFloat32(1))
			case protoreflect.DoubleKind:
				m.Set(fd, protoreflect.ValueOfFloat64(1))
			case protoreflect.Int32Kind, protoreflect.Sint32Kind:
				m.Set(fd, protoreflect.ValueOfInt32(1))
			case protoreflect.Int64Kind:
				m.Set(fd, protoreflect.ValueOfInt64(1))
			case protoreflect.Uint32Kind:
				m.Set(fd, protoreflect.ValueOfUint32(1))
			case protoreflect.Uint64Kind:
				m.Set(fd, protoreflect.ValueOfUint64(1))
			}
		case "Limit", "HowMany":
			m.Set(fd, protoreflect.ValueOfInt32(2))
		case "SetIfNotExist", "SetIfExist", "Condition":
			_ = m.Mutable(fd).Message() // present and empty: its fields get mutated one by one
		case "Value":
			if fd.Kind() == protoreflect.Uint32Kind {
				m.Set(fd, protoreflect.ValueOfUint32(2))
			}
		}
	}
	return msg
}

var c26NameMut = []string{"", "ab", "c26/seed", "a/b", "c26/seed/main/extra", "/seed/main", "c26//main", "c26/seed/", "c26/none/missing", "c26/seed/other", "//", "c26/seed/main"}

// c26Mutations: every single-field mutation of msg (depth-limited), each applied to a clone of base
type c26Mut struct {
	msg   proto.Message
	label string
	kind  string
}

type c26Op struct {
	path  []int
	label string
	kind  string // "", "enum", "nilmsg", "emptymsg", "oversize", "negint": always run in the quick tier
	f     func(m protoreflect.Message)
}

// navigate to the sub-message at path (pairs of field index, element index); false if it is gone
func c26ApplyTo(c proto.Message, op c26Op) (ok bool) {
	defer func() {
		if r := recover(); r != nil {
			ok = false
		}
	}()
	m := c.ProtoReflect()
	for i := 0; i+1 < len(op.path); i += 2 {
		fd := m.Descriptor().Fields().Get(op.path[i])
		if fd.IsList() {
			l := m.Mutable(fd).List()
			if op.path[i+1] >= l.Len() {
				return false
			}
			m = l.Get(op.path[i+1]).Message()
		} else {
			if !m.Has(fd) {
				return false
			}
			m = m.Mutable(fd).Message()
		}
	}
	op.f(m)
	return true
}

func c26Mutations(base proto.Message, rng *rand.Rand, doubles int) []c26Mut {
	var out []c26Mut
	var ops []c26Op
	curLabel, curKind := "", ""
	var walk func(path []int, m protoreflect.Message, depth int)
	apply := func(path []int, f func(m protoreflect.Message)) {
		ops = append(ops, c26Op{append([]int{}, path...), curLabel, curKind, f})
	}
	long := strings.Repeat("k", 70000)
	walk = func(path []int, m protoreflect.Message, depth int) {
		fds := m.Descriptor().Fields()
		for i := 0; i < fds.Len(); i++ {
			fd := fds.Get(i)
			fi := i
			if fd.Name() == "IslandID" {
				continue
			}
			curLabel, curKind = string(fd.Name()), ""
			set := func(v protoreflect.Value) {
				// the label names the field and the class of the value, so that a recorded finding can say
				// `From<0` instead of "something about From"
				base := curLabel
				switch x := v.Interface().(type) {
				case int32:
					curLabel += c26NumClass(int64(x))
				case int64:
					curLabel += c26NumClass(x)
				case uint32:
					curLabel += c26NumClass(int64(x))
				case uint64:
					if x > 1<<62 {
						curLabel += ">0"
					} else {
						curLabel += c26NumClass(int64(x))
					}
				case float32:
					curLabel += c26NumClass(int64(x * 2))
				case float64:
					curLabel += c26NumClass(int64(x * 2))
				case string:
					switch {
					case x == "":
						curLabel += ":empty"
					case len(x) > 65535:
						curLabel += ":over65535"
					case len(x) == 65535:
						curLabel += ":65535"
					}
				case protoreflect.EnumNumber:
					if fd.Enum() != nil && (int(x) < 0 || int(x) >= fd.Enum().Values().Len()) {
						curLabel += ":outofrange"
					}
				}
				apply(path, func(mm protoreflect.Message) { mm.Set(mm.Descriptor().Fields().Get(fi), v) })
				curLabel = base
			}
			clear := func() { apply(path, func(mm protoreflect.Message) { mm.Clear(mm.Descriptor().Fields().Get(fi)) }) }
			switch {
			case fd.IsMap():
				clear()
			case fd.IsList() && fd.Kind() == protoreflect.StringKind:
				for _, vals := range [][]string{nil, {""}, {"s1"}, {"nokey"}, {"", "s1"}, {"s1", "s1"}, {long}} {
					vs := vals
					apply(path, func(mm protoreflect.Message) {
						f := mm.Descriptor().Fields().Get(fi)
						mm.Clear(f)
						for _, s := range vs {
							mm.Mutable(f).List().Append(protoreflect.ValueOfString(s))
						}
					})
				}
			case fd.IsList() && fd.Kind() == protoreflect.MessageKind:
				clear()
				curKind = "emptymsg"
				apply(path, func(mm protoreflect.Message) { // one element, all fields absent
					f := mm.Descriptor().Fields().Get(fi)
					mm.Clear(f)
					mm.Mutable(f).List().Append(mm.Mutable(f).List().NewElement())
				})
				apply(path, func(mm protoreflect.Message) { // an empty element after the valid ones
					f := mm.Descriptor().Fields().Get(fi)
					mm.Mutable(f).List().Append(mm.Mutable(f).List().NewElement())
				})
				curKind = ""
				l := m.Get(fd).List()
				if l.Len() > 0 {
					if depth < 3 {
						walk(append(append([]int{}, path...), i, 0), l.Get(0).Message(), depth+1)
						curLabel = string(fd.Name())
					}
					// a second entry: valid first, mutated second (handled by the entry-level name mutations below)
					if fd.Name() == "Swamps" || fd.Name() == "Requests" || fd.Name() == "Queries" || fd.Name() == "Targets" {
						for _, nm := range []string{"ab", "c26/seed", "", "c26/none/missing", "c26/seed/other"} {
							n2 := nm
							apply(path, func(mm protoreflect.Message) {
								f := mm.Descriptor().Fields().Get(fi)
								ll := mm.Mutable(f).List()
								e2 := proto.Clone(ll.Get(0).Message().Interface()).ProtoReflect()
								if nf := e2.Descriptor().Fields().ByName("SwampName"); nf != nil {
									e2.Set(nf, protoreflect.ValueOfString(n2))
								}
								ll.Append(protoreflect.ValueOfMessage(e2))
							})
						}
					}
				}
			case fd.IsList():
				clear()
			case fd.Kind() == protoreflect.MessageKind:
				curKind = "nilmsg"
				clear()
				curKind = "emptymsg"
				apply(path, func(mm protoreflect.Message) { // present, but every field absent
					f := mm.Descriptor().Fields().Get(fi)
					mm.Set(f, protoreflect.ValueOfMessage(mm.NewField(f).Message()))
				})
				curKind = ""
				if m.Has(fd) && depth < 3 {
					walk(append(append([]int{}, path...), i, 0), m.Get(fd).Message(), depth+1)
					curLabel = string(fd.Name())
				} else if fd.Message().Name() == "Cap" {
					for k := 0; k < 5; k++ {
						kk := k
						apply(path, func(mm protoreflect.Message) {
							mm.Set(mm.Descriptor().Fields().Get(fi), protoreflect.ValueOfMessage(c26Cap(kk).ProtoReflect()))
						})
					}
				} else if fd.Message().Name() == "PatchMeta" {
					apply(path, func(mm protoreflect.Message) {
						mm.Set(mm.Descriptor().Fields().Get(fi), protoreflect.ValueOfMessage((&hydrapb.PatchMeta{SetUpdatedAt: true}).ProtoReflect()))
					})
				} else if fd.Message().Name() == "FilterGroup" {
					apply(path, func(mm protoreflect.Message) {
						mm.Set(mm.Descriptor().Fields().Get(fi), protoreflect.ValueOfMessage(c26Filter(true).ProtoReflect()))
					})
					apply(path, func(mm protoreflect.Message) {
						mm.Set(mm.Descriptor().Fields().Get(fi), protoreflect.ValueOfMessage(c26Filter(false).ProtoReflect()))
					})
				}
			case fd.Kind() == protoreflect.StringKind:
				if fd.Name() == "SwampName" || fd.Name() == "SwampPattern" {
					for _, nm := range c26NameMut {
						set(protoreflect.ValueOfString(nm))
					}
					set(protoreflect.ValueOfString("c26/seed/" + strings.Repeat("n", 300)))
					// three well-formed parts, longer than the V2 file header's 16-bit name length can say
					curKind = "oversize"
					set(protoreflect.ValueOfString("c26/seed/" + strings.Repeat("n", 65536-9)))   // 65535 bytes: the longest storable name
					set(protoreflect.ValueOfString("c26/seed/" + strings.Repeat("n", 65536-8)))   // 65536 bytes
					set(protoreflect.ValueOfString("c26/seed/" + strings.Repeat("n", 70000)))
					curKind = ""
				} else {
					for _, v := range []string{"", "nokey", "s1", "sl", "by"} {
						set(protoreflect.ValueOfString(v))
					}
					if fd.Name() == "Key" {
						curKind = "oversize"
						set(protoreflect.ValueOfString(strings.Repeat("k", 65535))) // largest key the V2 writer takes
						set(protoreflect.ValueOfString(strings.Repeat("k", 65536)))
					}
					set(protoreflect.ValueOfString(long))
					curKind = ""
				}
			case fd.Kind() == protoreflect.EnumKind:
				for _, v := range []int32{0, 1, int32(fd.Enum().Values().Len() - 1)} {
					set(protoreflect.ValueOfEnum(protoreflect.EnumNumber(v)))
				}
				curKind = "enum" // out of range: one past the last value, far out, negative
				for _, v := range []int32{int32(fd.Enum().Values().Len()), 99, -1} {
					set(protoreflect.ValueOfEnum(protoreflect.EnumNumber(v)))
				}
				curKind = ""
			case fd.Kind() == protoreflect.BoolKind:
				set(protoreflect.ValueOfBool(!m.Get(fd).Bool()))
			case fd.Kind() == protoreflect.Int32Kind || fd.Kind() == protoreflect.Sint32Kind:
				for _, v := range []int32{0, 1, 2147483647} {
					set(protoreflect.ValueOfInt32(v))
				}
				curKind = "negint" // negative counts / offsets (Limit, From, HowMany, MaxResults …): in every quick run
				for _, v := range []int32{-1, -2147483648} {
					set(protoreflect.ValueOfInt32(v))
				}
				curKind = ""
			case fd.Kind() == protoreflect.Int64Kind:
				for _, v := range []int64{0, 1, 9223372036854775807} {
					set(protoreflect.ValueOfInt64(v))
				}
				curKind = "negint"
				for _, v := range []int64{-1, -9223372036854775808} {
					set(protoreflect.ValueOfInt64(v))
				}
				curKind = ""
			case fd.Kind() == protoreflect.Uint32Kind:
				for _, v := range []uint32{0, 1, 4294967295} {
					set(protoreflect.ValueOfUint32(v))
				}
			case fd.Kind() == protoreflect.Uint64Kind:
				for _, v := range []uint64{0, 1, 18446744073709551615} {
					set(protoreflect.ValueOfUint64(v))
				}
			case fd.Kind() == protoreflect.FloatKind:
				for _, v := range []float32{0, 1.5, -1} {
					set(protoreflect.ValueOfFloat32(v))
				}
			case fd.Kind() == protoreflect.DoubleKind:
				for _, v := range []float64{0, 1.5, -1} {
					set(protoreflect.ValueOfFloat64(v))
				}
			case fd.Kind() == protoreflect.BytesKind:
				for _, v := range [][]byte{nil, {0xc1}, c26Mp(map[string]any{"a": 1}), c26Mp("str")} {
					set(protoreflect.ValueOfBytes(v))
				}
			}
		}
	}
	walk(nil, base.ProtoReflect(), 0)
	for _, op := range ops {
		c := proto.Clone(base)
		if c26ApplyTo(c, op) {
			out = append(out, c26Mut{c, op.label, op.kind})
		}
	}
	// pairs of mutations of different fields (thorough tier)
	for k := 0; k < doubles && len(ops) > 1; k++ {
		a, b := ops[rng.Intn(len(ops))], ops[rng.Intn(len(ops))]
		if a.label == b.label && fmt.Sprint(a.path) == fmt.Sprint(b.path) {
			continue
		}
		c := proto.Clone(base)
		if c26ApplyTo(c, a) && c26ApplyTo(c, b) {
			out = append(out, c26Mut{c, a.label + "+" + b.label, ""})
		}
	}
	return out
}

func c26NumClass(v int64) string {
	switch {
	case v < 0:
		return "<0"
	case v == 0:
		return "=0"
	}
	return ">0"
}

func c26Filter(bytesField bool) *hydrapb.FilterGroup {
	f := &hydrapb.TreasureFilter{Operator: hydrapb.Relational_EQUAL, CompareValue: &hydrapb.TreasureFilter_Int32Val{Int32Val: 1}}
	if bytesField {
		p := "a"
		f.BytesFieldPath = &p
	}
	return &hydrapb.FilterGroup{Filters: []*hydrapb.TreasureFilter{f}}
}

func c26Cap(k int) *hydrapb.Cap {
	switch k {
	case 0:
		return &hydrapb.Cap{MaxMatching: 0, Filter: c26Filter(true)}
	case 1:
		return &hydrapb.Cap{MaxMatching: -3, Filter: c26Filter(true)}
	case 2:
		return &hydrapb.Cap{MaxMatching: 5}
	case 3:
		return &hydrapb.Cap{MaxMatching: 5, Filter: c26Filter(false)}
	}
	return &hydrapb.Cap{MaxMatching: 5, Filter: c26Filter(true)}
}

// corpus: the minimised requests of the recorded findings, always run (quick tier samples the rest)
func c26Directed(rpc c26Rpc) []c26Mut {
	const S = "c26/seed/main"
	switch rpc.name {
	case "GetByIndex":
		return []c26Mut{{&hydrapb.GetByIndexRequest{IslandID: c26Island, SwampName: S, From: -1, Limit: 2}, "From<0", "directed"}}
	case "GetByIndexStream":
		return []c26Mut{{&hydrapb.GetByIndexStreamRequest{IslandID: c26Island, SwampName: S, From: -1, Limit: 2}, "From<0", "directed"}}
	case "GetByIndexStreamFromMany":
		return []c26Mut{{&hydrapb.GetByIndexStreamFromManyRequest{Queries: []*hydrapb.SwampQuery{{IslandID: c26Island, SwampName: S, From: -1, Limit: 2}}}, "From<0", "directed"}}
	case "Uint32SliceDelete":
		return []c26Mut{
			{&hydrapb.Uint32SliceDeleteRequest{IslandID: c26Island, SwampName: S, KeySlicePairs: []*hydrapb.KeySlicePair{{Key: "s1", Values: []uint32{1}}}}, "Key", "directed"},
			{&hydrapb.Uint32SliceDeleteRequest{IslandID: c26Island, SwampName: S, KeySlicePairs: []*hydrapb.KeySlicePair{{Key: "sl", Values: []uint32{1, 2, 3}}}}, "Values", "directed"},
		}
	case "Lock":
		var out []c26Mut
		for _, t := range []int64{0, 1, 1000, 1001, math.MaxInt64, -1, math.MinInt64, 9223372036854, 9223372036855} {
			out = append(out, c26Mut{&hydrapb.LockRequest{Key: fmt.Sprintf("lk-ttl-%d", t), TTL: t}, fmt.Sprintf("TTL=%d:expect=resp", t), "directed"})
		}
		return out
	case "Uint32SliceSize":
		return []c26Mut{{&hydrapb.Uint32SliceSizeRequest{IslandID: c26Island, SwampName: "c26/none/missing", Key: "sl"}, "SwampName", "directed"}}
	case "Uint32SliceIsValueExist":
		return []c26Mut{{&hydrapb.Uint32SliceIsValueExistRequest{IslandID: c26Island, SwampName: "c26/none/missing", Key: "sl", Value: 2}, "SwampName", "directed"}}
	}
	return nil
}

// ---- shape classification (the abstraction the Lean model works on) ----------

func c26BodyFilterOk(g *hydrapb.FilterGroup) bool {
	if g == nil {
		return true
	}
	for _, f := range g.Filters {
		if f.GetBytesFieldPath() == "" {
			return false
		}
	}
	if len(g.PhraseFilters) > 0 || len(g.VectorFilters) > 0 || len(g.GeoDistanceFilters) > 0 {
		return false
	}
	for _, sg := range g.SubGroups {
		if !c26BodyFilterOk(sg) {
			return false
		}
	}
	return true
}

func c26B(b bool) string {
	if b {
		return "1"
	}
	return "0"
}

// one entry: p<parts>,ne,ep,x,k<N|E|F|O>,kv,iz,oe,mn,pe,cap<A|M|F|B|O>,lk,li
func c26EntryShape(m protoreflect.Message, mode string) string {
	fds := m.Descriptor().Fields()
	get := func(n string) protoreflect.FieldDescriptor { return fds.ByName(protoreflect.Name(n)) }
	nm := ""
	if fd := get("SwampName"); fd != nil {
		nm = m.Get(fd).String()
	} else if fd := get("SwampPattern"); fd != nil {
		nm = m.Get(fd).String()
	}
	parts := strings.Split(nm, "/")
	ep := false
	for _, p := range parts {
		if p == "" {
			ep = true
		}
	}
	exist := false
	if n := c26Norm(nm); n != "" {
		for _, s := range c26Seeded {
			if s == n {
				exist = true
			}
		}
	}
	// the seeded swamps live on island c26Island: the same name on another island (an entry built without its IslandID) does not exist
	if fd := get("IslandID"); fd != nil && m.Get(fd).Uint() != c26Island {
		exist = false
	}
	keys := "O"
	if fd := get("Keys"); fd != nil && fd.IsList() {
		l := m.Get(fd).List()
		switch {
		case l.Len() == 0 && mode == "e":
			keys = "E"
		case l.Len() == 0:
			keys = "N"
		case l.Get(0).String() == "":
			keys = "F"
		}
	}
	kv := false
	if fd := get("KeyValues"); fd != nil {
		kv = m.Get(fd).List().Len() == 0
	}
	// a treasure key that cannot be stored: empty or longer than 65535 bytes (the entry's own Key, or the Key of a
	// KeyValues / KeySlicePairs / Patches child)
	kb := false
	badKey := func(k string) bool { return k == "" || len(k) > 65535 }
	if fd := get("Key"); fd != nil && fd.Kind() == protoreflect.StringKind && !fd.IsList() {
		kb = badKey(m.Get(fd).String())
	}
	for _, cn := range []string{"KeyValues", "KeySlicePairs", "Patches"} {
		if fd := get(cn); fd != nil && fd.IsList() && fd.Kind() == protoreflect.MessageKind {
			l := m.Get(fd).List()
			for i := 0; i < l.Len(); i++ {
				cm := l.Get(i).Message()
				if kf := cm.Descriptor().Fields().ByName("Key"); kf != nil && badKey(cm.Get(kf).String()) {
					kb = true
				}
			}
		}
	}
	iz := false
	if fd := get("IncrementBy"); fd != nil {
		v := m.Get(fd)
		switch fd.Kind() {
		case protoreflect.FloatKind, protoreflect.DoubleKind:
			iz = v.Float() == 0
		case protoreflect.Uint32Kind, protoreflect.Uint64Kind:
			iz = v.Uint() == 0
		default:
			iz = v.Int() == 0
		}
	}
	oe, mn, pe := false, false, false
	if fd := get("Ops"); fd != nil {
		oe = m.Get(fd).List().Len() == 0
	}
	if fd := get("Meta"); fd != nil {
		mn = !m.Has(fd)
	}
	if fd := get("Patches"); fd != nil {
		pe = m.Get(fd).List().Len() == 0
	}
	cp := "A"
	if fd := get("Cap"); fd != nil && m.Has(fd) {
		c := m.Get(fd).Message().Interface().(*hydrapb.Cap)
		switch {
		case c.GetMaxMatching() <= 0:
			cp = "M"
		case c.GetFilter() == nil:
			cp = "F"
		case !c26BodyFilterOk(c.GetFilter()):
			cp = "B"
		default:
			cp = "O"
		}
	}
	lk, li := false, false
	if strings.HasSuffix(string(m.Descriptor().Name()), "ockRequest") {
		if fd := get("Key"); fd != nil {
			lk = m.Get(fd).String() == ""
		}
		if fd := get("LockID"); fd != nil {
			li = m.Get(fd).String() == ""
		}
	}
	fn := false
	if fd := get("From"); fd != nil && (fd.Kind() == protoreflect.Int32Kind || fd.Kind() == protoreflect.Int64Kind) {
		fn = m.Get(fd).Int() < 0
	}
	return fmt.Sprintf("p%d,ne%s,ep%s,x%s,k%s,kv%s,kb%s,fn%s,iz%s,oe%s,mn%s,pe%s,cap%s,lk%s,li%s,t%s,nl%s", len(parts), c26B(nm == ""), c26B(ep), c26B(exist), keys,
		c26B(kv), c26B(kb), c26B(fn), c26B(iz), c26B(oe), c26B(mn), c26B(pe), cp, c26B(lk), c26B(li), c26B(!c26GenTel), c26B(len(nm) > 65535))
}

func c26Shape(msg proto.Message, mode string) string {
	m := msg.ProtoReflect()
	out := "top=" + c26EntryShape(m, mode)
	if mode == "c" {
		out += ",lh1" // the lock key is held by another caller when the request arrives
	}
	fds := m.Descriptor().Fields()
	for _, n := range []string{"Swamps", "Requests", "Queries", "Targets"} {
		if fd := fds.ByName(protoreflect.Name(n)); fd != nil && fd.IsList() && fd.Kind() == protoreflect.MessageKind {
			l := m.Get(fd).List()
			for i := 0; i < l.Len(); i++ {
				out += " e=" + c26EntryShape(l.Get(i).Message(), mode)
			}
		}
	}
	return out
}

func c26HasKeys(msg proto.Message) bool {
	found := false
	var walk func(m protoreflect.Message)
	walk = func(m protoreflect.Message) {
		fds := m.Descriptor().Fields()
		for i := 0; i < fds.Len(); i++ {
			fd := fds.Get(i)
			if fd.Name() == "Keys" && fd.IsList() && m.Get(fd).List().Len() == 0 {
				found = true
			}
			if fd.Kind() == protoreflect.MessageKind && fd.IsList() {
				l := m.Get(fd).List()
				for j := 0; j < l.Len(); j++ {
					walk(l.Get(j).Message())
				}
			}
		}
	}
	walk(msg.ProtoReflect())
	return found
}

func c26Emit(w *bufio.Writer, rpc c26Rpc, msg proto.Message, mode string, label string) {
	b, err := proto.MarshalOptions{Deterministic: true}.Marshal(msg)
	if err != nil {
		return
	}
	// the shape is computed from what the server will actually receive
	dec, err := c26Decode(rpc, mode, hex.EncodeToString(b))
	if err != nil {
		return
	}
	fmt.Fprintf(w, "req %s %s %s | %s | m=%s\n", rpc.name, mode, hex.EncodeToString(b), c26Shape(dec, mode), label)
}

var c26GenTel = false // telemetry collector configured in the case being generated

// handlers whose engine part starts with SummonSwamp in the handler's own goroutine
func c26Summons(rpc string) bool {
	switch rpc {
	case "Heartbeat", "Lock", "Unlock", "RegisterSwamp", "DeRegisterSwamp", "IsSwampExist", "DestroyBulk",
		"SubscribeToEvents", "SubscribeToInfo", "SubscribeToTelemetry", "GetTelemetryHistory", "GetTelemetryStats", "GetErrorDetails":
		return false
	}
	return true
}

func c26WritesKeys(rpc string) bool {
	// plus the two readers that leave an empty swamp behind on the legacy engine (recorded finding)
	return c26Keyed(rpc) || rpc == "Uint32SliceSize" || rpc == "Uint32SliceIsValueExist"
}

func c26Gen(rng *rand.Rand, tier string, w *bufio.Writer) {
	per, doubles := 30, 0
	if tier == "thorough" {
		per, doubles = 2000, 1200
	}
	only := os.Getenv("C26_ONLY")
	ci := 0
	for _, rpc := range c26Rpcs() {
		if only != "" && only != rpc.name {
			continue
		}
		// every RPC on the current engine (V2); RPCs that write by key also on the legacy engine;
		// the telemetry RPCs also with a collector configured
		variants := []string{"eng=v2 tel=0"}
		if c26WritesKeys(rpc.name) {
			variants = append(variants, "eng=v1 tel=0")
		}
		if strings.Contains(rpc.name, "Telemetry") || rpc.name == "GetErrorDetails" {
			variants = append(variants, "eng=v2 tel=1")
		}
		for vi, variant := range variants {
			c26GenTel = strings.HasSuffix(variant, "tel=1")
			fmt.Fprintf(w, "case %d %s %s\n", ci, rpc.name, variant)
			ci++
			base := c26Base(rpc)
			c26Emit(w, rpc, base, "w", "base")
			if c26Summons(rpc.name) {
				c26Emit(w, rpc, base, "p", "engine-panic") // a panic below the prefix: the handler must recover and unwind
			}
			if c26Keyed(rpc.name) {
				c26Emit(w, rpc, base, "f", "base")
			}
			for _, d := range c26Directed(rpc) {
				c26Emit(w, rpc, d.msg, "w", d.label)
			}
			if rpc.name == "Lock" {
				// the key is held by another caller: the request must come back once its own context has ended
				c26Emit(w, rpc, &hydrapb.LockRequest{Key: "lk-contended", TTL: 5000}, "c", "contended:expect=err")
				c26Emit(w, rpc, &hydrapb.LockRequest{Key: "lk-contended-max", TTL: math.MaxInt64}, "c", "contended:expect=err")
			}
			dbl := doubles
			if vi > 0 {
				dbl = doubles / 4
			}
			muts := c26Mutations(base, rng, dbl)
			// always: malformed names / key lists, out-of-range enums, nil and empty nested messages, oversized
			// keys; the rest is sampled up to the tier budget
			var first, rest []c26Mut
			for _, m := range muts {
				s := c26Shape(m.msg, "w")
				if m.kind != "" || !strings.Contains(s, "p3,ne0,ep0") || strings.Contains(s, "kN") || strings.Contains(s, "kF") {
					first = append(first, m)
				} else {
					rest = append(rest, m)
				}
			}
			if vi > 0 && tier != "thorough" {
				// second engine / collector: the engine-dependent inputs only
				var f2 []c26Mut
				for _, m := range first {
					if m.kind == "oversize" || m.kind == "emptymsg" || c26GenTel || strings.Contains(c26Shape(m.msg, "w"), "p3,ne0,ep0,x0") {
						f2 = append(f2, m)
					}
				}
				first, rest = f2, rest[:min(len(rest), 6)]
			}
			rng.Shuffle(len(rest), func(a, b int) { rest[a], rest[b] = rest[b], rest[a] })
			if rpc.kind == "bidi" && tier != "thorough" {
				// each DestroyBulk request runs in its own process
				if len(first) > 8 {
					first = first[:8]
				}
				rest = rest[:min(len(rest), 3)]
			}
			n := 0
			seen := map[string]bool{}
			budget := max(per, len(first)+4)
			if rpc.kind == "bidi" && tier != "thorough" {
				budget = per
			}
			for _, m := range append(first, rest...) {
				if n >= budget {
					break
				}
				b, _ := proto.MarshalOptions{Deterministic: true}.Marshal(m.msg)
				if seen[string(b)] {
					continue
				}
				seen[string(b)] = true
				c26Emit(w, rpc, m.msg, "w", m.label)
				n++
				if m.kind == "oversize" && c26Keyed(rpc.name) {
					c26Emit(w, rpc, m.msg, "f", m.label) // again after a flush, the swamp still open
					n++
				}
				if c26HasKeys(m.msg) && rpc.kind != "bidi" {
					c26Emit(w, rpc, m.msg, "e", m.label)
					n++
				}
			}
			// valid request again at the end: the server still works
			c26Emit(w, rpc, base, "w", "base")
			fmt.Fprintln(w, "end")
		}
	}
}

// ---- parallel dispatcher: cases are independent (fresh server each), so they are spread over
// worker processes (HYDRAIDE_ROOT_PATH is process-global); replies are re-assembled in op order.

func c26RunPar(in *bufio.Scanner, w *bufio.Writer) {
	var lines []string
	for in.Scan() {
		lines = append(lines, in.Text())
	}
	k := runtime.NumCPU() / 3
	if k < 1 {
		k = 1
	}
	if k > 6 {
		k = 6
	}
	if v := os.Getenv("C26_WORKERS"); v != "" {
		fmt.Sscanf(v, "%d", &k)
	}
	// split into cases
	var cases [][]int
	for i, l := range lines {
		if strings.HasPrefix(l, "case ") || len(cases) == 0 {
			cases = append(cases, nil)
		}
		cases[len(cases)-1] = append(cases[len(cases)-1], i)
	}
	if k > len(cases) {
		k = len(cases)
	}
	if k <= 1 {
		sc := bufio.NewScanner(strings.NewReader(strings.Join(lines, "\n") + "\n"))
		sc.Buffer(make([]byte, 1<<20), 1<<28)
		c26Run(sc, w)
		return
	}
	exe, _ := os.Executable()
	out := make([]string, len(lines))
	type job struct{ idx []int }
	jobs := make([][]int, k)
	// longest cases first, greedily onto the least loaded worker
	order := make([]int, len(cases))
	for i := range order {
		order[i] = i
	}
	sort.SliceStable(order, func(a, b int) bool { return len(cases[order[a]]) > len(cases[order[b]]) })
	load := make([]int, k)
	for _, ci := range order {
		best := 0
		for j := 1; j < k; j++ {
			if load[j] < load[best] {
				best = j
			}
		}
		jobs[best] = append(jobs[best], cases[ci]...)
		load[best] += len(cases[ci])
	}
	var wg sync.WaitGroup
	for j := 0; j < k; j++ {
		wg.Add(1)
		go func(idx []int) {
			defer wg.Done()
			var sb strings.Builder
			for _, i := range idx {
				sb.WriteString(lines[i])
				sb.WriteByte('\n')
			}
			cmd := exec.Command(exe, "run", "C26seq")
			cmd.Stdin = strings.NewReader(sb.String())
			var ob bytes.Buffer
			cmd.Stdout = &ob
			cmd.Stderr = io.Discard
			_ = cmd.Run()
			res := strings.Split(strings.TrimSuffix(ob.String(), "\n"), "\n")
			for n, i := range idx {
				if n < len(res) {
					out[i] = res[n]
				} else {
					out[i] = "worker-died"
				}
			}
		}(jobs[j])
	}
	wg.Wait()
	for _, l := range out {
		fmt.Fprintln(w, l)
	}
}
