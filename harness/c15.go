package main

// Domain C15: forced schedules on the real treasure guard.
//
// ops:   case N | startw | startn | release SID | releaseraw ID
// reply: <event> q=[ids] c=<counter> h=<number of sessions that acquired and have not released>
//
// Sessions are numbered 1,2,3… in the order their Start enqueued (the `guard.enq` hook).
// The harness learns that a waiting Start is parked from the `guard.wait` hook (emitted
// under the guard's lock immediately before cond.Wait), so every reply is deterministic.

import (
	"bufio"
	"fmt"
	"math/rand"
	"runtime"
	"strconv"
	"strings"
	"sync"
	"sync/atomic"
	"time"

	"github.com/hydraide/hydraide/app/core/hydra/swamp/treasure/guard"
	"github.com/hydraide/hydraide/app/verifhook"
)

type gEvent struct {
	name string
	id   int64
	eff  bool
}

type c15Session struct {
	id       int64
	acquired bool
	released bool
}

func init() {
	Register("C15", Domain{Gen: genC15, Run: runC15})
}

func genC15(rng *rand.Rand, tier string, w *bufio.Writer) {
	cases, maxLen := 300, 24
	if tier == "thorough" {
		cases, maxLen = 6000, 60
	}
	// corpus first: the minimal reuse witness, and a FIFO chain
	fmt.Fprintln(w, "case 0\nstartw\nrelease 1\nstartw\nrelease 1\nstartn")
	fmt.Fprintln(w, "case 1\nstartw\nstartw\nstartw\nstartn\nrelease 2\nrelease 1\nrelease 1\nrelease 3\nrelease 2\nstartn")
	for c := 2; c < cases; c++ {
		fmt.Fprintf(w, "case %d\n", c)
		n := 3 + rng.Intn(maxLen)
		sessions := 0
		for i := 0; i < n; i++ {
			r := rng.Intn(100)
			switch {
			case r < 28:
				fmt.Fprintln(w, "startw")
				sessions++
			case r < 38:
				fmt.Fprintln(w, "startn")
				sessions++ // upper bound; refused starts create no session
			case r < 92 && sessions > 0:
				// bias towards old sessions so that stale / duplicate releases are frequent
				s := 1 + rng.Intn(sessions)
				if rng.Intn(3) == 0 {
					s = 1 + rng.Intn(1+sessions/2)
				}
				fmt.Fprintf(w, "release %d\n", s)
			default:
				fmt.Fprintf(w, "releaseraw %d\n", []int{0, 1, 2, 3, 7, 1000}[rng.Intn(6)])
			}
		}
	}
}

func runC15(in *bufio.Scanner, w *bufio.Writer) {
	events := make(chan gEvent, 1024)
	verifhook.SetHandler(func(name string, args ...any) {
		if !strings.HasPrefix(name, "guard.") {
			return
		}
		ev := gEvent{name: name}
		if len(args) > 1 {
			ev.id, _ = args[1].(int64)
		}
		if len(args) > 2 {
			ev.eff, _ = args[2].(bool)
		}
		events <- ev
	})
	defer verifhook.SetHandler(nil)

	var g guard.Guard
	var sessions []*c15Session // index = sid-1
	waiting := 0

	next := func() gEvent {
		select {
		case ev := <-events:
			return ev
		case <-time.After(5 * time.Second):
			return gEvent{name: "timeout"}
		}
	}
	state := func() string {
		q, c := guard.VerifSnapshot(g)
		h := 0
		for _, s := range sessions {
			if s.acquired && !s.released {
				h++
			}
		}
		qs := make([]string, len(q))
		for i, v := range q {
			qs[i] = strconv.FormatInt(v, 10)
		}
		return fmt.Sprintf("q=[%s] c=%d h=%d", strings.Join(qs, ","), c, h)
	}
	byID := func(id int64) *c15Session { // the waiting session with this id
		for _, s := range sessions {
			if s.id == id && !s.acquired {
				return s
			}
		}
		return nil
	}
	// after an effective release every parked waiter wakes and either acquires or parks again
	settle := func() string {
		granted := "-"
		for n := waiting; n > 0; n-- {
			ev := next()
			switch ev.name {
			case "guard.acq":
				if s := byID(ev.id); s != nil {
					s.acquired = true
					waiting--
					granted = strconv.FormatInt(ev.id, 10)
				}
			case "guard.wait":
			default:
				return "unexpected-" + ev.name
			}
		}
		return granted
	}
	doRelease := func(id int64) string {
		g.ReleaseTreasureGuard(guard.ID(id))
		ev := next()
		if ev.name != "guard.rel" {
			return "unexpected-" + ev.name
		}
		if ev.eff {
			return fmt.Sprintf("rel %d eff granted=%s", id, settle())
		}
		return fmt.Sprintf("rel %d noop", id)
	}

	for in.Scan() {
		line := strings.TrimSpace(in.Text())
		f := strings.Fields(line)
		if len(f) == 0 {
			fmt.Fprintln(w, "bad-op")
			continue
		}
		switch f[0] {
		case "case":
			// parked goroutines of the previous case are abandoned with their guard
			g = guard.New()
			sessions = nil
			waiting = 0
			for len(events) > 0 {
				<-events
			}
			fmt.Fprintln(w, line)
			continue
		case "startw":
			go func(gd guard.Guard) { gd.StartTreasureGuard(true) }(g)
			ev := next()
			if ev.name != "guard.enq" {
				fmt.Fprintln(w, "unexpected-"+ev.name)
				continue
			}
			s := &c15Session{id: ev.id}
			sessions = append(sessions, s)
			ev = next()
			switch ev.name {
			case "guard.acq":
				s.acquired = true
				fmt.Fprintf(w, "acq %d %s\n", s.id, state())
			case "guard.wait":
				waiting++
				fmt.Fprintf(w, "wait %d %s\n", s.id, state())
			default:
				fmt.Fprintln(w, "unexpected-"+ev.name)
			}
		case "startn":
			id := int64(g.StartTreasureGuard(false))
			if id == 0 {
				fmt.Fprintf(w, "refused %s\n", state())
				continue
			}
			if ev := next(); ev.name != "guard.enq" || ev.id != id {
				fmt.Fprintln(w, "unexpected-"+ev.name)
				continue
			}
			next() // guard.acq
			sessions = append(sessions, &c15Session{id: id, acquired: true})
			fmt.Fprintf(w, "acq %d %s\n", id, state())
		case "release":
			sid, err := strconv.Atoi(f[1])
			if len(f) != 2 || err != nil {
				fmt.Fprintln(w, "bad-op")
				continue
			}
			if sid < 1 || sid > len(sessions) || !sessions[sid-1].acquired {
				fmt.Fprintf(w, "skip %s\n", state())
				continue
			}
			s := sessions[sid-1]
			s.released = true
			fmt.Fprintf(w, "%s %s\n", doRelease(s.id), state())
		case "releaseraw":
			id, err := strconv.ParseInt(f[1], 10, 64)
			if len(f) != 2 || err != nil {
				fmt.Fprintln(w, "bad-op")
				continue
			}
			// releasing the current holder's own ID from outside is impersonation: IDs are
			// capabilities, so this action is outside the property's quantifier
			if q, _ := guard.VerifSnapshot(g); len(q) > 0 && q[0] == id {
				fmt.Fprintf(w, "skip %s\n", state())
				continue
			}
			fmt.Fprintf(w, "%s %s\n", doRelease(id), state())
		default:
			fmt.Fprintln(w, "bad-op")
		}
		w.Flush()
	}
}

// ---------------------------------------------------------------------------------------
// Domain C15s: stress + trace inclusion.  `gen` RUNS the real guard under genuinely
// concurrent goroutines and emits the event log (hook events are emitted under the guard's
// own lock, so the log is a linearisation of what happened); `run` answers "ok" to every
// line (the implementation produced the log); the Lean driver replays the log through the
// model and answers "ok" only where the model can take the same step with the same values.
//
// log lines: case N | enq ID | acq ID | pre G ID (goroutine G is about to release its hold)
//            | rel ID eff | rel ID noop
func init() { Register("C15s", Domain{Gen: genC15s, Run: runC15s}) }

func genC15s(rng *rand.Rand, tier string, w *bufio.Writer) {
	rounds, gor, iters := 12, 6, 25
	if tier == "thorough" {
		rounds, gor, iters = 60, 10, 60
	}
	for r := 0; r < rounds; r++ {
		var mu sync.Mutex
		var log []string
		add := func(s string) { mu.Lock(); log = append(log, s); mu.Unlock() }
		g := guard.New()
		verifhook.SetHandler(func(name string, args ...any) {
			if len(args) < 2 || args[0] != any(g) {
				// events of other guards (none in this process) are ignored
			}
			id, _ := args[1].(int64)
			switch name {
			case "guard.enq":
				add(fmt.Sprintf("enq %d", id))
			case "guard.acq":
				add(fmt.Sprintf("acq %d", id))
			case "guard.rel":
				if eff, _ := args[2].(bool); eff {
					add(fmt.Sprintf("rel %d eff", id))
				} else {
					add(fmt.Sprintf("rel %d noop", id))
				}
			}
		})
		var wg sync.WaitGroup
		if r%2 == 1 {
			for j := range c15Arrived {
				atomic.StoreInt64(&c15Arrived[j], 0)
			}
			// try-acquire races: goroutines released by a barrier all call the non-waiting Start on a
			// free guard at once; whoever is granted announces and releases before the next volley
			volleys := 150 * iters / 25
			for k := 0; k < 4; k++ {
				wg.Add(1)
				go func(k int) {
					defer wg.Done()
					for v := 0; v < volleys; v++ {
						raceBarrier(&mu, &log, k, v)
						if id := int64(g.StartTreasureGuard(false)); id != 0 {
							runtime.Gosched()
							add(fmt.Sprintf("pre %d %d", k, id))
							g.ReleaseTreasureGuard(guard.ID(id))
						}
					}
				}(k)
			}
		} else {
			for k := 0; k < gor; k++ {
				wg.Add(1)
				seed := rng.Int63()
				c15Worker(&wg, g, k, seed, iters, add)
			}
		}
		done := make(chan struct{})
		go func() { wg.Wait(); close(done) }()
		hung := false
		select {
		case <-done:
		case <-time.After(20 * time.Second):
			hung = true // a parked waiter was never woken: goroutines are abandoned
		}
		verifhook.SetHandler(nil)
		fmt.Fprintf(w, "case %d\n", r)
		if hung {
			mu.Lock()
			log = append(log, "hang")
			mu.Unlock()
		}
		mu.Lock()
		for _, l := range log {
			fmt.Fprintln(w, l)
		}
		mu.Unlock()
	}
}

// a sense-reversing spin barrier for 4 goroutines (keeps the volley tight without channels)
var c15Arrived [4]int64

func raceBarrier(mu *sync.Mutex, log *[]string, k, v int) {
	atomic.StoreInt64(&c15Arrived[k], int64(v+1))
	for j := 0; j < 4; j++ {
		for atomic.LoadInt64(&c15Arrived[j]) < int64(v+1) {
			runtime.Gosched()
		}
	}
}

func c15Worker(wg *sync.WaitGroup, g guard.Guard, k int, seed int64, iters int, add func(string)) {
	go func() {
		defer wg.Done()
		lr := rand.New(rand.NewSource(seed))
		var old []int64
		for i := 0; i < iters; i++ {
			id := int64(g.StartTreasureGuard(lr.Intn(4) != 0))
			if id == 0 {
				continue
			}
			if lr.Intn(3) == 0 {
				runtime.Gosched()
			}
			add(fmt.Sprintf("pre %d %d", k, id))
			g.ReleaseTreasureGuard(guard.ID(id))
			if lr.Intn(3) == 0 { // duplicate release, as SaveFunction + deferred release do
				g.ReleaseTreasureGuard(guard.ID(id))
			}
			old = append(old, id)
			if lr.Intn(5) == 0 { // stale release of an ID this goroutine held earlier
				g.ReleaseTreasureGuard(guard.ID(old[lr.Intn(len(old))]))
			}
		}
	}()
}

func runC15s(in *bufio.Scanner, w *bufio.Writer) {
	for in.Scan() {
		if strings.HasPrefix(in.Text(), "case ") {
			fmt.Fprintln(w, in.Text())
		} else {
			fmt.Fprintln(w, "ok")
		}
	}
}
