package main

// Domain C12: forced interleavings of two real Cap-bearing PatchTreasures RPCs on one swamp of the
// in-process server (harness/rig.go). Every batch is stopped at the hook points of the gateway:
// `cap.pre` (before the first statement of capPreCount), `cap.mid` (between its two statements)
// and `cap.patch` (before each PatchFields of the loop).
//
// ops:   case N
//        init M b0 b1 …       cap value M for the case; records r0,r1,… with status active(1)/idle(0)
//        submit B k:v k:v …   start batch B (1 or 2): PatchTreasures{Cap{status==active, M}, SET status on r<k>};
//                             it stops at `cap.pre`
//        step B               let B run to its next stop
//        (init tokens: 1 active, 0 idle, - absent; every created record carries an expiry in the past, r0 oldest)
//        submit B c=a|c=i k:v … the same with CreateIfNotExist and an InitialMsgpackOnCreate seed status=active / idle
//        xsubmit B n          start batch B: PatchExpiredTreasures{HowMany n, SET status active, new expiry, Cap}; it stops at the
//                             `pexp.selected` hook (after count+select, before the per-record patches), returns at once when it
//                             selected nothing, or is `blocked` on capMu
//        shift n              ShiftMatchingTreasures{KEY ASC, HowMany n, Filters status==idle, Cap}, synchronous (refused with
//                             `busy` while a stopped batch holds capMu)
//        ssubmit B n          the same call as batch B of its own (B = 1..3): `done shifted=… reached=…`, or `blocked` on capMu —
//                             it then runs when the holder leaves.  Up to three batches of any kind share the cap; when several
//                             wait for capMu the order in which they get it is observed (` unblocked=<B>@<stop>` …) and handed to the model
// reply: <event> m=<records matching the filter now> mu=<free|held>
//        event of `step`: mid | patch | done r=[P|X…] reached=<CapReached> | blocked (no progress while the
//        other batch holds capMu — observed by absence of the next hook event); when a batch finishes
//        and thereby lets the blocked one continue: ` unblocked=<B>@<its stop>`
// `m` is counted by the harness itself (own msgpack decoding) through the swamp interface, `mu`
// through the verif accessor swamp.VerifCapMuFree.

import (
	"bufio"
	"context"
	"fmt"
	"math/rand"
	"os"
	"sort"
	"strconv"
	"strings"
	"sync"
	"time"

	"github.com/hydraide/hydraide/app/core/hydra/swamp"
	"github.com/hydraide/hydraide/app/core/hydra/swamp/treasure"
	"github.com/hydraide/hydraide/app/core/settings"
	"github.com/hydraide/hydraide/app/name"
	"github.com/hydraide/hydraide/app/verifhook"
	hydrapb "github.com/hydraide/hydraide/sdk/go/hydraidego/v3/hydraidepbgo"
	"github.com/vmihailenco/msgpack/v5"
	"google.golang.org/protobuf/types/known/timestamppb"
)

type c12Stop struct {
	name string
	rel  chan struct{}
	b    int // the batch whose goroutine reached the hook (0: unknown)
}

type c12Batch struct {
	n       int
	expired bool // a PatchExpired call (one stop: pexp.selected)
	shift   bool // a ShiftMatching call (no stop: it runs to its end as soon as it has capMu)
	sresp   *hydrapb.ShiftMatchingTreasuresResponse
	xresp   *hydrapb.PatchExpiredTreasuresResponse
	patches int
	stop    *c12Stop // where it is stopped now (nil: running / blocked / done)
	passed  int      // hooks passed so far: 0 = at pre
	blocked bool
	done    chan struct{}
	resp    *hydrapb.PatchTreasuresResponse
	err     error
	fin     bool
}

type c12World struct {
	mu      sync.Mutex
	rig     *Rig
	swName  name.Name
	sw      swamp.Swamp
	cap     int32
	events  chan *c12Stop
	passAll bool
	xActive bool // a PatchExpired batch of this case is running
	batches map[int]*c12Batch
	byGo    map[string]int // goroutine → batch (the hooks carry no caller identity)
	lockSeq int            // capMu acquisitions observed so far (hooks right after the Lock)
	seqOf   map[int]int    // batch → number of its capMu acquisition
	holder  int            // batch observed to have taken capMu (0: nobody)
	broken  bool
}

var c12BrokenCases int

func c12StatusFilter() *hydrapb.FilterGroup {
	p := "status"
	return &hydrapb.FilterGroup{Logic: hydrapb.FilterLogic_AND, Filters: []*hydrapb.TreasureFilter{{
		BytesFieldPath: &p, Operator: hydrapb.Relational_EQUAL,
		CompareValue: &hydrapb.TreasureFilter_StringVal{StringVal: "active"}}}}
}

func (w *c12World) handler(hook string, args ...any) {
	if hook == "cap.mid" || hook == "pexp.locked" || hook == "shiftm.locked" {
		// the caller has just taken capMu: remember the order (it tells which of several waiting calls ran first)
		g := goid()
		w.mu.Lock()
		if bn := w.byGo[g]; bn != 0 {
			w.lockSeq++
			w.seqOf[bn] = w.lockSeq
		}
		w.mu.Unlock()
		if hook != "cap.mid" {
			return
		}
	}
	if hook == "pexp.selected" {
		// PatchExpired between its count+select step and the per-record patches (no swamp identity in
		// this hook: only the case's own calls run in this process)
		w.mu.Lock()
		pass := w.passAll || !w.xActive
		w.mu.Unlock()
		if pass {
			return
		}
		n, _ := args[0].(int)
		g := goid()
		w.mu.Lock()
		bn := w.byGo[g]
		w.mu.Unlock()
		st := &c12Stop{name: "selected=" + strconv.Itoa(n), rel: make(chan struct{}), b: bn}
		w.events <- st
		<-st.rel
		return
	}
	if !strings.HasPrefix(hook, "cap.") || len(args) < 1 {
		return
	}
	sw, ok := args[0].(swamp.Swamp)
	if !ok || w.sw == nil || sw.GetName().Get() != w.swName.Get() {
		return
	}
	if hook != "cap.pre" && hook != "cap.mid" && hook != "cap.patch" {
		return // points used by the stress domain only
	}
	if hook == "cap.patch" {
		if capOn, _ := args[2].(bool); !capOn {
			return
		}
	}
	g := goid()
	w.mu.Lock()
	pass := w.passAll
	bn := w.byGo[g]
	w.mu.Unlock()
	if pass {
		return
	}
	st := &c12Stop{name: strings.TrimPrefix(hook, "cap."), rel: make(chan struct{}), b: bn}
	w.events <- st
	<-st.rel
}

// register ties the calling goroutine to batch bn (hooks are attributed through it).
func (w *c12World) register(bn int) {
	g := goid()
	w.mu.Lock()
	w.byGo[g] = bn
	w.mu.Unlock()
}

func (w *c12World) matching() int {
	if w.sw == nil {
		return -1
	}
	return int(w.sw.CountMatchingTreasures(func(t treasure.Treasure) bool {
		raw, err := t.GetContentByteArray()
		if err != nil || len(raw) < 2 {
			return false
		}
		var m map[string]any
		if msgpack.Unmarshal(raw[2:], &m) != nil {
			return false
		}
		return m["status"] == "active"
	}))
}

func (w *c12World) tail() string {
	mu := "held"
	if w.sw != nil && swamp.VerifCapMuFree(w.sw) {
		mu = "free"
	}
	dbg := ""
	if os.Getenv("C12_DEBUG") != "" && w.sw != nil {
		for i := 0; i < 8; i++ {
			t, err := w.sw.GetTreasure(c12Key(i))
			c := "-"
			if err == nil && t != nil {
				c = "?"
				if raw, e := t.GetContentByteArray(); e == nil && len(raw) >= 2 {
					var m map[string]any
					if msgpack.Unmarshal(raw[2:], &m) == nil {
						c = fmt.Sprint(m["status"])[:1]
					}
				}
			}
			dbg += c
		}
		dbg = " recs=" + dbg
	}
	return fmt.Sprintf("m=%d mu=%s%s", w.matching(), mu, dbg)
}

func (w *c12World) timeout() {
	if !w.broken {
		w.broken = true
		c12BrokenCases++
	}
}

func c12Key(k int) string { return "r" + strconv.Itoa(k) }

func c12Val(active bool) []byte {
	s := "idle"
	if active {
		s = "active"
	}
	b, _ := msgpack.Marshal(s)
	return b
}

func (w *c12World) finish(b *c12Batch) string {
	b.fin = true
	if b.shift {
		if b.err != nil || b.sresp == nil {
			return "done error"
		}
		return fmt.Sprintf("done shifted=%d reached=%v", len(b.sresp.GetTreasures()), b.sresp.GetCapReached())
	}
	if b.expired {
		if b.err != nil || b.xresp == nil {
			return "done error"
		}
		return fmt.Sprintf("done patched=%d reached=%v", len(b.xresp.GetPatched()), b.xresp.GetCapReached())
	}
	if b.err != nil || b.resp == nil {
		return "done error"
	}
	var r []string
	for _, x := range b.resp.GetResults() {
		switch x.GetStatus() {
		case hydrapb.PatchResult_PATCHED:
			r = append(r, "P")
		case hydrapb.PatchResult_CAP_EXCEEDED:
			r = append(r, "X")
		case hydrapb.PatchResult_CREATED:
			r = append(r, "C")
		case hydrapb.PatchResult_KEY_NOT_FOUND:
			r = append(r, "N")
		default:
			r = append(r, "?"+x.GetStatus().String())
		}
	}
	return fmt.Sprintf("done r=[%s] reached=%v", strings.Join(r, ","), b.resp.GetCapReached())
}

// heldByOther: another batch of the case is known to hold capMu right now.
func (w *c12World) heldByOther(b *c12Batch) bool {
	o := w.batches[w.holder]
	return o != nil && o != b && !o.fin && !swamp.VerifCapMuFree(w.sw)
}

// cascade: capMu has just been released. One of the batches that were waiting for it gets it — which
// one is the runtime's choice (observed, reported as ` unblocked=<B>@<where it is now>`). A batch that
// runs to its end without a stop (a ShiftMatching, a PatchExpired that selects nothing) releases
// capMu again, and the next one follows.
func (w *c12World) cascade() string {
	res := ""
	for {
		var blocked []*c12Batch
		for _, o := range w.batches {
			if o.blocked && !o.fin {
				blocked = append(blocked, o)
			}
		}
		if len(blocked) == 0 {
			return res
		}
		// (a waiting call that has returned is listed in the order in which the calls took capMu)
		bySeq := func() {
			w.mu.Lock()
			sort.Slice(blocked, func(i, j int) bool {
				a, b := w.seqOf[blocked[i].n], w.seqOf[blocked[j].n]
				if a == 0 {
					a = 1 << 30
				}
				if b == 0 {
					b = 1 << 30
				}
				return a < b
			})
			w.mu.Unlock()
		}
		deadline := time.Now().Add(HxScale(3 * time.Second))
		progressed := false
		for !progressed {
			bySeq()
			select {
			case st := <-w.events:
				o := w.batches[st.b]
				if o == nil {
					close(st.rel)
					break
				}
				// o holds capMu now: a waiting batch that has already returned got it — and released it — before o
				for _, x := range blocked {
					if x == o {
						continue
					}
					select {
					case <-x.done:
						x.blocked = false
						res += fmt.Sprintf(" unblocked=%d@%s", x.n, w.finish(x))
					default:
					}
				}
				o.blocked = false
				o.stop = st
				o.passed++
				w.holder = o.n
				return res + fmt.Sprintf(" unblocked=%d@%s", o.n, st.name)
			default:
			}
			for _, o := range blocked {
				w.mu.Lock()
				took := w.seqOf[o.n] != 0
				w.mu.Unlock()
				select {
				case <-o.done:
					o.blocked = false
					res += fmt.Sprintf(" unblocked=%d@%s", o.n, w.finish(o))
					progressed = true
				default:
				}
				// the earliest call that has taken capMu comes first: wait for its return (or its stop)
				if progressed || took {
					break
				}
			}
			if !progressed {
				if time.Now().After(deadline) {
					w.timeout()
					return res + " unblocked-timeout"
				}
				time.Sleep(200 * time.Microsecond)
			}
		}
	}
}

// advance waits for what a released batch does next: its next stop, its completion, or nothing.
func (w *c12World) advance(b *c12Batch) string {
	last := b.passed >= 2+b.patches || b.expired // no hook left: the next thing is its return
	short := w.heldByOther(b)
	defer func() {
		// who holds capMu now, by observation
		free := swamp.VerifCapMuFree(w.sw)
		switch {
		case free:
			w.holder = 0
		case w.holder == 0 && !b.fin && !b.blocked:
			w.holder = b.n
		}
	}()
	d := HxScale(3 * time.Second)
	if short && !last {
		d = HxScale(60 * time.Millisecond)
	}
	if last {
		select {
		case <-b.done:
		case <-time.After(d):
			w.timeout()
			return "unexpected-timeout"
		}
		res := w.finish(b)
		if w.holder == b.n {
			w.holder = 0
		}
		return res + w.cascade()
	}
	select {
	case st := <-w.events:
		b.stop = st
		b.passed++
		return st.name
	case <-b.done:
		return w.finish(b) + " early"
	case <-time.After(d):
		if short {
			b.blocked = true
			return "blocked"
		}
		w.timeout()
		return "unexpected-timeout"
	}
}

func (w *c12World) cleanup() {
	w.mu.Lock()
	w.passAll = true
	w.mu.Unlock()
	for _, b := range w.batches {
		if b.stop != nil {
			close(b.stop.rel)
			b.stop = nil
		}
	}
	deadline := time.After(HxScale(2 * time.Second))
	for _, b := range w.batches {
		for alive := true; alive; {
			select {
			case <-b.done:
				alive = false
			case st := <-w.events:
				close(st.rel)
			case <-deadline:
				alive = false
			}
		}
	}
}

func init() {
	Register("C12", Domain{Gen: genC12, Run: runC12})
}

func genC12(rng *rand.Rand, tier string, w *bufio.Writer) {
	cases := 90
	if tier == "thorough" {
		cases = 1500
	}
	// corpus: the Lean witness (two batches, cap 1, both count 0), the four cells, budget exhaustion
	fmt.Fprintln(w, "case 0\ninit 1 0 0\nsubmit 1 0:1\nsubmit 2 1:1\nstep 1\nstep 2\nstep 1\nstep 1\nstep 2\nstep 2\nstep 2")
	fmt.Fprintln(w, "case 1\ninit 2 1 0 0 1\nsubmit 1 0:1 1:0 3:0 2:1\nstep 1\nstep 1\nstep 1\nstep 1\nstep 1\nstep 1")
	fmt.Fprintln(w, "case 2\ninit 2 0 0 0 0\nsubmit 1 0:1 1:1 2:1 3:1\nstep 1\nstep 1\nstep 1\nstep 1\nstep 1\nstep 1\nsubmit 2 0:0 2:1 3:1\nstep 2\nstep 2\nstep 2\nstep 2\nstep 2")
	// creates: absent keys, seed matching / not matching the filter (cap 2: the third create must be rejected)
	fmt.Fprintln(w, "case 3\ninit 2 0 - - - -\nsubmit 1 c=a 1:1 2:1 3:1 4:0 0:1\nstep 1\nstep 1\nstep 1\nstep 1\nstep 1\nstep 1\nstep 1\nsubmit 2 1:0 4:1 3:1\nstep 2\nstep 2\nstep 2\nstep 2\nstep 2")
	// PatchExpired with the cap: B must wait for capMu until A's per-record patches are done
	fmt.Fprintln(w, "case 4\ninit 2 0 0 0 0\nxsubmit 1 0\nxsubmit 2 0\nstep 1\nstep 2\nshift 3")
	// PatchExpired against a PatchTreasures batch, HowMany below the budget, ShiftMatching bounded by the budget
	fmt.Fprintln(w, "case 5\ninit 3 1 0 0 0 0\nxsubmit 1 1\nsubmit 2 2:1 3:1\nstep 2\nstep 2\nstep 1\nstep 2\nstep 2\nshift 5\nxsubmit 1 0")
	// a matching record WITHOUT an expiry (created by a cap-bearing PatchTreasures) next to an idle expired one:
	// PatchExpired must count it (sequential: cap 1, the create takes the whole budget)
	fmt.Fprintln(w, "case 6\ninit 1 0 -\nsubmit 1 c=i 1:1\nstep 1\nstep 1\nstep 1\nxsubmit 2 1\nstep 2")
	// three calls, three entry points, one cap: a PatchTreasures batch holds capMu; a PatchExpired and a ShiftMatching wait
	// for it; when the batch leaves, both run (in the order the runtime picks) against the budget the batch left behind
	fmt.Fprintln(w, "case 7\ninit 2 0 0 0 0 0\nsubmit 1 0:1\nstep 1\nxsubmit 2 0\nssubmit 3 2\nstep 1\nstep 1\nstep 2\nstep 2\nstep 3")
	// PatchExpired holds capMu with its selection made; a batch and a shift wait; a second batch of the freed number later
	fmt.Fprintln(w, "case 8\ninit 3 1 0 0 0 0 0\nxsubmit 1 1\nsubmit 2 2:1 3:1 4:1\nstep 2\nssubmit 3 1\nstep 1\nstep 2\nstep 2\nstep 2\nstep 2\nstep 3\nshift 2")
	for c := 9; c < cases; c++ {
		fmt.Fprintf(w, "case %d\n", c)
		n := 2 + rng.Intn(5)
		m := 1 + rng.Intn(3)
		var recs []string
		active := 0
		for i := 0; i < n; i++ {
			v := "0"
			switch {
			case rng.Intn(5) == 0:
				v = "-"
			case active < m && rng.Intn(3) == 0:
				v = "1"
				active++
			}
			recs = append(recs, v)
		}
		fmt.Fprintf(w, "init %d %s\n", m, strings.Join(recs, " "))
		left := [4]int{}
		nb := 2 + rng.Intn(2) // two or three concurrent cap-bearing calls, mixed entry points
		for b := 1; b <= nb; b++ {
			if b > 1 && rng.Intn(5) == 0 {
				// ShiftMatching as a concurrent call: it waits for capMu, then runs to its end
				fmt.Fprintf(w, "ssubmit %d %d\n", b, 1+rng.Intn(3))
				continue
			}
			if rng.Intn(3) == 0 {
				fmt.Fprintf(w, "xsubmit %d %d\n", b, rng.Intn(3))
				left[b] = 1
				continue
			}
			p := 1 + rng.Intn(3)
			var ps []string
			switch rng.Intn(4) {
			case 0:
				ps = append(ps, "c=a")
			case 1:
				ps = append(ps, "c=i")
			}
			for i := 0; i < p; i++ {
				v := 1
				if rng.Intn(4) == 0 {
					v = 0
				}
				ps = append(ps, fmt.Sprintf("%d:%d", rng.Intn(n), v))
			}
			fmt.Fprintf(w, "submit %d %s\n", b, strings.Join(ps, " "))
			left[b] = 2 + p
		}
		for left[1]+left[2]+left[3] > 0 {
			b := 1 + rng.Intn(3)
			for left[b] == 0 {
				b = 1 + b%3
			}
			fmt.Fprintf(w, "step %d\n", b)
			left[b]--
			if rng.Intn(12) == 0 && nb < 3 {
				// a latecomer of the third kind while the others are under way
				nb = 3
				fmt.Fprintf(w, "ssubmit 3 %d\n", 1+rng.Intn(2))
			}
		}
		// a batch that was reported `blocked` used up a step without moving
		fmt.Fprintln(w, "step 1\nstep 2\nstep 3\nstep 1\nstep 2\nstep 3\nstep 1\nstep 2\nstep 3")
		if rng.Intn(2) == 0 {
			fmt.Fprintf(w, "shift %d\n", 1+rng.Intn(3))
		}
	}
}

func runC12(in *bufio.Scanner, out *bufio.Writer) {
	rig, err := NewRig(2, 100, 3600, 1)
	if err != nil {
		for in.Scan() {
			fmt.Fprintln(out, "rig-error")
		}
		return
	}
	defer rig.Stop(true)
	rig.Settings.RegisterPattern(name.New().Sanctuary("c12").Realm("*").Swamp("*"), true, 3600, &settings.FileSystemSettings{WriteIntervalSec: 1, MaxFileSizeByte: 8192})
	runID := time.Now().UnixNano()
	ctx := context.Background()
	var w *c12World
	install := func(caseNo string) {
		if w != nil {
			w.cleanup()
		}
		w = &c12World{rig: rig, events: make(chan *c12Stop, 16), batches: map[int]*c12Batch{}, byGo: map[string]int{}, seqOf: map[int]int{},
			swName: name.New().Sanctuary("c12").Realm("case").Swamp(fmt.Sprintf("%s-%d", caseNo, runID))}
		verifhook.SetHandler(w.handler)
	}
	install("boot")
	defer func() { w.cleanup(); verifhook.SetHandler(nil) }()
	for in.Scan() {
		line := strings.TrimSpace(in.Text())
		f := strings.Fields(line)
		if len(f) == 0 {
			fmt.Fprintln(out, "bad-op")
			continue
		}
		if c12BrokenCases > 3 {
			fmt.Fprintln(out, "aborted")
			continue
		}
		if w.broken && f[0] != "case" {
			fmt.Fprintln(out, "broken")
			continue
		}
		switch f[0] {
		case "case":
			install(f[len(f)-1])
			fmt.Fprintln(out, line)
		case "init":
			if len(f) < 3 {
				fmt.Fprintln(out, "bad-op")
				break
			}
			m, _ := strconv.Atoi(f[1])
			w.cap = int32(m)
			var ps []*hydrapb.TreasurePatch
			for i, v := range f[2:] {
				if v == "-" {
					continue
				}
				// every record is expired, r0 longest ago
				ps = append(ps, &hydrapb.TreasurePatch{Key: c12Key(i), Ops: []*hydrapb.PatchOp{{Op: hydrapb.PatchOp_SET, Path: "status", Value: c12Val(v == "1")}},
					Meta: &hydrapb.PatchMeta{SetExpiredAt: timestamppb.New(time.Now().UTC().Add(-time.Duration(1000-i) * time.Hour))}})
			}
			// a sentinel that never matches anything keeps the swamp from being auto-destroyed when a shift empties it
			keep, _ := msgpack.Marshal("keep")
			ps = append(ps, &hydrapb.TreasurePatch{Key: "zz", Ops: []*hydrapb.PatchOp{{Op: hydrapb.PatchOp_SET, Path: "status", Value: keep}}})
			_, err := rig.GW.PatchTreasures(ctx, &hydrapb.PatchTreasuresRequest{IslandID: 1, SwampName: w.swName.Get(), CreateIfNotExist: true, Patches: ps})
			if err != nil {
				fmt.Fprintln(out, "init error")
				break
			}
			sw, err := rig.Zeus.GetHydra().SummonSwamp(ctx, 1, w.swName)
			if err != nil {
				fmt.Fprintln(out, "init summon-error")
				break
			}
			w.sw = sw
			fmt.Fprintf(out, "init %s\n", w.tail())
		case "submit":
			bn, err := strconv.Atoi(f[1])
			if len(f) < 3 || err != nil || w.sw == nil || w.batches[bn] != nil || bn < 1 || bn > 3 {
				fmt.Fprintln(out, "skip")
				break
			}
			var ps []*hydrapb.TreasurePatch
			create, seed := false, []byte(nil)
			for _, kv := range f[2:] {
				if strings.HasPrefix(kv, "c=") {
					create = true
					seed, _ = msgpack.Marshal(map[string]string{"status": map[string]string{"a": "active", "i": "idle"}[kv[2:]]})
					continue
				}
				p := strings.SplitN(kv, ":", 2)
				k, _ := strconv.Atoi(p[0])
				ps = append(ps, &hydrapb.TreasurePatch{Key: c12Key(k), Ops: []*hydrapb.PatchOp{{Op: hydrapb.PatchOp_SET, Path: "status", Value: c12Val(len(p) > 1 && p[1] == "1")}}})
			}
			b := &c12Batch{n: bn, patches: len(ps), done: make(chan struct{})}
			w.batches[bn] = b
			req := &hydrapb.PatchTreasuresRequest{IslandID: 1, SwampName: w.swName.Get(), Patches: ps,
				CreateIfNotExist: create, InitialMsgpackOnCreate: seed,
				Cap: &hydrapb.Cap{Filter: c12StatusFilter(), MaxMatching: w.cap}}
			go func() {
				w.register(bn)
				b.resp, b.err = rig.GW.PatchTreasures(ctx, req)
				close(b.done)
			}()
			select {
			case st := <-w.events:
				b.stop = st
				fmt.Fprintf(out, "submit %d %s %s\n", bn, st.name, w.tail())
			case <-b.done:
				fmt.Fprintf(out, "submit %d %s %s\n", bn, w.finish(b), w.tail())
			case <-time.After(HxScale(3 * time.Second)):
				w.timeout()
				fmt.Fprintf(out, "submit %d unexpected-timeout\n", bn)
			}
		case "xsubmit":
			bn, err := strconv.Atoi(f[1])
			if len(f) != 3 || err != nil || w.sw == nil || w.batches[bn] != nil || bn < 1 || bn > 3 {
				fmt.Fprintln(out, "skip")
				break
			}
			n, _ := strconv.Atoi(f[2])
			b := &c12Batch{n: bn, expired: true, done: make(chan struct{})}
			w.batches[bn] = b
			active, _ := msgpack.Marshal("active")
			req := &hydrapb.PatchExpiredTreasuresRequest{IslandID: 1, SwampName: w.swName.Get(), HowMany: int32(n),
				Ops:  []*hydrapb.PatchOp{{Op: hydrapb.PatchOp_SET, Path: "status", Value: active}},
				Meta: &hydrapb.PatchMeta{SetExpiredAt: timestamppb.New(time.Now().UTC().Add(time.Hour))},
				Cap:  &hydrapb.Cap{Filter: c12StatusFilter(), MaxMatching: w.cap}}
			w.mu.Lock()
			w.xActive = true
			w.mu.Unlock()
			short := w.heldByOther(b)
			d := HxScale(3 * time.Second)
			if short {
				d = HxScale(80 * time.Millisecond)
			}
			go func() {
				w.register(bn)
				b.xresp, b.err = rig.GW.PatchExpiredTreasures(ctx, req)
				close(b.done)
			}()
			res := ""
			select {
			case st := <-w.events:
				b.stop = st
				res = st.name
				if w.holder == 0 && !swamp.VerifCapMuFree(w.sw) {
					w.holder = bn
				}
			case <-b.done:
				res = w.finish(b)
			case <-time.After(d):
				if short {
					b.blocked = true
					res = "blocked"
				} else {
					w.timeout()
					res = "unexpected-timeout"
				}
			}
			fmt.Fprintf(out, "xsubmit %d %s %s\n", bn, res, w.tail())
		case "ssubmit":
			// a ShiftMatching call as a batch of its own: it needs capMu like the others
			bn, err := strconv.Atoi(f[1])
			if len(f) != 3 || err != nil || w.sw == nil || w.batches[bn] != nil || bn < 1 || bn > 3 {
				fmt.Fprintln(out, "skip")
				break
			}
			n, _ := strconv.Atoi(f[2])
			b := &c12Batch{n: bn, shift: true, done: make(chan struct{})}
			w.batches[bn] = b
			short := w.heldByOther(b)
			d := HxScale(3 * time.Second)
			if short {
				d = HxScale(80 * time.Millisecond)
			}
			p := "status"
			req := &hydrapb.ShiftMatchingTreasuresRequest{IslandID: 1, SwampName: w.swName.Get(),
				IndexType: hydrapb.IndexType_KEY, OrderType: hydrapb.OrderType_ASC, HowMany: int32(n),
				Filters: &hydrapb.FilterGroup{Logic: hydrapb.FilterLogic_AND, Filters: []*hydrapb.TreasureFilter{{BytesFieldPath: &p,
					Operator: hydrapb.Relational_EQUAL, CompareValue: &hydrapb.TreasureFilter_StringVal{StringVal: "idle"}}}},
				Cap: &hydrapb.Cap{Filter: c12StatusFilter(), MaxMatching: w.cap}}
			go func() {
				w.register(bn)
				b.sresp, b.err = rig.GW.ShiftMatchingTreasures(ctx, req)
				close(b.done)
			}()
			res := ""
			select {
			case <-b.done:
				res = w.finish(b)
			case <-time.After(d):
				if short {
					b.blocked = true
					res = "blocked"
				} else {
					w.timeout()
					res = "unexpected-timeout"
				}
			}
			fmt.Fprintf(out, "ssubmit %d %s %s\n", bn, res, w.tail())
		case "shift":
			if len(f) != 2 || w.sw == nil {
				fmt.Fprintln(out, "skip")
				break
			}
			if !swamp.VerifCapMuFree(w.sw) {
				fmt.Fprintln(out, "busy")
				break
			}
			n, _ := strconv.Atoi(f[1])
			p := "status"
			resp, err := rig.GW.ShiftMatchingTreasures(ctx, &hydrapb.ShiftMatchingTreasuresRequest{IslandID: 1, SwampName: w.swName.Get(),
				IndexType: hydrapb.IndexType_KEY, OrderType: hydrapb.OrderType_ASC, HowMany: int32(n),
				Filters: &hydrapb.FilterGroup{Logic: hydrapb.FilterLogic_AND, Filters: []*hydrapb.TreasureFilter{{BytesFieldPath: &p,
					Operator: hydrapb.Relational_EQUAL, CompareValue: &hydrapb.TreasureFilter_StringVal{StringVal: "idle"}}}},
				Cap: &hydrapb.Cap{Filter: c12StatusFilter(), MaxMatching: w.cap}})
			if err != nil || resp == nil {
				fmt.Fprintf(out, "shift error %s\n", w.tail())
				break
			}
			fmt.Fprintf(out, "shift %d shifted=%d reached=%v %s\n", n, len(resp.GetTreasures()), resp.GetCapReached(), w.tail())
		case "step":
			bn, _ := strconv.Atoi(f[1])
			b := w.batches[bn]
			if b == nil || b.fin || b.blocked || b.stop == nil {
				fmt.Fprintln(out, "skip")
				break
			}
			st := b.stop
			b.stop = nil
			if b.passed == 0 {
				b.passed = 1 // leaving `pre`
			}
			close(st.rel)
			fmt.Fprintf(out, "step %d %s %s\n", bn, w.advance(b), w.tail())
		default:
			fmt.Fprintln(out, "bad-op")
		}
		out.Flush()
	}
}
