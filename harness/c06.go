package main

// Domains C06 / C05 / C30 share one runner: the real gateway (in-process, requests and replies
// round-tripped through the protobuf wire encoding) driven one request at a time.
//
// case header:   case N kind=<mem|p0|p1|mems|p0s|p1s>
//                  mem = in-memory swamp; p0 = persistent, write interval 0 (write inside Save);
//                  p1 = persistent, write interval 1 s; trailing "s" = 1 s idle timeout (used
//                  with closeidle), otherwise 3600 s.  Every case runs on a fresh swamp name.
// ops (one swamp per case; K = key token, V = typed value, TS = time, see below):
//   set CO ITEM...              CO = two digits createIfNotExist, overwrite; ITEM = K|V|ca|cb|ua|ub|ea
//   get K...   getall   gbk K...   shift K...   del K...   count   iske K   arek K...   issw
//   inc TY K BY COND INE IE     TY in i8..u64,f32,f64; COND = - | op:val; INE/IE = - | ca01|cb|ua01|ub|ea
//   push K:v,v...   u32del K:v,v...   size K   hasval K V
//   shiftexp N   patch C K META   patchexp N META   getidx ORDER FROM LIMIT [FT TT]   fexp OP TS (C30)
//   closeidle   restart   wait MS
// values V:  void | i8:N … u64:N | f32:HEX8 | f64:HEX16 | str:HEX | bool:0/1 | bytes:HEX | u32s:a,b,c
// times TS:  "" absent | aN absolute unix ns | bN ns relative to the case base time | T server time
// replies: see c06Fmt*; `hang` when the request did not return within c06OpTimeout (the rig is
// then abandoned and the remaining ops of the case answer `skip`).

import (
	"regexp"
	"bufio"
	"context"
	"encoding/hex"
	"fmt"
	"math"
	"math/rand"
	"os"
	"sort"
	"strconv"
	"strings"
	"time"

	"github.com/hydraide/hydraide/app/core/filesystem"
	"github.com/hydraide/hydraide/app/core/settings"
	"github.com/hydraide/hydraide/app/core/zeus"
	"github.com/hydraide/hydraide/app/name"
	"github.com/hydraide/hydraide/app/server/gateway"
	hydrapb "github.com/hydraide/hydraide/sdk/go/hydraidego/v3/hydraidepbgo"
	"google.golang.org/grpc/status"
	"google.golang.org/protobuf/proto"
	"google.golang.org/protobuf/types/known/timestamppb"
)

func init() { Register("C06", Domain{Gen: c06Gen, Run: c06Run}) }

var c06LongKeyRe = regexp.MustCompile(`x@[0-9]+`)
var c06LongRunRe = regexp.MustCompile(`x{1000,}`)

// A request that has not returned after c06OpTimeout is reported as `hang`: a limit that a loaded
// machine cannot reach by accident.  (Uint32SliceDelete used to block forever on a live key; since
// the repair of that deadlock it is drawn as often as any other request and has the same limit.
// If the deadlock comes back, every such request costs the full limit and is reported.)
// (both go through HxScale: /verif/check re-runs a case whose reply was `hang` alone with longer limits)
const c06OpTimeout = 60 * time.Second
const c06SlowTimeout = 60 * time.Second

type c06State struct {
	rig     *Rig
	runTag  string
	caseNo  string
	kind    string
	swamp   string
	base    int64 // unix ns; client-side relative times are base+offset
	server  map[int64]bool
	sorted   bool    // case attribute sorted=1: claim replies are listed by key (their order is C30's subject)
	opStarts []int64 // wall-clock start of every request of the case (not wait / close / restart / compact)
	dead    bool // a request hung in this case
	rigDead bool
}

// p1 swamps buffer writes; their write ticker is set to an hour so that WHEN a record reaches the
// file (close, restart, idle close) is decided by the history alone.  The ticker itself is
// exercised on the kind p1t (1 s interval): there every `wait` of >= 2500 ms is a point at which
// the ticker has certainly run, and the generator puts such a wait in front of every request
// whose outcome depends on what has been written (delete, close, restart).
var c06Kinds = []string{"mem", "p0", "p1", "mems", "p0s", "p1s", "p1t"}

func c06Sanctuary(kind string) string { return "kv" + kind }

func c06Register(r *Rig) {
	for _, k := range c06Kinds {
		idle := int64(3600)
		if strings.HasSuffix(k, "s") {
			idle = 1
		}
		pat := name.New().Sanctuary(c06Sanctuary(k)).Realm("*").Swamp("*")
		if strings.HasPrefix(k, "mem") {
			r.Settings.RegisterPattern(pat, true, idle, nil)
		} else {
			wi := int64(0)
			if strings.HasPrefix(k, "p1") {
				wi = 3600
			}
			if k == "p1t" {
				wi = 1
			}
			r.Settings.RegisterPattern(pat, false, idle, &settings.FileSystemSettings{WriteIntervalSec: wi, MaxFileSizeByte: 8192, UseChroniclerV2: true})
		}
	}
}

func c06NewRig() (*Rig, error) {
	r, err := NewRig(3, 2000, 3600, 1)
	if err != nil {
		return nil, err
	}
	_ = r.Settings.SetEngine(settings.EngineV2)
	c06Register(r)
	return r, nil
}

// restart on the same data root: graceful stop (flush + close every swamp), then a new server.
func c06Restart(r *Rig) (*Rig, error) {
	r.Zeus.StopHydra()
	if err := os.Setenv("HYDRAIDE_ROOT_PATH", r.Root); err != nil {
		return nil, err
	}
	s := settings.New(3, 2000)
	z := zeus.New(s, filesystem.New())
	z.StartHydra()
	gw := &gateway.Gateway{SettingsInterface: s, ZeusInterface: z, DefaultCloseAfterIdle: 3600, DefaultWriteInterval: 1, DefaultFileSize: 8192}
	n := &Rig{Root: r.Root, Settings: s, Zeus: z, GW: gw}
	_ = s.SetEngine(settings.EngineV2)
	c06Register(n)
	return n, nil
}

// wire round trip: what the handler sees / the client receives over gRPC
func c06Wire[T proto.Message](m T, fresh T) T {
	b, err := proto.Marshal(m)
	if err != nil {
		return m
	}
	if err := proto.Unmarshal(b, fresh); err != nil {
		return m
	}
	return fresh
}

func c06Err(err error) string {
	if st, ok := status.FromError(err); ok {
		return "err:" + st.Code().String()
	}
	return "err:other"
}

// ---- parsing -----------------------------------------------------------------

func (s *c06State) ts(tok string) (*timestamppb.Timestamp, bool) {
	if tok == "" {
		return nil, false
	}
	n, err := strconv.ParseInt(tok[1:], 10, 64)
	if err != nil {
		return nil, false
	}
	if tok[0] == 'b' {
		n += s.base
	}
	sec := n / 1e9
	ns := n % 1e9
	if ns < 0 {
		sec--
		ns += 1e9
	}
	return &timestamppb.Timestamp{Seconds: sec, Nanos: int32(ns)}, true
}

// absolute unix nanoseconds as a protobuf timestamp
func (s *c06State) tsRaw(n int64) *timestamppb.Timestamp {
	sec := n / 1e9
	ns := n % 1e9
	if ns < 0 {
		sec--
		ns += 1e9
	}
	return &timestamppb.Timestamp{Seconds: sec, Nanos: int32(ns)}
}

// created/updated times are stamped by the server for some requests (increment and patch
// metadata): a value inside the wall-clock span of the case so far is such a stamp (the
// generators never supply a client time that close to the case base)
func (s *c06State) tsOutStamp(t *timestamppb.Timestamp) string {
	if t != nil {
		n := t.Seconds*1e9 + int64(t.Nanos)
		if n >= s.base && n <= time.Now().UnixNano()+int64(time.Millisecond) {
			return s.stampName(n)
		}
	}
	return s.tsOut(t)
}

func (s *c06State) tsOut(t *timestamppb.Timestamp) string {
	if t == nil {
		return ""
	}
	n := t.Seconds*1e9 + int64(t.Nanos)
	if s.server[n] {
		return s.stampName(n)
	}
	d := n - s.base
	if d > -1e15 && d < 1e15 {
		return "b" + strconv.FormatInt(d, 10)
	}
	return "a" + strconv.FormatInt(n, 10)
}

// a server stamp is written T<j>: j = the number of the request (within the case) during which the
// server took it — the last request that had started when the clock showed that value.  A stamp
// that comes back altered (rounded by a reload, copied from another record, …) names another request
// or is no server stamp at all.
func (s *c06State) stampName(n int64) string {
	j := 0
	for _, t0 := range s.opStarts {
		if t0 <= n {
			j++
		}
	}
	return "T" + strconv.Itoa(j)
}

// mark timestamps produced by the server during this op
func (s *c06State) noteServer(t0, t1 int64, ts ...*timestamppb.Timestamp) {
	for _, t := range ts {
		if t == nil {
			continue
		}
		n := t.Seconds*1e9 + int64(t.Nanos)
		if n >= t0-int64(time.Millisecond) && n <= t1+int64(time.Millisecond) {
			s.server[n] = true
		}
	}
}

func c06U32List(tok string) []uint32 {
	var out []uint32
	if tok == "" {
		return out
	}
	for _, p := range strings.Split(tok, ",") {
		v, _ := strconv.ParseUint(p, 10, 32)
		out = append(out, uint32(v))
	}
	return out
}

func (s *c06State) kvp(item string) *hydrapb.KeyValuePair {
	f := strings.Split(item, "|")
	for len(f) < 7 {
		f = append(f, "")
	}
	kv := &hydrapb.KeyValuePair{Key: f[0]}
	// `V~v`: the typed value V sent together with VoidVal = true (as the SDK does for a typed zero): V is what is stored
	if strings.HasSuffix(f[1], "~v") {
		f[1] = strings.TrimSuffix(f[1], "~v")
		t := true
		kv.VoidVal = &t
	}
	ty, val, _ := strings.Cut(f[1], ":")
	switch ty {
	case "i8":
		n, _ := strconv.ParseInt(val, 10, 32)
		v := int32(n)
		kv.Int8Val = &v
	case "i16":
		n, _ := strconv.ParseInt(val, 10, 32)
		v := int32(n)
		kv.Int16Val = &v
	case "i32":
		n, _ := strconv.ParseInt(val, 10, 32)
		v := int32(n)
		kv.Int32Val = &v
	case "i64":
		n, _ := strconv.ParseInt(val, 10, 64)
		kv.Int64Val = &n
	case "u8":
		n, _ := strconv.ParseUint(val, 10, 32)
		v := uint32(n)
		kv.Uint8Val = &v
	case "u16":
		n, _ := strconv.ParseUint(val, 10, 32)
		v := uint32(n)
		kv.Uint16Val = &v
	case "u32":
		n, _ := strconv.ParseUint(val, 10, 32)
		v := uint32(n)
		kv.Uint32Val = &v
	case "u64":
		n, _ := strconv.ParseUint(val, 10, 64)
		kv.Uint64Val = &n
	case "f32":
		n, _ := strconv.ParseUint(val, 16, 32)
		v := math.Float32frombits(uint32(n))
		kv.Float32Val = &v
	case "f64":
		n, _ := strconv.ParseUint(val, 16, 64)
		v := math.Float64frombits(n)
		kv.Float64Val = &v
	case "str":
		b, _ := hex.DecodeString(val)
		v := string(b)
		kv.StringVal = &v
	case "bool":
		v := hydrapb.Boolean_FALSE
		if val == "1" {
			v = hydrapb.Boolean_TRUE
		}
		kv.BoolVal = &v
	case "bytes":
		b, _ := hex.DecodeString(val)
		if b == nil {
			b = []byte{}
		}
		kv.BytesVal = b
	case "u32s":
		kv.Uint32Slice = c06U32List(val)
	case "void":
		v := true
		kv.VoidVal = &v
	case "none": // no value field at all
	}
	if t, ok := s.ts(f[2]); ok {
		kv.CreatedAt = t
	}
	if f[3] != "" {
		kv.CreatedBy = &f[3]
	}
	if t, ok := s.ts(f[4]); ok {
		kv.UpdatedAt = t
	}
	if f[5] != "" {
		kv.UpdatedBy = &f[5]
	}
	if t, ok := s.ts(f[6]); ok {
		kv.ExpiredAt = t
	}
	return kv
}

func c06Val(t *hydrapb.Treasure) string {
	switch {
	case t.Int8Val != nil:
		return "i8:" + strconv.FormatInt(int64(*t.Int8Val), 10)
	case t.Int16Val != nil:
		return "i16:" + strconv.FormatInt(int64(*t.Int16Val), 10)
	case t.Int32Val != nil:
		return "i32:" + strconv.FormatInt(int64(*t.Int32Val), 10)
	case t.Int64Val != nil:
		return "i64:" + strconv.FormatInt(*t.Int64Val, 10)
	case t.Uint8Val != nil:
		return "u8:" + strconv.FormatUint(uint64(*t.Uint8Val), 10)
	case t.Uint16Val != nil:
		return "u16:" + strconv.FormatUint(uint64(*t.Uint16Val), 10)
	case t.Uint32Val != nil:
		return "u32:" + strconv.FormatUint(uint64(*t.Uint32Val), 10)
	case t.Uint64Val != nil:
		return "u64:" + strconv.FormatUint(*t.Uint64Val, 10)
	case t.Float32Val != nil:
		return fmt.Sprintf("f32:%08x", c06F32Bits(*t.Float32Val))
	case t.Float64Val != nil:
		return fmt.Sprintf("f64:%016x", c06F64Bits(*t.Float64Val))
	case t.StringVal != nil:
		return "str:" + hex.EncodeToString([]byte(*t.StringVal))
	case t.BoolVal != nil:
		if *t.BoolVal == hydrapb.Boolean_TRUE {
			return "bool:1"
		}
		return "bool:0"
	case t.BytesVal != nil:
		return "bytes:" + hex.EncodeToString(t.BytesVal)
	case len(t.Uint32Slice) > 0:
		p := make([]string, len(t.Uint32Slice))
		for i, v := range t.Uint32Slice {
			p[i] = strconv.FormatUint(uint64(v), 10)
		}
		return "u32s:" + strings.Join(p, ",")
	}
	return "void"
}

func (s *c06State) rec(t *hydrapb.Treasure) string {
	if t == nil || !t.IsExist {
		return "-"
	}
	return strings.Join([]string{c06Val(t), s.tsOutStamp(t.CreatedAt), t.GetCreatedBy(), s.tsOutStamp(t.UpdatedAt), t.GetUpdatedBy(), s.tsOut(t.ExpiredAt)}, "|")
}

func c06Status(c hydrapb.Status_Code) string {
	switch c {
	case hydrapb.Status_NOT_FOUND:
		return "NF"
	case hydrapb.Status_NEW:
		return "NEW"
	case hydrapb.Status_UPDATED:
		return "UPD"
	case hydrapb.Status_DELETED:
		return "DEL"
	case hydrapb.Status_NOTHING_CHANGED:
		return "SAME"
	}
	return "?"
}

func (s *c06State) incMeta(tok string) *hydrapb.IncrementRequestMetadata {
	if tok == "-" || tok == "" {
		return nil
	}
	f := strings.Split(tok, "|")
	for len(f) < 5 {
		f = append(f, "")
	}
	m := &hydrapb.IncrementRequestMetadata{}
	if f[0] == "1" {
		v := true
		m.CreatedAt = &v
	}
	if f[1] != "" {
		m.CreatedBy = &f[1]
	}
	if f[2] == "1" {
		v := true
		m.UpdatedAt = &v
	}
	if f[3] != "" {
		m.UpdatedBy = &f[3]
	}
	if t, ok := s.ts(f[4]); ok {
		m.ExpiredAt = t
	}
	return m
}

func c06RelOp(op string) hydrapb.Relational_Operator {
	switch op {
	case "eq":
		return hydrapb.Relational_EQUAL
	case "ne":
		return hydrapb.Relational_NOT_EQUAL
	case "gt":
		return hydrapb.Relational_GREATER_THAN
	case "ge":
		return hydrapb.Relational_GREATER_THAN_OR_EQUAL
	case "lt":
		return hydrapb.Relational_LESS_THAN
	case "le":
		return hydrapb.Relational_LESS_THAN_OR_EQUAL
	}
	return hydrapb.Relational_EQUAL
}

func (s *c06State) incReply(val string, inc bool, m *hydrapb.IncrementResponseMetadata, t0, t1 int64) string {
	b := "0"
	if inc {
		b = "1"
	}
	ms := "-"
	if m != nil {
		s.noteServer(t0, t1, m.CreatedAt, m.UpdatedAt)
		// created / updated stamps taken by the server in an EARLIER request (PatchTreasures metadata) are recognised by their value, as in rec()
		ms = strings.Join([]string{s.tsOutStamp(m.CreatedAt), m.GetCreatedBy(), s.tsOutStamp(m.UpdatedAt), m.GetUpdatedBy(), s.tsOut(m.ExpiredAt)}, "|")
	}
	return "inc " + val + " " + b + " " + ms
}

// ---- one request ---------------------------------------------------------------

func (s *c06State) exec(f []string) string {
	gw := s.rig.GW
	ctx := context.Background()
	const island = 1
	sw := s.swamp
	t0 := time.Now().UnixNano()
	switch f[0] {
	case "set":
		req := &hydrapb.SetRequest{Swamps: []*hydrapb.SwampRequest{{IslandID: island, SwampName: sw, CreateIfNotExist: f[1][0] == '1', Overwrite: f[1][1] == '1'}}}
		for _, it := range f[2:] {
			req.Swamps[0].KeyValues = append(req.Swamps[0].KeyValues, s.kvp(it))
		}
		resp, err := gw.Set(ctx, c06Wire(req, &hydrapb.SetRequest{}))
		if err != nil {
			return c06Err(err)
		}
		if resp == nil {
			return "nilnil"
		}
		resp = c06Wire(resp, &hydrapb.SetResponse{})
		if len(resp.Swamps) == 0 {
			return "set ?swamps=0"
		}
		r := resp.Swamps[0]
		if r.ErrorCode != nil {
			// extra response entries for the same request swamp are shown as "+..."
			out := "set ERR:" + r.ErrorCode.String()
			for _, x := range resp.Swamps[1:] {
				out += " +"
				if x.ErrorCode != nil {
					out += "ERR:" + x.ErrorCode.String()
				}
				for _, ks := range x.KeysAndStatuses {
					out += c06Status(ks.Status) + ","
				}
			}
			return out
		}
		if len(resp.Swamps) != 1 {
			return fmt.Sprintf("set ?swamps=%d", len(resp.Swamps))
		}
		out := []string{"set"}
		for i, ks := range r.KeysAndStatuses {
			if i < len(req.Swamps[0].KeyValues) && ks.Key != req.Swamps[0].KeyValues[i].Key {
				out = append(out, "?key")
			}
			out = append(out, c06Status(ks.Status))
		}
		return strings.Join(out, " ")
	case "get":
		req := &hydrapb.GetRequest{Swamps: []*hydrapb.GetSwamp{{IslandID: island, SwampName: sw, Keys: f[1:]}}}
		resp, err := gw.Get(ctx, c06Wire(req, &hydrapb.GetRequest{}))
		if err != nil {
			return c06Err(err)
		}
		if resp == nil {
			return "nilnil"
		}
		resp = c06Wire(resp, &hydrapb.GetResponse{})
		if len(resp.Swamps) != 1 {
			return "get ?swamps"
		}
		if !resp.Swamps[0].IsExist {
			return "get noswamp"
		}
		out := []string{"get"}
		for _, t := range resp.Swamps[0].Treasures {
			out = append(out, s.rec(t))
		}
		return strings.Join(out, " ")
	case "mcount":
		// one Count over (this swamp, a swamp never created, this swamp): answers in request order
		ghost := sw + "-never"
		names := []string{sw, ghost, sw}
		req := &hydrapb.CountRequest{}
		for _, n := range names {
			req.Swamps = append(req.Swamps, &hydrapb.CountRequest_SwampIdentifier{IslandID: island, SwampName: n})
		}
		resp, err := gw.Count(ctx, c06Wire(req, &hydrapb.CountRequest{}))
		if err != nil {
			return c06Err(err)
		}
		if resp == nil {
			return "nilnil"
		}
		resp = c06Wire(resp, &hydrapb.CountResponse{})
		out := []string{"mcount"}
		for i, c := range resp.Swamps {
			if i > 0 {
				out = append(out, "/")
			}
			if i >= len(names) || c.SwampName != names[i] {
				out = append(out, "?name")
			}
			if !c.IsExist {
				out = append(out, "-")
			} else {
				out = append(out, strconv.Itoa(int(c.Count)))
			}
		}
		return strings.Join(out, " ")
	case "mdel":
		// one Delete over (a swamp never created, this swamp): the missing swamp is an entry, the next one is still served
		ghost := sw + "-never"
		req := &hydrapb.DeleteRequest{Swamps: []*hydrapb.DeleteRequest_SwampKeys{{IslandID: island, SwampName: ghost, Keys: f[1:]},
			{IslandID: island, SwampName: sw, Keys: f[1:]}}}
		resp, err := gw.Delete(ctx, c06Wire(req, &hydrapb.DeleteRequest{}))
		if err != nil {
			return c06Err(err)
		}
		if resp == nil {
			return "nilnil"
		}
		resp = c06Wire(resp, &hydrapb.DeleteResponse{})
		out := []string{"mdel"}
		for i, r := range resp.Responses {
			if i > 0 {
				out = append(out, "/")
			}
			if r.ErrorCode != nil {
				out = append(out, "ERR:"+r.ErrorCode.String())
				continue
			}
			for _, ks := range r.KeyStatuses {
				out = append(out, c06Status(ks.Status))
			}
		}
		return strings.Join(out, " ")
	case "mset":
		// one Set that names this swamp twice with the same items: the second entry meets what the first one stored
		req := &hydrapb.SetRequest{}
		for n := 0; n < 2; n++ {
			sr := &hydrapb.SwampRequest{IslandID: island, SwampName: sw, CreateIfNotExist: f[1][0] == '1', Overwrite: f[1][1] == '1'}
			for _, it := range f[2:] {
				sr.KeyValues = append(sr.KeyValues, s.kvp(it))
			}
			req.Swamps = append(req.Swamps, sr)
		}
		resp, err := gw.Set(ctx, c06Wire(req, &hydrapb.SetRequest{}))
		if err != nil {
			return c06Err(err)
		}
		if resp == nil {
			return "nilnil"
		}
		resp = c06Wire(resp, &hydrapb.SetResponse{})
		out := []string{"mset"}
		for i, r := range resp.Swamps {
			if i > 0 {
				out = append(out, "/")
			}
			if r.ErrorCode != nil {
				out = append(out, "ERR:"+r.ErrorCode.String())
				continue
			}
			for _, ks := range r.KeysAndStatuses {
				out = append(out, c06Status(ks.Status))
			}
		}
		return strings.Join(out, " ")
	case "mget":
		// one Get request over three swamp entries: this swamp, a swamp that was never created, this swamp again
		ghost := sw + "-never"
		req := &hydrapb.GetRequest{Swamps: []*hydrapb.GetSwamp{{IslandID: island, SwampName: sw, Keys: f[1:]},
			{IslandID: island, SwampName: ghost, Keys: f[1:]}, {IslandID: island, SwampName: sw, Keys: f[1:]}}}
		resp, err := gw.Get(ctx, c06Wire(req, &hydrapb.GetRequest{}))
		if err != nil {
			return c06Err(err)
		}
		if resp == nil {
			return "nilnil"
		}
		resp = c06Wire(resp, &hydrapb.GetResponse{})
		out := []string{"mget"}
		for i, gs := range resp.Swamps {
			if i > 0 {
				out = append(out, "/")
			}
			want := sw
			if i == 1 {
				want = ghost
			}
			if gs.SwampName != want {
				out = append(out, "?name")
			}
			if !gs.IsExist {
				out = append(out, "noswamp")
				continue
			}
			for _, t := range gs.Treasures {
				out = append(out, s.rec(t))
			}
		}
		return strings.Join(out, " ")
	case "getall":
		resp, err := gw.GetAll(ctx, c06Wire(&hydrapb.GetAllRequest{IslandID: island, SwampName: sw}, &hydrapb.GetAllRequest{}))
		if err != nil {
			return c06Err(err)
		}
		if resp == nil {
			return "nilnil"
		}
		resp = c06Wire(resp, &hydrapb.GetAllResponse{})
		var items []string
		for _, t := range resp.Treasures {
			items = append(items, t.Key+"="+s.rec(t))
		}
		sort.Strings(items)
		return strings.Join(append([]string{"getall"}, items...), " ")
	case "gbk", "shift":
		var ts []*hydrapb.Treasure
		if f[0] == "gbk" {
			resp, err := gw.GetByKeys(ctx, c06Wire(&hydrapb.GetByKeysRequest{IslandID: island, SwampName: sw, Keys: f[1:]}, &hydrapb.GetByKeysRequest{}))
			if err != nil {
				return c06Err(err)
			}
			if resp == nil {
				return "nilnil"
			}
			ts = c06Wire(resp, &hydrapb.GetByKeysResponse{}).Treasures
		} else {
			resp, err := gw.ShiftByKeys(ctx, c06Wire(&hydrapb.ShiftByKeysRequest{IslandID: island, SwampName: sw, Keys: f[1:]}, &hydrapb.ShiftByKeysRequest{}))
			if err != nil {
				return c06Err(err)
			}
			if resp == nil {
				return "nilnil"
			}
			ts = c06Wire(resp, &hydrapb.ShiftByKeysResponse{}).Treasures
		}
		out := []string{f[0]}
		for _, t := range ts {
			out = append(out, t.Key+"="+s.rec(t))
		}
		return strings.Join(out, " ")
	case "del":
		req := &hydrapb.DeleteRequest{Swamps: []*hydrapb.DeleteRequest_SwampKeys{{IslandID: island, SwampName: sw, Keys: f[1:]}}}
		resp, err := gw.Delete(ctx, c06Wire(req, &hydrapb.DeleteRequest{}))
		if err != nil {
			return c06Err(err)
		}
		if resp == nil {
			return "nilnil"
		}
		resp = c06Wire(resp, &hydrapb.DeleteResponse{})
		if len(resp.Responses) != 1 {
			return "del ?swamps"
		}
		if resp.Responses[0].ErrorCode != nil {
			return "del ERR:" + resp.Responses[0].ErrorCode.String()
		}
		out := []string{"del"}
		for _, ks := range resp.Responses[0].KeyStatuses {
			out = append(out, c06Status(ks.Status))
		}
		return strings.Join(out, " ")
	case "count":
		req := &hydrapb.CountRequest{Swamps: []*hydrapb.CountRequest_SwampIdentifier{{IslandID: island, SwampName: sw}}}
		resp, err := gw.Count(ctx, c06Wire(req, &hydrapb.CountRequest{}))
		if err != nil {
			return c06Err(err)
		}
		if resp == nil {
			return "nilnil"
		}
		resp = c06Wire(resp, &hydrapb.CountResponse{})
		if len(resp.Swamps) != 1 {
			return "count ?swamps"
		}
		if !resp.Swamps[0].IsExist {
			return "count -"
		}
		return "count " + strconv.Itoa(int(resp.Swamps[0].Count))
	case "iske":
		resp, err := gw.IsKeyExist(ctx, c06Wire(&hydrapb.IsKeyExistRequest{IslandID: island, SwampName: sw, Key: f[1]}, &hydrapb.IsKeyExistRequest{}))
		if err != nil {
			return c06Err(err)
		}
		if resp == nil {
			return "nilnil"
		}
		if resp.IsExist {
			return "iske 1"
		}
		return "iske 0"
	case "arek":
		resp, err := gw.AreKeysExist(ctx, c06Wire(&hydrapb.AreKeysExistRequest{IslandID: island, SwampName: sw, Keys: f[1:]}, &hydrapb.AreKeysExistRequest{}))
		if err != nil {
			return c06Err(err)
		}
		if resp == nil {
			return "nilnil"
		}
		resp = c06Wire(resp, &hydrapb.AreKeysExistResponse{})
		var items []string
		for k, v := range resp.Results {
			b := "0"
			if v {
				b = "1"
			}
			items = append(items, k+"="+b)
		}
		sort.Strings(items)
		return strings.Join(append([]string{"arek"}, items...), " ")
	case "issw":
		resp, err := gw.IsSwampExist(ctx, c06Wire(&hydrapb.IsSwampExistRequest{IslandID: island, SwampName: sw}, &hydrapb.IsSwampExistRequest{}))
		if err != nil {
			return c06Err(err)
		}
		if resp == nil {
			return "nilnil"
		}
		if resp.IsExist {
			return "issw 1"
		}
		return "issw 0"
	case "push", "u32del":
		var pairs []*hydrapb.KeySlicePair
		for _, it := range f[1:] {
			k, vs, _ := strings.Cut(it, ":")
			pairs = append(pairs, &hydrapb.KeySlicePair{Key: k, Values: c06U32List(vs)})
		}
		var err error
		if f[0] == "push" {
			_, err = gw.Uint32SlicePush(ctx, c06Wire(&hydrapb.AddToUint32SlicePushRequest{IslandID: island, SwampName: sw, KeySlicePairs: pairs}, &hydrapb.AddToUint32SlicePushRequest{}))
		} else {
			_, err = gw.Uint32SliceDelete(ctx, c06Wire(&hydrapb.Uint32SliceDeleteRequest{IslandID: island, SwampName: sw, KeySlicePairs: pairs}, &hydrapb.Uint32SliceDeleteRequest{}))
		}
		if err != nil {
			return c06Err(err)
		}
		return f[0] + " ok"
	case "compact":
		// CompactSwamp: forced rewrite of the swamp's file (observably a no-op on the records)
		_, err := gw.CompactSwamp(ctx, c06Wire(&hydrapb.CompactSwampRequest{IslandID: island, SwampName: sw}, &hydrapb.CompactSwampRequest{}))
		if err != nil {
			return c06Err(err)
		}
		return "compact ok"
	case "size":
		resp, err := gw.Uint32SliceSize(ctx, c06Wire(&hydrapb.Uint32SliceSizeRequest{IslandID: island, SwampName: sw, Key: f[1]}, &hydrapb.Uint32SliceSizeRequest{}))
		if err != nil {
			return c06Err(err)
		}
		if resp == nil {
			return "nilnil"
		}
		return "size " + strconv.FormatInt(resp.Size, 10)
	case "hasval":
		v, _ := strconv.ParseUint(f[2], 10, 32)
		resp, err := gw.Uint32SliceIsValueExist(ctx, c06Wire(&hydrapb.Uint32SliceIsValueExistRequest{IslandID: island, SwampName: sw, Key: f[1], Value: uint32(v)}, &hydrapb.Uint32SliceIsValueExistRequest{}))
		if err != nil {
			return c06Err(err)
		}
		if resp == nil {
			return "nilnil"
		}
		if resp.IsExist {
			return "hasval 1"
		}
		return "hasval 0"
	case "inc":
		return s.execInc(f, t0)
	}
	if r, ok := s.execC30(f, t0); ok {
		return r
	}
	return "bad-op"
}

func (s *c06State) execInc(f []string, t0 int64) string {
	gw := s.rig.GW
	ctx := context.Background()
	const island = 1
	sw := s.swamp
	ty, key, by := f[1], f[2], f[3]
	condOp, condVal := "", ""
	if f[4] != "-" {
		condOp, condVal, _ = strings.Cut(f[4], ":")
	}
	ine, ie := s.incMeta(f[5]), s.incMeta(f[6])
	pi := func(s string) int64 { n, _ := strconv.ParseInt(s, 10, 64); return n }
	pu := func(s string) uint64 { n, _ := strconv.ParseUint(s, 10, 64); return n }
	now := func() int64 { return time.Now().UnixNano() }
	switch ty {
	case "i8":
		req := &hydrapb.IncrementInt8Request{IslandID: island, SwampName: sw, Key: key, IncrementBy: int32(pi(by)), SetIfNotExist: ine, SetIfExist: ie}
		if condOp != "" {
			req.Condition = &hydrapb.IncrementInt8Condition{RelationalOperator: c06RelOp(condOp), Value: int32(pi(condVal))}
		}
		r, err := gw.IncrementInt8(ctx, c06Wire(req, &hydrapb.IncrementInt8Request{}))
		if err != nil {
			return c06Err(err)
		}
		if r == nil {
			return "nilnil"
		}
		r = c06Wire(r, &hydrapb.IncrementInt8Response{})
		return s.incReply("i8:"+strconv.FormatInt(int64(r.Value), 10), r.IsIncremented, r.Metadata, t0, now())
	case "i16":
		req := &hydrapb.IncrementInt16Request{IslandID: island, SwampName: sw, Key: key, IncrementBy: int32(pi(by)), SetIfNotExist: ine, SetIfExist: ie}
		if condOp != "" {
			req.Condition = &hydrapb.IncrementInt16Condition{RelationalOperator: c06RelOp(condOp), Value: int32(pi(condVal))}
		}
		r, err := gw.IncrementInt16(ctx, c06Wire(req, &hydrapb.IncrementInt16Request{}))
		if err != nil {
			return c06Err(err)
		}
		if r == nil {
			return "nilnil"
		}
		r = c06Wire(r, &hydrapb.IncrementInt16Response{})
		return s.incReply("i16:"+strconv.FormatInt(int64(r.Value), 10), r.IsIncremented, r.Metadata, t0, now())
	case "i32":
		req := &hydrapb.IncrementInt32Request{IslandID: island, SwampName: sw, Key: key, IncrementBy: int32(pi(by)), SetIfNotExist: ine, SetIfExist: ie}
		if condOp != "" {
			req.Condition = &hydrapb.IncrementInt32Condition{RelationalOperator: c06RelOp(condOp), Value: int32(pi(condVal))}
		}
		r, err := gw.IncrementInt32(ctx, c06Wire(req, &hydrapb.IncrementInt32Request{}))
		if err != nil {
			return c06Err(err)
		}
		if r == nil {
			return "nilnil"
		}
		r = c06Wire(r, &hydrapb.IncrementInt32Response{})
		return s.incReply("i32:"+strconv.FormatInt(int64(r.Value), 10), r.IsIncremented, r.Metadata, t0, now())
	case "i64":
		req := &hydrapb.IncrementInt64Request{IslandID: island, SwampName: sw, Key: key, IncrementBy: pi(by), SetIfNotExist: ine, SetIfExist: ie}
		if condOp != "" {
			req.Condition = &hydrapb.IncrementInt64Condition{RelationalOperator: c06RelOp(condOp), Value: pi(condVal)}
		}
		r, err := gw.IncrementInt64(ctx, c06Wire(req, &hydrapb.IncrementInt64Request{}))
		if err != nil {
			return c06Err(err)
		}
		if r == nil {
			return "nilnil"
		}
		r = c06Wire(r, &hydrapb.IncrementInt64Response{})
		return s.incReply("i64:"+strconv.FormatInt(r.Value, 10), r.IsIncremented, r.Metadata, t0, now())
	case "u8":
		req := &hydrapb.IncrementUint8Request{IslandID: island, SwampName: sw, Key: key, IncrementBy: uint32(pu(by)), SetIfNotExist: ine, SetIfExist: ie}
		if condOp != "" {
			req.Condition = &hydrapb.IncrementUint8Condition{RelationalOperator: c06RelOp(condOp), Value: uint32(pu(condVal))}
		}
		r, err := gw.IncrementUint8(ctx, c06Wire(req, &hydrapb.IncrementUint8Request{}))
		if err != nil {
			return c06Err(err)
		}
		if r == nil {
			return "nilnil"
		}
		r = c06Wire(r, &hydrapb.IncrementUint8Response{})
		return s.incReply("u8:"+strconv.FormatUint(uint64(r.Value), 10), r.IsIncremented, r.Metadata, t0, now())
	case "u16":
		req := &hydrapb.IncrementUint16Request{IslandID: island, SwampName: sw, Key: key, IncrementBy: uint32(pu(by)), SetIfNotExist: ine, SetIfExist: ie}
		if condOp != "" {
			req.Condition = &hydrapb.IncrementUint16Condition{RelationalOperator: c06RelOp(condOp), Value: uint32(pu(condVal))}
		}
		r, err := gw.IncrementUint16(ctx, c06Wire(req, &hydrapb.IncrementUint16Request{}))
		if err != nil {
			return c06Err(err)
		}
		if r == nil {
			return "nilnil"
		}
		r = c06Wire(r, &hydrapb.IncrementUint16Response{})
		return s.incReply("u16:"+strconv.FormatUint(uint64(r.Value), 10), r.IsIncremented, r.Metadata, t0, now())
	case "u32":
		req := &hydrapb.IncrementUint32Request{IslandID: island, SwampName: sw, Key: key, IncrementBy: uint32(pu(by)), SetIfNotExist: ine, SetIfExist: ie}
		if condOp != "" {
			req.Condition = &hydrapb.IncrementUint32Condition{RelationalOperator: c06RelOp(condOp), Value: uint32(pu(condVal))}
		}
		r, err := gw.IncrementUint32(ctx, c06Wire(req, &hydrapb.IncrementUint32Request{}))
		if err != nil {
			return c06Err(err)
		}
		if r == nil {
			return "nilnil"
		}
		r = c06Wire(r, &hydrapb.IncrementUint32Response{})
		return s.incReply("u32:"+strconv.FormatUint(uint64(r.Value), 10), r.IsIncremented, r.Metadata, t0, now())
	case "u64":
		req := &hydrapb.IncrementUint64Request{IslandID: island, SwampName: sw, Key: key, IncrementBy: pu(by), SetIfNotExist: ine, SetIfExist: ie}
		if condOp != "" {
			req.Condition = &hydrapb.IncrementUint64Condition{RelationalOperator: c06RelOp(condOp), Value: pu(condVal)}
		}
		r, err := gw.IncrementUint64(ctx, c06Wire(req, &hydrapb.IncrementUint64Request{}))
		if err != nil {
			return c06Err(err)
		}
		if r == nil {
			return "nilnil"
		}
		r = c06Wire(r, &hydrapb.IncrementUint64Response{})
		return s.incReply("u64:"+strconv.FormatUint(r.Value, 10), r.IsIncremented, r.Metadata, t0, now())
	case "f32":
		bits := func(s string) float32 { n, _ := strconv.ParseUint(s, 16, 32); return math.Float32frombits(uint32(n)) }
		req := &hydrapb.IncrementFloat32Request{IslandID: island, SwampName: sw, Key: key, IncrementBy: bits(by), SetIfNotExist: ine, SetIfExist: ie}
		if condOp != "" {
			req.Condition = &hydrapb.IncrementFloat32Condition{RelationalOperator: c06RelOp(condOp), Value: bits(condVal)}
		}
		r, err := gw.IncrementFloat32(ctx, c06Wire(req, &hydrapb.IncrementFloat32Request{}))
		if err != nil {
			return c06Err(err)
		}
		if r == nil {
			return "nilnil"
		}
		r = c06Wire(r, &hydrapb.IncrementFloat32Response{})
		return s.incReply(fmt.Sprintf("f32:%08x", c06F32Bits(r.Value)), r.IsIncremented, r.Metadata, t0, now())
	case "f64":
		bits := func(s string) float64 { n, _ := strconv.ParseUint(s, 16, 64); return math.Float64frombits(n) }
		req := &hydrapb.IncrementFloat64Request{IslandID: island, SwampName: sw, Key: key, IncrementBy: bits(by), SetIfNotExist: ine, SetIfExist: ie}
		if condOp != "" {
			req.Condition = &hydrapb.IncrementFloat64Condition{RelationalOperator: c06RelOp(condOp), Value: bits(condVal)}
		}
		r, err := gw.IncrementFloat64(ctx, c06Wire(req, &hydrapb.IncrementFloat64Request{}))
		if err != nil {
			return c06Err(err)
		}
		if r == nil {
			return "nilnil"
		}
		r = c06Wire(r, &hydrapb.IncrementFloat64Response{})
		return s.incReply(fmt.Sprintf("f64:%016x", c06F64Bits(r.Value)), r.IsIncremented, r.Metadata, t0, now())
	}
	return "bad-op"
}

// ---- runner ------------------------------------------------------------------

func (s *c06State) ensureRig() error {
	if s.rig != nil && !s.rigDead {
		return nil
	}
	r, err := c06NewRig()
	if err != nil {
		return err
	}
	s.rig, s.rigDead = r, false
	return nil
}

func c06Run(in *bufio.Scanner, w *bufio.Writer) {
	// the repository prints diagnostics with fmt.Print*: keep them out of the reply stream
	// (w already holds the real stdout)
	os.Stdout = os.Stderr
	s := &c06State{server: map[int64]bool{}, runTag: strconv.FormatInt(time.Now().UnixNano()%1e9, 36)}
	var roots []string
	defer func() {
		if s.rig != nil && !s.rigDead {
			done := make(chan struct{})
			go func() { s.rig.Zeus.StopHydra(); close(done) }()
			select {
			case <-done:
			case <-time.After(HxScale(15 * time.Second)):
			}
		}
		for _, r := range roots {
			_ = os.RemoveAll(r)
		}
	}()
	for in.Scan() {
		line := in.Text()
		f := strings.Split(line, " ")
		if f[0] == "case" {
			if err := s.ensureRig(); err != nil {
				fmt.Fprintln(w, "rig-error "+err.Error())
				continue
			}
			roots = append(roots, s.rig.Root)
			s.caseNo, s.kind, s.dead, s.sorted = f[1], "mem", false, false
			for _, a := range f[2:] {
				if k, v, ok := strings.Cut(a, "="); ok && k == "kind" {
					s.kind = v
				}
				if a == "sorted=1" {
					s.sorted = true
				}
			}
			s.swamp = name.New().Sanctuary(c06Sanctuary(s.kind)).Realm("r" + s.runTag).Swamp("c" + s.caseNo).Get()
			s.base = time.Now().UnixNano()
			s.server = map[int64]bool{}
			s.opStarts = nil
			fmt.Fprintln(w, line)
			continue
		}
		if s.rig == nil {
			fmt.Fprintln(w, "no-case")
			continue
		}
		if s.dead {
			fmt.Fprintln(w, "skip")
			continue
		}
		switch f[0] {
		case "within":
			// real-time bracket: everything up to here happened less than MS ms after the case base (the
			// model answers ok; a slow machine answers `hang slow`, and the case is re-run alone)
			ms, _ := strconv.Atoi(f[1])
			if time.Now().UnixNano()-s.base < int64(ms)*int64(time.Millisecond) {
				fmt.Fprintln(w, "ok")
			} else {
				fmt.Fprintln(w, "hang slow")
				s.dead = true
			}
			continue
		case "wait":
			ms, _ := strconv.Atoi(f[1])
			time.Sleep(time.Duration(ms) * time.Millisecond)
			fmt.Fprintln(w, "ok")
			continue
		case "close":
			// what GracefulStop does to each live swamp (flush + close), without stopping the server
			func() {
				h := s.rig.Zeus.GetHydra()
				live := false
				for _, n := range h.ListActiveSwamps() {
					if n == s.swamp {
						live = true
					}
				}
				if !live {
					fmt.Fprintln(w, "ok")
					return
				}
				done := make(chan struct{})
				go func() {
					defer close(done)
					if sw, err := h.SummonSwamp(context.Background(), 1, name.Load(s.swamp)); err == nil {
						sw.Close()
					}
				}()
				select {
				case <-done:
					fmt.Fprintln(w, "ok")
				case <-time.After(HxScale(c06SlowTimeout)):
					fmt.Fprintln(w, "hang")
					s.dead, s.rigDead = true, true
				}
			}()
			continue
		case "closeidle":
			// idle eviction through the real close listener (1 s idle timeout + 1 s gap)
			deadline := time.Now().Add(HxScale(30 * time.Second))
			closed := false
			for time.Now().Before(deadline) {
				live := false
				for _, n := range s.rig.Zeus.GetHydra().ListActiveSwamps() {
					if n == s.swamp {
						live = true
					}
				}
				if !live {
					closed = true
					break
				}
				time.Sleep(50 * time.Millisecond)
			}
			if closed {
				fmt.Fprintln(w, "ok")
			} else {
				// timing-shaped: reported as a hang so that the case is re-run alone before it is believed
				fmt.Fprintln(w, "hang noclose")
				s.dead, s.rigDead = true, true
			}
			continue
		case "restart":
			done := make(chan *Rig, 1)
			go func() {
				n, err := c06Restart(s.rig)
				if err != nil {
					done <- nil
					return
				}
				done <- n
			}()
			select {
			case n := <-done:
				if n == nil {
					fmt.Fprintln(w, "restart-error")
					s.dead, s.rigDead = true, true
				} else {
					s.rig = n
					fmt.Fprintln(w, "ok")
				}
			case <-time.After(HxScale(20 * time.Second)):
				fmt.Fprintln(w, "hang")
				s.dead, s.rigDead = true, true
			}
			continue
		}
		if f[0] != "compact" {
			s.opStarts = append(s.opStarts, time.Now().UnixNano())
		}
		// long keys are written `x@N` in the protocol (N times the letter x on the wire)
		for i := range f {
			f[i] = c06LongKeyRe.ReplaceAllStringFunc(f[i], func(m string) string {
				n, _ := strconv.Atoi(m[2:])
				return strings.Repeat("x", n)
			})
		}
		res := make(chan string, 1)
		go func() {
			defer func() {
				if r := recover(); r != nil {
					res <- "panic"
				}
			}()
			res <- s.exec(f)
		}()
		select {
		case r := <-res:
			r = c06LongRunRe.ReplaceAllStringFunc(r, func(m string) string { return "x@" + strconv.Itoa(len(m)) })
			if s.sorted && (f[0] == "shiftexp" || f[0] == "patchexp") && strings.HasPrefix(r, f[0]+" ") {
				items := strings.Split(r, " ")
				sort.Strings(items[1:])
				r = strings.Join(items, " ")
			}
			fmt.Fprintln(w, r)
		case <-time.After(HxScale(c06TimeoutOf(f[0]))):
			fmt.Fprintln(w, "hang")
			s.dead, s.rigDead = true, true
		}
	}
}

func c06TimeoutOf(verb string) time.Duration {
	if verb == "u32del" {
		return c06OpTimeout
	}
	return c06SlowTimeout
}

// ---- generator -----------------------------------------------------------------

var c06Keys = []string{"k0", "k1", "k2", "k3", "k4", "k5"}

func c06Pick[T any](rng *rand.Rand, xs []T) T { return xs[rng.Intn(len(xs))] }

var c06IntTys = []string{"i8", "i16", "i32", "i64", "u8", "u16", "u32", "u64"}

func c06IntRange(ty string) (lo, hi float64, signed bool, bits uint) {
	switch ty {
	case "i8":
		return -128, 127, true, 8
	case "i16":
		return -32768, 32767, true, 16
	case "i32":
		return -2147483648, 2147483647, true, 32
	case "i64":
		return -9223372036854775808, 9223372036854775807, true, 64
	case "u8":
		return 0, 255, false, 8
	case "u16":
		return 0, 65535, false, 16
	case "u32":
		return 0, 4294967295, false, 32
	}
	return 0, 18446744073709551615, false, 64
}

// a value of integer type ty, zero-heavy and boundary-heavy
func c06IntVal(rng *rand.Rand, ty string) string {
	_, _, signed, bits := c06IntRange(ty)
	switch rng.Intn(8) {
	case 0, 1, 2:
		return "0"
	case 3:
		return "1"
	case 4: // max
		if signed {
			return strconv.FormatInt(int64(1)<<(bits-1)-1, 10)
		}
		if bits == 64 {
			return "18446744073709551615"
		}
		return strconv.FormatUint(uint64(1)<<bits-1, 10)
	case 5: // min / max-1
		if signed {
			return strconv.FormatInt(-(int64(1) << (bits - 1)), 10)
		}
		if bits == 64 {
			return "18446744073709551614"
		}
		return strconv.FormatUint(uint64(1)<<bits-2, 10)
	case 6:
		if signed {
			return "-1"
		}
		return "2"
	}
	if signed {
		return strconv.Itoa(rng.Intn(200) - 100)
	}
	return strconv.Itoa(rng.Intn(200))
}

var c06F64s = []float64{0, 0, 1, -1, 0.5, 2.25, 1e10, -3.75, 100, math.Copysign(0, -1), math.NaN(), math.Inf(1)}

// increments: the usual steps, both zeros (an increment by zero is refused), NaN, infinity
var c06FBys = []float64{1, -1, 0.5, 2.25, 0, 1, -1, math.Copysign(0, -1), math.NaN(), math.Inf(-1)}

// every NaN is written as the canonical quiet NaN: which NaN an operation produces (sign, payload)
// is the processor's choice, and the Lean driver's Float cannot tell NaNs apart.  What is checked
// is "is a NaN", not its payload.
func c06F64Bits(f float64) uint64 {
	if f != f {
		return 0x7ff8000000000000
	}
	return math.Float64bits(f)
}

func c06F32Bits(f float32) uint32 {
	if f != f {
		return 0x7fc00000
	}
	return math.Float32bits(f)
}

// values for Set include NaN and -0.0: the setters decide "same value" with the float comparison (the same NaN
// again is UPDATED, -0.0 over +0.0 is NOTHING_CHANGED and the old sign stays) — listed finding
// float-set-compares-by-value, reproduced by the driver from the fact fltSetBitwise
func c06SetF64(rng *rand.Rand) float64 { return c06Pick(rng, c06F64s) }

func c06Value(rng *rand.Rand) string {
	switch rng.Intn(16) {
	case 0, 1, 2, 3, 4:
		ty := c06Pick(rng, c06IntTys)
		return ty + ":" + c06IntVal(rng, ty)
	case 5:
		return fmt.Sprintf("f64:%016x", c06F64Bits(c06SetF64(rng)))
	case 6:
		return fmt.Sprintf("f32:%08x", c06F32Bits(float32(c06SetF64(rng))))
	case 7, 8:
		return "str:" + hex.EncodeToString([]byte(c06Pick(rng, []string{"", "", "a", "hello", "0"})))
	case 9:
		return "bool:" + c06Pick(rng, []string{"0", "0", "1"})
	case 10:
		return "bytes:" + c06Pick(rng, []string{"", "", "00", "c70080", "ff01"})
	case 11, 12:
		return "u32s:" + c06Pick(rng, []string{"", "1", "1,2", "7,3,7", "0"})
	case 13:
		return "void"
	case 14:
		return "none"
	}
	return "i64:" + c06IntVal(rng, "i64")
}

var c06Users = []string{"", "", "", "u1", "u2"}

func c06Time(rng *rand.Rand) string {
	switch rng.Intn(10) {
	case 0, 1, 2, 3, 4, 5:
		return ""
	case 6:
		return "b-3600000000000"
	case 7:
		return "b3600000000000"
	case 8:
		return "a1000000000"
	}
	return "b7200000000000"
}

// a value token; one typed value in eight is sent with VoidVal set as well
func c06ItemValue(rng *rand.Rand) string {
	v := c06Value(rng)
	if v != "void" && v != "none" && rng.Intn(8) == 0 {
		return v + "~v"
	}
	return v
}

func c06Item(rng *rand.Rand, key string, meta bool) string {
	if !meta {
		return key + "|" + c06ItemValue(rng) + "|||||"
	}
	return strings.Join([]string{key, c06ItemValue(rng), c06Time(rng), c06Pick(rng, c06Users), c06Time(rng), c06Pick(rng, c06Users), c06Time(rng)}, "|")
}

func c06SomeKeys(rng *rand.Rand, max int) []string {
	n := 1 + rng.Intn(max)
	out := make([]string, n)
	for i := range out {
		out[i] = c06Pick(rng, c06Keys)
	}
	return out
}

func c06IncMeta(rng *rand.Rand) string {
	if rng.Intn(3) != 0 {
		return "-"
	}
	b := func() string { return c06Pick(rng, []string{"0", "0", "1"}) }
	return strings.Join([]string{b(), c06Pick(rng, c06Users), b(), c06Pick(rng, c06Users), c06Time(rng)}, "|")
}

func c06IncOp(rng *rand.Rand, key string) string {
	tys := []string{"i64", "i64", "u8", "u8", "f64", "i8", "i16", "i32", "u16", "u32", "u64", "f32"}
	ty := c06Pick(rng, tys)
	var by, cv string
	switch ty {
	case "f64":
		by = fmt.Sprintf("%016x", c06F64Bits(c06Pick(rng, c06FBys)))
		cv = fmt.Sprintf("%016x", c06F64Bits(c06Pick(rng, c06F64s)))
	case "f32":
		by = fmt.Sprintf("%08x", c06F32Bits(float32(c06Pick(rng, c06FBys))))
		cv = fmt.Sprintf("%08x", c06F32Bits(float32(c06Pick(rng, c06F64s))))
	default:
		_, _, signed, _ := c06IntRange(ty)
		if signed {
			by = c06Pick(rng, []string{"1", "1", "-1", "5", "100", "0", "127"})
		} else {
			by = c06Pick(rng, []string{"1", "1", "2", "5", "100", "0", "255"})
		}
		cv = c06Pick(rng, []string{"0", "0", "1", "2", "5", "10", "100"})
		// the ends of the type's range and the sign boundary, as steps and as condition operands
		if rng.Intn(4) == 0 {
			cv = c06IntVal(rng, ty)
			if !signed && rng.Intn(2) == 0 {
				_, _, _, bits := c06IntRange(ty)
				cv = strconv.FormatUint(uint64(1)<<(bits-1)+uint64(rng.Intn(2)), 10) // 2^(bits-1), 2^(bits-1)+1
			}
		}
		if rng.Intn(6) == 0 {
			if b := c06IntVal(rng, ty); b != "0" {
				by = b
			}
		}
		// Int8/Int16/Uint8/Uint16 travel in 32-bit fields: arguments outside the width of the request
		// (the handlers cast them), among them steps that are zero only after the cast
		if _, _, _, bits := c06IntRange(ty); bits <= 16 && rng.Intn(4) == 0 {
			if signed {
				by = c06Pick(rng, []string{"300", "-129", "256", "65536", "-32769", "65537", "128"})
				cv = c06Pick(rng, []string{"300", "-200", "256", "65541", "-129", "128"})
			} else {
				by = c06Pick(rng, []string{"300", "256", "65536", "65537", "511"})
				cv = c06Pick(rng, []string{"300", "256", "261", "65536", "65541"})
			}
		}
	}
	cond := "-"
	if rng.Intn(2) == 0 {
		cond = c06Pick(rng, []string{"eq", "ne", "gt", "ge", "lt", "le"}) + ":" + cv
	}
	return strings.Join([]string{"inc", ty, key, by, cond, c06IncMeta(rng), c06IncMeta(rng)}, " ")
}

func c06U32Pairs(rng *rand.Rand) string {
	n := 1 + rng.Intn(2)
	var p []string
	for i := 0; i < n; i++ {
		p = append(p, c06Pick(rng, c06Keys)+":"+c06Pick(rng, []string{"1", "1,2", "2", "7,3", "1,2,3,7", ""}))
	}
	return strings.Join(p, " ")
}

// one random request line
func c06RandOp(rng *rand.Rand, meta bool) string {
	switch r := rng.Intn(100); {
	case r < 24:
		co := c06Pick(rng, []string{"11", "11", "11", "11", "10", "01", "00"})
		var items []string
		for _, k := range c06SomeKeys(rng, 3) {
			items = append(items, c06Item(rng, k, meta && rng.Intn(3) == 0))
		}
		return "set " + co + " " + strings.Join(items, " ")
	case r < 32:
		return "get " + strings.Join(c06SomeKeys(rng, 3), " ")
	case r < 34:
		switch rng.Intn(4) {
		case 0:
			return "mcount"
		case 1:
			return "mdel " + strings.Join(c06SomeKeys(rng, 3), " ")
		case 2:
			co := c06Pick(rng, []string{"11", "11", "10", "01", "00"})
			var items []string
			for _, k := range c06SomeKeys(rng, 2) {
				items = append(items, c06Item(rng, k, meta && rng.Intn(3) == 0))
			}
			return "mset " + co + " " + strings.Join(items, " ")
		}
		return "mget " + strings.Join(c06SomeKeys(rng, 3), " ")
	case r < 38:
		return "getall"
	case r < 42:
		return "gbk " + strings.Join(c06SomeKeys(rng, 4), " ")
	case r < 50:
		return "del " + strings.Join(c06SomeKeys(rng, 3), " ")
	case r < 54:
		return "count"
	case r < 57:
		return "iske " + c06Pick(rng, c06Keys)
	case r < 60:
		return "arek " + strings.Join(c06SomeKeys(rng, 4), " ")
	case r < 63:
		return "issw"
	case r < 77:
		return c06IncOp(rng, c06Pick(rng, c06Keys))
	case r < 83:
		return "push " + c06U32Pairs(rng)
	case r < 89:
		return "u32del " + c06U32Pairs(rng)
	case r < 90:
		return "size " + c06Pick(rng, c06Keys)
	case r < 92:
		// PatchTreasures (metadata only): it can summon, and with CreateIfNotExist create, a swamp
		ki := rng.Intn(len(c06Keys))
		return "patch " + c06Pick(rng, []string{"0", "0", "1"}) + " " + c06Keys[ki] + " " + c30Meta(rng, ki)
	case r < 95:
		return "hasval " + c06Pick(rng, c06Keys) + " " + c06Pick(rng, []string{"1", "2", "7"})
	default:
		return "shift " + strings.Join(c06SomeKeys(rng, 3), " ")
	}
}

// corpus: one case per confirmed deviation from the documented semantics (each is also a Lean
// witness in Hv/Props/C06.lean), run on an in-memory and on a persistent swamp
type c06CorpusCase struct {
	kinds []string
	ops   []string
}

var c06Corpus = []c06CorpusCase{
	{[]string{"mem", "p1"}, []string{"set 11 k0|f64:0000000000000000||||| k1|f64:7ff8000000000000||||| k2|f32:80000000|||||", "set 11 k0|f64:8000000000000000||||| k1|f64:7ff8000000000000||||| k2|f32:00000000|||||", "getall"}},
	// PatchTreasures without CreateIfNotExist on a swamp that does not exist leaves nothing behind
	{[]string{"mem", "p1"}, []string{"patch 0 k0 0||0|u1||0", "issw", "count", "mcount", "set 01 k0|i64:1|||||", "issw", "patch 1 k0 0||0|u1||0", "issw", "getall", "del k0", "issw"}},
	// conditions on stored values beyond the sign bit of their width (an unsigned comparison through a signed cast fails here)
	{[]string{"mem"}, []string{"set 11 k0|u64:9223372036854775809||||| k1|u32:2147483649||||| k2|u16:32769||||| k3|u8:129||||| k4|i64:-9223372036854775808|||||",
		"inc u64 k0 1 gt:5 - -", "inc u64 k0 1 lt:5 - -", "inc u64 k0 1 ge:9223372036854775808 - -", "inc u64 k0 1 le:9223372036854775807 - -",
		"inc u32 k1 1 gt:5 - -", "inc u32 k1 1 lt:2147483648 - -", "inc u16 k2 1 gt:5 - -", "inc u8 k3 1 gt:5 - -", "inc u8 k3 1 le:127 - -",
		"inc i64 k4 -1 lt:0 - -", "inc i64 k4 1 gt:0 - -", "getall"}},
	// keys the file cannot hold (empty, 65536 bytes) are refused by every request that could create a record;
	// the longest storable key (65535 bytes) is an ordinary key
	{[]string{"mem", "p1"}, []string{"set 11 k0|i64:1||||| |i64:2|||||", "issw", "inc i64 x@65536 1 - - -", "push :1", "push k1:1 x@70000:2", "issw",
		"set 11 x@65535|i64:5||||| k0|i64:1|||||", "inc i64 x@65535 1 - - -", "getall", "iske x@65535", "del x@65535 k0", "issw"}},
	{[]string{"mem", "p1"}, []string{"set 11 k0|i64:5|||||", "set 11 k0|i64:5|||||", "get k0"}},
	{[]string{"mem", "p1"}, []string{"set 11 k0|i64:5||u1|||", "set 11 k0|i64:5||u1|||"}},
	{[]string{"mem", "p1"}, []string{"set 11 k0|i64:5|||||a-500000000", "inc i64 k0 1 - - -", "get k0"}},
	{[]string{"mem", "p1"}, []string{"set 11 k0|i64:5|||||", "set 11 k0|void|||||", "get k0"}},
	{[]string{"mem", "p1"}, []string{"set 11 k0|i64:5|||||", "push k0:1", "size k0", "get k0"}},
	{[]string{"mem", "p1"}, []string{"set 11 k0|u32s:1|||||", "set 11 k0|u32s:2|||||", "get k0"}},
	{[]string{"mem", "p1"}, []string{"push k0:1", "u32del k0:1", "issw"}},
	{[]string{"p0"}, []string{"set 11 k0|i64:5|||||", "set 11 k1|i64:6|||||", "u32del k0:1", "get k0 k1"}},
	{[]string{"mem", "p1"}, []string{"inc i64 k0 1 eq:5 1|u1|0|| -", "issw", "inc u8 k0 1 - - -", "set 11 k0|str:61|||||", "get k0"}},
	{[]string{"mem", "p1"}, []string{"set 11 k0|u8:1|||||", "inc u8 k0 1 eq:5 - 0||1|u2|b3600000000000", "get k0"}},
	{[]string{"mem", "p1"}, []string{"size k0", "issw", "count"}},
	{[]string{"mem", "p1"}, []string{"arek k0 k1", "count", "set 00 k0|i64:5|||||", "set 01 k0|i64:5|||||"}},
	// the same key more than once inside ONE request: every entry is decided against the state the
	// previous entries of that request left behind
	{[]string{"mem", "p1"}, []string{"set 10 k0|i64:1||||| k0|i64:2||||| k1|str:61||||| k1|str:61|||||", "get k0 k1", "set 11 k2|i64:1||||| k2|i64:2||||| k2|i64:2|||||", "get k2 k2",
		"set 01 k3|i64:1||||| k0|i64:7||||| k0|i64:7|||||", "gbk k0 k3 k0 k2", "arek k0 k3 k0", "del k1 k1 k3", "shift k2 k0 k2", "getall", "push k4:1 k4:2,1", "get k4", "del k4 k0", "issw"}},
	// ShiftByKeys / Delete on records that have already been written to the file (write interval 0):
	// the reply carries the value and the metadata the record had
	{[]string{"p0", "mem"}, []string{"set 11 k0|str:68656c6c6f|a1000000000|u1||| k1|i64:7||||| k2|u32s:1,2|||||", "shift k0 k2", "getall", "shift k1 k0", "issw"}},
	// fixed-width wrap-around of every integer type, and the increment conditions at their boundary
	{[]string{"mem"}, []string{"set 11 k0|u8:255||||| k1|i8:127||||| k2|i64:9223372036854775807||||| k3|u64:18446744073709551615||||| k4|i32:-2147483648||||| k5|u16:65535|||||",
		"inc u8 k0 1 - - -", "inc i8 k1 1 - - -", "inc i64 k2 1 - - -", "inc u64 k3 2 - - -", "inc i32 k4 -1 - - -", "inc u16 k5 2 - - -", "getall",
		"inc u8 k0 100 gt:0 - -", "inc u8 k0 100 ge:0 - -", "inc u8 k0 100 lt:100 - -", "inc u8 k0 100 le:100 - -", "inc u8 k0 56 eq:200 - -", "inc u8 k0 1 ne:0 - -", "getall"}},
	{[]string{"mem"}, []string{"set 11 k0|i16:32767||||| k1|u32:4294967295||||| k2|f64:3ff0000000000000||||| k3|f32:3f800000|||||",
		"inc i16 k0 1 - - -", "inc u32 k1 1 - - -", "inc f64 k2 3ff0000000000000 gt:3ff0000000000000 - -", "inc f64 k2 3ff0000000000000 ge:3ff0000000000000 - -",
		"inc f32 k3 3f800000 lt:3f800000 - -", "inc f32 k3 3f800000 le:3f800000 - -", "getall"}},
}

func c06Gen(rng *rand.Rand, tier string, w *bufio.Writer) {
	cases, length := 150, 40
	if tier == "thorough" {
		cases, length = 600, 120
	}
	n := 0
	emit := func(kind string, ops []string) {
		fmt.Fprintf(w, "case %d kind=%s\n", n, kind)
		n++
		for _, o := range ops {
			fmt.Fprintln(w, o)
		}
	}
	for _, c := range c06Corpus {
		for _, k := range c.kinds {
			emit(k, c.ops)
		}
	}
	for i := 0; i < cases; i++ {
		kind := c06Pick(rng, []string{"mem", "mem", "p0", "p1", "p1"})
		l := 5 + rng.Intn(length)
		meta := rng.Intn(2) == 0
		ops := make([]string, 0, l)
		for j := 0; j < l; j++ {
			o := c06RandOp(rng, meta)
			ops = append(ops, o)
		}
		emit(kind, ops)
	}
}
