package main

// Domain C20: swamp addressing — BOTH name packages (server app/name, SDK sdk/go/hydraidego/name)
// on the same triples; panics recovered per call.
//
// Byte strings travel as hex ("-" = empty).
//
// ops:   n S R W N DEPTH PER        island through SDK (uint64 N) and server (uint16 N, when N ≤ 65535),
//                                   server GetFullHashPath("/r", island, DEPTH, PER), everything twice on
//                                   the same objects (cache idempotence)
//        n2 S R W N1 N2             two island calls with different N on the same objects (cache)
//        load PATH                  name.Load in both packages
//        pair S R W S' R' W' DEPTH PER   two names, their locations, equal or not
//        path2 S R W I1 D1 P1 I2 D2 P2   two GetFullHashPath calls with different arguments on one name object
//        chain S R W N DEPTH PER          the name is built step by step, island / path are asked on the sanctuary- and realm-level
//                                       objects first; the finished name must answer like a freshly built one
//        routes N FROM-TO,…             the SDK client's routing table over real TLS stub servers: see c20route.go
// reply: sdk=I|panic srv=F|panic|na path=P|panic again=same|diff
//        sdk=I1,I2!FRESH srv=F1,F2!FRESH      (FRESH: what a new name object answers for N2)
//        sdk=I path=P fresh=true|false        (chain)
//        sdk=S.R.W|panic srv=S.R.W|panic
//        p1=P|panic p2=P|panic same|diff
//
// The generator also CRAFTS names whose xxhash64 is tiny (the hash is invertible): random
// names essentially never have fewer than 13 hex digits, but the slicing loop fails exactly
// on short renderings.

import (
	"bufio"
	"bytes"
	"encoding/hex"
	"fmt"
	"math"
	"math/bits"
	"math/rand"
	"os"
	"strconv"
	"strings"

	"github.com/cespare/xxhash/v2"
	srvname "github.com/hydraide/hydraide/app/name"
	sdkname "github.com/hydraide/hydraide/sdk/go/hydraidego/v3/name"
)

func init() { Register("C20", Domain{Gen: c20Gen, Run: c20Run}) }

func c20Hex(b []byte) string {
	if len(b) == 0 {
		return "-"
	}
	return hex.EncodeToString(b)
}

func c20Unhex(s string) ([]byte, bool) {
	if s == "-" {
		return nil, true
	}
	b, err := hex.DecodeString(s)
	return b, err == nil
}

// ---- xxhash64 inversion for 16-byte inputs -------------------------------------------------

const (
	c20P1 = 11400714785074694791
	c20P2 = 14029467366897019727
	c20P3 = 1609587929392839161
	c20P4 = 9650029242287828579
	c20P5 = 2870177450012600261
)

func c20Inv(a uint64) uint64 { // inverse of an odd number modulo 2^64
	x := a
	for i := 0; i < 6; i++ {
		x *= 2 - a*x
	}
	return x
}

func c20Round0(u uint64) uint64 { return bits.RotateLeft64(u*c20P2, 31) * c20P1 }
func c20Unround0(r uint64) uint64 {
	return bits.RotateLeft64(r*c20Inv(c20P1), -31) * c20Inv(c20P2)
}

func c20Unavalanche(h uint64) uint64 {
	h ^= h >> 32
	h *= c20Inv(c20P3)
	h ^= h >> 29
	h ^= h >> 58
	h *= c20Inv(c20P2)
	h ^= h >> 33
	return h
}

// c20Craft returns a 16-byte string first8+X with xxhash64 = target.
func c20Craft(first8 []byte, target uint64) []byte {
	var u1 uint64
	for i := 7; i >= 0; i-- {
		u1 = u1<<8 | uint64(first8[i])
	}
	h0 := uint64(c20P5) + 16
	h1 := bits.RotateLeft64(h0^c20Round0(u1), 27)*c20P1 + c20P4
	h2 := c20Unavalanche(target)
	x := bits.RotateLeft64((h2-c20P4)*c20Inv(c20P1), -27)
	u2 := c20Unround0(x ^ h1)
	out := append([]byte(nil), first8...)
	for i := 0; i < 8; i++ {
		out = append(out, byte(u2>>(8*uint(i))))
	}
	return out
}

// c20CraftName finds a printable, separator-free swamp part so that the canonical path
// "a/b/<swamp>" (16 bytes) hashes to a value with at most maxDigits hex digits (0 < maxDigits ≤ 15).
func c20CraftName(rng *rand.Rand, maxDigits int) (s, r, w []byte, ok bool) {
	const alpha = "abcdefghijklmnopqrstuvwxyz0123456789"
	for try := 0; try < 400000; try++ {
		first := []byte("a/b/0000")
		for i := 4; i < 8; i++ {
			first[i] = alpha[rng.Intn(len(alpha))]
		}
		var target uint64
		if maxDigits >= 16 {
			target = rng.Uint64()
		} else {
			target = rng.Uint64() & (1<<(4*uint(maxDigits)) - 1)
		}
		p := c20Craft(first, target)
		good := true
		for _, c := range p[8:] {
			if c < 0x21 || c > 0x7e || c == '/' {
				good = false
				break
			}
		}
		if !good {
			continue
		}
		if xxhash.Sum64(p) != target {
			panic("c20: xxhash inversion is wrong")
		}
		return []byte("a"), []byte("b"), p[4:], true
	}
	return nil, nil, nil, false
}

// ---- generator -------------------------------------------------------------------------------

var c20Parts = [][]byte{
	nil, []byte("a"), []byte("b"), []byte("*"), []byte("/"), []byte("a/b"), []byte("b/c"), []byte("users"), []byte("profiles"),
	[]byte("trendizz.com"), []byte("árvíztűrő tükörfúrógép"), []byte("日本語"), {0xff, 0xfe}, {0x00}, []byte(" "), []byte("a b"),
	[]byte("domain.com/path?q=1"), []byte(strings.Repeat("x", 31)), []byte(strings.Repeat("y", 32)), []byte(strings.Repeat("z", 33)),
	[]byte(strings.Repeat("0123456789abcdef", 4)), []byte(strings.Repeat("q", 97)),
}

func c20Part(rng *rand.Rand) []byte {
	switch rng.Intn(5) {
	case 0:
		return c20Parts[rng.Intn(len(c20Parts))]
	case 1: // random bytes
		b := make([]byte, rng.Intn(40))
		rng.Read(b)
		return b
	default: // short readable
		const alpha = "abcdefghijklmnopqrstuvwxyz0123456789-_."
		b := make([]byte, 1+rng.Intn(12))
		for i := range b {
			b[i] = alpha[rng.Intn(len(alpha))]
		}
		return b
	}
}

var c20Ns = []uint64{0, 1, 2, 3, 10, 100, 255, 256, 257, 1000, 4096, 65534, 65535, 65536, 65537, 100000, 1 << 32, 1<<63 - 1, 1 << 63, math.MaxUint64 - 1, math.MaxUint64}
var c20Pers = []int64{-300, -1, 0, 1, 2, 15, 16, 17, 255, 256, 257, 1000, 2000, 4095, 4096, 4097, 65536, 65537, 70000, 1 << 20, 1<<20 + 1, 1 << 40, 1 << 62, math.MaxInt64}
var c20Depths = []int{-1, 0, 1, 1, 2, 2, 3, 3, 4, 5, 6, 7, 8, 9, 12, 17, 33}

func c20N(rng *rand.Rand) uint64 {
	if rng.Intn(3) == 0 {
		return c20Ns[rng.Intn(len(c20Ns))]
	}
	if rng.Intn(2) == 0 {
		return uint64(1 + rng.Intn(65535))
	}
	return rng.Uint64() >> uint(rng.Intn(64))
}

func c20Gen(rng *rand.Rand, tier string, w *bufio.Writer) {
	n := 2500
	if tier == "thorough" {
		n = 120000
	}
	defD, defP := 1, int64(1000)
	if v := strings.Split(os.Getenv("C20_DEFAULT"), ","); len(v) == 2 {
		if d, e1 := strconv.Atoi(v[0]); e1 == nil {
			if p, e2 := strconv.ParseInt(v[1], 10, 64); e2 == nil {
				defD, defP = d, p
			}
		}
	}
	emitN := func(s, r, sw []byte, N uint64, d int, p int64) {
		fmt.Fprintf(w, "n %s %s %s %d %d %d\n", c20Hex(s), c20Hex(r), c20Hex(sw), N, d, p)
	}
	emitPair := func(a, b [3][]byte, d int, p int64) {
		fmt.Fprintf(w, "pair %s %s %s %s %s %s %d %d\n", c20Hex(a[0]), c20Hex(a[1]), c20Hex(a[2]), c20Hex(b[0]), c20Hex(b[1]), c20Hex(b[2]), d, p)
	}
	fmt.Fprintln(w, "case 0")
	// corpus: DESIGN §9 F20 — depth 6 × 70 000 folders per level; the separator collision; the shipped
	// and the test-rig configurations on an ordinary name; N = 0; Load with 1, 2, 3, 4 parts
	emitN([]byte("users"), []byte("profiles"), []byte("alice"), 1000, 6, 70000)
	emitPair([3][]byte{[]byte("a/b"), []byte("c"), []byte("d")}, [3][]byte{[]byte("a"), []byte("b/c"), []byte("d")}, defD, defP)
	emitN([]byte("users"), []byte("profiles"), []byte("alice"), 1000, defD, defP)
	emitN([]byte("users"), []byte("profiles"), []byte("alice"), 1000, 3, 2000)
	emitN([]byte("users"), []byte("profiles"), []byte("alice"), 0, 1, 1000)
	for _, p := range []string{"", "a", "a/b", "a/b/c", "a/b/c/d", "//", "/", "a//c"} {
		fmt.Fprintf(w, "load %s\n", c20Hex([]byte(p)))
	}
	fmt.Fprintf(w, "n2 %s %s %s 1000 10\n", c20Hex([]byte("users")), c20Hex([]byte("profiles")), c20Hex([]byte("alice")))
	fmt.Fprintf(w, "path2 %s %s %s 1 1 1000 2 1 1000\n", c20Hex([]byte("users")), c20Hex([]byte("profiles")), c20Hex([]byte("alice")))
	// the same visible name in NFC and in NFD: two different names
	emitPair([3][]byte{[]byte("caf\u00e9"), []byte("b"), []byte("c")}, [3][]byte{[]byte("cafe\u0301"), []byte("b"), []byte("c")}, 1, 1000)
	emitN(bytes.Repeat([]byte("s"), 5000), bytes.Repeat([]byte("é"), 3000), bytes.Repeat([]byte{0xff}, 4097), 1000, 3, 2000)
	// crafted short hashes: at the shipped configuration, at the rig configuration, at depth 2
	for i := 0; i < 24; i++ {
		digits := 1 + rng.Intn(8)
		s, r, sw, ok := c20CraftName(rng, digits)
		if !ok {
			continue
		}
		emitN(s, r, sw, 1000, defD, defP)
		emitN(s, r, sw, 1000, 2, int64(1+rng.Intn(256)))
		emitN(s, r, sw, 1000, 3, 2000)
		emitN(s, r, sw, 1000, 1+rng.Intn(4), c20Pers[rng.Intn(len(c20Pers))])
	}
	// client routing table: partitions (shuffled), gaps, overlaps, empty and reversed ranges
	fmt.Fprintln(w, "case 100")
	for _, r := range []string{"10 1-5,6-10", "10 1-5,7-10", "10 1-6,5-10", "10 -", "8 0-3,4-12", "6 4-6,1-3,2-2", "5 5-1", "1 1-1", "12 9-12,1-4,5-8"} {
		fmt.Fprintln(w, "routes "+r)
	}
	nr := 60
	if tier == "thorough" {
		nr = 1500
	}
	for i := 0; i < nr; i++ {
		N := 1 + rng.Intn(24)
		k := 1 + rng.Intn(6)
		var rs []string
		if rng.Intn(2) == 0 {
			// a true partition of 1..N into at most k ranges, in random order
			cuts := map[int]bool{N: true}
			for len(cuts) < k && len(cuts) < N {
				cuts[1+rng.Intn(N)] = true
			}
			from := 1
			for c := 1; c <= N; c++ {
				if cuts[c] {
					rs = append(rs, fmt.Sprintf("%d-%d", from, c))
					from = c + 1
				}
			}
			rng.Shuffle(len(rs), func(a, b int) { rs[a], rs[b] = rs[b], rs[a] })
			if rng.Intn(6) == 0 && len(rs) > 1 { // drop one range: a gap
				rs = rs[1:]
			}
		} else {
			for j := 0; j < k; j++ {
				a, b := rng.Intn(N+2), rng.Intn(N+3)
				if rng.Intn(5) != 0 && a > b {
					a, b = b, a
				}
				rs = append(rs, fmt.Sprintf("%d-%d", a, b))
			}
		}
		fmt.Fprintf(w, "routes %d %s\n", N, strings.Join(rs, ","))
	}
	// the glue: raw requests through the real gateway (one name under two islands, two RPCs, a four-part name), and the
	// IslandID every SDK method puts on the wire
	fmt.Fprintln(w, "case 200")
	ua := func(k int) string { // a name part the gateway accepts, unique within the run
		const al = "abcdefghijklmnopqrstuvwxyz0123456789-_."
		b := make([]byte, 1+rng.Intn(10))
		for i := range b {
			b[i] = al[rng.Intn(len(al)-1)]
		}
		return c20Hex(append(b, []byte(strconv.Itoa(k))...))
	}
	fmt.Fprintf(w, "srv %s %s %s 956 7 3 2000\n", c20Hex([]byte("users")), c20Hex([]byte("profiles")), c20Hex([]byte("alice")))
	fmt.Fprintf(w, "wire %s %s %s 7\n", c20Hex([]byte("users")), c20Hex([]byte("profiles")), c20Hex([]byte("alice")))
	ns, nw := 3, 1
	if tier == "thorough" {
		ns, nw = 40, 12
	}
	for i := 0; i < ns; i++ {
		i1 := uint64(1 + rng.Intn(1000))
		i2 := i1
		if rng.Intn(4) != 0 {
			i2 = uint64(1 + rng.Intn(1000))
		}
		fmt.Fprintf(w, "srv %s %s %s %d %d 3 2000\n", ua(3*i), ua(3*i+1), ua(3*i+2), i1, i2)
	}
	for i := 0; i < nw; i++ {
		fmt.Fprintf(w, "wire %s %s %s %d\n", ua(1000+3*i), ua(1001+3*i), ua(1002+3*i), c20N(rng)|1)
	}
	for i := 0; i < n; i++ {
		if i%500 == 0 {
			fmt.Fprintf(w, "case %d\n", 1+i/500)
		}
		s, r, sw := c20Part(rng), c20Part(rng), c20Part(rng)
		switch x := rng.Intn(20); {
		case x < 11:
			d, p := c20Depths[rng.Intn(len(c20Depths))], c20Pers[rng.Intn(len(c20Pers))]
			if rng.Intn(3) == 0 {
				p = int64(1 + rng.Intn(5000))
			}
			if rng.Intn(4) == 0 {
				d, p = defD, defP
			}
			emitN(s, r, sw, c20N(rng), d, p)
		case x < 11 && rng.Intn(4) == 0:
			fmt.Fprintf(w, "path2 %s %s %s %d %d %d %d %d %d\n", c20Hex(s), c20Hex(r), c20Hex(sw), 1+rng.Intn(1000), rng.Intn(4), 1+rng.Intn(3000),
				1+rng.Intn(1000), rng.Intn(4), 1+rng.Intn(3000))
		case x < 12:
			fmt.Fprintf(w, "chain %s %s %s %d %d %d\n", c20Hex(s), c20Hex(r), c20Hex(sw), 1+rng.Intn(65535), rng.Intn(2), 1+rng.Intn(3000))
		case x < 13:
			fmt.Fprintf(w, "n2 %s %s %s %d %d\n", c20Hex(s), c20Hex(r), c20Hex(sw), uint64(rng.Intn(65536)), uint64(rng.Intn(65536)))
		case x < 15:
			var parts []string
			for k := rng.Intn(6); k > 0; k-- {
				parts = append(parts, string(c20Part(rng)))
			}
			fmt.Fprintf(w, "load %s\n", c20Hex([]byte(strings.Join(parts, "/"))))
		case x < 18: // a pair that differs only in where the separator sits, or in a dropped 4th part
			full := append(append(append(append([]byte{}, s...), '/'), r...), '/')
			full = append(full, sw...)
			idx := []int{}
			for k, c := range full {
				if c == '/' {
					idx = append(idx, k)
				}
			}
			a := [3][]byte{s, r, sw}
			b := a
			if len(idx) >= 3 {
				i1, i2 := idx[rng.Intn(len(idx))], idx[rng.Intn(len(idx))]
				if i1 > i2 {
					i1, i2 = i2, i1
				}
				if i1 != i2 {
					b = [3][]byte{full[:i1], full[i1+1 : i2], full[i2+1:]}
				}
			} else {
				b[rng.Intn(3)] = c20Part(rng)
			}
			emitPair(a, b, c20Depths[1+rng.Intn(6)], c20Pers[3+rng.Intn(12)])
		case x < 19: // same swamp part under another sanctuary / realm, shallow layouts: the leaf folder alone must tell them apart
			emitPair([3][]byte{s, r, sw}, [3][]byte{c20Part(rng), c20Part(rng), sw}, rng.Intn(2), 1000)
		default:
			emitPair([3][]byte{s, r, sw}, [3][]byte{c20Part(rng), c20Part(rng), c20Part(rng)}, 1, 1000)
		}
	}
}

// ---- runner ----------------------------------------------------------------------------------

func c20Try(f func() string) (out string) {
	defer func() {
		if r := recover(); r != nil {
			out = "panic"
		}
	}()
	return f()
}

func c20Run(in *bufio.Scanner, w *bufio.Writer) {
	var farm *c20Farm
	srvRig := &c20SrvRig{}
	defer func() {
		if farm != nil {
			farm.Stop()
		}
		srvRig.stop()
	}()
	for in.Scan() {
		line := in.Text()
		f := strings.Split(line, " ")
		bad := func() { fmt.Fprintln(w, "bad-op") }
		switch {
		case f[0] == "case":
			fmt.Fprintln(w, line)
		case f[0] == "routes" && len(f) == 3:
			if farm == nil {
				miscQuiet()
				var err error
				if farm, err = c20NewFarm(); err != nil {
					fmt.Fprintln(os.Stderr, "c20 farm:", err)
					fmt.Fprintln(w, "err farm")
					farm = nil
					continue
				}
			}
			fmt.Fprintln(w, c20Routes(farm, f[1], f[2]))
		case f[0] == "srv" && len(f) == 8:
			s, o1 := c20Unhex(f[1])
			r, o2 := c20Unhex(f[2])
			sw, o3 := c20Unhex(f[3])
			i1, e1 := strconv.ParseUint(f[4], 10, 64)
			i2, e2 := strconv.ParseUint(f[5], 10, 64)
			d, e3 := strconv.Atoi(f[6])
			p, e4 := strconv.Atoi(f[7])
			if !o1 || !o2 || !o3 || e1 != nil || e2 != nil || e3 != nil || e4 != nil || d < 0 || d > 8 || p < 1 {
				bad()
				continue
			}
			miscQuiet()
			fmt.Fprintln(w, c20Try(func() string { return c20Srv(srvRig, string(s), string(r), string(sw), i1, i2, d, p) }))
		case f[0] == "wire" && len(f) == 5:
			s, o1 := c20Unhex(f[1])
			r, o2 := c20Unhex(f[2])
			sw, o3 := c20Unhex(f[3])
			N, e1 := strconv.ParseUint(f[4], 10, 64)
			if !o1 || !o2 || !o3 || e1 != nil || N == 0 {
				bad()
				continue
			}
			miscQuiet()
			fmt.Fprintln(w, c20Try(func() string { return c20WireOp(string(s), string(r), string(sw), N) }))
		case f[0] == "n" && len(f) == 7:
			s, o1 := c20Unhex(f[1])
			r, o2 := c20Unhex(f[2])
			sw, o3 := c20Unhex(f[3])
			N, e1 := strconv.ParseUint(f[4], 10, 64)
			d, e2 := strconv.Atoi(f[5])
			p, e3 := strconv.Atoi(f[6])
			if !o1 || !o2 || !o3 || e1 != nil || e2 != nil || e3 != nil {
				bad()
				continue
			}
			sn := sdkname.New().Sanctuary(string(s)).Realm(string(r)).Swamp(string(sw))
			vn := srvname.New().Sanctuary(string(s)).Realm(string(r)).Swamp(string(sw))
			same := true
			sdk := c20Try(func() string { return strconv.FormatUint(sn.GetIslandID(N), 10) })
			if c20Try(func() string { return strconv.FormatUint(sn.GetIslandID(N), 10) }) != sdk {
				same = false
			}
			srv := "na"
			if N <= 65535 {
				srv = c20Try(func() string { return strconv.FormatUint(uint64(vn.GetFolderNumber(uint16(N))), 10) })
				if c20Try(func() string { return strconv.FormatUint(uint64(vn.GetFolderNumber(uint16(N))), 10) }) != srv {
					same = false
				}
			}
			var island uint64
			if sdk != "panic" {
				island, _ = strconv.ParseUint(sdk, 10, 64)
			}
			path := c20Try(func() string { return vn.GetFullHashPath("/r", island, d, p) })
			if c20Try(func() string { return vn.GetFullHashPath("/r", island, d, p) }) != path {
				same = false
			}
			fmt.Fprintf(w, "sdk=%s srv=%s path=%s again=%s\n", sdk, srv, path, map[bool]string{true: "same", false: "diff"}[same])
		case f[0] == "n2" && len(f) == 6:
			s, o1 := c20Unhex(f[1])
			r, o2 := c20Unhex(f[2])
			sw, o3 := c20Unhex(f[3])
			n1, e1 := strconv.ParseUint(f[4], 10, 16)
			n2, e2 := strconv.ParseUint(f[5], 10, 16)
			if !o1 || !o2 || !o3 || e1 != nil || e2 != nil {
				bad()
				continue
			}
			sn := sdkname.New().Sanctuary(string(s)).Realm(string(r)).Swamp(string(sw))
			vn := srvname.New().Sanctuary(string(s)).Realm(string(r)).Swamp(string(sw))
			a1 := c20Try(func() string { return strconv.FormatUint(sn.GetIslandID(n1), 10) })
			a2 := c20Try(func() string { return strconv.FormatUint(sn.GetIslandID(n2), 10) })
			b1 := c20Try(func() string { return strconv.FormatUint(uint64(vn.GetFolderNumber(uint16(n1))), 10) })
			b2 := c20Try(func() string { return strconv.FormatUint(uint64(vn.GetFolderNumber(uint16(n2))), 10) })
			// what FRESH name objects answer for the second island count
			fa := c20Try(func() string {
				return strconv.FormatUint(sdkname.New().Sanctuary(string(s)).Realm(string(r)).Swamp(string(sw)).GetIslandID(n2), 10)
			})
			fb := c20Try(func() string {
				return strconv.FormatUint(uint64(srvname.New().Sanctuary(string(s)).Realm(string(r)).Swamp(string(sw)).GetFolderNumber(uint16(n2))), 10)
			})
			fmt.Fprintf(w, "sdk=%s,%s!%s srv=%s,%s!%s\n", a1, a2, fa, b1, b2, fb)
		case f[0] == "path2" && len(f) == 10:
			// two GetFullHashPath calls with different arguments on ONE name object; FRESH = what a new object answers for the second
			s, o1 := c20Unhex(f[1])
			r, o2 := c20Unhex(f[2])
			sw, o3 := c20Unhex(f[3])
			var a [6]int
			okA := o1 && o2 && o3
			for k := 0; k < 6; k++ {
				v, err := strconv.Atoi(f[4+k])
				okA = okA && err == nil && v >= 0
				a[k] = v
			}
			if !okA || a[1] > 40 || a[4] > 40 {
				bad()
				continue
			}
			vn := srvname.New().Sanctuary(string(s)).Realm(string(r)).Swamp(string(sw))
			p1 := c20Try(func() string { return vn.GetFullHashPath("/r", uint64(a[0]), a[1], a[2]) })
			p2 := c20Try(func() string { return vn.GetFullHashPath("/r", uint64(a[3]), a[4], a[5]) })
			pf := c20Try(func() string {
				return srvname.New().Sanctuary(string(s)).Realm(string(r)).Swamp(string(sw)).GetFullHashPath("/r", uint64(a[3]), a[4], a[5])
			})
			fmt.Fprintf(w, "p1=%s p2=%s!%s\n", p1, p2, pf)
		case f[0] == "chain" && len(f) == 7:
			// builder chain with calls on the intermediate objects: a child must not inherit what its parent memoised
			s, o1 := c20Unhex(f[1])
			r, o2 := c20Unhex(f[2])
			sw, o3 := c20Unhex(f[3])
			N, e1 := strconv.ParseUint(f[4], 10, 16)
			d, e2 := strconv.Atoi(f[5])
			p, e3 := strconv.Atoi(f[6])
			if !o1 || !o2 || !o3 || e1 != nil || e2 != nil || e3 != nil || N == 0 || d < 0 || d > 1 {
				bad()
				continue
			}
			out := c20Try(func() string {
				sp := sdkname.New().Sanctuary(string(s))
				_ = sp.GetIslandID(N)
				sr := sp.Realm(string(r))
				_ = sr.GetIslandID(N)
				sc := sr.Swamp(string(sw))
				vp := srvname.New().Sanctuary(string(s))
				_ = vp.GetFolderNumber(uint16(N))
				_ = vp.GetFullHashPath("/r", 1, d, p)
				vr := vp.Realm(string(r))
				_ = vr.GetFolderNumber(uint16(N))
				_ = vr.GetFullHashPath("/r", 1, d, p)
				vc := vr.Swamp(string(sw))
				fs := sdkname.New().Sanctuary(string(s)).Realm(string(r)).Swamp(string(sw))
				fv := srvname.New().Sanctuary(string(s)).Realm(string(r)).Swamp(string(sw))
				same := sc.GetIslandID(N) == fs.GetIslandID(N) && vc.GetFolderNumber(uint16(N)) == fv.GetFolderNumber(uint16(N)) &&
					vc.GetFullHashPath("/r", 1, d, p) == fv.GetFullHashPath("/r", 1, d, p) && sc.Get() == fs.Get() && vc.Get() == fv.Get()
				return fmt.Sprintf("sdk=%d path=%s fresh=%v", sc.GetIslandID(N), vc.GetFullHashPath("/r", 1, d, p), same)
			})
			fmt.Fprintln(w, out)
		case f[0] == "load" && len(f) == 2:
			p, ok := c20Unhex(f[1])
			if !ok {
				bad()
				continue
			}
			a := c20Try(func() string {
				n := sdkname.Load(string(p))
				// the SDK interface exposes only the canonical form
				return c20Hex([]byte(n.Get()))
			})
			b := c20Try(func() string {
				n := srvname.Load(string(p))
				if n.Get() != n.GetSanctuaryID()+"/"+n.GetRealmName()+"/"+n.GetSwampName() {
					return "inconsistent"
				}
				return c20Hex([]byte(n.GetSanctuaryID())) + "." + c20Hex([]byte(n.GetRealmName())) + "." + c20Hex([]byte(n.GetSwampName()))
			})
			fmt.Fprintf(w, "sdk=%s srv=%s\n", a, b)
		case f[0] == "pair" && len(f) == 9:
			var bs [6][]byte
			ok := true
			for i := 0; i < 6; i++ {
				var o bool
				bs[i], o = c20Unhex(f[1+i])
				ok = ok && o
			}
			d, e2 := strconv.Atoi(f[7])
			p, e3 := strconv.Atoi(f[8])
			if !ok || e2 != nil || e3 != nil {
				bad()
				continue
			}
			p1 := c20Try(func() string {
				return srvname.New().Sanctuary(string(bs[0])).Realm(string(bs[1])).Swamp(string(bs[2])).GetFullHashPath("/r", 1, d, p)
			})
			p2 := c20Try(func() string {
				return srvname.New().Sanctuary(string(bs[3])).Realm(string(bs[4])).Swamp(string(bs[5])).GetFullHashPath("/r", 1, d, p)
			})
			eq := "diff"
			if p1 == p2 && p1 != "panic" {
				eq = "same"
			}
			fmt.Fprintf(w, "p1=%s p2=%s %s\n", p1, p2, eq)
		default:
			bad()
		}
	}
}
