package main

// Storage crash/compaction/fault rig shared by C02, C03 and C25 (all identifiers prefixed c02).
//
// The real chronicler / FileWriter / Compactor run in a child process (this binary re-executed
// with HX_STOR_WORKER set) under
//   strace -f -y -xx -s 100000000 -e trace=openat,write,pwrite64,lseek,fsync,fdatasync,ftruncate,
//          rename,renameat,renameat2,unlink,unlinkat
// so the exact syscall log of the unmodified code is captured — no repo hooks.  The worker
// announces each script command with a failing openat("/hxmark/<n>"), which delimits the log.
//
// Two-phase protocol:
//   hx run C02T|C03T|C25T < script cases      → ops file (blk / act / log / img lines)
//   hx run C02|C03|C25    < ops file          → implementation replies
//   drv C02|C03|C25       < ops file          → model replies

import (
	"bufio"
	"bytes"
	"encoding/binary"
	"encoding/hex"
	"fmt"
	"io"
	"log/slog"
	"math/rand"
	"os"
	"os/exec"
	"os/signal"
	"path/filepath"
	"regexp"
	"runtime"
	"sort"
	"strconv"
	"strings"
	"time"
	"syscall"

	"github.com/hydraide/hydraide/app/core/hydra/swamp/beacon"
	"github.com/hydraide/hydraide/app/core/hydra/swamp/chronicler"
	v2 "github.com/hydraide/hydraide/app/core/hydra/swamp/chronicler/v2"
	"github.com/hydraide/hydraide/app/core/hydra/swamp/treasure"
	"github.com/hydraide/hydraide/app/core/hydra/swamp/treasure/guard"
)

func init() {
	if os.Getenv("HX_STOR_WORKER") != "" {
		c02WorkerMain(os.Getenv("HX_STOR_WORKER"))
		os.Exit(0)
	}
}

// ---------------------------------------------------------------- worker (child, traced)

const c02MarkPrefix = "/hxmark/"

func c02Mark(n int) {
	fd, err := syscall.Open(c02MarkPrefix+strconv.Itoa(n), syscall.O_RDONLY, 0)
	if err == nil {
		syscall.Close(fd)
	}
}

func c02KeyName(k int) string { return "k" + strconv.Itoa(k) }

// content string of a live record: "v=<v>;" followed by deterministic padding
func c02Content(v, pad int) string {
	var b strings.Builder
	fmt.Fprintf(&b, "v=%d;", v)
	x := uint32(v*2654435761) | 1
	for i := 0; i < pad; i++ {
		x ^= x << 13
		x ^= x >> 17
		x ^= x << 5
		b.WriteByte("abcdefghijklmnopqrstuvwxyz0123456789ABCDEFGHIJKLMNOPQRSTUVWXYZ-_"[x&63])
	}
	return b.String()
}

func c02ParseContent(s string) string {
	if strings.HasPrefix(s, "v=") {
		if i := strings.IndexByte(s, ';'); i > 2 {
			return s[2:i]
		}
	}
	return "?"
}

// c02ItemTimes splits `item*N` into the item and N (1 without a suffix).
func c02ItemTimes(it string) (string, int) {
	if i := strings.IndexByte(it, '*'); i >= 0 {
		n, _ := strconv.Atoi(it[i+1:])
		return it[:i], n
	}
	return it, 1
}

func c02MakeTreasure(item string) (treasure.Treasure, string) {
	f := strings.Split(item, ":")
	tr := treasure.New(nil)
	g := tr.StartTreasureGuard(false, guard.BodyAuthID)
	defer tr.ReleaseTreasureGuard(g)
	switch f[0] {
	case "p":
		k, _ := strconv.Atoi(f[1])
		v, _ := strconv.Atoi(f[2])
		pad := 0
		if len(f) > 3 {
			pad, _ = strconv.Atoi(f[3])
		}
		tr.BodySetKey(g, c02KeyName(k))
		tr.SetContentString(g, c02Content(v, pad))
		data, err := tr.ConvertToByte(g)
		if err != nil {
			return tr, "?"
		}
		return tr, strconv.Itoa(7 + len(c02KeyName(k)) + len(data))
	case "d":
		k, _ := strconv.Atoi(f[1])
		tr.BodySetKey(g, c02KeyName(k))
		tr.BodySetForDeletion(g, "hx", false)
		return tr, strconv.Itoa(7 + len(c02KeyName(k)))
	}
	return tr, "?"
}

func c02BeaconState(b beacon.Beacon) string {
	var parts []string
	for k, t := range b.GetAll() {
		s, err := t.GetContentString()
		v := "?"
		if err == nil {
			v = c02ParseContent(s)
		}
		parts = append(parts, strings.TrimPrefix(k, "k")+"="+v)
	}
	return c02SortState(parts)
}

func c02SortState(parts []string) string {
	sort.Slice(parts, func(i, j int) bool {
		a, _ := strconv.Atoi(strings.SplitN(parts[i], "=", 2)[0])
		b, _ := strconv.Atoi(strings.SplitN(parts[j], "=", 2)[0])
		if a != b {
			return a < b
		}
		return parts[i] < parts[j]
	})
	if len(parts) == 0 {
		return "-"
	}
	return strings.Join(parts, ",")
}

// value token of raw entry data (a gob-encoded treasure)
func c02DataToken(data []byte) string {
	tr := treasure.New(nil)
	g := tr.StartTreasureGuard(false, guard.BodyAuthID)
	defer tr.ReleaseTreasureGuard(g)
	if err := tr.LoadFromByte(g, data, "x"); err != nil {
		return "?"
	}
	s, err := tr.GetContentString()
	if err != nil {
		return "?"
	}
	return c02ParseContent(s)
}

type c02Chron struct {
	kind string // cfg | name
	bs   int
	thr  float64
	name string
	live *int
}

func (c c02Chron) make(dir string) chronicler.Chronicler {
	var ch chronicler.Chronicler
	base := filepath.Join(dir, "sw")
	if c.kind == "name" {
		ch = chronicler.NewV2WithName(base, 2, c.name)
	} else {
		ch = chronicler.NewV2WithConfig(base, 2, c.bs, c.thr)
	}
	ch.CreateDirectoryIfNotExists()
	ch.DontSendFilePointer()
	if c.live != nil {
		lp := c.live
		ch.RegisterLiveCountFunction(func() int { return *lp })
	}
	return ch
}

func c02ParseChron(f []string, live *int) c02Chron {
	c := c02Chron{kind: f[0], live: live}
	if f[0] == "name" {
		c.name = f[1]
		c.bs = v2.DefaultMaxBlockSize
	} else {
		c.bs, _ = strconv.Atoi(f[1])
		c.thr, _ = strconv.ParseFloat(f[2], 64)
	}
	return c
}

func c02WorkerMain(script string) {
	// strace counts injected syscalls per thread: keep every file operation on one OS thread
	runtime.LockOSThread()
	// SIGXFSZ must not kill the worker when RLIMIT_FSIZE is used for short writes
	c02IgnoreXFSZ()
	c02Quiet()
	in, err := os.Open(script)
	if err != nil {
		fmt.Fprintln(os.Stderr, "worker:", err)
		os.Exit(3)
	}
	// results go to a file through pwrite64 at the very end: `write` syscalls are storage writes only,
	// so strace's `inject=write:…:when=N` counts exactly those
	var outBuf bytes.Buffer
	out := bufio.NewWriterSize(&outBuf, 1<<20)
	defer func() {
		out.Flush()
		if rp := os.Getenv("HX_STOR_RESULTS"); rp != "" {
			if f, err := os.OpenFile(rp, os.O_CREATE|os.O_WRONLY, 0o644); err == nil {
				_, _ = f.WriteAt(outBuf.Bytes(), 0)
				_ = f.Close()
			}
		} else {
			_, _ = os.Stdout.Write(outBuf.Bytes())
		}
	}()
	sc := bufio.NewScanner(in)
	sc.Buffer(make([]byte, 1<<20), 1<<28)
	var dir string
	var spec c02Chron
	var ch chronicler.Chronicler
	swampRig := &c25Swamp{}
	var fsizeLimit uint64
	live := 0
	n := 0
	for sc.Scan() {
		line := sc.Text()
		f := strings.Fields(line)
		if len(f) == 0 {
			continue
		}
		res := "ok"
		c02Mark(n)
		tCmd := time.Now()
		func() {
			defer func() {
				if r := recover(); r != nil {
					res = fmt.Sprintf("panic %v", r)
				}
			}()
			switch f[0] {
			case "dir":
				dir = f[1]
				_ = os.MkdirAll(dir, 0o755)
				ch = nil
				live = 0
			case "chron":
				spec = c02ParseChron(f[1:], &live)
				ch = spec.make(dir)
			case "live":
				live, _ = strconv.Atoi(f[1])
			case "w":
				var batch []treasure.Treasure
				var sizes []string
				for _, it := range strings.Split(f[1], ",") {
					// `item*N`: N copies of the item (one size is reported for all of them)
					it, times := c02ItemTimes(it)
					t, sz := c02MakeTreasure(it)
					for ; times > 0; times-- {
						batch = append(batch, t) // the same treasure handed over again: the same entry again
					}
					sizes = append(sizes, sz)
				}
				ch.Write(batch)
				res = "ok sz=" + strings.Join(sizes, ",")
			case "sync":
				if err := ch.Sync(); err != nil {
					res = "err " + c02ErrKind(err)
				}
			case "close":
				if err := ch.Close(); err != nil {
					res = "err " + c02ErrKind(err)
				}
			case "force":
				if err := ch.ForceCompaction(); err != nil {
					res = "err " + c02ErrKind(err)
				}
			case "load":
				b := beacon.New()
				ch.Load(b)
				live = b.Count()
				res = "ok " + c02BeaconState(b)
			case "cli":
				thr, _ := strconv.ParseFloat(f[1], 64)
				r, err := v2.NewCompactor(filepath.Join(dir, "sw.hyd"), v2.DefaultMaxBlockSize, thr).Compact()
				if err != nil {
					res = "err " + c02ErrKind(err)
				} else if r != nil && r.Compacted {
					res = "ok compacted"
				} else {
					res = "ok skipped"
				}
			case "plant":
				p := filepath.Join(dir, "sw.hyd")
				if f[1] == "temp" {
					p += ".compact"
				}
				b, _ := hex.DecodeString(f[2])
				if err := os.WriteFile(p, b, 0o644); err != nil {
					res = "err " + err.Error()
				}
			case "cut":
				// tear the tail of the main file: drop its last N bytes
				n, _ := strconv.ParseInt(f[1], 10, 64)
				p := filepath.Join(dir, "sw.hyd")
				if st, err := os.Stat(p); err == nil {
					sz := st.Size() - n
					if sz < 0 {
						sz = 0
					}
					if err := os.Truncate(p, sz); err != nil {
						res = "err " + err.Error()
					} else {
						res = "ok size=" + strconv.FormatInt(sz, 10)
					}
				}
			case "probe":
				// what a reader sees right now (the writer stays open): the file is copied aside —
				// with pwrite, so that no write(2) is added to the run — and loaded there
				if fsizeLimit != 0 { // the copy must not be cut by the fault that is being emulated
					c02SetFsize(0)
					defer c02SetFsize(fsizeLimit)
				}
				src, err := os.ReadFile(filepath.Join(dir, "sw.hyd"))
				if err != nil {
					res = "ok -"
					break
				}
				pd := filepath.Join(dir, "probe")
				_ = os.MkdirAll(pd, 0o755)
				if pf, err := os.OpenFile(filepath.Join(pd, "sw.hyd"), os.O_CREATE|os.O_TRUNC|os.O_WRONLY, 0o644); err == nil {
					_, _ = pf.WriteAt(src, 0)
					_ = pf.Close()
				}
				pl := live
				pc := spec
				pc.live = &pl
				b := beacon.New()
				pc.make(pd).Load(b)
				res = "ok " + c02BeaconState(b)
			case "zap":
				// damage in the middle of the file: zero the size field of the N-th block
				nth, _ := strconv.Atoi(f[1])
				p := filepath.Join(dir, "sw.hyd")
				b, err := os.ReadFile(p)
				if err != nil || len(b) < 64 {
					res = "err nofile"
					break
				}
				off := 64 + int(binary.LittleEndian.Uint16(b[44:46]))
				for ; nth > 0 && off+16 <= len(b); nth-- {
					off += 16 + int(binary.LittleEndian.Uint32(b[off:off+4]))
				}
				if off+16 > len(b) {
					res = "err noblock"
					break
				}
				copy(b[off:off+4], []byte{0, 0, 0, 0})
				if err := os.WriteFile(p, b, 0o644); err != nil {
					res = "err " + err.Error()
				} else {
					res = "ok off=" + strconv.Itoa(off)
				}
			case "size":
				if st, err := os.Stat(filepath.Join(dir, "sw.hyd")); err == nil {
					res = "ok " + strconv.FormatInt(st.Size(), 10)
				} else {
					res = "ok -"
				}
			case "fsize":
				// RLIMIT_FSIZE soft limit (0 = unlimited again)
				lim, _ := strconv.ParseUint(f[1], 10, 64)
				c02SetFsize(lim)
				fsizeLimit = lim
			case "fsizeplus":
				// the main file may grow by K more bytes (0: the next append fails outright)
				k, _ := strconv.ParseUint(f[1], 10, 64)
				var cur uint64
				if st, err := os.Stat(filepath.Join(dir, "sw.hyd")); err == nil {
					cur = uint64(st.Size())
				}
				if cur+k == 0 {
					k = 1
				}
				c02SetFsize(cur + k)
				fsizeLimit = cur + k
			case "swamp", "ssave", "sdel", "stick", "sclose", "sload":
				res = swampRig.cmd(dir, f)
			default:
				res = "bad-cmd"
			}
		}()
		// results are flushed at the very end: the only write syscalls in between are storage writes
		if os.Getenv("HX_TIMING") == "1" {
			fmt.Fprintln(os.Stderr, "cmd", f[0], time.Since(tCmd))
		}
		fmt.Fprintf(out, "r %d %s\n", n, res)
		n++
	}
	c02Mark(n)
}

func c02ErrKind(err error) string {
	s := err.Error()
	switch {
	case strings.Contains(s, "input/output error"):
		return "eio"
	case strings.Contains(s, "file too large"):
		return "efbig"
	case strings.Contains(s, "no space"):
		return "enospc"
	case strings.Contains(s, "closed"):
		return "closed"
	}
	return "other:" + strings.ReplaceAll(s, " ", "_")
}

func c02IgnoreXFSZ() { signal.Ignore(syscall.SIGXFSZ) }

func c02SetFsize(lim uint64) {
	var rl syscall.Rlimit
	_ = syscall.Getrlimit(syscall.RLIMIT_FSIZE, &rl)
	if lim == 0 {
		rl.Cur = rl.Max
	} else {
		rl.Cur = lim
	}
	_ = syscall.Setrlimit(syscall.RLIMIT_FSIZE, &rl)
}

// ---------------------------------------------------------------- tracer (parent)

type c02Sys struct {
	Cmd  int    // script command index the syscall belongs to
	Op   string // create | write | sync | rename | unlink | trunc
	Path string // main | temp | other
	To   string // rename target
	Off  int64
	Data []byte // bytes actually transferred (short writes: the prefix)
	Want int    // bytes requested (write)
	Req  []byte // the whole buffer handed to write (also when the write failed)
	Res  string // ok | err | short
	Kind string // classification of a write: fh:<nl> | nm | bh:<id> | bp:<id> | raw
}

var (
	c02ReUnfinished = regexp.MustCompile(`^(.*) <unfinished \.\.\.>$`)
	c02ReResumed    = regexp.MustCompile(`^<\.\.\. (\w+) resumed>(.*)$`)
	c02RePid        = regexp.MustCompile(`^(?:\[pid\s+(\d+)\]\s+|(\d+)\s+)?(.*)$`)
	c02ReCall       = regexp.MustCompile(`^(\w+)\((.*)\)\s+=\s+(-?\d+|\?)(.*)$`)
	c02ReFd         = regexp.MustCompile(`^(\d+)<([^>]*)>`)
)

func c02ClassPath(p, dir string) string {
	if strings.HasPrefix(p, "\\x") {
		p = string(c02Unescape(p))
	}
	switch p {
	case filepath.Join(dir, "sw.hyd"):
		return "main"
	case filepath.Join(dir, "sw.hyd.compact"):
		return "temp"
	}
	return "other"
}

func c02Unescape(s string) []byte {
	// strace -xx string: every byte as \xHH
	out := make([]byte, 0, len(s)/4)
	for i := 0; i+3 < len(s); {
		if s[i] == '\\' && s[i+1] == 'x' {
			b, err := strconv.ParseUint(s[i+2:i+4], 16, 8)
			if err == nil {
				out = append(out, byte(b))
			}
			i += 4
		} else {
			i++
		}
	}
	return out
}

// split top-level arguments of a syscall (strings may contain commas)
func c02SplitArgs(s string) []string {
	var out []string
	depth, inStr, start := 0, false, 0
	for i := 0; i < len(s); i++ {
		c := s[i]
		switch {
		case inStr:
			if c == '\\' {
				i++
			} else if c == '"' {
				inStr = false
			}
		case c == '"':
			inStr = true
		case c == '(' || c == '[' || c == '{' || c == '<':
			depth++
		case c == ')' || c == ']' || c == '}' || c == '>':
			depth--
		case c == ',' && depth == 0:
			out = append(out, strings.TrimSpace(s[start:i]))
			start = i + 1
		}
	}
	out = append(out, strings.TrimSpace(s[start:]))
	return out
}

func c02Quoted(a string) string {
	i := strings.IndexByte(a, '"')
	j := strings.LastIndexByte(a, '"')
	if i < 0 || j <= i {
		return ""
	}
	return a[i+1 : j]
}

// c02ParseTrace turns strace output into the per-case file-operation log.  dirOf(cmd) gives the
// case directory that is current for a script command.
func c02ParseTrace(r io.Reader, dirOf func(cmd int) string) ([]c02Sys, error) {
	sc := bufio.NewScanner(r)
	sc.Buffer(make([]byte, 1<<20), 1<<30)
	pending := map[string]string{}
	offs := map[string]int64{} // fd key (pid-independent: threads share fds) -> offset
	var out []c02Sys
	cmd := -1
	for sc.Scan() {
		line := sc.Text()
		m := c02RePid.FindStringSubmatch(line)
		pid := m[1] + m[2]
		body := m[3]
		if u := c02ReUnfinished.FindStringSubmatch(body); u != nil {
			pending[pid] = u[1]
			continue
		}
		if rs := c02ReResumed.FindStringSubmatch(body); rs != nil {
			body = pending[pid] + rs[2]
			delete(pending, pid)
		}
		cm := c02ReCall.FindStringSubmatch(body)
		if cm == nil {
			continue
		}
		name, argstr, retS, tail := cm[1], cm[2], cm[3], cm[4]
		ret, _ := strconv.ParseInt(retS, 10, 64)
		args := c02SplitArgs(argstr)
		dir := dirOf(cmd)
		switch name {
		case "openat":
			if len(args) < 3 {
				continue
			}
			p := c02Quoted(args[1])
			pb := string(c02Unescape(p))
			if strings.HasPrefix(pb, c02MarkPrefix) {
				cmd, _ = strconv.Atoi(strings.TrimPrefix(pb, c02MarkPrefix))
				continue
			}
			cls := c02ClassPath(pb, dir)
			if cls == "other" {
				continue
			}
			trunc := strings.Contains(args[2], "O_TRUNC")
			if ret >= 0 {
				offs[retS] = 0
				if trunc {
					out = append(out, c02Sys{Cmd: cmd, Op: "create", Path: cls, Res: "ok"})
				}
			} else if trunc {
				out = append(out, c02Sys{Cmd: cmd, Op: "create", Path: cls, Res: "err"})
			}
		case "write", "pwrite64":
			fm := c02ReFd.FindStringSubmatch(args[0])
			if fm == nil {
				continue
			}
			cls := c02ClassPath(fm[2], dir)
			if cls == "other" {
				continue
			}
			data := c02Unescape(c02Quoted(args[1]))
			want, _ := strconv.Atoi(args[2])
			s := c02Sys{Cmd: cmd, Op: "write", Path: cls, Want: want, Req: data}
			if name == "pwrite64" {
				s.Off, _ = strconv.ParseInt(args[3], 10, 64)
			} else {
				s.Off = offs[fm[1]]
			}
			switch {
			case ret < 0:
				s.Res = "err"
			case int(ret) < want:
				s.Res = "short"
				s.Data = data[:ret]
			default:
				s.Res = "ok"
				s.Data = data
			}
			if ret > 0 && name == "write" {
				offs[fm[1]] += ret
			}
			out = append(out, s)
		case "lseek":
			fm := c02ReFd.FindStringSubmatch(args[0])
			if fm == nil {
				continue
			}
			if ret >= 0 {
				offs[fm[1]] = ret
			}
		case "fsync", "fdatasync":
			fm := c02ReFd.FindStringSubmatch(args[0])
			if fm == nil {
				continue
			}
			cls := c02ClassPath(fm[2], dir)
			if cls == "other" {
				continue
			}
			res := "ok"
			if ret < 0 {
				res = "err"
			}
			out = append(out, c02Sys{Cmd: cmd, Op: "sync", Path: cls, Res: res})
		case "ftruncate":
			fm := c02ReFd.FindStringSubmatch(args[0])
			if fm == nil {
				continue
			}
			cls := c02ClassPath(fm[2], dir)
			if cls == "other" {
				continue
			}
			n, _ := strconv.ParseInt(args[1], 10, 64)
			res := "ok"
			if ret < 0 {
				res = "err"
			}
			out = append(out, c02Sys{Cmd: cmd, Op: "trunc", Path: cls, Off: n, Res: res})
		case "rename", "renameat", "renameat2":
			var a, b string
			if name == "rename" {
				a, b = c02Quoted(args[0]), c02Quoted(args[1])
			} else {
				a, b = c02Quoted(args[1]), c02Quoted(args[3])
			}
			ca, cb := c02ClassPath(string(c02Unescape(a)), dir), c02ClassPath(string(c02Unescape(b)), dir)
			if ca == "other" && cb == "other" {
				continue
			}
			res := "ok"
			if ret < 0 {
				res = "err"
			}
			out = append(out, c02Sys{Cmd: cmd, Op: "rename", Path: ca, To: cb, Res: res})
		case "unlink", "unlinkat":
			var a string
			if name == "unlink" {
				a = c02Quoted(args[0])
			} else {
				a = c02Quoted(args[1])
			}
			ca := c02ClassPath(string(c02Unescape(a)), dir)
			if ca == "other" {
				continue
			}
			if ret < 0 && strings.Contains(tail, "ENOENT") {
				continue // removing a file that is not there: no effect, not part of the log
			}
			res := "ok"
			if ret < 0 {
				res = "err"
			}
			out = append(out, c02Sys{Cmd: cmd, Op: "unlink", Path: ca, Res: res})
		}
	}
	return out, sc.Err()
}

const c02TraceSet = "trace=openat,write,pwrite64,lseek,fsync,fdatasync,ftruncate,rename,renameat,renameat2,unlink,unlinkat"

// c02RunTraced executes a worker script under strace. Returns worker result lines and the syscall log.
func c02RunTraced(script []string, extraStrace []string) (results []string, sys []c02Sys, err error) {
	tmp, err := os.MkdirTemp("", "hxstor-")
	if err != nil {
		return nil, nil, err
	}
	defer os.RemoveAll(tmp)
	sp := filepath.Join(tmp, "script")
	if err := os.WriteFile(sp, []byte(strings.Join(script, "\n")+"\n"), 0o644); err != nil {
		return nil, nil, err
	}
	tp := filepath.Join(tmp, "trace")
	self, _ := os.Executable()
	args := []string{"-f", "-y", "-xx", "-s", "100000000", "-o", tp, "-e", c02TraceSet}
	if os.Getenv("HX_TIMING") == "1" {
		t0 := time.Now()
		defer func() { fmt.Fprintln(os.Stderr, "strace run:", time.Since(t0)) }()
	}
	args = append(args, extraStrace...)
	args = append(args, self)
	cmd := exec.Command("strace", args...)
	rp := filepath.Join(tmp, "results")
	cmd.Env = append(os.Environ(), "HX_STOR_WORKER="+sp, "HX_STOR_RESULTS="+rp)
	var so, se bytes.Buffer
	cmd.Stdout, cmd.Stderr = &so, &se
	runErr := cmd.Run()
	resBytes, _ := os.ReadFile(rp)
	for _, l := range strings.Split(string(resBytes), "\n") {
		if strings.HasPrefix(l, "r ") {
			results = append(results, l)
		}
	}
	// directory in force for each command
	dirs := make([]string, len(script)+2)
	cur := ""
	for i, l := range script {
		if strings.HasPrefix(l, "dir ") {
			cur = strings.TrimSpace(l[4:])
		}
		dirs[i] = cur
	}
	dirs[len(script)], dirs[len(script)+1] = cur, cur
	tf, err := os.Open(tp)
	if err != nil {
		return results, nil, fmt.Errorf("no trace (%v): %s", runErr, se.String())
	}
	defer tf.Close()
	sys, err = c02ParseTrace(tf, func(c int) string {
		if c < 0 || c >= len(dirs) {
			return ""
		}
		return dirs[c]
	})
	if err == nil && runErr != nil && len(results) < len(script) {
		err = fmt.Errorf("worker failed: %v: %s", runErr, se.String())
	}
	return results, sys, err
}

// ---------------------------------------------------------------- block table

type c02Block struct {
	ID    int
	Hdr   []byte
	Pay   []byte
	Ents  string // p.k.v;d.k;…
	Sizes string // Entry.Size() of each entry, ';'-separated
}

func c02EntsOf(hdr, pay []byte) (string, string, bool) {
	var bh v2.BlockHeader
	if err := bh.Deserialize(hdr); err != nil {
		return "", "", false
	}
	var entries []v2.Entry
	if blk, err := v2.ParseBlock(&bh, pay); err == nil {
		entries = blk.Entries
	} else {
		// a block the reader rejects although its payload is intact (e.g. a wrapped EntryCount):
		// what the payload holds, whatever the count field says
		if !v2.ValidateChecksum(pay, bh.Checksum) {
			return "", "", false
		}
		raw, derr := v2.DecompressBlock(pay)
		if derr != nil || uint32(len(raw)) != bh.UncompressedSize {
			return "", "", false
		}
		for off := 0; off < len(raw); {
			var e v2.Entry
			n, eerr := e.Deserialize(raw[off:])
			if eerr != nil || n <= 0 {
				return "", "", false
			}
			entries = append(entries, e)
			off += n
		}
		if len(entries) == 0 {
			return "", "", false
		}
	}
	var parts, sizes []string
	for _, e := range entries {
		k := strings.TrimPrefix(e.Key, "k")
		switch e.Operation {
		case v2.OpDelete:
			parts = append(parts, "d."+k)
		case v2.OpInsert, v2.OpUpdate:
			parts = append(parts, "p."+k+"."+c02DataToken(e.Data))
		default:
			parts = append(parts, "m."+k)
		}
		sizes = append(sizes, strconv.Itoa(e.Size()))
	}
	return strings.Join(parts, ";"), strings.Join(sizes, ";"), true
}

type c02Classifier struct {
	byContent map[string]int
	blocks    []c02Block
}

func c02NewClassifier() *c02Classifier { return &c02Classifier{byContent: map[string]int{}} }

func (c *c02Classifier) register(hdr, pay []byte) (int, bool) {
	ents, sizes, ok := c02EntsOf(hdr, pay)
	if !ok {
		return -1, false
	}
	key := string(hdr) + string(pay)
	id, seen := c.byContent[key]
	if !seen {
		id = len(c.blocks)
		c.byContent[key] = id
		c.blocks = append(c.blocks, c02Block{ID: id, Hdr: append([]byte(nil), hdr...), Pay: append([]byte(nil), pay...), Ents: ents, Sizes: sizes})
	}
	return id, true
}

// classify labels the writes of a log: fh:<nl> (64-byte file header at offset 0), nm (name
// bytes right after a header at offset 64), bh:<id>/bp:<id> (block header + payload pairs), raw.
// A block header is recognised by shape only: a 16-byte write whose size field equals the
// requested length of the next write to the same file, and whose payload parses.
// Entries of sys with a preset Kind are left alone.
func (c *c02Classifier) classify(sys []c02Sys) {
	for i := 0; i < len(sys); i++ {
		s := &sys[i]
		if s.Op != "write" || s.Kind != "" {
			continue
		}
		full := s.Data
		if len(s.Req) == s.Want && s.Want > 0 {
			full = s.Req
		}
		switch {
		case s.Want == 64 && s.Off == 0 && ((len(full) >= 4 && string(full[:4]) == "HYDR") || s.Res == "err"):
			s.Kind = "fh"
			if len(full) >= 46 {
				s.Kind = "fh:" + strconv.Itoa(int(binary.LittleEndian.Uint16(full[44:46])))
			}
		case s.Off == 64 && i > 0 && strings.HasPrefix(sys[i-1].Kind, "fh") && sys[i-1].Path == s.Path && s.Want != 16:
			s.Kind = "nm"
		case s.Want == 16 && s.Res == "ok" && len(full) == 16:
			j := i + 1
			for j < len(sys) && !(sys[j].Op == "write" && sys[j].Path == s.Path) {
				j++
			}
			size := int(binary.LittleEndian.Uint32(full[0:4]))
			if j < len(sys) && sys[j].Want == size && sys[j].Kind == "" {
				// the payload write may have failed: the block is what was *requested*
				pay := sys[j].Data
				if len(sys[j].Req) == sys[j].Want {
					pay = sys[j].Req
				}
				if id, ok := c.register(full, pay); ok {
					s.Kind = "bh:" + strconv.Itoa(id)
					sys[j].Kind = "bp:" + strconv.Itoa(id)
					continue
				}
			}
			s.Kind = "raw"
		default:
			s.Kind = "raw"
		}
	}
}

// pseudo-operations that put `content` (a whole or cut .hyd file, or junk) at path: one create
// plus one write per chunk, so that the model sees the same chunk structure as for real writes
func (c *c02Classifier) plantOps(path string, content []byte, cut int) []c02Sys {
	out := []c02Sys{{Cmd: -1, Op: "create", Path: path, Res: "ok", Kind: "plant"}}
	add := func(off int, data []byte, kind string) {
		if off >= cut {
			return
		}
		if off+len(data) > cut {
			data = data[:cut-off]
		}
		out = append(out, c02Sys{Cmd: -1, Op: "write", Path: path, Off: int64(off), Data: data, Want: len(data), Res: "ok", Kind: kind})
	}
	if len(content) < 64 || string(content[:4]) != "HYDR" {
		add(0, content, "raw")
		return out
	}
	nl := int(binary.LittleEndian.Uint16(content[44:46]))
	add(0, content[:64], "fh:"+strconv.Itoa(nl))
	off := 64
	if nl > 0 && off+nl <= len(content) {
		add(off, content[off:off+nl], "nm")
		off += nl
	}
	for off+16 <= len(content) {
		hdr := content[off : off+16]
		size := int(binary.LittleEndian.Uint32(hdr[0:4]))
		if off+16+size > len(content) {
			break
		}
		pay := content[off+16 : off+16+size]
		id, ok := c.register(hdr, pay)
		if !ok {
			break
		}
		add(off, hdr, "bh:"+strconv.Itoa(id))
		add(off+16, pay, "bp:"+strconv.Itoa(id))
		off += 16 + size
	}
	if off < len(content) {
		add(off, content[off:], "raw")
	}
	return out
}

// ---------------------------------------------------------------- images

type c02Files map[string][]byte // "main"/"temp" -> content (absent key = no file)

func c02Splice(f []byte, off int64, data []byte) []byte {
	end := int(off) + len(data)
	if end > len(f) {
		nf := make([]byte, end)
		copy(nf, f)
		f = nf
	} else {
		f = append([]byte(nil), f...)
	}
	copy(f[off:], data)
	return f
}

func (d c02Files) clone() c02Files {
	n := c02Files{}
	for k, v := range d {
		n[k] = v
	}
	return n
}

// apply one logged operation (as it really happened: short writes apply their prefix, failed
// operations nothing); k >= 0 cuts a write after k bytes
func (d c02Files) apply(s c02Sys, k int) {
	switch s.Op {
	case "create":
		if s.Res == "ok" {
			d[s.Path] = []byte{}
		}
	case "write":
		data := s.Data
		if k >= 0 && k < len(data) {
			data = data[:k]
		}
		if f, ok := d[s.Path]; ok && len(data) > 0 {
			d[s.Path] = c02Splice(f, s.Off, data)
		}
	case "rename":
		if s.Res == "ok" && s.Path != s.To {
			if f, ok := d[s.Path]; ok {
				d[s.To] = f
				delete(d, s.Path)
			}
		}
	case "unlink":
		if s.Res == "ok" {
			delete(d, s.Path)
		}
	case "trunc":
		if f, ok := d[s.Path]; ok && s.Res == "ok" {
			nf := make([]byte, s.Off)
			copy(nf, f)
			d[s.Path] = nf
		}
	}
}

func c02Materialise(d c02Files, dir string) error {
	_ = os.RemoveAll(dir)
	if err := os.MkdirAll(dir, 0o755); err != nil {
		return err
	}
	for k, v := range d {
		p := filepath.Join(dir, "sw.hyd")
		if k == "temp" {
			p += ".compact"
		}
		if err := os.WriteFile(p, v, 0o644); err != nil {
			return err
		}
	}
	return nil
}

// LoadIndex through the real reader
func c02LoadIndex(dir string) string {
	p := filepath.Join(dir, "sw.hyd")
	if _, err := os.Stat(p); err != nil {
		return "nofile"
	}
	fr, err := v2.NewFileReader(p)
	if err != nil {
		return "err-open"
	}
	defer fr.Close()
	idx, _, err := fr.LoadIndex()
	if err != nil {
		return "err-load"
	}
	var parts []string
	for k, d := range idx {
		parts = append(parts, strings.TrimPrefix(k, "k")+"="+c02DataToken(d))
	}
	return c02SortState(parts)
}

func c02ChronLoad(spec c02Chron, dir string) (chronicler.Chronicler, string) {
	ch := spec.make(dir)
	b := beacon.New()
	ch.Load(b)
	if spec.live != nil {
		*spec.live = b.Count()
	}
	return ch, c02BeaconState(b)
}

// ---------------------------------------------------------------- small helpers

func c02Hex(b []byte) string {
	if len(b) == 0 {
		return "-"
	}
	return hex.EncodeToString(b)
}

func c02Unhex(s string) []byte {
	if s == "-" || s == "" {
		return nil
	}
	b, _ := hex.DecodeString(s)
	return b
}

func c02Pick(rng *rand.Rand, xs ...int) int { return xs[rng.Intn(len(xs))] }

// debugging aid: hx run C02dbg < worker script  → worker results + parsed syscall log
func init() {
	Register("C02dbg", Domain{Gen: func(*rand.Rand, string, *bufio.Writer) {}, Run: func(in *bufio.Scanner, w *bufio.Writer) {
		var script []string
		for in.Scan() {
			script = append(script, in.Text())
		}
		res, sys, err := c02RunTraced(script, strings.Fields(os.Getenv("HX_STRACE_EXTRA")))
		for _, r := range res {
			fmt.Fprintln(w, r)
		}
		if err != nil {
			fmt.Fprintln(w, "ERR", err)
		}
		cl := c02NewClassifier()
		cl.classify(sys)
		for _, b := range cl.blocks {
			fmt.Fprintf(w, "blk %d %s %d %s %s\n", b.ID, hex.EncodeToString(b.Hdr), len(b.Pay), b.Ents, b.Sizes)
		}
		for _, s := range sys {
			fmt.Fprintf(w, "sys cmd=%d %s %s->%s off=%d want=%d got=%d %s %s\n", s.Cmd, s.Op, s.Path, s.To, s.Off, s.Want, len(s.Data), s.Res, s.Kind)
		}
	}})
}

// ---------------------------------------------------------------- T phase: cases → ops file

type c02CaseIn struct {
	ID, Title string
	Cmds      []string
}

func c02ReadCases(in *bufio.Scanner) []c02CaseIn {
	var out []c02CaseIn
	for in.Scan() {
		l := strings.TrimSpace(in.Text())
		if l == "" {
			continue
		}
		if strings.HasPrefix(l, "case ") {
			f := strings.SplitN(l, " ", 3)
			c := c02CaseIn{ID: f[1]}
			if len(f) > 2 {
				c.Title = f[2]
			}
			out = append(out, c)
			continue
		}
		if len(out) > 0 {
			out[len(out)-1].Cmds = append(out[len(out)-1].Cmds, l)
		}
	}
	return out
}

// the record appended after every recovery: key 9000, value 77
const c02ProbeKey, c02ProbeVal = 9000, 77

func c02ProbeItem() string { return fmt.Sprintf("p:%d:%d:%d", c02ProbeKey, c02ProbeVal, c02Pad(c02ProbeVal)) }

// padding is a function of the value so that equal (key, value) pairs have equal bytes
func c02Pad(v int) int { return (v * 37) % 90 }

// bytes of a stand-alone .hyd file holding the given items, produced by the real writer
func c02MakeFile(name string, bs int, items []string) []byte {
	dir, err := os.MkdirTemp("", "hxplant-")
	if err != nil {
		return nil
	}
	defer os.RemoveAll(dir)
	p := filepath.Join(dir, "x.hyd")
	var fw *v2.FileWriter
	if name == "" {
		fw, err = v2.NewFileWriter(p, bs)
	} else {
		fw, err = v2.NewFileWriterWithName(p, bs, name)
	}
	if err != nil {
		return nil
	}
	for _, it := range items {
		tr, _ := c02MakeTreasure(it)
		g := tr.StartTreasureGuard(false, guard.BodyAuthID)
		e := v2.Entry{Operation: v2.OpInsert, Key: tr.GetKey()}
		if strings.HasPrefix(it, "d:") {
			e.Operation = v2.OpDelete
		} else {
			e.Data, _ = tr.ConvertToByte(g)
		}
		tr.ReleaseTreasureGuard(g)
		_ = fw.WriteEntry(e)
	}
	_ = fw.Close()
	b, _ := os.ReadFile(p)
	return b
}

type c02CmdOut struct {
	Text  string
	Res   string
	Sys   []c02Sys // traced operations of this command
	Plant []c02Sys // pseudo-operations (plants), applied before Sys
}

type c02CaseOut struct {
	In     c02CaseIn
	Spec   c02Chron
	Cmds   []c02CmdOut
	Cl     *c02Classifier
	Err    string
	Faulty bool // emit the results of every region's operations (`res` lines) for the fault-aware model
}

// c02TraceCases runs every case in one traced worker process.
func c02TraceCases(cases []c02CaseIn, extraStrace []string) ([]c02CaseOut, error) {
	root, err := os.MkdirTemp("", "hxcases-")
	if err != nil {
		return nil, err
	}
	defer os.RemoveAll(root)
	var script []string
	type ref struct{ ci, ki int }
	var refs []ref
	outs := make([]c02CaseOut, len(cases))
	for ci, c := range cases {
		outs[ci] = c02CaseOut{In: c, Cl: c02NewClassifier()}
		script = append(script, "dir "+filepath.Join(root, "c"+strconv.Itoa(ci)))
		refs = append(refs, ref{ci, -1})
		for ki, cmd := range c.Cmds {
			f := strings.Fields(cmd)
			co := c02CmdOut{Text: cmd}
			wcmd := cmd
			switch f[0] {
			case "chron":
				outs[ci].Spec = c02ParseChron(f[1:], nil)
			case "plant":
				// plant <main|temp> junk N | file NAME BS CUT items… (CUT<0: whole file)
				var content []byte
				cut := -1
				if f[2] == "junk" {
					n, _ := strconv.Atoi(f[3])
					content = make([]byte, n)
					for i := range content {
						content[i] = byte(0xA5 ^ i*7)
					}
				} else {
					name := f[3]
					if name == "-" {
						name = ""
					}
					bs, _ := strconv.Atoi(f[4])
					cut, _ = strconv.Atoi(f[5])
					var items []string
					if len(f) > 6 && f[6] != "-" {
						items = strings.Split(f[6], ",")
					}
					content = c02MakeFile(name, bs, items)
				}
				if cut < 0 || cut > len(content) {
					cut = len(content)
				}
				co.Plant = outs[ci].Cl.plantOps(f[1], content, cut)
				wcmd = "plant " + f[1] + " " + c02Hex(content[:cut])
				if cut == 0 {
					wcmd = "plant " + f[1] + " 00"
					co.Plant = append(co.Plant[:1], c02Sys{Cmd: -1, Op: "write", Path: f[1], Data: []byte{0}, Want: 1, Res: "ok", Kind: "raw"})
				}
			}
			outs[ci].Cmds = append(outs[ci].Cmds, co)
			script = append(script, wcmd)
			refs = append(refs, ref{ci, ki})
		}
	}
	results, sys, err := c02RunTraced(script, extraStrace)
	if err != nil && len(results) == 0 {
		return outs, err
	}
	for _, r := range results {
		f := strings.SplitN(r, " ", 3)
		n, _ := strconv.Atoi(f[1])
		if n < len(refs) && refs[n].ki >= 0 && len(f) > 2 {
			outs[refs[n].ci].Cmds[refs[n].ki].Res = f[2]
		}
	}
	for ci := range outs {
		for j := range outs[ci].Cmds {
			co := &outs[ci].Cmds[j]
			if strings.HasPrefix(co.Text, "cut ") {
				if k := strings.Index(co.Res, "size="); k >= 0 {
					n, _ := strconv.ParseInt(co.Res[k+5:], 10, 64)
					co.Plant = []c02Sys{{Cmd: -1, Op: "trunc", Path: "main", Off: n, Res: "ok", Kind: "plant"}}
				}
			}
			if strings.HasPrefix(co.Text, "zap ") {
				if k := strings.Index(co.Res, "off="); k >= 0 {
					n, _ := strconv.ParseInt(co.Res[k+4:], 10, 64)
					co.Plant = []c02Sys{{Cmd: -1, Op: "write", Path: "main", Off: n, Data: []byte{0, 0, 0, 0}, Want: 4, Res: "ok", Kind: "zero"}}
				}
			}
		}
	}
	for _, s := range sys {
		if s.Cmd < 0 || s.Cmd >= len(refs) || refs[s.Cmd].ki < 0 {
			continue
		}
		co := &outs[refs[s.Cmd].ci].Cmds[refs[s.Cmd].ki]
		if strings.HasPrefix(co.Text, "plant ") || strings.HasPrefix(co.Text, "cut ") || strings.HasPrefix(co.Text, "zap ") {
			continue // the worker's own WriteFile; represented by the pseudo-operations
		}
		co.Sys = append(co.Sys, s)
	}
	for ci := range outs {
		for j := range outs[ci].Cmds {
			outs[ci].Cmds[j].Sys = c02MergeShort(outs[ci].Cmds[j].Sys)
		}
	}
	for ci := range outs {
		// classify over the whole case so block ids are shared
		var all []c02Sys
		for _, c := range outs[ci].Cmds {
			all = append(all, c.Sys...)
		}
		outs[ci].Cl.classify(all)
		k := 0
		for j := range outs[ci].Cmds {
			for m := range outs[ci].Cmds[j].Sys {
				outs[ci].Cmds[j].Sys[m] = all[k]
				k++
			}
		}
	}
	return outs, err
}

// Go's File.Write retries a short write; the retry fails (EFBIG/ENOSPC).  The pair is one logical
// write with result `short n`.
// c02SplitHeaderName: what matters is the effect on the file, not the syscall boundaries — a new
// file's header and swamp name written by ONE write(2) are the same two operations as far as the
// model is concerned (header at 0, name at 64).
func c02SplitHeaderName(s c02Sys) []c02Sys {
	full := s.Data
	if len(s.Req) == s.Want && s.Want > 0 {
		full = s.Req
	}
	if s.Op != "write" || s.Off != 0 || s.Want <= 64 || len(full) < 64 || string(full[:4]) != "HYDR" ||
		int(binary.LittleEndian.Uint16(full[44:46])) != s.Want-64 {
		return []c02Sys{s}
	}
	h, n := s, s
	h.Want, n.Want, n.Off = 64, s.Want-64, 64
	cut := func(b []byte, from, to int) []byte {
		if from > len(b) {
			from = len(b)
		}
		if to > len(b) {
			to = len(b)
		}
		return b[from:to]
	}
	h.Data, n.Data = cut(s.Data, 0, 64), cut(s.Data, 64, s.Want)
	if len(s.Req) > 0 {
		h.Req, n.Req = cut(s.Req, 0, 64), cut(s.Req, 64, s.Want)
	}
	switch {
	case s.Res == "ok":
		return []c02Sys{h, n}
	case len(s.Data) < 64: // failed inside the header: the name was never attempted
		return []c02Sys{h}
	case len(s.Data) == 64:
		h.Res, n.Res = "ok", "err"
		return []c02Sys{h, n}
	default:
		h.Res = "ok"
		return []c02Sys{h, n}
	}
}

func c02MergeShort(sys []c02Sys) []c02Sys {
	var split []c02Sys
	for _, s := range sys {
		split = append(split, c02SplitHeaderName(s)...)
	}
	sys = split
	var out []c02Sys
	for i := 0; i < len(sys); i++ {
		s := sys[i]
		if s.Op == "write" && s.Res == "short" && i+1 < len(sys) {
			n := sys[i+1]
			if n.Op == "write" && n.Res == "err" && n.Path == s.Path && n.Off == s.Off+int64(len(s.Data)) && n.Want == s.Want-len(s.Data) {
				i++
			}
		}
		out = append(out, s)
	}
	return out
}

func c02LogLine(verb string, idx int, s c02Sys) string {
	to := s.To
	if to == "" {
		to = "-"
	}
	kind := s.Kind
	if kind == "" || s.Op != "write" {
		kind = "-"
	}
	n := s.Want
	if s.Op == "trunc" {
		n = int(s.Off)
	}
	return fmt.Sprintf("%s %d %s %s %s %d %d %s %s %s", verb, idx, s.Op, s.Path, to, s.Off, n, kind, s.Res, c02Hex(s.Data))
}

func c02ParseLogLine(f []string) c02Sys {
	// verb idx op path to off len kind res hex
	s := c02Sys{Op: f[2], Path: f[3], To: f[4], Kind: f[7], Res: f[8]}
	if s.To == "-" {
		s.To = ""
	}
	s.Off, _ = strconv.ParseInt(f[5], 10, 64)
	s.Want, _ = strconv.Atoi(f[6])
	if len(f) > 9 {
		s.Data = c02Unhex(f[9])
	}
	return s
}

// entries (key.size) of the blocks written to the temp file in a region, in order
func c02TempOrder(cl *c02Classifier, sys []c02Sys) string {
	var parts []string
	for _, s := range sys {
		if s.Op == "write" && s.Path == "temp" && strings.HasPrefix(s.Kind, "bh:") {
			id, _ := strconv.Atoi(s.Kind[3:])
			b := cl.blocks[id]
			es, ss := strings.Split(b.Ents, ";"), strings.Split(b.Sizes, ";")
			for i, e := range es {
				ef := strings.Split(e, ".")
				if len(ef) >= 2 {
					parts = append(parts, ef[1]+"."+ss[i])
				}
			}
		}
	}
	if len(parts) == 0 {
		return "-"
	}
	return strings.Join(parts, ",")
}

func c02HasTempCreateOrWrite(sys []c02Sys) bool {
	for _, s := range sys {
		if s.Path == "temp" && (s.Op == "create" || s.Op == "write" || s.Op == "rename") {
			return true
		}
	}
	return false
}

func c02LastSync(ops []c02Sys, i int) int {
	for m := i - 1; m >= 0; m-- {
		if (ops[m].Op == "sync" && ops[m].Res == "ok") || ops[m].Cmd == -1 {
			return m + 1 // planted files / hand-made cuts are set-up, not part of the crashable history
		}
	}
	return 0
}

// torn offsets of a write of n bytes
func c02TornOffsets(n int, thorough bool) []int {
	set := map[int]bool{}
	if thorough {
		for k := 1; k < n; k++ {
			set[k] = true
		}
	} else {
		for _, k := range []int{1, 15, 16, 17, n / 2, n - 1} {
			if k > 0 && k < n {
				set[k] = true
			}
		}
	}
	var out []int
	for k := range set {
		out = append(out, k)
	}
	sort.Ints(out)
	return out
}

// crash points for operations [from, to] of a log: every boundary, torn writes, and lossy
// variants (data of the writes since j lost, metadata kept)
// A fourth component z > 0 is a zero extension: the size of the in-flight write reached the disk,
// the bytes behind its first k did not (they read as zeros) — what a power loss can leave.
func c02ImagePoints(ops []c02Sys, from, to int, thorough bool, maxTorn int) [][4]int {
	var out [][4]int
	for i := from; i <= to && i <= len(ops); i++ {
		out = append(out, [4]int{i, i, 0, 0})
		if i < len(ops) && ops[i].Op == "write" && ops[i].Path == "main" && ops[i].Off > 0 && len(ops[i].Data) <= maxTorn {
			out = append(out, [4]int{i, i, 0, len(ops[i].Data)})
		}
		if i < len(ops) && ops[i].Op == "write" && len(ops[i].Data) <= maxTorn {
			ks := c02TornOffsets(len(ops[i].Data), thorough)
			if ops[i].Kind == "nm" {
				// A torn name shifts every later block header; with m name bytes missing the reader takes
				// header bytes [m, m+4) as CompressedSize and allocates that much (up to 4 GiB: the
				// unbounded-allocation defect that C04 is about).  Only the shifts that land on small
				// fields are explored here, to keep the run fast.
				ks = nil
				n := len(ops[i].Data)
				for _, m := range []int{3, 4, 6} {
					if n-m > 0 {
						ks = append(ks, n-m)
					}
				}
				sort.Ints(ks)
			}
			for _, k := range ks {
				out = append(out, [4]int{i, i, k, 0})
				// (bytes that are zero anyway would make the extension the finished write: nothing new)
				if ops[i].Path == "main" && ops[i].Off > 0 && ops[i].Kind != "nm" && k < len(ops[i].Data) &&
					bytes.Count(ops[i].Data[k:], []byte{0}) != len(ops[i].Data)-k {
					out = append(out, [4]int{i, i, k, len(ops[i].Data) - k})
				}
			}
		}
		ls := c02LastSync(ops, i)
		// lossy: only useful when a metadata operation lies in (j, i)
		for j := ls; j < i; j++ {
			meta := false
			for m := j + 1; m < i; m++ {
				if ops[m].Op != "write" && ops[m].Op != "sync" {
					meta = true
				}
			}
			if !meta {
				continue
			}
			out = append(out, [4]int{i, j, 0, 0})
			if ops[j].Op == "write" && len(ops[j].Data) > 1 {
				out = append(out, [4]int{i, j, len(ops[j].Data) / 2, 0})
			}
		}
	}
	return out
}

// c02EmitCase writes the ops lines of one traced case. imgRegion(cmd index) says whether crash
// images are wanted for the operations of that command.
func c02EmitCase(w *bufio.Writer, co c02CaseOut, imgFor func(ki int, c c02CmdOut) (want, fromTemp bool), thorough bool, withProbe bool) {
	fmt.Fprintf(w, "case %s %s\n", co.In.ID, co.In.Title)
	nl := len(co.Spec.name)
	fmt.Fprintf(w, "cfg kind=%s bs=%d thr=%g name=%s nl=%d\n", co.Spec.kind, co.Spec.bs, co.Spec.thr, c02Dash(co.Spec.name), nl)
	if withProbe {
		// the block a post-recovery append of the probe record produces (real encoder)
		tr, _ := c02MakeTreasure(c02ProbeItem())
		g := tr.StartTreasureGuard(false, guard.BodyAuthID)
		data, _ := tr.ConvertToByte(g)
		tr.ReleaseTreasureGuard(g)
		if bh, pay, err := v2.CompressEntries([]v2.Entry{{Operation: v2.OpInsert, Key: c02KeyName(c02ProbeKey), Data: data}}); err == nil && bh != nil {
			co.Cl.register(bh.Serialize(), pay)
		}
	}
	for _, b := range co.Cl.blocks {
		fmt.Fprintf(w, "blk %d %s %d %s %s\n", b.ID, hex.EncodeToString(b.Hdr), len(b.Pay), b.Ents, b.Sizes)
	}
	var ops []c02Sys
	live := map[int]bool{} // keys alive according to the commands (used when a failed compaction shows no block)
	for ki, c := range co.Cmds {
		f := strings.Fields(c.Text)
		start := len(ops)
		if f[0] == "w" {
			for _, it := range strings.Split(f[1], ",") {
				it, _ = c02ItemTimes(it)
				p := strings.Split(it, ":")
				k, _ := strconv.Atoi(p[1])
				if p[0] == "p" {
					live[k] = true
				} else {
					delete(live, k)
				}
			}
		}
		for _, p := range c.Plant {
			fmt.Fprintln(w, c02LogLine("plant", len(ops), p))
			ops = append(ops, p)
		}
		compacted := c02HasTempCreateOrWrite(c.Sys)
		order := c02TempOrder(co.Cl, c.Sys)
		if compacted && order == "-" && co.Faulty {
			// the only block of the compaction never made it to the temp: the entries are the live keys
			var ks []int
			for k := range live {
				ks = append(ks, k)
			}
			sort.Ints(ks)
			var parts []string
			for _, k := range ks {
				parts = append(parts, strconv.Itoa(k)+".0")
			}
			if len(parts) > 0 {
				order = strings.Join(parts, ",")
			}
		}
		if co.Faulty && len(c.Sys) > 0 {
			var rs []string
			for _, s := range c.Sys {
				r := s.Res
				if r == "short" {
					r = "short:" + strconv.Itoa(len(s.Data))
				}
				rs = append(rs, r)
			}
			fmt.Fprintln(w, "res "+strings.Join(rs, ","))
			// a block whose header write failed never shows its payload: hand the model the 16
			// header bytes the code tried to write (they steer the reader if a fragment stays behind)
			for _, s := range c.Sys {
				if s.Op == "write" && s.Want == 16 && s.Res != "ok" && len(s.Req) == 16 && !strings.HasPrefix(s.Kind, "b") {
					fmt.Fprintln(w, "phantom "+hex.EncodeToString(s.Req))
					break
				}
			}
		}
		switch f[0] {
		case "chron":
			fmt.Fprintln(w, "act new")
		case "w":
			var items []string
			sizes := []string{}
			if i := strings.Index(c.Res, "sz="); i >= 0 {
				sizes = strings.Split(c.Res[i+3:], ",")
			}
			for i, it := range strings.Split(f[1], ",") {
				it, times := c02ItemTimes(it)
				p := strings.Split(it, ":")
				sz := "0"
				if i < len(sizes) {
					sz = sizes[i]
				}
				suffix := ""
				if times != 1 {
					suffix = "*" + strconv.Itoa(times)
				}
				if p[0] == "p" {
					items = append(items, "p."+p[1]+"."+p[2]+"."+sz+suffix)
				} else {
					items = append(items, "d."+p[1]+"."+sz+suffix)
				}
			}
			fmt.Fprintln(w, "act w "+strings.Join(items, ","))
			if compacted {
				fmt.Fprintln(w, "act compact locked "+order)
			}
		case "sync":
			fmt.Fprintln(w, "act sync "+c02ResWord(c.Res))
		case "close":
			fmt.Fprintln(w, "act close "+c02ResWord(c.Res))
			if compacted {
				fmt.Fprintln(w, "act compact locked "+order)
			}
		case "force":
			if compacted {
				fmt.Fprintln(w, "act compact locked "+order)
			} else {
				fmt.Fprintln(w, "act compact locked skip")
			}
		case "cli":
			if compacted {
				fmt.Fprintln(w, "act compact cli "+order)
			} else {
				fmt.Fprintln(w, "act compact cli skip")
			}
		case "load":
			st := strings.TrimPrefix(c.Res, "ok ")
			if compacted {
				fmt.Fprintln(w, "act load "+order+" "+st)
			} else {
				fmt.Fprintln(w, "act load - "+st)
			}
		case "size":
			fmt.Fprintln(w, "act size "+strings.TrimPrefix(c.Res, "ok "))
		case "probe":
			fmt.Fprintln(w, "act probe "+strings.TrimPrefix(c.Res, "ok "))
		case "plant", "live", "fsize", "fsizeplus", "cut", "zap":
		default:
			fmt.Fprintln(w, "act "+c.Text)
		}
		for _, s := range c.Sys {
			fmt.Fprintln(w, c02LogLine("log", len(ops), s))
			ops = append(ops, s)
		}
		want, fromTemp := false, false
		if imgFor != nil {
			want, fromTemp = imgFor(ki, c)
		}
		if want && fromTemp {
			first := -1
			for m := start; m < len(ops); m++ {
				if ops[m].Path == "temp" && ops[m].Kind != "plant" && !(m < start+len(c.Plant)) {
					first = m
					break
				}
			}
			if first < 0 {
				want = false
			}
			start = first
		}
		if want && len(ops) > start {
			for _, p := range c02ImagePoints(ops, start, len(ops), thorough, 1<<20) {
				if p[3] > 0 {
					fmt.Fprintf(w, "img %d %d %d %d\n", p[0], p[1], p[2], p[3])
				} else {
					fmt.Fprintf(w, "img %d %d %d\n", p[0], p[1], p[2])
				}
			}
		}
		// power loss right after an acknowledged Sync/Close: everything not fsynced is gone.  With the
		// fsync in place this is the plain boundary image; without it the acknowledged records vanish.
		if imgFor != nil && !co.Faulty && (f[0] == "sync" || f[0] == "close") && strings.HasPrefix(c.Res, "ok") {
			if ls := c02LastSync(ops, len(ops)); ls < len(ops) {
				fmt.Fprintf(w, "img %d %d 0\n", len(ops), ls)
			}
		}
	}
	fmt.Fprintln(w, "end")
}

func c02Dash(s string) string {
	if s == "" {
		return "-"
	}
	return s
}

func c02ResWord(r string) string {
	f := strings.Fields(r)
	if len(f) == 0 {
		return "?"
	}
	if f[0] == "err" && len(f) > 1 {
		return "err"
	}
	return f[0]
}

// ---------------------------------------------------------------- run phase: implementation replies

// image of the log at crash point (i, j, k): operations [0,j) applied, operation j cut after k
// bytes (a non-write: done iff k > 0), then — when j < i — the metadata operations of (j, i)
func c02Image(ops []c02Sys, i, j, k int) c02Files {
	d := c02Files{}
	if i <= j {
		j = i
	}
	for m := 0; m < j && m < len(ops); m++ {
		d.apply(ops[m], -1)
	}
	if j < len(ops) {
		if ops[j].Op == "write" {
			d.apply(ops[j], k)
		} else if k > 0 {
			d.apply(ops[j], -1)
		}
	}
	for m := j + 1; m < i && m < len(ops); m++ {
		if ops[m].Op != "write" {
			d.apply(ops[m], -1)
		}
	}
	return d
}

type c02Replay struct {
	spec   c02Chron
	ops    []c02Sys
	blocks map[string]string // id -> ents
	dir    string
	probe  bool
}

func (r *c02Replay) kindText(k string) string {
	if strings.HasPrefix(k, "bh:") || strings.HasPrefix(k, "bp:") {
		if e, ok := r.blocks[k[3:]]; ok {
			return k[:3] + e
		}
	}
	return k
}

// load the image through the real reader and the real chronicler; then append the probe record
// through the real chronicler (Write + Sync + Close) and load again
func (r *c02Replay) evalImage(d c02Files) string {
	if err := c02Materialise(d, r.dir); err != nil {
		return "machinery " + err.Error()
	}
	l := c02LoadIndex(r.dir)
	live := 0
	spec := r.spec
	spec.live = &live
	ch, c := c02ChronLoad(spec, r.dir)
	out := "L:" + l + " C:" + c
	if r.probe {
		tr, _ := c02MakeTreasure(c02ProbeItem())
		ch.Write([]treasure.Treasure{tr})
		_ = ch.Sync()
		_ = ch.Close()
		_, a := c02ChronLoad(spec, r.dir)
		out += " A:" + a
	}
	return out
}

// c02RunOps answers an ops file from the implementation side.
func c02TmpRoot() string {
	if st, err := os.Stat("/dev/shm"); err == nil && st.IsDir() {
		return "/dev/shm"
	}
	return ""
}

func c02Quiet() { slog.SetDefault(slog.New(slog.NewTextHandler(io.Discard, nil))) }

func c02RunOps(in *bufio.Scanner, w *bufio.Writer, probe bool) {
	c02Quiet()
	tmp, _ := os.MkdirTemp(c02TmpRoot(), "hximg-")
	defer os.RemoveAll(tmp)
	r := &c02Replay{dir: filepath.Join(tmp, "img"), probe: probe}
	for in.Scan() {
		line := in.Text()
		f := strings.Fields(line)
		if len(f) == 0 {
			fmt.Fprintln(w, "bad-op")
			continue
		}
		switch f[0] {
		case "case":
			r.ops = nil
			r.blocks = map[string]string{}
			fmt.Fprintln(w, line)
		case "cfg":
			kv := map[string]string{}
			for _, x := range f[1:] {
				p := strings.SplitN(x, "=", 2)
				if len(p) == 2 {
					kv[p[0]] = p[1]
				}
			}
			r.spec = c02Chron{kind: kv["kind"]}
			r.spec.bs, _ = strconv.Atoi(kv["bs"])
			r.spec.thr, _ = strconv.ParseFloat(kv["thr"], 64)
			if kv["name"] != "-" {
				r.spec.name = kv["name"]
			}
			fmt.Fprintln(w, "ok")
		case "blk":
			r.blocks[f[1]] = f[4]
			fmt.Fprintln(w, "ok")
		case "res", "phantom":
			fmt.Fprintln(w, "ok")
		case "sw":
			// a command on a real swamp (C25): its result was recorded by the run itself
			if len(f) > 2 && f[1] == "load" {
				fmt.Fprintln(w, "ok "+f[len(f)-1])
			} else {
				fmt.Fprintln(w, "ok")
			}
		case "act":
			switch f[1] {
			case "load":
				fmt.Fprintln(w, "ok "+f[len(f)-1])
			case "sync", "close", "size", "probe":
				fmt.Fprintln(w, "ok "+f[len(f)-1])
			default:
				fmt.Fprintln(w, "ok")
			}
		case "plant":
			s := c02ParseLogLine(f)
			r.ops = append(r.ops, s)
			fmt.Fprintln(w, "ok")
		case "log":
			s := c02ParseLogLine(f)
			r.ops = append(r.ops, s)
			to := f[4]
			res := s.Res
			if res == "short" {
				res = "short:" + strconv.Itoa(len(s.Data))
			}
			kind := r.kindText(s.Kind)
			if s.Res != "ok" {
				kind = "-" // a failed write is compared by position and length only
			}
			fmt.Fprintf(w, "%s %s %s %s %s %s %s\n", s.Op, s.Path, to, f[5], f[6], kind, res)
		case "img":
			i, _ := strconv.Atoi(f[1])
			j, _ := strconv.Atoi(f[2])
			k, _ := strconv.Atoi(f[3])
			img := c02Image(r.ops, i, j, k)
			if len(f) > 4 { // zero extension of the main file
				z, _ := strconv.Atoi(f[4])
				if m, ok := img["main"]; ok {
					img["main"] = append(append([]byte(nil), m...), make([]byte, z)...)
				}
			}
			fmt.Fprintln(w, r.evalImage(img))
		case "end":
			fmt.Fprintln(w, "end")
		case "tick", "tick0", "tickdel":
			n, _ := strconv.Atoi(f[1])
			fmt.Fprintln(w, "tick "+c02TickMode(n, f[0]))
		default:
			fmt.Fprintln(w, "bad-op")
		}
	}
}
