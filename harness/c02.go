package main

// Storage crash/compaction/fault rig shared by C02, C03 and C25 (all identifiers prefixed c02).
//
// The real chronicler / FileWriter / Compactor run in a child process (this binary re-executed
// with HX_STOR_WORKER set) under
//   strace -f -y -xx -s 100000000 -e trace=openat,write,pwrite64,lseek,fsync,fdatasync,ftruncate,
//          rename,renameat,renameat2,unlink,unlinkat
// so the exact syscall log of the unmodified code is captured — no repo hooks.  The worker
// announces each script command with a failing openat("/hxmark/<n>"), which delimits the log.
//
// Two-phase protocol:
//   hx run C02T|C03T|C25T < script cases      → ops file (blk / act / log / img lines)
//   hx run C02|C03|C25    < ops file          → implementation replies
//   drv C02|C03|C25       < ops file          → model replies

import (
	"bufio"
	"bytes"
	"encoding/binary"
	"encoding/hex"
	"fmt"
	"io"
	"math/rand"
	"os"
	"os/exec"
	"os/signal"
	"path/filepath"
	"regexp"
	"sort"
	"strconv"
	"strings"
	"syscall"

	"github.com/hydraide/hydraide/app/core/hydra/swamp/beacon"
	"github.com/hydraide/hydraide/app/core/hydra/swamp/chronicler"
	v2 "github.com/hydraide/hydraide/app/core/hydra/swamp/chronicler/v2"
	"github.com/hydraide/hydraide/app/core/hydra/swamp/treasure"
	"github.com/hydraide/hydraide/app/core/hydra/swamp/treasure/guard"
)

func init() {
	if os.Getenv("HX_STOR_WORKER") != "" {
		c02WorkerMain(os.Getenv("HX_STOR_WORKER"))
		os.Exit(0)
	}
}

// ---------------------------------------------------------------- worker (child, traced)

const c02MarkPrefix = "/hxmark/"

func c02Mark(n int) {
	fd, err := syscall.Open(c02MarkPrefix+strconv.Itoa(n), syscall.O_RDONLY, 0)
	if err == nil {
		syscall.Close(fd)
	}
}

func c02KeyName(k int) string { return "k" + strconv.Itoa(k) }

// content string of a live record: "v=<v>;" followed by deterministic padding
func c02Content(v, pad int) string {
	var b strings.Builder
	fmt.Fprintf(&b, "v=%d;", v)
	x := uint32(v*2654435761) | 1
	for i := 0; i < pad; i++ {
		x ^= x << 13
		x ^= x >> 17
		x ^= x << 5
		b.WriteByte("abcdefghijklmnopqrstuvwxyz0123456789ABCDEFGHIJKLMNOPQRSTUVWXYZ-_"[x&63])
	}
	return b.String()
}

func c02ParseContent(s string) string {
	if strings.HasPrefix(s, "v=") {
		if i := strings.IndexByte(s, ';'); i > 2 {
			return s[2:i]
		}
	}
	return "?"
}

func c02MakeTreasure(item string) (treasure.Treasure, string) {
	f := strings.Split(item, ":")
	tr := treasure.New(nil)
	g := tr.StartTreasureGuard(false, guard.BodyAuthID)
	defer tr.ReleaseTreasureGuard(g)
	switch f[0] {
	case "p":
		k, _ := strconv.Atoi(f[1])
		v, _ := strconv.Atoi(f[2])
		pad := 0
		if len(f) > 3 {
			pad, _ = strconv.Atoi(f[3])
		}
		tr.BodySetKey(g, c02KeyName(k))
		tr.SetContentString(g, c02Content(v, pad))
		data, err := tr.ConvertToByte(g)
		if err != nil {
			return tr, "?"
		}
		return tr, strconv.Itoa(7 + len(c02KeyName(k)) + len(data))
	case "d":
		k, _ := strconv.Atoi(f[1])
		tr.BodySetKey(g, c02KeyName(k))
		tr.BodySetForDeletion(g, "hx", false)
		return tr, strconv.Itoa(7 + len(c02KeyName(k)))
	}
	return tr, "?"
}

func c02BeaconState(b beacon.Beacon) string {
	var parts []string
	for k, t := range b.GetAll() {
		s, err := t.GetContentString()
		v := "?"
		if err == nil {
			v = c02ParseContent(s)
		}
		parts = append(parts, strings.TrimPrefix(k, "k")+"="+v)
	}
	return c02SortState(parts)
}

func c02SortState(parts []string) string {
	sort.Slice(parts, func(i, j int) bool {
		a, _ := strconv.Atoi(strings.SplitN(parts[i], "=", 2)[0])
		b, _ := strconv.Atoi(strings.SplitN(parts[j], "=", 2)[0])
		if a != b {
			return a < b
		}
		return parts[i] < parts[j]
	})
	if len(parts) == 0 {
		return "-"
	}
	return strings.Join(parts, ",")
}

// value token of raw entry data (a gob-encoded treasure)
func c02DataToken(data []byte) string {
	tr := treasure.New(nil)
	g := tr.StartTreasureGuard(false, guard.BodyAuthID)
	defer tr.ReleaseTreasureGuard(g)
	if err := tr.LoadFromByte(g, data, "x"); err != nil {
		return "?"
	}
	s, err := tr.GetContentString()
	if err != nil {
		return "?"
	}
	return c02ParseContent(s)
}

type c02Chron struct {
	kind string // cfg | name
	bs   int
	thr  float64
	name string
	live *int
}

func (c c02Chron) make(dir string) chronicler.Chronicler {
	var ch chronicler.Chronicler
	base := filepath.Join(dir, "sw")
	if c.kind == "name" {
		ch = chronicler.NewV2WithName(base, 2, c.name)
	} else {
		ch = chronicler.NewV2WithConfig(base, 2, c.bs, c.thr)
	}
	ch.CreateDirectoryIfNotExists()
	ch.DontSendFilePointer()
	if c.live != nil {
		lp := c.live
		ch.RegisterLiveCountFunction(func() int { return *lp })
	}
	return ch
}

func c02ParseChron(f []string, live *int) c02Chron {
	c := c02Chron{kind: f[0], live: live}
	if f[0] == "name" {
		c.name = f[1]
		c.bs = v2.DefaultMaxBlockSize
	} else {
		c.bs, _ = strconv.Atoi(f[1])
		c.thr, _ = strconv.ParseFloat(f[2], 64)
	}
	return c
}

func c02WorkerMain(script string) {
	// SIGXFSZ must not kill the worker when RLIMIT_FSIZE is used for short writes
	c02IgnoreXFSZ()
	in, err := os.Open(script)
	if err != nil {
		fmt.Fprintln(os.Stderr, "worker:", err)
		os.Exit(3)
	}
	out := bufio.NewWriter(os.Stdout)
	defer out.Flush()
	sc := bufio.NewScanner(in)
	sc.Buffer(make([]byte, 1<<20), 1<<28)
	var dir string
	var spec c02Chron
	var ch chronicler.Chronicler
	live := 0
	n := 0
	for sc.Scan() {
		line := sc.Text()
		f := strings.Fields(line)
		if len(f) == 0 {
			continue
		}
		res := "ok"
		c02Mark(n)
		func() {
			defer func() {
				if r := recover(); r != nil {
					res = fmt.Sprintf("panic %v", r)
				}
			}()
			switch f[0] {
			case "dir":
				dir = f[1]
				_ = os.MkdirAll(dir, 0o755)
				ch = nil
				live = 0
			case "chron":
				spec = c02ParseChron(f[1:], &live)
				ch = spec.make(dir)
			case "live":
				live, _ = strconv.Atoi(f[1])
			case "w":
				var batch []treasure.Treasure
				var sizes []string
				for _, it := range strings.Split(f[1], ",") {
					t, sz := c02MakeTreasure(it)
					batch = append(batch, t)
					sizes = append(sizes, sz)
				}
				ch.Write(batch)
				res = "ok sz=" + strings.Join(sizes, ",")
			case "sync":
				if err := ch.Sync(); err != nil {
					res = "err " + c02ErrKind(err)
				}
			case "close":
				if err := ch.Close(); err != nil {
					res = "err " + c02ErrKind(err)
				}
			case "force":
				if err := ch.ForceCompaction(); err != nil {
					res = "err " + c02ErrKind(err)
				}
			case "load":
				b := beacon.New()
				ch.Load(b)
				live = b.Count()
				res = "ok " + c02BeaconState(b)
			case "cli":
				thr, _ := strconv.ParseFloat(f[1], 64)
				r, err := v2.NewCompactor(filepath.Join(dir, "sw.hyd"), v2.DefaultMaxBlockSize, thr).Compact()
				if err != nil {
					res = "err " + c02ErrKind(err)
				} else if r != nil && r.Compacted {
					res = "ok compacted"
				} else {
					res = "ok skipped"
				}
			case "plant":
				p := filepath.Join(dir, "sw.hyd")
				if f[1] == "temp" {
					p += ".compact"
				}
				b, _ := hex.DecodeString(f[2])
				if err := os.WriteFile(p, b, 0o644); err != nil {
					res = "err " + err.Error()
				}
			case "fsize":
				// RLIMIT_FSIZE soft limit (0 = unlimited again)
				lim, _ := strconv.ParseUint(f[1], 10, 64)
				c02SetFsize(lim)
			default:
				res = "bad-cmd"
			}
		}()
		fmt.Fprintf(out, "r %d %s\n", n, res)
		out.Flush()
		n++
	}
	c02Mark(n)
}

func c02ErrKind(err error) string {
	s := err.Error()
	switch {
	case strings.Contains(s, "input/output error"):
		return "eio"
	case strings.Contains(s, "file too large"):
		return "efbig"
	case strings.Contains(s, "no space"):
		return "enospc"
	case strings.Contains(s, "closed"):
		return "closed"
	}
	return "other:" + strings.ReplaceAll(s, " ", "_")
}

func c02IgnoreXFSZ() { signal.Ignore(syscall.SIGXFSZ) }

func c02SetFsize(lim uint64) {
	var rl syscall.Rlimit
	_ = syscall.Getrlimit(syscall.RLIMIT_FSIZE, &rl)
	if lim == 0 {
		rl.Cur = rl.Max
	} else {
		rl.Cur = lim
	}
	_ = syscall.Setrlimit(syscall.RLIMIT_FSIZE, &rl)
}

// ---------------------------------------------------------------- tracer (parent)

type c02Sys struct {
	Cmd  int    // script command index the syscall belongs to
	Op   string // create | write | sync | rename | unlink | trunc
	Path string // main | temp | other
	To   string // rename target
	Off  int64
	Data []byte // bytes actually transferred (short writes: the prefix)
	Want int    // bytes requested (write)
	Res  string // ok | err | short
}

var (
	c02ReUnfinished = regexp.MustCompile(`^(.*) <unfinished \.\.\.>$`)
	c02ReResumed    = regexp.MustCompile(`^<\.\.\. (\w+) resumed>(.*)$`)
	c02RePid        = regexp.MustCompile(`^(?:\[pid\s+(\d+)\]\s+|(\d+)\s+)?(.*)$`)
	c02ReCall       = regexp.MustCompile(`^(\w+)\((.*)\)\s+=\s+(-?\d+|\?)(.*)$`)
	c02ReFd         = regexp.MustCompile(`^(\d+)<([^>]*)>`)
)

func c02ClassPath(p, dir string) string {
	if strings.HasPrefix(p, "\\x") {
		p = string(c02Unescape(p))
	}
	switch p {
	case filepath.Join(dir, "sw.hyd"):
		return "main"
	case filepath.Join(dir, "sw.hyd.compact"):
		return "temp"
	}
	return "other"
}

func c02Unescape(s string) []byte {
	// strace -xx string: every byte as \xHH
	out := make([]byte, 0, len(s)/4)
	for i := 0; i+3 < len(s); {
		if s[i] == '\\' && s[i+1] == 'x' {
			b, err := strconv.ParseUint(s[i+2:i+4], 16, 8)
			if err == nil {
				out = append(out, byte(b))
			}
			i += 4
		} else {
			i++
		}
	}
	return out
}

// split top-level arguments of a syscall (strings may contain commas)
func c02SplitArgs(s string) []string {
	var out []string
	depth, inStr, start := 0, false, 0
	for i := 0; i < len(s); i++ {
		c := s[i]
		switch {
		case inStr:
			if c == '\\' {
				i++
			} else if c == '"' {
				inStr = false
			}
		case c == '"':
			inStr = true
		case c == '(' || c == '[' || c == '{' || c == '<':
			depth++
		case c == ')' || c == ']' || c == '}' || c == '>':
			depth--
		case c == ',' && depth == 0:
			out = append(out, strings.TrimSpace(s[start:i]))
			start = i + 1
		}
	}
	out = append(out, strings.TrimSpace(s[start:]))
	return out
}

func c02Quoted(a string) string {
	i := strings.IndexByte(a, '"')
	j := strings.LastIndexByte(a, '"')
	if i < 0 || j <= i {
		return ""
	}
	return a[i+1 : j]
}

// c02ParseTrace turns strace output into the per-case file-operation log.  dirOf(cmd) gives the
// case directory that is current for a script command.
func c02ParseTrace(r io.Reader, dirOf func(cmd int) string) ([]c02Sys, error) {
	sc := bufio.NewScanner(r)
	sc.Buffer(make([]byte, 1<<20), 1<<30)
	pending := map[string]string{}
	offs := map[string]int64{} // fd key (pid-independent: threads share fds) -> offset
	var out []c02Sys
	cmd := -1
	for sc.Scan() {
		line := sc.Text()
		m := c02RePid.FindStringSubmatch(line)
		pid := m[1] + m[2]
		body := m[3]
		if u := c02ReUnfinished.FindStringSubmatch(body); u != nil {
			pending[pid] = u[1]
			continue
		}
		if rs := c02ReResumed.FindStringSubmatch(body); rs != nil {
			body = pending[pid] + rs[2]
			delete(pending, pid)
		}
		cm := c02ReCall.FindStringSubmatch(body)
		if cm == nil {
			continue
		}
		name, argstr, retS, tail := cm[1], cm[2], cm[3], cm[4]
		ret, _ := strconv.ParseInt(retS, 10, 64)
		args := c02SplitArgs(argstr)
		dir := dirOf(cmd)
		switch name {
		case "openat":
			if len(args) < 3 {
				continue
			}
			p := c02Quoted(args[1])
			pb := string(c02Unescape(p))
			if strings.HasPrefix(pb, c02MarkPrefix) {
				cmd, _ = strconv.Atoi(strings.TrimPrefix(pb, c02MarkPrefix))
				continue
			}
			cls := c02ClassPath(pb, dir)
			if cls == "other" {
				continue
			}
			trunc := strings.Contains(args[2], "O_TRUNC")
			if ret >= 0 {
				offs[retS] = 0
				if trunc {
					out = append(out, c02Sys{Cmd: cmd, Op: "create", Path: cls, Res: "ok"})
				}
			} else if trunc {
				out = append(out, c02Sys{Cmd: cmd, Op: "create", Path: cls, Res: "err"})
			}
		case "write", "pwrite64":
			fm := c02ReFd.FindStringSubmatch(args[0])
			if fm == nil {
				continue
			}
			cls := c02ClassPath(fm[2], dir)
			if cls == "other" {
				continue
			}
			data := c02Unescape(c02Quoted(args[1]))
			want, _ := strconv.Atoi(args[2])
			s := c02Sys{Cmd: cmd, Op: "write", Path: cls, Want: want}
			if name == "pwrite64" {
				s.Off, _ = strconv.ParseInt(args[3], 10, 64)
			} else {
				s.Off = offs[fm[1]]
			}
			switch {
			case ret < 0:
				s.Res = "err"
			case int(ret) < want:
				s.Res = "short"
				s.Data = data[:ret]
			default:
				s.Res = "ok"
				s.Data = data
			}
			if ret > 0 && name == "write" {
				offs[fm[1]] += ret
			}
			out = append(out, s)
		case "lseek":
			fm := c02ReFd.FindStringSubmatch(args[0])
			if fm == nil {
				continue
			}
			if ret >= 0 {
				offs[fm[1]] = ret
			}
		case "fsync", "fdatasync":
			fm := c02ReFd.FindStringSubmatch(args[0])
			if fm == nil {
				continue
			}
			cls := c02ClassPath(fm[2], dir)
			if cls == "other" {
				continue
			}
			res := "ok"
			if ret < 0 {
				res = "err"
			}
			out = append(out, c02Sys{Cmd: cmd, Op: "sync", Path: cls, Res: res})
		case "ftruncate":
			fm := c02ReFd.FindStringSubmatch(args[0])
			if fm == nil {
				continue
			}
			cls := c02ClassPath(fm[2], dir)
			if cls == "other" {
				continue
			}
			n, _ := strconv.ParseInt(args[1], 10, 64)
			res := "ok"
			if ret < 0 {
				res = "err"
			}
			out = append(out, c02Sys{Cmd: cmd, Op: "trunc", Path: cls, Off: n, Res: res})
		case "rename", "renameat", "renameat2":
			var a, b string
			if name == "rename" {
				a, b = c02Quoted(args[0]), c02Quoted(args[1])
			} else {
				a, b = c02Quoted(args[1]), c02Quoted(args[3])
			}
			ca, cb := c02ClassPath(string(c02Unescape(a)), dir), c02ClassPath(string(c02Unescape(b)), dir)
			if ca == "other" && cb == "other" {
				continue
			}
			res := "ok"
			if ret < 0 {
				res = "err"
			}
			out = append(out, c02Sys{Cmd: cmd, Op: "rename", Path: ca, To: cb, Res: res})
		case "unlink", "unlinkat":
			var a string
			if name == "unlink" {
				a = c02Quoted(args[0])
			} else {
				a = c02Quoted(args[1])
			}
			ca := c02ClassPath(string(c02Unescape(a)), dir)
			if ca == "other" {
				continue
			}
			if ret < 0 && strings.Contains(tail, "ENOENT") {
				continue // removing a file that is not there: no effect, not part of the log
			}
			res := "ok"
			if ret < 0 {
				res = "err"
			}
			out = append(out, c02Sys{Cmd: cmd, Op: "unlink", Path: ca, Res: res})
		}
	}
	return out, sc.Err()
}

const c02TraceSet = "trace=openat,write,pwrite64,lseek,fsync,fdatasync,ftruncate,rename,renameat,renameat2,unlink,unlinkat"

// c02RunTraced executes a worker script under strace. Returns worker result lines and the syscall log.
func c02RunTraced(script []string, extraStrace []string) (results []string, sys []c02Sys, err error) {
	tmp, err := os.MkdirTemp("", "hxstor-")
	if err != nil {
		return nil, nil, err
	}
	defer os.RemoveAll(tmp)
	sp := filepath.Join(tmp, "script")
	if err := os.WriteFile(sp, []byte(strings.Join(script, "\n")+"\n"), 0o644); err != nil {
		return nil, nil, err
	}
	tp := filepath.Join(tmp, "trace")
	self, _ := os.Executable()
	args := []string{"-f", "-y", "-xx", "-s", "100000000", "-o", tp, "-e", c02TraceSet}
	args = append(args, extraStrace...)
	args = append(args, self)
	cmd := exec.Command("strace", args...)
	cmd.Env = append(os.Environ(), "HX_STOR_WORKER="+sp)
	var so, se bytes.Buffer
	cmd.Stdout, cmd.Stderr = &so, &se
	runErr := cmd.Run()
	for _, l := range strings.Split(so.String(), "\n") {
		if strings.HasPrefix(l, "r ") {
			results = append(results, l)
		}
	}
	// directory in force for each command
	dirs := make([]string, len(script)+2)
	cur := ""
	for i, l := range script {
		if strings.HasPrefix(l, "dir ") {
			cur = strings.TrimSpace(l[4:])
		}
		dirs[i] = cur
	}
	dirs[len(script)], dirs[len(script)+1] = cur, cur
	tf, err := os.Open(tp)
	if err != nil {
		return results, nil, fmt.Errorf("no trace (%v): %s", runErr, se.String())
	}
	defer tf.Close()
	sys, err = c02ParseTrace(tf, func(c int) string {
		if c < 0 || c >= len(dirs) {
			return ""
		}
		return dirs[c]
	})
	if err == nil && runErr != nil && len(results) < len(script) {
		err = fmt.Errorf("worker failed: %v: %s", runErr, se.String())
	}
	return results, sys, err
}

// ---------------------------------------------------------------- block table

type c02Block struct {
	ID   int
	Hdr  []byte
	Pay  []byte
	Ents string // p.k.v;d.k;…
}

func c02EntsOf(hdr, pay []byte) (string, bool) {
	var bh v2.BlockHeader
	if err := bh.Deserialize(hdr); err != nil {
		return "", false
	}
	blk, err := v2.ParseBlock(&bh, pay)
	if err != nil {
		return "", false
	}
	var parts []string
	for _, e := range blk.Entries {
		k := strings.TrimPrefix(e.Key, "k")
		switch e.Operation {
		case v2.OpDelete:
			parts = append(parts, "d."+k)
		case v2.OpInsert, v2.OpUpdate:
			parts = append(parts, "p."+k+"."+c02DataToken(e.Data))
		default:
			parts = append(parts, "m."+k)
		}
	}
	return strings.Join(parts, ";"), true
}

// c02Classify labels the writes of a log: fh (64-byte file header at offset 0), nm (name bytes
// right after a header at offset 64), bh:<id>/bp:<id> (block header + payload pairs), raw.
// It also fills the block table.  A block header is recognised by shape only: a 16-byte write
// whose size field equals the requested length of the next write to the same file.
func c02Classify(sys []c02Sys) (kinds []string, blocks []c02Block) {
	kinds = make([]string, len(sys))
	byContent := map[string]int{}
	for i := 0; i < len(sys); i++ {
		s := sys[i]
		if s.Op != "write" {
			continue
		}
		if kinds[i] != "" {
			continue
		}
		full := s.Data
		switch {
		case s.Want == 64 && s.Off == 0 && ((len(full) >= 4 && string(full[:4]) == "HYDR") || s.Res == "err"):
			kinds[i] = "fh"
			if len(full) >= 46 {
				kinds[i] = "fh:" + strconv.Itoa(int(binary.LittleEndian.Uint16(full[44:46])))
			}
		case s.Off == 64 && i > 0 && strings.HasPrefix(kinds[i-1], "fh") && sys[i-1].Path == s.Path && s.Want != 16:
			kinds[i] = "nm"
		case s.Want == 16 && s.Res == "ok":
			// find the next write to the same path: the payload
			j := i + 1
			for j < len(sys) && !(sys[j].Op == "write" && sys[j].Path == s.Path) {
				j++
			}
			size := int(binary.LittleEndian.Uint32(full[0:4]))
			if j < len(sys) && sys[j].Want == size && sys[j].Res == "ok" {
				ents, ok := c02EntsOf(full, sys[j].Data)
				if ok {
					key := string(full) + string(sys[j].Data)
					id, seen := byContent[key]
					if !seen {
						id = len(blocks)
						byContent[key] = id
						blocks = append(blocks, c02Block{ID: id, Hdr: full, Pay: sys[j].Data, Ents: ents})
					}
					kinds[i] = "bh:" + strconv.Itoa(id)
					kinds[j] = "bp:" + strconv.Itoa(id)
					continue
				}
			}
			kinds[i] = "raw"
		default:
			kinds[i] = "raw"
		}
	}
	return
}

// ---------------------------------------------------------------- images

type c02Files map[string][]byte // "main"/"temp" -> content (absent key = no file)

func c02Splice(f []byte, off int64, data []byte) []byte {
	end := int(off) + len(data)
	if end > len(f) {
		nf := make([]byte, end)
		copy(nf, f)
		f = nf
	} else {
		f = append([]byte(nil), f...)
	}
	copy(f[off:], data)
	return f
}

func (d c02Files) clone() c02Files {
	n := c02Files{}
	for k, v := range d {
		n[k] = v
	}
	return n
}

// apply one logged operation (as it really happened: short writes apply their prefix, failed
// operations nothing); k >= 0 cuts a write after k bytes
func (d c02Files) apply(s c02Sys, k int) {
	switch s.Op {
	case "create":
		if s.Res == "ok" {
			d[s.Path] = []byte{}
		}
	case "write":
		data := s.Data
		if k >= 0 && k < len(data) {
			data = data[:k]
		}
		if f, ok := d[s.Path]; ok && len(data) > 0 {
			d[s.Path] = c02Splice(f, s.Off, data)
		}
	case "rename":
		if s.Res == "ok" && s.Path != s.To {
			if f, ok := d[s.Path]; ok {
				d[s.To] = f
				delete(d, s.Path)
			}
		}
	case "unlink":
		if s.Res == "ok" {
			delete(d, s.Path)
		}
	case "trunc":
		if f, ok := d[s.Path]; ok && s.Res == "ok" {
			nf := make([]byte, s.Off)
			copy(nf, f)
			d[s.Path] = nf
		}
	}
}

func c02Materialise(d c02Files, dir string) error {
	_ = os.RemoveAll(dir)
	if err := os.MkdirAll(dir, 0o755); err != nil {
		return err
	}
	for k, v := range d {
		p := filepath.Join(dir, "sw.hyd")
		if k == "temp" {
			p += ".compact"
		}
		if err := os.WriteFile(p, v, 0o644); err != nil {
			return err
		}
	}
	return nil
}

// LoadIndex through the real reader
func c02LoadIndex(dir string) string {
	p := filepath.Join(dir, "sw.hyd")
	if _, err := os.Stat(p); err != nil {
		return "nofile"
	}
	fr, err := v2.NewFileReader(p)
	if err != nil {
		return "err-open"
	}
	defer fr.Close()
	idx, _, err := fr.LoadIndex()
	if err != nil {
		return "err-load"
	}
	var parts []string
	for k, d := range idx {
		parts = append(parts, strings.TrimPrefix(k, "k")+"="+c02DataToken(d))
	}
	return c02SortState(parts)
}

func c02ChronLoad(spec c02Chron, dir string) (chronicler.Chronicler, string) {
	ch := spec.make(dir)
	b := beacon.New()
	ch.Load(b)
	if spec.live != nil {
		*spec.live = b.Count()
	}
	return ch, c02BeaconState(b)
}

// ---------------------------------------------------------------- small helpers

func c02Hex(b []byte) string {
	if len(b) == 0 {
		return "-"
	}
	return hex.EncodeToString(b)
}

func c02Unhex(s string) []byte {
	if s == "-" || s == "" {
		return nil
	}
	b, _ := hex.DecodeString(s)
	return b
}

func c02Pick(rng *rand.Rand, xs ...int) int { return xs[rng.Intn(len(xs))] }

// debugging aid: hx run C02dbg < worker script  → worker results + parsed syscall log
func init() {
	Register("C02dbg", Domain{Gen: func(*rand.Rand, string, *bufio.Writer) {}, Run: func(in *bufio.Scanner, w *bufio.Writer) {
		var script []string
		for in.Scan() {
			script = append(script, in.Text())
		}
		res, sys, err := c02RunTraced(script, strings.Fields(os.Getenv("HX_STRACE_EXTRA")))
		for _, r := range res {
			fmt.Fprintln(w, r)
		}
		if err != nil {
			fmt.Fprintln(w, "ERR", err)
		}
		kinds, blocks := c02Classify(sys)
		for _, b := range blocks {
			fmt.Fprintf(w, "blk %d %s %d %s\n", b.ID, hex.EncodeToString(b.Hdr), len(b.Pay), b.Ents)
		}
		for i, s := range sys {
			fmt.Fprintf(w, "sys cmd=%d %s %s->%s off=%d want=%d got=%d %s %s\n", s.Cmd, s.Op, s.Path, s.To, s.Off, s.Want, len(s.Data), s.Res, kinds[i])
		}
	}})
}
