package main

// Domain C14: forced schedules on the real business lock (app/core/hydra/lock).
//
// ops:   case N
//        lock K long|short [hold]   new caller S (numbered 1,2,… per case) calls Lock(ctx_S, K, ttl);
//                                   with `hold` the caller is stopped at the hook before its select
//        go S                       let a held caller run its select
//        cancel S                   cancel ctx_S
//        unlock S                   Unlock(key_S, id_S) — only by a caller whose Lock returned an id (may be stale)
//        unlockraw K X              Unlock(K, "bogus-X")
//        unlockx S K                Unlock(K, id_S) with S a caller of another key (foreign but genuine id)
//        expire S                   let S's TTL watchdog (short TTL, stopped at the hook) call remove
//        gwttl T… | gwcancel        gateway Lock/Unlock handlers (TTL floor and clamp, WithoutCancel)
//        gwrace                      the cancel-vs-grant race through the Lock RPC (its caller gives up while it is being granted)
//        lock K zero|neg|min         a TTL ≤ 0: the watchdog fires at once (treated like `short`)
// reply: <event> q=[S…] g=[S…] h=[S…]   queue, callers whose ready channel is closed, callers that
//                                   acquired and are still queued (all as caller numbers, from the
//                                   verif accessor — never from hook arguments)
//
// The select in Lock is the only scheduler-dependent choice: `go S` on a caller that is both
// granted and cancelled reports which branch the runtime took (`acq` or `cancel`); the check
// passes that observation to the model, which validates that the branch was enabled.

import (
	"bufio"
	"context"
	"fmt"
	"math/rand"
	"strconv"
	"strings"
	"sync"
	"time"

	"github.com/hydraide/hydraide/app/core/hydra/lock"
	"github.com/hydraide/hydraide/app/verifhook"
	hydrapb "github.com/hydraide/hydraide/sdk/go/hydraidego/v3/hydraidepbgo"
)

type c14Event struct {
	name  string
	id    string // queue pointer + raw id: lock ids need not be unique across keys
	raw   string
	flag  bool
	at    time.Time
	panic string
}

type c14Sess struct {
	n         int
	key       string
	id        string // the lock id as the lock package knows it
	qid       string // queue pointer + id (what hook events are matched on)
	short     bool
	cancel    context.CancelFunc
	held      bool // stopped at the lock.select hook
	cancelled bool
	acquired  bool // Lock returned an id
	gone      bool // Lock returned an error (cancel branch)
	expired   bool // `expire` already used
	released  bool // C28: the caller's own unlock / TTL took it out of the queue
	errored   bool // Lock returned an error (written before fin is closed)
	hold      chan struct{}
	fin       chan struct{} // closed when the Lock call has returned
}

// c14World owns one lock instance and the hook handler state of one case.
type c14World struct {
	mu       sync.Mutex
	lk       lock.Lock
	events   chan c14Event
	backlog  []c14Event
	known    map[string]bool          // ids enqueued in this case
	holdNext bool                     // stop the next caller at lock.select
	holdGotq bool                     // stop the next caller between getQueue and enqueue
	holds    map[string]chan struct{} // id → release channel of a caller held at lock.select
	ttlWait  map[string]chan struct{} // id → release channel of a watchdog stopped at lock.ttl
	ttlAt    map[string]time.Time     // id → when its watchdog's timer fired
	sess     []*c14Sess
	byID     map[string]*c14Sess // by qid
	byKey    map[string]*c14Sess // by key + "|" + raw id
	wg       sync.WaitGroup
	timeout  time.Duration
	broken   bool // a step timed out: the rest of the case is not executed
}

// c14BrokenCases counts cases abandoned after a timeout; past a small budget the run stops
// executing ops (every further reply is `aborted`) so that a defective build cannot stall the check.
var c14BrokenCases int

func (w *c14World) gate(op string) (string, bool) {
	if c14BrokenCases > 4 {
		return "aborted", true
	}
	if w.broken && op != "case" {
		return "broken", true
	}
	return "", false
}

func c14NewWorld(lk lock.Lock) *c14World {
	return &c14World{lk: lk, events: make(chan c14Event, 4096), known: map[string]bool{},
		holds: map[string]chan struct{}{}, ttlWait: map[string]chan struct{}{}, ttlAt: map[string]time.Time{}, byID: map[string]*c14Sess{}, byKey: map[string]*c14Sess{},
		timeout: HxScale(3 * time.Second)}
}

// handler runs inside the lock package's goroutines.
func (w *c14World) handler(name string, args ...any) {
	if !strings.HasPrefix(name, "lock.") || len(args) < 2 {
		return
	}
	raw, _ := args[1].(string)
	id := fmt.Sprintf("%p|%s", args[0], raw)
	ev := c14Event{name: name, id: id, raw: raw, at: time.Now()}
	if len(args) > 2 {
		ev.flag, _ = args[2].(bool)
	}
	w.mu.Lock()
	if name == "lock.enq" || (name == "lock.gotq" && w.holdGotq) {
		w.known[id] = true
		w.known["raw|"+raw] = true
	}
	// (a removal attempt can reach a queue object the caller was never in: the key's queue may have been
	//  retired and replaced since — such events are matched on the lock id alone)
	known := w.known[id] || (name == "lock.rm" && w.known["raw|"+raw])
	var block chan struct{}
	switch {
	case !known:
	case name == "lock.gotq" && w.holdGotq:
		w.holdGotq = false
		block = make(chan struct{})
		w.holds[id] = block
	case name == "lock.gotq":
		w.mu.Unlock()
		return
	case name == "lock.select" && w.holdNext:
		w.holdNext = false
		block = make(chan struct{})
		w.holds[id] = block
	case name == "lock.ttl":
		block = make(chan struct{})
		w.ttlWait[id] = block
		w.ttlAt[id] = ev.at
	}
	w.mu.Unlock()
	if !known {
		return // a goroutine of an earlier case, or a foreign id
	}
	if name != "lock.ttl" { // the timer fires at an arbitrary moment: polled through ttlAt, not queued
		select {
		case w.events <- ev:
		default:
		}
	}
	if block != nil {
		<-block
	}
}

// wait returns the first not yet consumed event accepted by want. Events arrive from several
// goroutines in no fixed order (a woken waiter's `acq` can overtake the remover's `rm`), so
// events that are not wanted now stay in the backlog for later waits of the same case.
func (w *c14World) wait(want func(c14Event) bool) (c14Event, bool) {
	for i, ev := range w.backlog {
		if want(ev) {
			w.backlog = append(w.backlog[:i], w.backlog[i+1:]...)
			return ev, true
		}
	}
	deadline := time.After(w.timeout)
	for {
		select {
		case ev := <-w.events:
			if want(ev) {
				return ev, true
			}
			if ev.name == "panic" {
				return ev, false
			}
			w.backlog = append(w.backlog, ev)
		case <-deadline:
			if !w.broken {
				w.broken = true
				c14BrokenCases++
			}
			return c14Event{name: "timeout"}, false
		}
	}
}

// quiet reports whether an event accepted by want arrives within d; its absence is a normal outcome
// (the case is not marked broken).
func (w *c14World) quiet(want func(c14Event) bool, d time.Duration) bool {
	for i, ev := range w.backlog {
		if want(ev) {
			w.backlog = append(w.backlog[:i], w.backlog[i+1:]...)
			return true
		}
	}
	deadline := time.After(d)
	for {
		select {
		case ev := <-w.events:
			if want(ev) {
				return true
			}
			w.backlog = append(w.backlog, ev)
		case <-deadline:
			return false
		}
	}
}

// waitAcq: a granted caller either reports `lock.acq` or its Lock call returns an error.
func (w *c14World) waitAcq(s *c14Sess) string {
	me := strconv.Itoa(s.n)
	ev, ok := w.wait(func(e c14Event) bool {
		return (e.name == "lock.acq" && e.id == s.qid) || (e.name == "sess.err" && e.raw == me)
	})
	switch {
	case !ok:
		return "unexpected-" + ev.name
	case ev.name == "sess.err":
		s.gone = true
		w.returned(s)
		return "err"
	}
	s.acquired = true
	return "acq"
}

// residual: callers still in key's queue although their Lock call has returned an error.
func (w *c14World) residual(key string) []string {
	ids, _, _ := lock.VerifSnapshot(w.lk, key)
	var e []string
	for _, id := range ids {
		s := w.byKey[key+"|"+id]
		if s == nil {
			continue
		}
		select {
		case <-s.fin:
			if s.errored {
				e = append(e, strconv.Itoa(s.n))
			}
		default:
		}
	}
	return e
}

func (w *c14World) waitFor(name, id string) (c14Event, bool) {
	return w.wait(func(e c14Event) bool { return e.name == name && e.id == id })
}

// waitForRaw matches on the lock id alone (gateway calls: the queue is not known beforehand).
func (w *c14World) waitForRaw(name, raw string) (c14Event, bool) {
	return w.wait(func(e c14Event) bool { return e.name == name && e.raw == raw })
}

// waitTTL waits until id's watchdog timer has fired (the watchdog is then stopped at the hook).
func (w *c14World) waitTTL(id string) (time.Time, bool) {
	deadline := time.Now().Add(w.timeout)
	for {
		w.mu.Lock()
		at, ok := w.ttlAt[id]
		w.mu.Unlock()
		if ok {
			return at, true
		}
		if time.Now().After(deadline) {
			if !w.broken {
				w.broken = true
				c14BrokenCases++
			}
			return time.Time{}, false
		}
		time.Sleep(200 * time.Microsecond)
	}
}

func (w *c14World) num(key, id string) string {
	if s := w.byKey[key+"|"+id]; s != nil {
		return strconv.Itoa(s.n)
	}
	return "?"
}

// state renders the key's queue through the verif accessor.
func (w *c14World) state(key string) string {
	ids, ready, _ := lock.VerifSnapshot(w.lk, key)
	var q, g, h []string
	for i, id := range ids {
		q = append(q, w.num(key, id))
		if ready[i] {
			g = append(g, w.num(key, id))
		}
		if s := w.byKey[key+"|"+id]; s != nil && s.acquired {
			h = append(h, w.num(key, id))
		}
	}
	return fmt.Sprintf("q=[%s] g=[%s] h=[%s] e=[%s]", strings.Join(q, ","), strings.Join(g, ","), strings.Join(h, ","),
		strings.Join(w.residual(key), ","))
}

// settle: after a removal, a granted caller that is parked in its select takes the ready branch.
func (w *c14World) settle(key string) string {
	ids, ready, _ := lock.VerifSnapshot(w.lk, key)
	for i, id := range ids {
		s := w.byKey[key+"|"+id]
		if s == nil || !ready[i] || s.acquired || s.held || s.gone {
			continue
		}
		if r := w.waitAcq(s); r != "acq" {
			return " stuck=" + strconv.Itoa(s.n) + ":" + r
		}
	}
	return ""
}

func (w *c14World) startLock(key string, ttl time.Duration, short, hold bool) (*c14Sess, string) {
	ctx, cancel := context.WithCancel(context.Background())
	s := &c14Sess{n: len(w.sess) + 1, key: key, short: short, cancel: cancel, fin: make(chan struct{})}
	w.sess = append(w.sess, s)
	w.mu.Lock()
	w.holdNext = hold
	w.mu.Unlock()
	w.wg.Add(1)
	go func() {
		defer w.wg.Done()
		defer func() {
			if r := recover(); r != nil {
				w.events <- c14Event{name: "panic", panic: fmt.Sprint(r)}
			}
		}()
		defer close(s.fin)
		if _, err := w.lk.Lock(ctx, key, ttl); err != nil {
			s.errored = true
			w.events <- c14Event{name: "sess.err", raw: strconv.Itoa(s.n)}
		}
	}()
	ev, ok := w.wait(func(e c14Event) bool { return e.name == "lock.enq" })
	if !ok {
		return s, "unexpected-" + ev.name
	}
	s.id, s.qid = ev.raw, ev.id
	w.byID[s.qid] = s
	w.byKey[key+"|"+s.id] = s
	if ev, ok = w.waitFor("lock.select", s.qid); !ok {
		return s, "unexpected-" + ev.name
	}
	granted := false // read from the channel state, not from the hook argument
	ids, ready, _ := lock.VerifSnapshot(w.lk, key)
	for i, id := range ids {
		if id == s.id && ready[i] {
			granted = true
		}
	}
	switch {
	case hold:
		s.held = true
		return s, "held"
	case granted:
		return s, w.waitAcq(s)
	}
	return s, "wait"
}

// returned waits until the session's Lock call has returned (the cancel branch ran to its end);
// deliberately not tied to a hook inside the removal code.
func (w *c14World) returned(s *c14Sess) bool {
	select {
	case <-s.fin:
		return true
	case <-time.After(w.timeout):
		if !w.broken {
			w.broken = true
			c14BrokenCases++
		}
		return false
	}
}

// startLockAtGotq starts a Lock call and stops it between getQueue and enqueue.
func (w *c14World) startLockAtGotq(key string, ttl time.Duration, short bool) (*c14Sess, string) {
	ctx, cancel := context.WithCancel(context.Background())
	s := &c14Sess{n: len(w.sess) + 1, key: key, short: short, cancel: cancel, fin: make(chan struct{})}
	w.sess = append(w.sess, s)
	w.mu.Lock()
	w.holdGotq = true
	w.mu.Unlock()
	w.wg.Add(1)
	go func() {
		defer w.wg.Done()
		defer close(s.fin)
		if _, err := w.lk.Lock(ctx, key, ttl); err != nil {
			s.errored = true
			w.events <- c14Event{name: "sess.err", raw: strconv.Itoa(s.n)}
		}
	}()
	ev, ok := w.wait(func(e c14Event) bool { return e.name == "lock.gotq" })
	if !ok {
		return s, "unexpected-" + ev.name
	}
	s.id, s.qid = ev.raw, ev.id
	s.held = true
	return s, "gotq"
}

// continueFromGotq lets it enqueue (possibly on another queue object, after a retry).
func (w *c14World) continueFromGotq(s *c14Sess) string {
	s.held = false
	w.release(w.holds, s.qid)
	ev, ok := w.wait(func(e c14Event) bool { return e.name == "lock.enq" && e.raw == s.id })
	if !ok {
		return "unexpected-" + ev.name
	}
	s.qid = ev.id
	w.byID[s.qid] = s
	w.byKey[s.key+"|"+s.id] = s
	if ev, ok = w.waitFor("lock.select", s.qid); !ok {
		return "unexpected-" + ev.name
	}
	ids, ready, _ := lock.VerifSnapshot(w.lk, s.key)
	for i, id := range ids {
		if id == s.id && ready[i] {
			return w.waitAcq(s)
		}
	}
	return "wait"
}

func (w *c14World) release(m map[string]chan struct{}, id string) bool {
	w.mu.Lock()
	ch := m[id]
	delete(m, id)
	w.mu.Unlock()
	if ch != nil {
		close(ch)
	}
	return ch != nil
}

func (w *c14World) inQueue(s *c14Sess) bool {
	ids, _, _ := lock.VerifSnapshot(w.lk, s.key)
	for _, id := range ids {
		if id == s.id {
			return true
		}
	}
	return false
}

func (w *c14World) safeUnlock(key, id string) (res string) {
	defer func() {
		if r := recover(); r != nil {
			res = "panic"
		}
	}()
	if err := w.lk.Unlock(key, id); err != nil {
		return "err"
	}
	return "ok"
}

// cleanup ends every goroutine of the case: cancel contexts, release holds, unlock queued callers,
// release stopped watchdogs; then wait for the Lock goroutines.
func (w *c14World) cleanup() {
	for _, s := range w.sess {
		s.cancel()
	}
	w.mu.Lock()
	for id, ch := range w.holds {
		close(ch)
		delete(w.holds, id)
	}
	w.mu.Unlock()
	done := make(chan struct{})
	go func() { w.wg.Wait(); close(done) }()
	keys := map[string]bool{}
	for _, s := range w.sess {
		keys[s.key] = true
	}
	deadline := time.Now().Add(HxScale(2 * time.Second))
	for {
		busy := false
		for k := range keys {
			ids, _, _ := lock.VerifSnapshot(w.lk, k)
			for _, id := range ids {
				busy = true
				func() {
					defer func() { _ = recover() }()
					_ = w.lk.Unlock(k, id)
				}()
			}
		}
		w.mu.Lock()
		for id, ch := range w.ttlWait {
			close(ch)
			delete(w.ttlWait, id)
		}
		w.mu.Unlock()
		select {
		case <-done:
			if !busy {
				return
			}
		default:
		}
		if time.Now().After(deadline) {
			return
		}
		time.Sleep(200 * time.Microsecond)
	}
}

func init() {
	Register("C14", Domain{Gen: genC14, Run: runC14})
}

func genC14(rng *rand.Rand, tier string, w *bufio.Writer) {
	cases, maxLen := 260, 22
	if tier == "thorough" {
		cases, maxLen = 4000, 50
	}
	// corpus: FIFO chain with a cancelled waiter and a stale unlock; TTL expiry; cancel-vs-grant race (x4);
	// cancelled head; foreign ids; the gateway handlers
	fmt.Fprintln(w, "case 0\nlock a long\nlock a long\nlock a long\ncancel 2\nunlock 1\nunlock 1\nunlock 3\nunlockraw a 7\nunlockraw z 1")
	fmt.Fprintln(w, "case 1\nlock a short\nlock a long\nlock a long\nexpire 1\nunlock 1\nexpire 1\nunlock 2\nexpire 3")
	for i := 0; i < 4; i++ {
		fmt.Fprintf(w, "case %d\nlock a long\nlock a long hold\nlock a long\ncancel 2\nunlock 1\ngo 2\nunlock 2\nunlock 3\n", 2+i)
	}
	fmt.Fprintln(w, "case 6\nlock a long\nlock a long hold\nlock a long\ncancel 2\ngo 2\nunlock 1\nlock b long hold\ncancel 4\nlock b long\ngo 4")
	fmt.Fprintln(w, "case 7\ngwttl -3 -9223372036854775808 1000 2000 9223372036854 9223372036855 9300000000000 9223372036854775807\ngwcancel\ngwrace\ngwrace\ngwrace\ngwrace")
	// ids issued on one key used on another: holder and waiter of b must be untouched by a's ids
	// pre-cancelled contexts on a FREE key (granted head + ctx.Done both ready: either branch must
	// leave a consistent queue), repeated on the same key; zero / negative / MinInt64 TTLs
	fmt.Fprintln(w, "case 8\nlock a long hold\ncancel 1\ngo 1\nlock a long hold\ncancel 2\ngo 2\nlock a long hold\ncancel 3\ngo 3\nlock a long hold\ncancel 4\ngo 4\nlock a long\nunlock 1\nunlock 2\nunlock 3\nunlock 4\nunlock 5\nlock a long")
	fmt.Fprintln(w, "case 9\nlock a zero\nlock a long\nexpire 1\nlock b neg\nexpire 3\nlock b min\nexpire 4\nlock b long\nunlock 2\nlock a neg hold\ngo 6\nexpire 6")
	fmt.Fprintln(w, "case 10\nlock a long\nlock b long\nlock b long\nlock a long\nunlockx 1 b\nunlockx 2 a\nunlock 1\nunlockx 4 b\nunlock 2\nunlock 3\nunlock 4")
	for c := 11; c < cases; c++ {
		fmt.Fprintf(w, "case %d\n", c)
		n := 4 + rng.Intn(maxLen)
		sessions := 0
		var held, short, live []int // rough bookkeeping to keep most ops applicable (never exact)
		keyOf := map[int]string{}
		from := func(l []int) int {
			if len(l) == 0 || rng.Intn(8) == 0 {
				return 1 + rng.Intn(sessions)
			}
			return l[rng.Intn(len(l))]
		}
		drop := func(l []int, x int) []int {
			var o []int
			for _, y := range l {
				if y != x {
					o = append(o, y)
				}
			}
			return o
		}
		for i := 0; i < n; i++ {
			r := rng.Intn(100)
			key := "a"
			if rng.Intn(3) == 0 {
				key = "b"
			}
			other := map[string]string{"a": "b", "b": "a"}
			switch {
			case r >= 94 && r < 97 && len(live) > 0:
				// a genuine id, on the wrong key
				x := from(live)
				fmt.Fprintf(w, "unlockx %d %s\n", x, other[keyOf[x]])
			case r < 30 || sessions == 0:
				ttl := "long"
				sessions++
				if rng.Intn(4) == 0 {
					ttl = []string{"short", "short", "zero", "neg", "min"}[rng.Intn(5)]
					short = append(short, sessions)
				}
				hold := ""
				if rng.Intn(4) == 0 {
					hold = " hold"
					held = append(held, sessions)
				}
				live = append(live, sessions)
				keyOf[sessions] = key
				fmt.Fprintf(w, "lock %s %s%s\n", key, ttl, hold)
				if hold != "" && rng.Intn(3) == 0 {
					// a context that is already cancelled when the caller reaches its select
					fmt.Fprintf(w, "cancel %d\n", sessions)
					i++
				}
			case r < 56:
				// bias towards the oldest live callers: they are the holders; sometimes stale ones
				s := from(live)
				if len(live) > 0 && rng.Intn(2) == 0 {
					s = live[0]
				}
				fmt.Fprintf(w, "unlock %d\n", s)
				if rng.Intn(3) > 0 {
					live = drop(live, s)
				}
			case r < 70:
				s := from(live)
				fmt.Fprintf(w, "cancel %d\n", s)
			case r < 85:
				s := from(held)
				fmt.Fprintf(w, "go %d\n", s)
				held = drop(held, s)
			case r < 94:
				s := from(short)
				fmt.Fprintf(w, "expire %d\n", s)
				short = drop(short, s)
			default:
				fmt.Fprintf(w, "unlockraw %s %d\n", key, rng.Intn(5))
			}
		}
	}
}

var c14Rig *Rig

func runC14(in *bufio.Scanner, out *bufio.Writer) {
	var w *c14World
	install := func(nw *c14World) {
		if w != nil {
			w.cleanup()
		}
		w = nw
		verifhook.SetHandler(w.handler)
	}
	install(c14NewWorld(lock.New()))
	defer func() {
		w.cleanup()
		verifhook.SetHandler(nil)
		if c14Rig != nil {
			c14Rig.Stop(true)
		}
	}()
	get := func(f []string, i int) *c14Sess {
		if len(f) <= i {
			return nil
		}
		n, err := strconv.Atoi(f[i])
		if err != nil || n < 1 || n > len(w.sess) {
			return nil
		}
		return w.sess[n-1]
	}
	for in.Scan() {
		line := strings.TrimSpace(in.Text())
		f := strings.Fields(line)
		if len(f) == 0 {
			fmt.Fprintln(out, "bad-op")
			continue
		}
		if r, stop := w.gate(f[0]); stop {
			fmt.Fprintln(out, r)
			continue
		}
		switch f[0] {
		case "case":
			install(c14NewWorld(lock.New()))
			fmt.Fprintln(out, line)
		case "lock":
			if len(f) < 3 {
				fmt.Fprintln(out, "bad-op")
				break
			}
			ttl, short := time.Hour, false
			switch f[2] {
			case "short":
				ttl, short = 3*time.Millisecond, true
			case "zero": // a TTL of zero or less: the watchdog's timer fires at once
				ttl, short = 0, true
			case "neg":
				ttl, short = -time.Millisecond, true
			case "min":
				ttl, short = time.Duration(-1<<63), true
			}
			s, res := w.startLock(f[1], ttl, short, len(f) > 3 && f[3] == "hold")
			fmt.Fprintf(out, "enq %d %s %s\n", s.n, res, w.state(f[1]))
		case "go":
			s := get(f, 1)
			if s == nil || !s.held {
				fmt.Fprintln(out, "skip")
				break
			}
			ids, ready, _ := lock.VerifSnapshot(w.lk, s.key)
			granted := false
			for i, id := range ids {
				if id == s.id && ready[i] {
					granted = true
				}
			}
			s.held = false
			w.release(w.holds, s.qid)
			res := "wait"
			if granted || s.cancelled {
				me := strconv.Itoa(s.n)
				ev, ok := w.wait(func(e c14Event) bool {
					return (e.id == s.qid && (e.name == "lock.acq" || e.name == "lock.cancel")) || (e.name == "sess.err" && e.raw == me)
				})
				switch {
				case !ok:
					res = "unexpected-" + ev.name
				case ev.name == "sess.err":
					res = "err"
					s.gone = true
					w.returned(s)
				case ev.name == "lock.acq":
					s.acquired = true
					res = "acq"
				default:
					res = "cancel"
					s.gone = true
					if !w.returned(s) {
						res = "unexpected-timeout"
					}
					res += w.settle(s.key)
				}
			}
			fmt.Fprintf(out, "go %d %s %s\n", s.n, res, w.state(s.key))
		case "cancel":
			s := get(f, 1)
			if s == nil || s.cancelled {
				fmt.Fprintln(out, "skip")
				break
			}
			s.cancelled = true
			s.cancel()
			res := "noop"
			switch {
			case s.held:
				res = "pending"
			case s.acquired || s.gone:
			default:
				s.gone = true
				res = "removed"
				if !w.returned(s) {
					res = "unexpected-timeout"
				}
				res += w.settle(s.key)
			}
			fmt.Fprintf(out, "cancel %d %s %s\n", s.n, res, w.state(s.key))
		case "unlock":
			s := get(f, 1)
			if s == nil || !s.acquired {
				fmt.Fprintln(out, "skip")
				break
			}
			_, _, hadQueue := lock.VerifSnapshot(w.lk, s.key)
			res := w.safeUnlock(s.key, s.id)
			// (a key without a queue in the map is answered without a removal attempt: no hook event)
			if res != "panic" && hadQueue {
				if ev, ok := w.waitForRaw("lock.rm", s.id); !ok {
					res = "unexpected-" + ev.name
				}
			}
			res += w.settle(s.key)
			fmt.Fprintf(out, "unlock %d %s %s\n", s.n, res, w.state(s.key))
		case "unlockx":
			// Unlock(K, id of S) where S locked a DIFFERENT key: a foreign id must name nobody on K
			s := get(f, 1)
			if s == nil || !s.acquired || len(f) != 3 || f[2] == s.key {
				fmt.Fprintln(out, "skip")
				break
			}
			res := w.safeUnlock(f[2], s.id)
			if res == "ok" {
				// accepted: the removal hook fired on key K's queue for whoever carries the same id there
				w.wait(func(e c14Event) bool { return e.name == "lock.rm" && e.raw == s.id && e.id != s.qid })
			}
			res += w.settle(f[2])
			fmt.Fprintf(out, "unlockx %d %s %s %s\n", s.n, f[2], res, w.state(f[2]))
		case "unlockraw":
			if len(f) != 3 {
				fmt.Fprintln(out, "bad-op")
				break
			}
			fmt.Fprintf(out, "unlockraw %s %s\n", w.safeUnlock(f[1], "bogus-"+f[2]), w.state(f[1]))
		case "expire":
			s := get(f, 1)
			if s == nil || !s.acquired || !s.short || s.expired {
				fmt.Fprintln(out, "skip")
				break
			}
			s.expired = true
			res := "noop"
			if w.inQueue(s) {
				res = "removed"
				if _, ok := w.waitTTL(s.qid); !ok {
					res = "unexpected-timeout"
				} else {
					w.release(w.ttlWait, s.qid)
					if ev, ok := w.waitFor("lock.rm", s.qid); !ok {
						res = "unexpected-" + ev.name
					}
				}
				res += w.settle(s.key)
			} else {
				w.release(w.ttlWait, s.qid)
			}
			fmt.Fprintf(out, "expire %d %s %s\n", s.n, res, w.state(s.key))
		case "gwttl", "gwcancel", "gwrace":
			fmt.Fprintln(out, c14Gateway(f, install))
			install(c14NewWorld(lock.New()))
		default:
			fmt.Fprintln(out, "bad-op")
		}
		out.Flush()
	}
}

// c14Gateway drives the gateway's Lock/Unlock handlers on the in-process server.
func c14Gateway(f []string, install func(*c14World)) string {
	if c14Rig == nil {
		r, err := NewRig(2, 100, 3600, 1)
		if err != nil {
			return "rig-error"
		}
		c14Rig = r
	}
	gw := c14Rig.GW
	w := c14NewWorld(c14Rig.Zeus.GetHydra().GetLocker())
	w.timeout = HxScale(4 * time.Second)
	install(w)
	switch f[0] {
	case "gwttl":
		// gwttl T1 T2 …: one Lock RPC per TTL (distinct keys), all watchdogs run side by side; each
		// is stopped at the lock.ttl hook when its timer fires.  timeout = observed life time (the word makes a mismatch on this line timing-shaped for the re-check) in whole
		// seconds (rounded down: a timer only fires late), `gt3000` = still held after 3 s.
		if len(f) < 2 {
			return "bad-op"
		}
		type one struct {
			txt string
			id  string
			at  time.Time
			res string
		}
		var all []*one
		for i, t := range f[1:] {
			ttl, err := strconv.ParseInt(t, 10, 64)
			if err != nil {
				return "bad-op"
			}
			o := &one{txt: t}
			all = append(all, o)
			key := fmt.Sprintf("gwttl-%d-%d-%d", i, ttl, time.Now().UnixNano())
			resp, err := gw.Lock(context.Background(), &hydrapb.LockRequest{Key: key, TTL: ttl})
			if err != nil || resp == nil {
				o.res = "lock-err"
				if ids, _, _ := lock.VerifSnapshot(w.lk, key); len(ids) > 0 {
					o.res = "lock-err-residual"
				}
				continue
			}
			acq, ok := w.waitForRaw("lock.acq", resp.LockID)
			if !ok {
				o.res = "timeout-no-acq"
				continue
			}
			o.id, o.at = acq.id, acq.at
		}
		deadline := time.Now().Add(HxScale(3 * time.Second))
		for {
			pending := false
			w.mu.Lock()
			for _, o := range all {
				if o.res != "" {
					continue
				}
				if at, ok := w.ttlAt[o.id]; ok {
					o.res = fmt.Sprintf("timeout=%d", at.Sub(o.at).Milliseconds()/1000*1000)
				} else {
					pending = true
				}
			}
			w.mu.Unlock()
			if !pending || time.Now().After(deadline) {
				break
			}
			time.Sleep(time.Millisecond)
		}
		out := "gwttl"
		for _, o := range all {
			if o.res == "" {
				o.res = "timeout=gt3000"
			}
			out += " " + o.txt + ":" + o.res
		}
		return out
	case "gwrace":
		// the cancel-vs-grant race through the real RPC: a second Lock RPC is stopped right before its select, its
		// caller gives up, then the holder unlocks (the waiter is granted) — both select branches are ready when it
		// is released.  Reply: the branch the runtime took, what the RPC returned, and who is left on the key.
		key := fmt.Sprintf("gwrace-%d", time.Now().UnixNano())
		first, err := gw.Lock(context.Background(), &hydrapb.LockRequest{Key: key, TTL: 60000})
		if err != nil {
			return "gwrace lock-err"
		}
		w.waitForRaw("lock.acq", first.LockID)
		ctx, cancel := context.WithCancel(context.Background())
		defer cancel()
		type res struct {
			id  string
			err error
		}
		done := make(chan res, 1)
		w.mu.Lock()
		w.holdNext = true
		w.mu.Unlock()
		go func() {
			r, err := gw.Lock(ctx, &hydrapb.LockRequest{Key: key, TTL: 60000})
			id := ""
			if r != nil {
				id = r.LockID
			}
			done <- res{id, err}
		}()
		enq, ok := w.wait(func(e c14Event) bool { return e.name == "lock.enq" && e.raw != first.LockID })
		if !ok {
			return "gwrace timeout no-enq"
		}
		if _, ok := w.waitFor("lock.select", enq.id); !ok {
			return "gwrace timeout no-select"
		}
		cancel()
		_, _ = gw.Unlock(context.Background(), &hydrapb.UnlockRequest{Key: key, LockID: first.LockID})
		if _, ok := w.waitForRaw("lock.rm", first.LockID); !ok {
			return "gwrace timeout no-rm"
		}
		w.release(w.holds, enq.id)
		ev, ok := w.wait(func(e c14Event) bool { return e.id == enq.id && (e.name == "lock.acq" || e.name == "lock.cancel") })
		if !ok {
			return "gwrace timeout no-branch"
		}
		branch := strings.TrimPrefix(ev.name, "lock.")
		out := "timeout"
		select {
		case r := <-done:
			out = "err"
			if r.err == nil && r.id != "" {
				out = "ok"
				_, _ = gw.Unlock(context.Background(), &hydrapb.UnlockRequest{Key: key, LockID: r.id})
			}
		case <-time.After(HxScale(3 * time.Second)):
		}
		ids, _, _ := lock.VerifSnapshot(w.lk, key)
		return fmt.Sprintf("gwrace %s %s left=%d", branch, out, len(ids))
	case "gwcancel":
		key := fmt.Sprintf("gwcancel-%d", time.Now().UnixNano())
		first, err := gw.Lock(context.Background(), &hydrapb.LockRequest{Key: key, TTL: 60000})
		if err != nil {
			return "gwcancel lock-err"
		}
		w.waitForRaw("lock.acq", first.LockID)
		ctx, cancel := context.WithCancel(context.Background())
		defer cancel()
		type res struct {
			id  string
			err error
		}
		done := make(chan res, 1)
		go func() {
			r, err := gw.Lock(ctx, &hydrapb.LockRequest{Key: key, TTL: 60000})
			id := ""
			if r != nil {
				id = r.LockID
			}
			done <- res{id, err}
		}()
		enq, ok := w.wait(func(e c14Event) bool { return e.name == "lock.enq" && e.raw != first.LockID })
		if !ok {
			return "gwcancel timeout no-enq"
		}
		w.waitFor("lock.select", enq.id)
		cancel()
		// a cancellable wait would leave through the ctx.Done branch now
		kept := "kept"
		if w.quiet(func(e c14Event) bool { return e.name == "lock.cancel" && e.id == enq.id }, HxScale(300*time.Millisecond)) {
			kept = "removed"
		}
		_, _ = gw.Unlock(context.Background(), &hydrapb.UnlockRequest{Key: key, LockID: first.LockID})
		out := "err"
		select {
		case r := <-done:
			if r.err == nil && r.id != "" {
				out = "acq"
				_, _ = gw.Unlock(context.Background(), &hydrapb.UnlockRequest{Key: key, LockID: r.id})
			}
		case <-time.After(HxScale(3 * time.Second)):
			out = "timeout"
		}
		return "gwcancel " + kept + " " + out
	}
	return "bad-op"
}

// ---------------------------------------------------------------------------------------------
// Domain C14s: stress + trace inclusion.  `gen` RUNS the real lock under genuine concurrency
// (several goroutines locking two keys with cancellable contexts, short TTLs, stale and foreign
// unlocks); the hooks `lock.enq` / `lock.rm` fire under the queue's own mutex, so the order in
// which they are logged is the order in which the queue changed.  `run` answers `ok` to every log
// line; the Lean driver (mode=trace) answers `ok` iff the model can take the same step with the
// same observable values (granted on enqueue, found on remove, acquire only when granted).
//
// log:  enq K N G | acq K N | cancel K N | rm K N F | hang      (K: queue 0,1,…; N: caller number
//       in order of enqueue over all keys; G/F: 0|1)

func init() { Register("C14s", Domain{Gen: genC14s, Run: runC14s}) }

func genC14s(rng *rand.Rand, tier string, w *bufio.Writer) {
	rounds, gor, iters := 10, 6, 40
	if tier == "thorough" {
		rounds, gor, iters = 60, 10, 120
	}
	for r := 0; r < rounds; r++ {
		var mu sync.Mutex
		var log []string
		queues := map[any]int{}
		ids := map[string]int{}
		lk := lock.New()
		verifhook.SetHandler(func(name string, args ...any) {
			if !strings.HasPrefix(name, "lock.") || len(args) < 2 {
				return
			}
			if name != "lock.enq" && name != "lock.rm" && name != "lock.acq" && name != "lock.cancel" {
				return
			}
			id, _ := args[1].(string)
			mu.Lock()
			defer mu.Unlock()
			k, ok := queues[args[0]]
			if !ok {
				if name != "lock.enq" {
					// a queue object nobody was appended to in THIS round: the event belongs to a watchdog of an
					// earlier round's lock instance that fires late (busy machine) — not to this round's log
					return
				}
				k = len(queues)
				queues[args[0]] = k
			}
			key := fmt.Sprintf("%d|%s", k, id)
			n, known := ids[key]
			if name == "lock.enq" {
				n = len(ids) + 1
				ids[key] = n
				known = true
			}
			if !known {
				n = 0 // an id this queue never issued
			}
			flag := 0
			if len(args) > 2 {
				if b, _ := args[2].(bool); b {
					flag = 1
				}
			}
			switch name {
			case "lock.enq":
				log = append(log, fmt.Sprintf("enq %d %d %d", k, n, flag))
			case "lock.rm":
				log = append(log, fmt.Sprintf("rm %d %d %d", k, n, flag))
			case "lock.acq":
				log = append(log, fmt.Sprintf("acq %d %d", k, n))
			case "lock.cancel":
				log = append(log, fmt.Sprintf("cancel %d %d", k, n))
			}
		})
		var wg sync.WaitGroup
		for g := 0; g < gor; g++ {
			wg.Add(1)
			seed := rng.Int63()
			go func(seed int64) {
				defer wg.Done()
				lr := rand.New(rand.NewSource(seed))
				keys := []string{"a", "b"}
				for i := 0; i < iters; i++ {
					key := keys[lr.Intn(2)]
					ctx, cancel := context.WithCancel(context.Background())
					if lr.Intn(3) == 0 {
						cancel()
						ctx, cancel = context.WithTimeout(context.Background(), time.Duration(200+lr.Intn(2500))*time.Microsecond)
					}
					ttl := time.Minute
					short := lr.Intn(3) == 0
					if short {
						ttl = time.Duration(500+lr.Intn(2000)) * time.Microsecond
					}
					id, err := lk.Lock(ctx, key, ttl)
					cancel()
					if err != nil {
						continue
					}
					if lr.Intn(2) == 0 {
						time.Sleep(time.Duration(lr.Intn(800)) * time.Microsecond)
					}
					if !short || lr.Intn(2) == 0 {
						_ = lk.Unlock(key, id)
					} else {
						time.Sleep(ttl + 200*time.Microsecond) // let the TTL release it
					}
					switch lr.Intn(6) {
					case 0:
						_ = lk.Unlock(key, id) // stale
					case 1:
						_ = lk.Unlock(keys[1-lr.Intn(2)], id) // maybe the other key: foreign
					}
				}
			}(seed)
		}
		done := make(chan struct{})
		go func() { wg.Wait(); close(done) }()
		hung := false
		select {
		case <-done:
		case <-time.After(HxScale(60 * time.Second)): // (the generator is not re-run: the window itself is generous)
			hung = true
		}
		// outstanding short-TTL watchdogs (they may fire late on a busy machine): the round ends when both queues are empty
		for dl := time.Now().Add(HxScale(5 * time.Second)); !hung && time.Now().Before(dl); {
			left := 0
			for _, k := range []string{"a", "b"} {
				l, _, _ := lock.VerifSnapshot(lk, k)
				left += len(l)
			}
			if left == 0 {
				break
			}
			time.Sleep(time.Millisecond)
		}
		time.Sleep(HxScale(2 * time.Millisecond))
		verifhook.SetHandler(nil)
		fmt.Fprintf(w, "case %d\n", r)
		mu.Lock()
		for _, l := range log {
			fmt.Fprintln(w, l)
		}
		if hung {
			fmt.Fprintln(w, "hang")
		}
		mu.Unlock()
		if hung {
			return // one hang is the verdict: do not spend the window again in every later round
		}
	}
}

func runC14s(in *bufio.Scanner, w *bufio.Writer) {
	for in.Scan() {
		if strings.HasPrefix(in.Text(), "case ") {
			fmt.Fprintln(w, in.Text())
		} else {
			fmt.Fprintln(w, "ok")
		}
	}
}
