package main

// Domain C16: swamp lifecycle on the real in-process server.
//
// case N life CFG    CFG = d (idle timeout 3600 s: only auto-destroy can end the instance)
//                          i (idle timeout 1 s: the close listener may evict it);  persistent, write interval 3600 s,
//                          so records reach the file only through Close's flush.
//   set K V | del K          synchronous Set / Delete                               → status
//   spawn T set K V          Set in a goroutine; parks at gw.set.summoned (instance handed out, no vigil yet),
//                            then at gw.set.vigil (vigil held, nothing written yet)
//   spawn T del K            Delete in a goroutine; parks at destroy.draining when it removed the last record
//   spawn T delm K1 K2       one Delete request with two keys (parks like spawn del)      → … | T done <st1>,<st2>
//   spawn T close            Close() on the mapped instance in a goroutine; parks at swamp.closed (flushed, routines
//                            cancelled, close callback — which removes the map entry — not yet called)
//   spawnw T set K V         like spawn, but the request may have to wait for a closing instance → … | T wait-timeout
//   spawnv T del K           Delete in a goroutine; parks at gw.del.vigil (vigil held, nothing deleted yet), then like spawn del
//   gow T                    go, for a T that may have to wait (a drain)            → … | T wait-timeout
//   poll T                   where a waiting / parked T is now                      → T@<point> | T wait-timeout
//   go T                     release T to its next park point / completion          → T@<point> | T done <status>
//   tick arm                 wait until this swamp's close listener has read lastInteractionTime with an
//                            "idle long enough" outcome and park it there            → tick parked | tick timeout
//   tick go                  release the listener; report whether it closed the swamp → tick closed | tick timeout-noclose
//   close                    Close() on the mapped instance (what idle eviction / graceful stop do when nothing is in flight)
//   reopen                   what a client finds when it asks again (GetAll, re-summons) → keys=[k:v,…]
// case N stop d      graceful stop on a server of its own: set K V | stop | reopen
//   stop                     hydra.GracefulStop(); right after it has returned: the number of swamps still mapped, and a
//                            copy of the data directory (what a process exit at that instant leaves) → stopped open=<n>
//   reopen                   a fresh server on that copy                             → keys=[…] (keys=? when open>0)

import (
	"bufio"
	"context"
	"fmt"
	"math/rand"
	"os"
	"path/filepath"
	"sort"
	"strconv"
	"strings"
	"sync"
	"sync/atomic"
	"time"

	"github.com/hydraide/hydraide/app/core/settings"
	"github.com/hydraide/hydraide/app/server/gateway"
	"github.com/hydraide/hydraide/app/name"
	"github.com/hydraide/hydraide/app/verifhook"
	hydrapb "github.com/hydraide/hydraide/sdk/go/hydraidego/v3/hydraidepbgo"
)

func init() { Register("C16", Domain{Gen: c16Gen, Run: c16Run}) }

// a wait ends on its event; the limit only matters for a request that really hangs (scaled by HX_TIMEOUT_SCALE)
var c16StepTimeout = HxScale(10 * time.Second)

func c16Gen(rng *rand.Rand, tier string, w *bufio.Writer) {
	seq := 25
	if tier == "thorough" {
		seq = 300
	}
	c := 0
	// (1) auto-destroy drains an in-flight insert and then deletes the file
	fmt.Fprintf(w, "case %d life d\nset a x\nspawn A set b y\ngo A\nspawn B del a\ngo A\ngo B\nreopen\n", c)
	c++
	// (2) the listener decides from a stale last-interaction time while a request has just been handed the instance
	fmt.Fprintf(w, "case %d life i\nset a x\ntick arm\nspawn A set b y\ntick go\ngo A\ngo A\nreopen\n", c)
	c++
	// the listener finds the swamp idle long enough while a request holds a vigil: it must not close
	fmt.Fprintf(w, "case %d life i\nset a x\nspawn A set b y\ngo A\ntick arm\ntick go\ngo A\nclose\nreopen\n", c)
	c++
	// the same two shapes without the race: nothing may be lost
	fmt.Fprintf(w, "case %d life d\nset a x\nspawn A set b y\ngo A\ngo A\nspawn B del a\nreopen\nclose\nreopen\n", c)
	c++
	fmt.Fprintf(w, "case %d life i\nset a x\ntick arm\ntick go\nspawn A set b y\ngo A\ngo A\nclose\nreopen\n", c)
	c++
	// a request summons while a closing instance is flushed but still mapped: it has to wait for the map entry to go
	fmt.Fprintf(w, "case %d life d\nset a x\nspawn C close\nspawnw A set b y\ngo C\npoll A\ngo A\ngo A\nreopen\nclose\nreopen\n", c)
	c++
	// a delete that finds the swamp already being destroyed gives its vigil back twice: the drain no longer waits for W
	fmt.Fprintf(w, "case %d life d\nset a x\nspawn W set c z\ngo W\nspawn E set b y\ngo E\nspawnv D del b\nspawn B del a\ngo E\ngo D\ngow B\ngo W\npoll B\nreopen\nclose\nreopen\n", c)
	c++
	// a two-key Delete whose first key empties the swamp while an insert is in flight: the auto-destroy closes instead,
	// and the second key must not be deleted on the closed instance
	fmt.Fprintf(w, "case %d life d\nset a x\nspawn A set c y\ngo A\nspawn B delm a c\ngo A\ngo B\nreopen\nclose\nreopen\n", c)
	c++
	// sequential: delete, re-create, delete on a key that is in the file
	fmt.Fprintf(w, "case %d life d\nset c x\nset a x\nclose\ndel c\nset c y\ndel c\nclose\nreopen\n", c)
	c++
	keys := []string{"a", "b", "c"}
	vals := []string{"x", "y"}
	for i := 0; i < seq; i++ {
		fmt.Fprintf(w, "case %d life d\n", c)
		c++
		n := 4 + rng.Intn(8)
		for j := 0; j < n; j++ {
			switch r := rng.Intn(10); {
			case r < 5:
				fmt.Fprintf(w, "set %s %s\n", keys[rng.Intn(3)], vals[rng.Intn(2)])
			case r < 7:
				fmt.Fprintf(w, "del %s\n", keys[rng.Intn(3)])
			case r < 8:
				fmt.Fprintln(w, "close")
			default:
				fmt.Fprintln(w, "reopen")
			}
		}
		fmt.Fprintln(w, "close\nreopen")
	}
	// random histories around one request that is parked between its steps (summoned / vigil held); no delete while
	// it is parked (a delete of the last record would wait for its vigil)
	conc := 12
	if tier == "thorough" {
		conc = 120
	}
	for i := 0; i < conc; i++ {
		fmt.Fprintf(w, "case %d life d\nset a x\n", c)
		c++
		left := 0
		n := 3 + rng.Intn(6)
		for j := 0; j < n; j++ {
			switch r := rng.Intn(10); {
			case r < 3 && left == 0 && j < n-2:
				fmt.Fprintf(w, "spawn A set %s %s\n", keys[1+rng.Intn(2)], vals[rng.Intn(2)])
				left = 2
			case r < 6 && left > 0:
				fmt.Fprintln(w, "go A")
				left--
			case r < 7 && left == 0:
				fmt.Fprintf(w, "del %s\n", keys[rng.Intn(3)])
			case r < 8:
				fmt.Fprintf(w, "set %s %s\n", keys[rng.Intn(3)], vals[rng.Intn(2)])
			case r < 9:
				fmt.Fprintln(w, "close")
			default:
				fmt.Fprintln(w, "reopen")
			}
		}
		for ; left > 0; left-- {
			fmt.Fprintln(w, "go A")
		}
		fmt.Fprintln(w, "close\nreopen")
	}
	// graceful stop
	for i := 0; i < 2; i++ {
		fmt.Fprintf(w, "case %d stop d\nset a x\nset b y\nstop\nreopen\n", c)
		c++
	}
}

type c16Ev struct{ th, name string }

type c16Thread struct {
	name   string
	parks  map[string]bool
	at     string
	gate   chan struct{}
	result string
}

type c16Done struct{ th, result string }

type c16State struct {
	rig      *Rig
	runTag   string
	swamp    string
	threads  *ccThreads
	events   chan c16Ev
	done     chan c16Done
	mu       sync.Mutex
	th       map[string]*c16Thread
	free     atomic.Bool
	tickArm  atomic.Bool
	tickGate chan struct{}
	tickEv   chan string
	dead     bool
	leaked   bool
	stopRig  *Rig   // mode stop: a server of its own
	stopCopy string // copy of its data directory taken when GracefulStop returned
	stopOpen int
}

// gw is the gateway the current case talks to
func (st *c16State) gw() *gateway.Gateway {
	if st.stopRig != nil {
		return st.stopRig.GW
	}
	return st.rig.GW
}

func (st *c16State) get(n string) *c16Thread {
	st.mu.Lock()
	defer st.mu.Unlock()
	return st.th[n]
}

func c16Status(c hydrapb.Status_Code) string {
	switch c {
	case hydrapb.Status_NEW:
		return "NEW"
	case hydrapb.Status_UPDATED:
		return "UPDATED"
	case hydrapb.Status_NOTHING_CHANGED:
		return "SAME"
	case hydrapb.Status_DELETED:
		return "DELETED"
	}
	return "NOT_FOUND"
}

func (st *c16State) doSet(k, v string) string {
	resp, err := st.gw().Set(context.Background(), &hydrapb.SetRequest{Swamps: []*hydrapb.SwampRequest{{
		IslandID: 1, SwampName: st.swamp, CreateIfNotExist: true, Overwrite: true,
		KeyValues: []*hydrapb.KeyValuePair{{Key: k, StringVal: &v}}}}})
	if err != nil || resp == nil || len(resp.GetSwamps()) != 1 || len(resp.GetSwamps()[0].GetKeysAndStatuses()) != 1 {
		return "ERR"
	}
	return c16Status(resp.GetSwamps()[0].GetKeysAndStatuses()[0].GetStatus())
}

func (st *c16State) doDel(k string) string {
	resp, err := st.rig.GW.Delete(context.Background(), &hydrapb.DeleteRequest{Swamps: []*hydrapb.DeleteRequest_SwampKeys{{IslandID: 1, SwampName: st.swamp, Keys: []string{k}}}})
	if err != nil || resp == nil || len(resp.GetResponses()) != 1 || len(resp.GetResponses()[0].GetKeyStatuses()) != 1 {
		return "NOT_FOUND"
	}
	return c16Status(resp.GetResponses()[0].GetKeyStatuses()[0].GetStatus())
}

func (st *c16State) reopen() string {
	r, err := st.rig.GW.GetAll(context.Background(), &hydrapb.GetAllRequest{IslandID: 1, SwampName: st.swamp})
	if err != nil || r == nil {
		return "keys=[]"
	}
	ks := make([]string, 0, len(r.GetTreasures()))
	for _, t := range r.GetTreasures() {
		ks = append(ks, t.GetKey()+":"+t.GetStringVal())
	}
	sort.Strings(ks)
	return "keys=[" + strings.Join(ks, ",") + "]"
}

func (st *c16State) sync(f func() string) string {
	res := make(chan string, 1)
	go func() { res <- f() }()
	select {
	case s := <-res:
		return s
	case <-time.After(c16StepTimeout):
		st.leaked = true
		return "hang"
	}
}

func (st *c16State) await(t *c16Thread) string {
	deadline := time.After(c16StepTimeout)
	for {
		select {
		case ev := <-st.events:
			if u := st.get(ev.th); u != nil {
				u.at = ev.name
				if u == t {
					return t.name + "@" + ev.name
				}
			}
		case d := <-st.done:
			if u := st.get(d.th); u != nil {
				u.at, u.result = "done", d.result
				if u == t {
					return t.name + " done " + d.result
				}
			}
		case <-deadline:
			st.leaked = true
			return t.name + " stuck"
		}
	}
}

// awaitFor is await for a request that may legitimately be waiting (no leak accounting)
func (st *c16State) awaitFor(t *c16Thread, d time.Duration) string {
	deadline := time.After(d)
	for {
		select {
		case ev := <-st.events:
			if u := st.get(ev.th); u != nil {
				u.at = ev.name
				if u == t {
					return t.name + "@" + ev.name
				}
			}
		case dn := <-st.done:
			if u := st.get(dn.th); u != nil {
				u.at, u.result = "done", dn.result
				if u == t {
					return t.name + " done " + dn.result
				}
			}
		case <-deadline:
			return t.name + " wait-timeout" // it is (still) waiting for a closing instance
		}
	}
}

func (st *c16State) endCase() {
	st.free.Store(true)
	st.tickArm.Store(false)
	select {
	case st.tickGate <- struct{}{}:
	default:
	}
	st.mu.Lock()
	ths := make([]*c16Thread, 0, len(st.th))
	for _, t := range st.th {
		ths = append(ths, t)
	}
	st.th = map[string]*c16Thread{}
	st.mu.Unlock()
	deadline := time.After(HxScale(4 * time.Second))
	pending := 0
	for _, t := range ths {
		if t.at != "done" {
			pending++
		}
	}
	for pending > 0 {
		for _, t := range ths {
			select {
			case t.gate <- struct{}{}:
			default:
			}
		}
		select {
		case <-st.done:
			pending--
		case <-st.events:
		case <-time.After(HxScale(10 * time.Millisecond)):
		case <-deadline:
			st.leaked = true
			pending = 0
		}
	}
	for {
		select {
		case <-st.events:
			continue
		case <-st.done:
			continue
		case <-st.tickEv:
			continue
		default:
		}
		break
	}
}

func c16Run(in *bufio.Scanner, w *bufio.Writer) {
	rig, err := NewRig(3, 2000, 3600, 3600)
	if err != nil {
		fmt.Fprintln(os.Stderr, "c16: rig:", err)
		os.Exit(3)
	}
	rig.Settings.RegisterPattern(name.New().Sanctuary("c16d").Realm("*").Swamp("*"), false, 3600,
		&settings.FileSystemSettings{WriteIntervalSec: 3600, MaxFileSizeByte: 8192, UseChroniclerV2: true})
	rig.Settings.RegisterPattern(name.New().Sanctuary("c16i").Realm("*").Swamp("*"), false, 1,
		&settings.FileSystemSettings{WriteIntervalSec: 3600, MaxFileSizeByte: 8192, UseChroniclerV2: true})
	st := &c16State{rig: rig, runTag: strconv.FormatInt(time.Now().UnixNano()%1000000, 36), threads: newCCThreads(),
		events: make(chan c16Ev, 4096), done: make(chan c16Done, 64), th: map[string]*c16Thread{},
		tickGate: make(chan struct{}), tickEv: make(chan string, 64)}
	st.free.Store(true)
	verifhook.SetHandler(func(nm string, args ...any) {
		switch nm {
		case "close.tick.read":
			if len(args) == 2 && st.tickArm.Load() {
				if n, _ := args[0].(string); n == st.swamp {
					if ripe, _ := args[1].(bool); ripe {
						st.tickArm.Store(false)
						st.tickEv <- "parked"
						<-st.tickGate
					}
				}
			}
			return
		case "close.done":
			if len(args) == 1 {
				if n, _ := args[0].(string); n == st.swamp {
					select {
					case st.tickEv <- "closed":
					default:
					}
				}
			}
			return
		}
		if st.free.Load() {
			return
		}
		th := st.threads.Current()
		if th == "" {
			return
		}
		if t := st.get(th); t != nil {
			// every park point is used once per request (a two-key delete reaches destroy.draining a second time)
			st.mu.Lock()
			hit := t.parks[nm]
			delete(t.parks, nm)
			st.mu.Unlock()
			if hit {
				st.events <- c16Ev{th: th, name: nm}
				<-t.gate
			}
		}
	})
	defer func() {
		verifhook.SetHandler(nil)
		if st.leaked {
			w.Flush()
			_ = os.RemoveAll(rig.Root)
			os.Exit(0)
		}
		rig.Stop(true)
	}()

	for in.Scan() {
		line := strings.TrimSpace(in.Text())
		f := strings.Fields(line)
		if len(f) == 0 {
			fmt.Fprintln(w, "bad-op")
			continue
		}
		if f[0] == "case" {
			st.endCase()
			st.threads.NextEpoch()
			if st.stopRig != nil {
				_ = os.RemoveAll(st.stopRig.Root)
				if st.stopCopy != "" {
					_ = os.RemoveAll(st.stopCopy)
				}
				// close what the long-lived server opened on the copy, then point the process back at its own data
				if sw, err := st.rig.Zeus.GetHydra().SummonSwamp(context.Background(), 1, name.Load(st.swamp)); err == nil {
					if ok, _ := st.rig.Zeus.GetHydra().IsExistSwamp(1, name.Load(st.swamp)); ok {
						sw.Close()
					}
				}
				st.stopRig, st.stopCopy = nil, ""
				_ = os.Setenv("HYDRAIDE_ROOT_PATH", st.rig.Root)
				_ = settings.New(3, 2000)
			}
			st.dead = len(f) != 4 || (f[3] != "d" && f[3] != "i")
			if !st.dead && f[2] == "stop" {
				r2, err := NewRig(3, 2000, 3600, 3600)
				if err != nil {
					st.dead = true
				} else {
					r2.Settings.RegisterPattern(name.New().Sanctuary("c16d").Realm("*").Swamp("*"), false, 3600,
						&settings.FileSystemSettings{WriteIntervalSec: 3600, MaxFileSizeByte: 8192, UseChroniclerV2: true})
					st.stopRig = r2
				}
			}
			if !st.dead {
				st.swamp = name.New().Sanctuary("c16" + f[3]).Realm("r" + st.runTag).Swamp("c" + f[1]).Get()
				st.free.Store(false)
			}
			fmt.Fprintln(w, line)
			w.Flush()
			continue
		}
		if st.dead {
			fmt.Fprintln(w, "err skip")
			continue
		}
		switch {
		case f[0] == "set" && len(f) == 3:
			fmt.Fprintln(w, st.sync(func() string { return st.doSet(f[1], f[2]) }))
		case f[0] == "del" && len(f) == 2:
			fmt.Fprintln(w, st.sync(func() string { return st.doDel(f[1]) }))
		case f[0] == "poll" && len(f) == 2:
			t := st.get(f[1])
			if t == nil || t.at == "done" {
				fmt.Fprintln(w, "bad-op")
				break
			}
			if t.at != "" {
				fmt.Fprintln(w, t.name+"@"+t.at)
				break
			}
			fmt.Fprintln(w, st.awaitFor(t, HxScale(2*time.Second)))
		case f[0] == "gow" && len(f) == 2:
			t := st.get(f[1])
			if t == nil || t.at == "done" {
				fmt.Fprintln(w, "bad-op")
				break
			}
			select {
			case t.gate <- struct{}{}:
				t.at = ""
				fmt.Fprintln(w, st.awaitFor(t, HxScale(1500*time.Millisecond)))
			case <-time.After(c16StepTimeout):
				fmt.Fprintln(w, t.name+" stuck")
			}
		case (f[0] == "spawn" || f[0] == "spawnw" || f[0] == "spawnv") && len(f) >= 3 && st.get(f[1]) == nil:
			t := &c16Thread{name: f[1], gate: make(chan struct{}), parks: map[string]bool{}}
			var run func() string
			switch {
			case f[2] == "set" && len(f) == 5:
				t.parks["gw.set.summoned"], t.parks["gw.set.vigil"] = true, true
				run = func() string { return st.doSet(f[3], f[4]) }
			case f[2] == "del" && len(f) == 4:
				t.parks["destroy.draining"] = true
				if f[0] == "spawnv" {
					t.parks["gw.del.vigil"] = true
				}
				run = func() string { return st.doDel(f[3]) }
			case f[2] == "delm" && len(f) == 5:
				t.parks["destroy.draining"] = true
				run = func() string {
					resp, err := st.gw().Delete(context.Background(), &hydrapb.DeleteRequest{Swamps: []*hydrapb.DeleteRequest_SwampKeys{{IslandID: 1, SwampName: st.swamp, Keys: []string{f[3], f[4]}}}})
					if err != nil || resp == nil || len(resp.GetResponses()) != 1 || len(resp.GetResponses()[0].GetKeyStatuses()) != 2 {
						return "ERR"
					}
					ks := resp.GetResponses()[0].GetKeyStatuses()
					return c16Status(ks[0].GetStatus()) + "," + c16Status(ks[1].GetStatus())
				}
			case f[2] == "close" && len(f) == 3:
				t.parks["swamp.closed"] = true
				run = func() string {
					h := rig.Zeus.GetHydra()
					nm := name.Load(st.swamp)
					if ok, err := h.IsExistSwamp(1, nm); err != nil || !ok {
						return "closed"
					}
					sw, err := h.SummonSwamp(context.Background(), 1, nm)
					if err != nil {
						return "ERR"
					}
					sw.Close()
					return "closed"
				}
			}
			if run == nil {
				fmt.Fprintln(w, "bad-op")
				break
			}
			st.mu.Lock()
			st.th[t.name] = t
			st.mu.Unlock()
			go func() {
				st.threads.Register(t.name)
				defer st.threads.Unregister()
				r := run()
				if st.threads.Current() != "" { // not a leftover of an earlier case
					st.done <- c16Done{th: t.name, result: r}
				}
			}()
			if f[0] == "spawnw" {
				fmt.Fprintln(w, st.awaitFor(t, HxScale(1500*time.Millisecond)))
			} else {
				fmt.Fprintln(w, st.await(t))
			}
		case f[0] == "go" && len(f) == 2:
			t := st.get(f[1])
			if t == nil || t.at == "done" {
				fmt.Fprintln(w, "bad-op")
				break
			}
			select {
			case t.gate <- struct{}{}:
				fmt.Fprintln(w, st.await(t))
			case <-time.After(c16StepTimeout):
				fmt.Fprintln(w, t.name+" stuck")
			}
		case f[0] == "tick" && len(f) == 2 && f[1] == "arm":
			for len(st.tickEv) > 0 {
				<-st.tickEv
			}
			st.tickArm.Store(true)
			res := "tick timeout"
			deadline := time.After(HxScale(12 * time.Second))
		armLoop:
			for {
				select {
				case ev := <-st.tickEv:
					if ev == "parked" {
						res = "tick parked"
						break armLoop
					}
				case <-deadline:
					st.tickArm.Store(false)
					break armLoop
				}
			}
			fmt.Fprintln(w, res)
		case f[0] == "tick" && len(f) == 2 && f[1] == "go":
			res := "tick timeout-noclose" // no close was seen within the window
			select {
			case st.tickGate <- struct{}{}:
				select {
				case ev := <-st.tickEv:
					if ev == "closed" {
						res = "tick closed"
					}
				case <-time.After(HxScale(8 * time.Second)):
				}
			case <-time.After(c16StepTimeout):
				res = "tick timeout"
			}
			fmt.Fprintln(w, res)
		case f[0] == "close" && len(f) == 1:
			fmt.Fprintln(w, st.sync(func() string {
				h := rig.Zeus.GetHydra()
				nm := name.Load(st.swamp)
				if ok, err := h.IsExistSwamp(1, nm); err != nil || !ok {
					return "closed"
				}
				sw, err := h.SummonSwamp(context.Background(), 1, nm)
				if err != nil {
					return "ERR"
				}
				sw.Close()
				return "closed"
			}))
			for len(st.tickEv) > 0 {
				<-st.tickEv
			}
		case f[0] == "stop" && len(f) == 1 && st.stopRig != nil && st.stopCopy == "":
			h := st.stopRig.Zeus.GetHydra()
			h.GracefulStop()
			st.stopOpen = h.CountActiveSwamps()
			cp, err := os.MkdirTemp("", "hvrig-copy-")
			if err == nil {
				err = os.CopyFS(cp, os.DirFS(st.stopRig.Root))
			}
			if err != nil {
				fmt.Fprintln(w, "ERR")
				break
			}
			st.stopCopy = cp
			if os.Getenv("C16_TRACE") != "" {
				_ = filepath.WalkDir(st.stopRig.Root, func(p string, d os.DirEntry, err error) error { fmt.Fprintln(os.Stderr, "SRC", p); return nil })
				_ = filepath.WalkDir(cp, func(p string, d os.DirEntry, err error) error {
					if fi, e := os.Stat(p); e == nil {
						fmt.Fprintln(os.Stderr, "CPY", p, fi.Size())
					}
					return nil
				})
			}
			fmt.Fprintf(w, "stopped open=%d\n", st.stopOpen)
		case f[0] == "reopen" && len(f) == 1 && st.stopRig != nil:
			if st.stopCopy == "" {
				fmt.Fprintln(w, "bad-op")
				break
			}
			if st.stopOpen > 0 {
				fmt.Fprintln(w, "keys=?")
				break
			}
			// the long-lived server of this process reads the copy: the data path is process-global (settings.New sets it)
			_ = os.Setenv("HYDRAIDE_ROOT_PATH", st.stopCopy)
			_ = settings.New(3, 2000)
			fmt.Fprintln(w, st.sync(func() string {
				r, err := st.rig.GW.GetAll(context.Background(), &hydrapb.GetAllRequest{IslandID: 1, SwampName: st.swamp})
				if os.Getenv("C16_TRACE") != "" {
					fmt.Fprintln(os.Stderr, "REOPEN", st.swamp, err, r)
				}
				if err != nil || r == nil {
					return "keys=[]"
				}
				ks := make([]string, 0, len(r.GetTreasures()))
				for _, t := range r.GetTreasures() {
					ks = append(ks, t.GetKey()+":"+t.GetStringVal())
				}
				sort.Strings(ks)
				return "keys=[" + strings.Join(ks, ",") + "]"
			}))
		case f[0] == "reopen" && len(f) == 1:
			fmt.Fprintln(w, st.sync(st.reopen))
		default:
			fmt.Fprintln(w, "bad-op")
		}
		w.Flush()
	}
	st.endCase()
}
