package main

// C22: the read LOOPS of the SDK.  Two records with different optional fields are saved into one swamp (for profiles:
// two swamps) and read back through every multi-record read: each record handed to the iterator must equal what was
// saved under its key — also after the loop has ended (an iterator may keep the pointers it was given).
//
//	many value|body|profile      ->  rm=… rb=… rs=…   (CatalogReadMany, CatalogReadBatch, CatalogReadManyStream)
//	                                 pb=…            (ProfileReadBatch)
//	each: ok | <n>of2 (records delivered) | diff (during the loop) | alias (equal during the loop, different afterwards) | err

import (
	"context"
	"fmt"
	"os"
	"reflect"
	"strconv"
	"time"

	"github.com/hydraide/hydraide/sdk/go/hydraidego/v3"
	sdkname "github.com/hydraide/hydraide/sdk/go/hydraidego/v3/name"
)

type c22ManyValue struct {
	K  string    `hydraide:"key"`
	V  string    `hydraide:"value"`
	CB string    `hydraide:"createdBy,omitempty"`
	EA time.Time `hydraide:"expireAt,omitempty"`
	UB string    `hydraide:"updatedBy,omitempty"`
}

type c22ManyBody struct {
	K string   `hydraide:"key"`
	A string   `hydraide:"A,omitempty"`
	B *int64   `hydraide:"B,omitempty"`
	C []string `hydraide:"C,omitempty"`
	D int32    `hydraide:"D"`
}

type c22ManyProfile struct {
	Name string
	Nick *string  `hydraide:"omitempty"`
	Tags []string `hydraide:"omitempty"`
	Age  int64
}

func c22ManyRecords(variant string) (recs []any, zero any, keyOf func(any) string) {
	t := time.Unix(1928117106, 0).UTC()
	five := int64(5)
	nick := "al"
	switch variant {
	case "value":
		return []any{&c22ManyValue{K: "k1", V: "one", CB: "alice", EA: t, UB: "bob"}, &c22ManyValue{K: "k2", V: "two"}},
			c22ManyValue{}, func(m any) string { return m.(*c22ManyValue).K }
	case "body":
		return []any{&c22ManyBody{K: "k1", A: "x", B: &five, C: []string{"p", "q"}, D: 7}, &c22ManyBody{K: "k2", D: 1}},
			c22ManyBody{}, func(m any) string { return m.(*c22ManyBody).K }
	case "profile":
		return []any{&c22ManyProfile{Name: "p1", Nick: &nick, Tags: []string{"a"}, Age: 30}, &c22ManyProfile{Name: "p2", Age: 1}},
			c22ManyProfile{}, func(m any) string { return m.(*c22ManyProfile).Name }
	}
	return nil, nil, nil
}

func c22Many(sdk *miscSDK, idx int, variant string) (out string) {
	defer func() {
		if r := recover(); r != nil {
			fmt.Fprintf(os.Stderr, "c22 many %s: panic %v\n", variant, r)
			out = "panic"
		}
	}()
	recs, zero, keyOf := c22ManyRecords(variant)
	if recs == nil {
		return "bad-op"
	}
	ctx, cancel := context.WithTimeout(context.Background(), HxScale(30*time.Second))
	defer cancel()
	want := map[string]any{}
	for _, r := range recs {
		want[keyOf(r)] = r
	}
	// judge one read loop: `got` are the models in the order the iterator received them, `during[i]` whether model i was right
	// at the time of its callback
	judge := func(got []any, during []bool, err error) string {
		if err != nil {
			fmt.Fprintf(os.Stderr, "c22 many %s: %v\n", variant, err)
			if miscIsTimeout(err) {
				return "timeout"
			}
			return "err"
		}
		if len(got) != len(recs) {
			return strconv.Itoa(len(got)) + "of" + strconv.Itoa(len(recs))
		}
		for _, d := range during {
			if !d {
				return "diff"
			}
		}
		seen := map[string]bool{}
		for _, g := range got {
			k := keyOf(g)
			if w, ok := want[k]; !ok || seen[k] || !reflect.DeepEqual(w, g) {
				return "alias"
			}
			seen[k] = true
		}
		return "ok"
	}
	collect := func() (*[]any, *[]bool, func(any) error) {
		var got []any
		var during []bool
		return &got, &during, func(m any) error {
			w, ok := want[keyOf(m)]
			during = append(during, ok && reflect.DeepEqual(w, m))
			got = append(got, m)
			return nil
		}
	}
	if variant == "profile" {
		var names []sdkname.Name
		for i, r := range recs {
			n := sdkname.New().Sanctuary("c22").Realm("manyp").Swamp("s" + strconv.Itoa(idx) + "-" + strconv.Itoa(i))
			names = append(names, n)
			if err := sdk.H.ProfileSave(ctx, n, r); err != nil {
				return "pb=" + judge(nil, nil, err)
			}
			defer func() { _ = sdk.H.Destroy(context.Background(), n) }()
		}
		got, during, it := collect()
		err := sdk.H.ProfileReadBatch(ctx, names, &c22ManyProfile{}, func(_ sdkname.Name, m any, e error) error {
			if e != nil {
				return e
			}
			return it(m)
		})
		return "pb=" + judge(*got, *during, err)
	}
	swamp := sdkname.New().Sanctuary("c22").Realm("many" + variant).Swamp("s" + strconv.Itoa(idx))
	defer func() { _ = sdk.H.Destroy(context.Background(), swamp) }()
	for _, r := range recs {
		if _, err := sdk.H.CatalogSave(ctx, swamp, r); err != nil {
			return "rm=" + judge(nil, nil, err)
		}
	}
	index := &hydraidego.Index{IndexType: hydraidego.IndexKey, IndexOrder: hydraidego.IndexOrderAsc}
	g1, d1, it1 := collect()
	e1 := sdk.H.CatalogReadMany(ctx, swamp, index, zero, it1)
	g2, d2, it2 := collect()
	e2 := sdk.H.CatalogReadBatch(ctx, swamp, []string{"k1", "k2"}, zero, it2)
	g3, d3, it3 := collect()
	e3 := sdk.H.CatalogReadManyStream(ctx, swamp, index, nil, zero, it3)
	return "rm=" + judge(*g1, *d1, e1) + " rb=" + judge(*g2, *d2, e2) + " rs=" + judge(*g3, *d3, e3)
}
