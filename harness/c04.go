package main

// Domain C04: the real reader on hostile files (mutated / forged / truncated / random).
//
// ops:   case N
//        base ID d0,d1,…            digests of every index state a reader may legitimately report for files
//                                   derived from base file ID (spec of every prefix of the written entries)
//        file HEX ID KIND           KIND ∈ valid flip bytes trunc csize usize count crcfield tail rand forged …
// reply: ok                         for base
//        load <idx N:CRC name=HEX | err KIND> ; scan <bc=N ec=N us=N | err KIND> ; name <HEX | err KIND>
//        (crash / hang when the reader killed or blocked its process)
//
// The reader runs in a child process (`hx run C04child`) with RLIMIT_AS and GOMEMLIMIT so that a
// forged 4 GiB allocation cannot take the harness down; the child reports runtime.MemStats.TotalAlloc
// around the reader calls, which the parent writes to $HX_C04_SIDE (one number per file line).

import (
	"bufio"
	"encoding/binary"
	"fmt"
	"hash/crc32"
	"io"
	"math/rand"
	"os"
	"os/exec"
	"path/filepath"
	"runtime"
	"runtime/debug"
	"strings"
	"syscall"
	"time"

	"github.com/golang/snappy"
	v2 "github.com/hydraide/hydraide/app/core/hydra/swamp/chronicler/v2"
)

func init() {
	Register("C04", Domain{Gen: c04Gen, Run: c04Run})
	Register("C04child", Domain{Gen: func(*rand.Rand, string, *bufio.Writer) {}, Run: c04Child})
}

// ---------------------------------------------------------------- child: the reader under test

func c04Describe(path string) string {
	load := func() (out string) {
		defer func() {
			if r := recover(); r != nil {
				out = "panic"
			}
		}()
		l := c01LoadLine(path)
		// drop the short listing: digests only
		f := strings.Split(l, " ")
		if f[0] == "idx" && len(f) > 3 {
			l = strings.Join(f[:3], " ")
		}
		return l
	}()
	scan := func() (out string) {
		defer func() {
			if r := recover(); r != nil {
				out = "panic"
			}
		}()
		fr, err := v2.NewFileReader(path)
		if err != nil {
			return "err " + c01ErrKind(err, true)
		}
		defer fr.Close()
		res, err := fr.ScanBlockHeaders()
		if err != nil {
			return "err " + c01ErrKind(err, false)
		}
		return fmt.Sprintf("bc=%d ec=%d us=%d", res.BlockCount, res.TotalEntryCount, res.TotalUncompressedSize)
	}()
	name := func() (out string) {
		defer func() {
			if r := recover(); r != nil {
				out = "panic"
			}
		}()
		n, err := v2.ReadSwampName(path)
		if err != nil {
			// errors from opening are `short`, errors from the V2 fallback's LoadIndex are block errors
			if _, e2 := v2.NewFileReader(path); e2 != nil {
				return "err " + c01ErrKind(err, true)
			}
			return "err " + c01ErrKind(err, false)
		}
		return c01Hex([]byte(n))
	}()
	return "load " + load + " ; scan " + scan + " ; name " + name
}

func c04Child(in *bufio.Scanner, w *bufio.Writer) {
	// address-space cap: a forged multi-GiB make must fail here, not exhaust the machine
	lim := syscall.Rlimit{Cur: 3 << 30, Max: 3 << 30}
	_ = syscall.Setrlimit(syscall.RLIMIT_AS, &lim)
	debug.SetMemoryLimit(256 << 20)
	dir, err := os.MkdirTemp("", "hvc04-")
	if err != nil {
		panic(err)
	}
	defer os.RemoveAll(dir)
	path := filepath.Join(dir, "hostile.hyd")
	var ms runtime.MemStats
	for in.Scan() {
		b, ok := c01Unhex(in.Text())
		if !ok {
			fmt.Fprintln(w, "bad-op")
			w.Flush()
			continue
		}
		_ = os.WriteFile(path, b, 0o644)
		runtime.ReadMemStats(&ms)
		before := ms.TotalAlloc
		d := c04Describe(path)
		runtime.ReadMemStats(&ms)
		fmt.Fprintf(w, "%s\tA=%d\n", d, ms.TotalAlloc-before)
		w.Flush()
		if ms.HeapSys > 512<<20 {
			debug.FreeOSMemory()
		}
	}
}

// ---------------------------------------------------------------- parent

type c04Proc struct {
	cmd *exec.Cmd
	in  io.WriteCloser
	out *bufio.Reader
}

func c04Start() (*c04Proc, error) {
	cmd := exec.Command(os.Args[0], "run", "C04child")
	cmd.Env = append(os.Environ(), "GOMEMLIMIT=256MiB")
	cmd.Stderr = nil
	in, err := cmd.StdinPipe()
	if err != nil {
		return nil, err
	}
	out, err := cmd.StdoutPipe()
	if err != nil {
		return nil, err
	}
	if err := cmd.Start(); err != nil {
		return nil, err
	}
	return &c04Proc{cmd: cmd, in: in, out: bufio.NewReaderSize(out, 1<<20)}, nil
}

func (p *c04Proc) kill() {
	if p == nil {
		return
	}
	_ = p.in.Close()
	_ = p.cmd.Process.Kill()
	_, _ = p.cmd.Process.Wait()
}

// ask sends one file to the child; "crash" / "hang" when it dies or does not answer in time.
func (p *c04Proc) ask(hexFile string, timeout time.Duration) (string, bool) {
	if _, err := io.WriteString(p.in, hexFile+"\n"); err != nil {
		return "crash", false
	}
	type res struct {
		s   string
		err error
	}
	ch := make(chan res, 1)
	go func() {
		s, err := p.out.ReadString('\n')
		ch <- res{s, err}
	}()
	select {
	case r := <-ch:
		if r.err != nil {
			return "crash", false
		}
		return strings.TrimRight(r.s, "\n"), true
	case <-time.After(timeout):
		return "hang", false
	}
}

func c04Run(in *bufio.Scanner, w *bufio.Writer) {
	var side *bufio.Writer
	if p := os.Getenv("HX_C04_SIDE"); p != "" {
		if f, err := os.Create(p); err == nil {
			defer f.Close()
			side = bufio.NewWriter(f)
			defer side.Flush()
		}
	}
	var proc *c04Proc
	defer func() { proc.kill() }()
	lineNo := -1
	for in.Scan() {
		lineNo++
		line := in.Text()
		f := strings.Split(line, " ")
		switch {
		case f[0] == "case":
			fmt.Fprintln(w, line)
		case f[0] == "base" && len(f) == 3:
			fmt.Fprintln(w, "ok")
		case f[0] == "file" && len(f) == 4:
			if proc == nil {
				var err error
				if proc, err = c04Start(); err != nil {
					fmt.Fprintln(w, "bad-child "+err.Error())
					continue
				}
			}
			rep, ok := proc.ask(f[1], HxScale(20*time.Second))
			if !ok {
				proc.kill()
				proc = nil
				if side != nil {
					fmt.Fprintf(side, "%d %s\n", lineNo, rep)
				}
				fmt.Fprintln(w, rep)
				continue
			}
			parts := strings.Split(rep, "\t")
			if side != nil && len(parts) == 2 {
				fmt.Fprintf(side, "%d %s\n", lineNo, strings.TrimPrefix(parts[1], "A="))
			}
			fmt.Fprintln(w, parts[0])
		default:
			fmt.Fprintln(w, "bad-op")
		}
	}
}

// ---------------------------------------------------------------- generator

type c04Base struct {
	bytes   []byte
	entries []v2.Entry // in written order
	// offsets of block headers inside bytes
	blocks []int
}

// c04MakeBase writes a small valid file with the real writer and records its structure.
func c04MakeBase(rng *rand.Rand, dir string, n int) (*c04Base, error) {
	path := filepath.Join(dir, fmt.Sprintf("base%06d.hyd", n))
	bs := []int{64, 64, 128, 256, 512, 4096}[rng.Intn(6)]
	nameLen := []int{0, 5, 12, 12, 40}[rng.Intn(5)]
	name := make([]byte, nameLen)
	for i := range name {
		name[i] = "abcdef/._-01"[rng.Intn(12)]
	}
	fw, err := v2.NewFileWriterWithName(path, bs, string(name))
	if err != nil {
		return nil, err
	}
	b := &c04Base{}
	keys := []string{"k", "key2", "a/b", "\x00\xff", "kkkkkkkkkkkkkkkkkkkk"}
	for i, m := 0, 1+rng.Intn(14); i < m; i++ {
		e := v2.Entry{Operation: uint8(1 + rng.Intn(3)), Key: keys[rng.Intn(len(keys))]}
		if e.Operation != v2.OpDelete {
			e.Data = c01GenBytes(rng.Intn(60), rng.Intn(1000))
		}
		if err := fw.WriteEntry(e); err != nil {
			continue
		}
		b.entries = append(b.entries, e)
		if rng.Intn(5) == 0 {
			_ = fw.Flush()
		}
	}
	if err := fw.Close(); err != nil {
		return nil, err
	}
	b.bytes, err = os.ReadFile(path)
	if err != nil {
		return nil, err
	}
	_ = os.Remove(path)
	// walk the block headers
	off := 64 + int(binary.LittleEndian.Uint16(b.bytes[44:46]))
	for off+16 <= len(b.bytes) {
		b.blocks = append(b.blocks, off)
		off += 16 + int(binary.LittleEndian.Uint32(b.bytes[off:off+4]))
	}
	return b, nil
}

func c04PrefixDigests(es []v2.Entry) string {
	idx := map[string][]byte{}
	d, _ := c01IndexDigest(idx)
	seen := map[string]bool{d: true}
	out := []string{d}
	for _, e := range es {
		switch e.Operation {
		case v2.OpDelete:
			delete(idx, e.Key)
		case v2.OpInsert, v2.OpUpdate:
			idx[e.Key] = e.Data
		}
		d, _ := c01IndexDigest(idx)
		if !seen[d] {
			seen[d] = true
			out = append(out, d)
		}
	}
	return strings.Join(out, ",")
}

// c04Block builds a block with a correct checksum around arbitrary "compressed" bytes.
func c04Block(csize, usize uint32, count uint16, c []byte, fixCrc bool) []byte {
	h := make([]byte, 16)
	binary.LittleEndian.PutUint32(h[0:4], csize)
	binary.LittleEndian.PutUint32(h[4:8], usize)
	binary.LittleEndian.PutUint16(h[8:10], count)
	if fixCrc {
		binary.LittleEndian.PutUint32(h[10:14], crc32.ChecksumIEEE(c))
	}
	return append(h, c...)
}

func c04Header(version uint16, name []byte) []byte {
	h := v2.NewFileHeader()
	h.Version = version
	h.CreatedAt, h.ModifiedAt = 1, 1
	b := h.Serialize()
	binary.LittleEndian.PutUint16(b[4:6], version)
	binary.LittleEndian.PutUint16(b[44:46], uint16(len(name)))
	return append(b, name...)
}

func c04Entries(es ...v2.Entry) []byte {
	var out []byte
	for _, e := range es {
		out = append(out, e.Serialize()...)
	}
	return out
}

func c04Gen(rng *rand.Rand, tier string, w *bufio.Writer) {
	dir, err := os.MkdirTemp("", "hvc04g-")
	if err != nil {
		panic(err)
	}
	defer os.RemoveAll(dir)
	nBases, perBase, nRand := 160, 40, 1500
	if tier == "thorough" {
		nBases, perBase, nRand = 300, 120, 20000
	}
	emit := func(b []byte, id int, kind string) { fmt.Fprintf(w, "file %s %d %s\n", c01Hex(b), id, kind) }
	fmt.Fprintln(w, "case 0")
	// ---- corpus (base 0 = "nothing was ever written")
	fmt.Fprintf(w, "base 0 %s\n", c04PrefixDigests(nil))
	hdr := c04Header(3, []byte("a/b/c"))
	emit(nil, 0, "empty")
	emit(hdr[:10], 0, "trunc")
	emit(hdr[:63], 0, "trunc")
	emit(hdr, 0, "valid")
	emit(append(append([]byte{}, hdr...), 1, 2, 3, 4, 5, 6, 7, 8, 9, 10, 11, 12, 13, 14, 15), 0, "tail") // 15 stray bytes: clean EOF
	emit(append(append([]byte{}, c04Header(3, nil)...), c04Block(0xFFFFFFFF, 0, 0, nil, false)...), 0, "forged-csize")          // the 80-byte file
	emit(append(append([]byte{}, hdr...), c04Block(1<<30, 0, 0, []byte{1, 2, 3}, false)...), 0, "forged-csize")
	emit(append(append([]byte{}, hdr...), c04Block(5, 7, 1, nil, false)...), 0, "forged-csize") // header, then nothing: io.EOF quirk
	emit(append(append([]byte{}, hdr...), c04Block(5, 7, 1, []byte{9, 9}, false)...), 0, "trunc")
	// zero-filled tails: behind the name, behind a block, shorter and longer than a block header
	for _, n := range []int{1, 15, 16, 17, 100} {
		emit(append(append([]byte{}, hdr...), make([]byte, n)...), 0, "zerotail")
	}
	emit(append(append(append([]byte{}, hdr...), c04Block(0, 0, 0, nil, false)...), c04Block(5, 7, 1, []byte{1, 2, 3, 4, 5}, true)...), 0, "csize") // zero size field, then a block
	emit(append(append(append([]byte{}, hdr...), c04Block(3, 7, 1, []byte{1, 2, 0}, true)...), 0, 0, 0), 0, "zeroend") // does not decode, ends in 0, zeros behind
	emit(append(append(append([]byte{}, hdr...), c04Block(3, 7, 1, []byte{1, 2, 0}, true)...), 0, 0, 1), 0, "zeroend") // … a non-zero byte behind
	emit(append(append([]byte{}, hdr...), c04Block(3, 7, 1, []byte{1, 2, 0}, false)...), 0, "zeroend")                  // checksum mismatch, ends in 0, nothing behind
	emit(append(append([]byte{}, hdr...), c04Block(3, 7, 1, []byte{1, 0, 2}, false)...), 0, "zeroend")                  // … does not end in 0
	big := []byte{0xff, 0xff, 0xff, 0xff, 0x0f, 0x00} // snappy varint 0xFFFFFFFF, then a literal tag
	emit(append(append([]byte{}, hdr...), c04Block(uint32(len(big)), 0xFFFFFFFF, 1, big, true)...), 0, "forged-dlen")
	mid := []byte{0x80, 0x80, 0x80, 0x40, 0x00} // snappy varint 128 MiB
	for _, declared := range []uint64{1 << 20, 48 << 20, 63 << 20} { // "small" forged lengths: far beyond 32x+64, below any fixed cap
		pl := append(binary.AppendUvarint(nil, declared), 0x00)
		emit(append(append([]byte{}, hdr...), c04Block(uint32(len(pl)), uint32(declared), 1, pl, true)...), 0, "forged-dlen")
		emit(append(append([]byte{}, hdr...), c04Block(uint32(len(pl)), 24, 1, pl, true)...), 0, "forged-dlen")
	}
	emit(append(append([]byte{}, hdr...), c04Block(uint32(len(mid)), 1<<27, 1, mid, true)...), 0, "forged-dlen")
	// a plausible header (small UncompressedSize) in front of a huge snappy preamble: only the preamble is what snappy allocates
	emit(append(append([]byte{}, hdr...), c04Block(uint32(len(big)), 24, 1, big, true)...), 0, "forged-dlen")
	emit(append(append([]byte{}, hdr...), c04Block(uint32(len(mid)), 100, 2, mid, true)...), 0, "forged-dlen")
	// an entry stream that ends 0..3 bytes after a key (CRC and snappy intact): the data-length field is cut
	for cut := 0; cut <= 4; cut++ {
		e := v2.Entry{Operation: 1, Key: "kkkk", Data: []byte("vvvvvv")}
		u := e.Serialize()[:3+4+cut]
		c := snappy.Encode(nil, u)
		emit(append(append([]byte{}, hdr...), c04Block(uint32(len(c)), uint32(len(u)), 1, c, true)...), 0, "payload")
		first := v2.Entry{Operation: 1, Key: "a", Data: []byte("b")}
		two := append(first.Serialize(), u...)
		c2 := snappy.Encode(nil, two)
		emit(append(append([]byte{}, hdr...), c04Block(uint32(len(c2)), uint32(len(two)), 2, c2, true)...), 0, "payload")
	}
	emit(append(append([]byte{}, hdr...), c04Block(0, 0, 0, nil, true)...), 0, "forged")                       // empty compressed data
	emit(append(append([]byte{}, hdr...), c04Block(1, 0, 65535, []byte{0}, true)...), 0, "forged")             // snappy(""), 65535 entries claimed
	emit(append(append([]byte{}, c04Header(9, nil)...), 1, 2, 3), 0, "version")
	emit(append([]byte("HYDX"), hdr[4:]...), 0, "magic")
	// count forging: [put k, del k] under EntryCount 2 → 1
	{
		put := v2.Entry{Operation: v2.OpInsert, Key: "k", Data: []byte("v")}
		del := v2.Entry{Operation: v2.OpDelete, Key: "k"}
		fmt.Fprintf(w, "base 1 %s\n", c04PrefixDigests([]v2.Entry{put, del}))
		u := c04Entries(put, del)
		c := snappy.Encode(nil, u)
		emit(append(append([]byte{}, hdr...), c04Block(uint32(len(c)), uint32(len(u)), 2, c, true)...), 1, "valid")
		emit(append(append([]byte{}, hdr...), c04Block(uint32(len(c)), uint32(len(u)), 1, c, true)...), 1, "count")
		emit(append(append([]byte{}, hdr...), c04Block(uint32(len(c)), uint32(len(u)), 3, c, true)...), 1, "count")
		emit(append(append([]byte{}, hdr...), c04Block(uint32(len(c)), uint32(len(u)), 0, c, true)...), 1, "count")
	}
	// ---- mutations of files written by the real writer
	id := 2
	for bi := 0; bi < nBases; bi++ {
		b, err := c04MakeBase(rng, dir, bi)
		if err != nil || len(b.blocks) == 0 {
			continue
		}
		fmt.Fprintf(w, "case %d\n", id)
		fmt.Fprintf(w, "base %d %s\n", id, c04PrefixDigests(b.entries))
		emit(b.bytes, id, "valid")
		for m := 0; m < perBase; m++ {
			x := append([]byte{}, b.bytes...)
			blk := b.blocks[rng.Intn(len(b.blocks))]
			kind := ""
			switch rng.Intn(16) {
			case 12: // the file size outlived the data: zero bytes appended behind the last block
				kind = "zerotail"
				x = append(x, make([]byte, []int{1, 15, 16, 17, 1 + rng.Intn(200), 70000}[rng.Intn(6)])...)
			case 13: // … or the data of the last append(s) never reached the disk: zeros from some offset of the block area on
				kind = "zerofill"
				for k := b.blocks[0] + rng.Intn(len(x)-b.blocks[0]); k < len(x); k++ {
					x[k] = 0
				}
			case 14: // a zeroed range in the middle (intact data behind it): not a torn tail
				kind = "zeromid"
				from := blk + rng.Intn(len(x)-blk)
				for k := from; k < len(x) && k < from+1+rng.Intn(40); k++ {
					x[k] = 0
				}
			case 15: // a block that does not parse, ends in a zero byte, zeros (or not) behind it
				kind = "zeroend"
				end := blk + 16 + int(binary.LittleEndian.Uint32(x[blk:]))
				if end <= len(x) && end > blk+16 {
					x[end-1] = 0
					x[blk+16+rng.Intn(end-blk-16)] ^= 0x55
					x = append(x[:end:end], make([]byte, rng.Intn(40))...)
					if rng.Intn(3) == 0 {
						x = append(x, 7)
					}
				}
			case 0, 1:
				kind = "flip"
				x[rng.Intn(len(x))] ^= 1 << uint(rng.Intn(8))
			case 2:
				kind = "bytes"
				for k := 1 + rng.Intn(3); k > 0; k-- {
					x[rng.Intn(len(x))] = byte(rng.Intn(256))
				}
			case 3, 4:
				kind = "trunc"
				x = x[:rng.Intn(len(x))]
			case 5:
				kind = "csize"
				v := []uint32{0xFFFFFFFF, 1 << 30, 1 << 28, 0, uint32(len(x)), uint32(len(x) - blk - 16 + 1)}[rng.Intn(6)]
				if rng.Intn(3) == 0 {
					v = binary.LittleEndian.Uint32(x[blk:]) + uint32(rng.Intn(5)) - 2
				}
				binary.LittleEndian.PutUint32(x[blk:], v)
			case 6:
				kind = "usize"
				binary.LittleEndian.PutUint32(x[blk+4:], []uint32{0, 0xFFFFFFFF, binary.LittleEndian.Uint32(x[blk+4:]) + 1}[rng.Intn(3)])
			case 7, 8:
				kind = "count"
				c := binary.LittleEndian.Uint16(x[blk+8:])
				binary.LittleEndian.PutUint16(x[blk+8:], []uint16{0, c - 1, c + 1, 65535, c ^ 1, c ^ 2}[rng.Intn(6)])
			case 9:
				kind = "crcfield"
				x[blk+10+rng.Intn(4)] ^= byte(1 + rng.Intn(255))
			case 10:
				kind = "tail"
				t := make([]byte, 1+rng.Intn(40))
				rng.Read(t)
				x = append(x, t...)
			default:
				kind = "hdr"
				x[rng.Intn(64)] ^= byte(1 + rng.Intn(255))
			}
			emit(x, id, kind)
		}
		if tier == "thorough" { // every truncation point
			for cut := 0; cut < len(b.bytes); cut++ {
				emit(b.bytes[:cut], id, "trunc")
			}
		}
		id++
	}
	// ---- checksum-valid blocks around damaged *payloads*: drives Entry.Deserialize's bounds checks
	nForged := 400
	if tier == "thorough" {
		nForged = 20000
	}
	fmt.Fprintf(w, "case %d\n", id)
	for i := 0; i < nForged; i++ {
		var u []byte
		n := 1 + rng.Intn(4)
		for k := 0; k < n; k++ {
			e := v2.Entry{Operation: uint8(1 + rng.Intn(4)), Key: string(c01GenBytes(1+rng.Intn(6), rng.Intn(99))), Data: c01GenBytes(rng.Intn(30), rng.Intn(99))}
			u = append(u, e.Serialize()...)
		}
		count := uint16(n)
		switch rng.Intn(9) {
		case 0: // key length field beyond the payload
			binary.LittleEndian.PutUint16(u[1:3], uint16(len(u)+rng.Intn(70000)))
		case 1: // data length field beyond the payload (last entry)
			if len(u) >= 4 {
				binary.LittleEndian.PutUint32(u[len(u)-4-min(len(u)-4, rng.Intn(8)):], uint32(rng.Intn(1<<31)))
			}
		case 2: // cut the payload
			u = u[:rng.Intn(len(u))]
		case 3: // random payload bytes
			for k := 1 + rng.Intn(4); k > 0; k-- {
				u[rng.Intn(len(u))] = byte(rng.Intn(256))
			}
		case 4: // zero key length
			u[1], u[2] = 0, 0
		case 5: // count too high / too low
			count = uint16(int(count) + rng.Intn(5) - 2)
		case 6: // pure noise payload
			rng.Read(u)
		case 7: // the stream ends 0..3 bytes after the last entry's key
			last := v2.Entry{Operation: 1, Key: string(c01GenBytes(1+rng.Intn(9), rng.Intn(99))), Data: []byte("x")}
			u = append(u, last.Serialize()[:3+len(last.Key)+rng.Intn(4)]...)
			n++
			count = uint16(n)
		}
		c := snappy.Encode(nil, u)
		usize := uint32(len(u))
		if rng.Intn(10) == 0 {
			usize += uint32(rng.Intn(3))
		}
		if rng.Intn(12) == 0 { // keep the header plausible, forge the snappy preamble (declared decoded length)
			// declared lengths from just above 32x+64 of the payload up to 4 GiB (incl. the 1..64 MiB range)
			declared := []uint64{uint64(33*len(c) + 65), uint64(64 * len(c)), 1 << 16, 1 << 20, 8 << 20, 48 << 20, 63 << 20, 1 << 27, 1 << 30, 0xFFFFFFFF}[rng.Intn(10)]
			pre := binary.AppendUvarint(nil, declared)
			_, hl := binary.Uvarint(c)
			if hl > 0 {
				c = append(append([]byte{}, pre...), c[hl:]...)
			}
		}
		x := append(append([]byte{}, hdr...), c04Block(uint32(len(c)), usize, count, c, true)...)
		if rng.Intn(4) == 0 { // a second, intact block after it
			u2 := c04Entries(v2.Entry{Operation: 1, Key: "z", Data: []byte("after")})
			c2 := snappy.Encode(nil, u2)
			x = append(x, c04Block(uint32(len(c2)), uint32(len(u2)), 1, c2, true)...)
		}
		emit(x, 0, "payload")
	}
	// ---- random bytes, with and without a plausible header
	fmt.Fprintf(w, "case %d\n", id)
	for i := 0; i < nRand; i++ {
		n := rng.Intn(300)
		x := make([]byte, n)
		rng.Read(x)
		switch rng.Intn(3) {
		case 0:
			x = append(c04Header(uint16(2+rng.Intn(2)), nil), x...)
		case 1:
			nm := make([]byte, rng.Intn(20))
			rng.Read(nm)
			x = append(c04Header(3, nm), x...)
			if rng.Intn(2) == 0 && len(x) >= 64+len(nm)+16 { // small claimed size so that parsing goes deeper
				binary.LittleEndian.PutUint32(x[64+len(nm):], uint32(rng.Intn(64)))
			}
		}
		emit(x, 0, "rand")
	}
}
