package main

// Domain C22, op `shape NAME`: fixed model shapes that reflect.StructOf cannot build (unexported and embedded
// fields) or that combine several body fields; saved and read back through the real SDK and server.
// Reply: same | diff | err-save | err-read | panic.

import (
	"context"
	"fmt"
	"os"
	"reflect"
	"sort"
	"strconv"
	"strings"
	"time"

	sdkname "github.com/hydraide/hydraide/sdk/go/hydraidego/v3/name"
)

type c22Addr struct {
	City string
	Zip  int
}

// nested: structs, slices of structs, maps of slices, pointers (nil and set) as map-body fields
type c22Nested struct {
	ID    string             `hydraide:"key"`
	Home  c22Addr            `hydraide:"Home"`
	Past  []c22Addr          `hydraide:"Past"`
	Tags  map[string][]int   `hydraide:"Tags"`
	Work  *c22Addr           `hydraide:"Work"`
	None  *c22Addr           `hydraide:"None"`
	Deep  map[string]c22Addr `hydraide:"Deep"`
	PP    **int              `hydraide:"PP,omitempty"`
	Since time.Time          `hydraide:"Since"`
}

// pointer fields: nil vs pointer to the zero value, with and without omitempty
type c22Ptrs struct {
	ID string  `hydraide:"key"`
	A  *int    `hydraide:"A"`
	B  *int    `hydraide:"B"`
	C  *string `hydraide:"C,omitempty"`
	D  *string `hydraide:"D,omitempty"`
}

type c22Base struct {
	Label string `hydraide:"Label"`
	Rank  int    `hydraide:"Rank"`
}

// embedded struct whose fields carry body tags
type c22Embedded struct {
	ID string `hydraide:"key"`
	c22Base
	Own string `hydraide:"Own"`
}

// exported embedded struct
type C22Pub struct {
	Label string `hydraide:"Label"`
}
type c22EmbeddedPub struct {
	ID string `hydraide:"key"`
	C22Pub
	Own string `hydraide:"Own"`
}

// an unexported field without a tag next to tagged ones (must simply be ignored)
type c22UnexportedPlain struct {
	ID     string `hydraide:"key"`
	Title  string `hydraide:"Title"`
	hidden int
}

// an unexported field WITH a body tag
type c22UnexportedTagged struct {
	ID     string `hydraide:"key"`
	Title  string `hydraide:"Title"`
	secret string `hydraide:"secret"`
}

// `hydraide:"-"` as it is used in the repository's own e2e models (json-style "skip this field")
type c22Dash struct {
	ID    string `hydraide:"key"`
	Title string `hydraide:"Title"`
	Tmp1  string `hydraide:"-"`
	Tmp2  string `hydraide:"-"`
}

type c22DashValue struct {
	ID    string `hydraide:"key"`
	Count int    `hydraide:"value"`
	Tmp   string `hydraide:"-"`
}

// profile models
type c22ProfNested struct {
	Name  string
	Home  *c22Addr
	Past  []c22Addr
	Limit map[string]int
	Since time.Time
}
type c22ProfUnexported struct {
	Name   string
	hidden int
}
type c22ProfEmbedded struct {
	Name string
	C22Pub
}

func c22ShapeModels(name string) (saved any, fresh any, profile bool, ok bool) {
	seven, zero, hello, empty := 7, 0, "hello", ""
	pz := &zero
	ppz := &pz
	switch name {
	case "nested":
		return &c22Nested{ID: "k1", Home: c22Addr{"Pécs", 7621}, Past: []c22Addr{{"A", 1}, {"B", 2}}, Tags: map[string][]int{"x": {1, 2}, "y": {}},
			Work: &c22Addr{"W", 9}, Deep: map[string]c22Addr{"d": {"D", 4}}, PP: ppz, Since: time.Date(2031, 1, 2, 3, 4, 5, 678000000, time.UTC)}, &c22Nested{}, false, true
	case "ptrs":
		return &c22Ptrs{ID: "k1", A: &seven, B: &zero, C: &hello, D: &empty}, &c22Ptrs{}, false, true
	case "ptrs-nil":
		return &c22Ptrs{ID: "k1"}, &c22Ptrs{}, false, true
	case "embedded":
		return &c22Embedded{ID: "k1", c22Base: c22Base{"L", 3}, Own: "o"}, &c22Embedded{}, false, true
	case "embedded-pub":
		return &c22EmbeddedPub{ID: "k1", C22Pub: C22Pub{"L"}, Own: "o"}, &c22EmbeddedPub{}, false, true
	case "unexported-plain":
		return &c22UnexportedPlain{ID: "k1", Title: "t", hidden: 5}, &c22UnexportedPlain{hidden: 5}, false, true
	case "unexported-tagged":
		return &c22UnexportedTagged{ID: "k1", Title: "t", secret: "s"}, &c22UnexportedTagged{}, false, true
	case "dash":
		return &c22Dash{ID: "k1", Title: "t", Tmp1: "one", Tmp2: "two"}, &c22Dash{Tmp1: "one", Tmp2: "two"}, false, true
	case "dash-value":
		return &c22DashValue{ID: "k1", Count: 5, Tmp: "x"}, &c22DashValue{Tmp: "x"}, false, true
	case "prof-nested":
		return &c22ProfNested{Name: "n", Home: &c22Addr{"H", 1}, Past: []c22Addr{{"P", 2}}, Limit: map[string]int{"a": 1}, Since: time.Date(2031, 1, 2, 3, 4, 5, 0, time.UTC)}, &c22ProfNested{}, true, true
	case "prof-unexported":
		return &c22ProfUnexported{Name: "n", hidden: 5}, &c22ProfUnexported{hidden: 5}, true, true
	case "prof-embedded":
		return &c22ProfEmbedded{Name: "n", C22Pub: C22Pub{"L"}}, &c22ProfEmbedded{}, true, true
	}
	return nil, nil, false, false
}

var c22ShapeNames = []string{"nested", "ptrs", "ptrs-nil", "embedded", "embedded-pub", "unexported-plain", "unexported-tagged", "dash", "dash-value",
	"prof-nested", "prof-unexported", "prof-embedded"}

func c22Shape(sdk *miscSDK, idx int, name string) (out string) {
	stage := "save"
	defer func() {
		if r := recover(); r != nil {
			fmt.Fprintf(os.Stderr, "c22 shape %s: panic in %s: %v\n", name, stage, r)
			out = "panic-" + stage
		}
	}()
	saved, back, profile, ok := c22ShapeModels(name)
	if !ok {
		return "bad-op"
	}
	ctx, cancel := context.WithTimeout(context.Background(), HxScale(30*time.Second))
	defer cancel()
	swamp := sdkname.New().Sanctuary("c22").Realm("shape").Swamp("s" + strconv.Itoa(idx))
	defer func() { _ = sdk.H.Destroy(context.Background(), swamp) }()
	var err error
	if profile {
		err = sdk.H.ProfileSave(ctx, swamp, saved)
	} else {
		_, err = sdk.H.CatalogSave(ctx, swamp, saved)
	}
	if err != nil {
		fmt.Fprintf(os.Stderr, "c22 shape %s: save: %v\n", name, err)
		if miscIsTimeout(err) {
			return "timeout"
		}
		return "err-save"
	}
	stage = "read"
	if profile {
		err = sdk.H.ProfileRead(ctx, swamp, back)
	} else {
		err = sdk.H.CatalogRead(ctx, swamp, "k1", back)
	}
	if err != nil {
		fmt.Fprintf(os.Stderr, "c22 shape %s: read: %v\n", name, err)
		if miscIsTimeout(err) {
			return "timeout"
		}
		return "err-read"
	}
	if c22Canon(reflect.ValueOf(saved)) == c22Canon(reflect.ValueOf(back)) {
		return "same"
	}
	fmt.Fprintf(os.Stderr, "c22 shape %s: saved %+v read %+v\n", name, reflect.ValueOf(saved).Elem().Interface(), reflect.ValueOf(back).Elem().Interface())
	return "diff"
}

// c22Canon renders a value for comparison: pointers are followed (nil stays visible), maps are sorted, times are
// compared as instants, nil and empty containers are kept apart, and UNEXPORTED struct fields are left out (reflection
// cannot set them, so they are not part of what a model can round-trip).
func c22Canon(v reflect.Value) string {
	if !v.IsValid() {
		return "<invalid>"
	}
	if v.Type() == reflect.TypeOf(time.Time{}) {
		if v.CanInterface() {
			return "time:" + strconv.FormatInt(v.Interface().(time.Time).UnixNano(), 10)
		}
		return "time:?"
	}
	switch v.Kind() {
	case reflect.Ptr, reflect.Interface:
		if v.IsNil() {
			return "nil"
		}
		return "&" + c22Canon(v.Elem())
	case reflect.Struct:
		var parts []string
		for i := 0; i < v.NumField(); i++ {
			f := v.Type().Field(i)
			if f.PkgPath != "" && !f.Anonymous {
				continue
			}
			parts = append(parts, f.Name+":"+c22Canon(v.Field(i)))
		}
		return "{" + strings.Join(parts, " ") + "}"
	case reflect.Slice:
		if v.IsNil() {
			return "nil[]"
		}
		fallthrough
	case reflect.Array:
		var parts []string
		for i := 0; i < v.Len(); i++ {
			parts = append(parts, c22Canon(v.Index(i)))
		}
		return "[" + strings.Join(parts, " ") + "]"
	case reflect.Map:
		if v.IsNil() {
			return "nilmap"
		}
		var parts []string
		for _, k := range v.MapKeys() {
			parts = append(parts, c22Canon(k)+"="+c22Canon(v.MapIndex(k)))
		}
		sort.Strings(parts)
		return "map[" + strings.Join(parts, " ") + "]"
	case reflect.String:
		return strconv.Quote(v.String())
	case reflect.Bool:
		return strconv.FormatBool(v.Bool())
	case reflect.Int, reflect.Int8, reflect.Int16, reflect.Int32, reflect.Int64:
		return strconv.FormatInt(v.Int(), 10)
	case reflect.Uint, reflect.Uint8, reflect.Uint16, reflect.Uint32, reflect.Uint64:
		return strconv.FormatUint(v.Uint(), 10)
	case reflect.Float32, reflect.Float64:
		return strconv.FormatFloat(v.Float(), 'g', -1, 64)
	}
	return "?" + v.Kind().String()
}
