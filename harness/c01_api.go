package main

// API-level ops of domain C01 (through the in-process gateway; one rig per `hx run` process):
//
//	aset NAMELEN KEYLEN SEED       Set one string treasure in swamp verifapi/r<SEED>/xxx… (name padded to NAMELEN bytes)
//	arpc RPC KEYLEN SEED           the named key-creating RPC with a key of KEYLEN bytes (swamp name of ordinary length)
//	arestart                       graceful stop (flushes every swamp) and a new server on the same data root
//	aget NAMELEN KEYLEN SEED       Get of the same treasure
//
// reply: ok | invalid | err CODE          (aset / arpc)
//
//	found | missing | invalid | err CODE   (aget)

import (
	"context"
	"fmt"
	"os"
	"strconv"
	"strings"
	"time"

	"github.com/hydraide/hydraide/app/core/filesystem"
	"github.com/hydraide/hydraide/app/core/settings"
	"github.com/hydraide/hydraide/app/core/zeus"
	"github.com/hydraide/hydraide/app/name"
	"github.com/hydraide/hydraide/app/server/gateway"
	hydrapb "github.com/hydraide/hydraide/sdk/go/hydraidego/v3/hydraidepbgo"
	"google.golang.org/grpc/codes"
	"google.golang.org/grpc/status"
)

const c01ApiIsland = 1

type c01Api struct{ rig *Rig }

var c01ApiRPCs = []string{"IncrementInt8", "IncrementInt16", "IncrementInt32", "IncrementInt64", "IncrementUint8", "IncrementUint16",
	"IncrementUint32", "IncrementUint64", "IncrementFloat32", "IncrementFloat64", "Uint32SlicePush", "PatchTreasures"}

func c01ApiRegister(r *Rig) {
	_ = r.Settings.SetEngine(settings.EngineV2)
	r.Settings.RegisterPattern(name.New().Sanctuary("verifapi").Realm("*").Swamp("*"), false, 3600,
		&settings.FileSystemSettings{WriteIntervalSec: 1, MaxFileSizeByte: 8192})
}

func (a *c01Api) ensure() error {
	if a.rig != nil {
		return nil
	}
	r, err := NewRig(3, 2000, 3600, 1)
	if err != nil {
		return err
	}
	c01ApiRegister(r)
	a.rig = r
	return nil
}

func (a *c01Api) restart() error {
	if a.rig == nil {
		return a.ensure()
	}
	a.rig.Zeus.StopHydra()
	if err := os.Setenv("HYDRAIDE_ROOT_PATH", a.rig.Root); err != nil {
		return err
	}
	s := settings.New(3, 2000)
	z := zeus.New(s, filesystem.New())
	z.StartHydra()
	gw := &gateway.Gateway{SettingsInterface: s, ZeusInterface: z, DefaultCloseAfterIdle: 3600, DefaultWriteInterval: 1, DefaultFileSize: 8192}
	a.rig = &Rig{Root: a.rig.Root, Settings: s, Zeus: z, GW: gw}
	c01ApiRegister(a.rig)
	return nil
}

func (a *c01Api) stop() {
	if a.rig != nil {
		a.rig.Stop(true)
		a.rig = nil
	}
}

func c01ApiName(nameLen, seed int) string {
	p := fmt.Sprintf("verifapi/r%d/", seed)
	if nameLen <= len(p) {
		return p + "x"
	}
	return p + strings.Repeat("x", nameLen-len(p))
}

func c01ApiErr(err error) string {
	if err == nil {
		return "ok"
	}
	if status.Code(err) == codes.InvalidArgument {
		return "invalid"
	}
	return "err " + status.Code(err).String()
}

func (a *c01Api) apply(f []string) string {
	if err := a.ensure(); err != nil {
		return "err rig"
	}
	ctx, cancel := context.WithTimeout(context.Background(), HxScale(20*time.Second))
	defer cancel()
	ints := func(ss []string) ([]int, bool) {
		out := make([]int, len(ss))
		for i, s := range ss {
			n, err := strconv.Atoi(s)
			if err != nil {
				return nil, false
			}
			out[i] = n
		}
		return out, true
	}
	sv := "v"
	switch {
	case f[0] == "aset" && len(f) == 4:
		v, ok := ints(f[1:])
		if !ok {
			return "bad-op"
		}
		_, err := a.rig.GW.Set(ctx, &hydrapb.SetRequest{Swamps: []*hydrapb.SwampRequest{{IslandID: c01ApiIsland, SwampName: c01ApiName(v[0], v[2]),
			CreateIfNotExist: true, Overwrite: true, KeyValues: []*hydrapb.KeyValuePair{{Key: string(c01GenBytes(v[1], v[2])), StringVal: &sv}}}}})
		return c01ApiErr(err)
	case f[0] == "aget" && len(f) == 4:
		v, ok := ints(f[1:])
		if !ok {
			return "bad-op"
		}
		key := string(c01GenBytes(v[1], v[2]))
		r, err := a.rig.GW.Get(ctx, &hydrapb.GetRequest{Swamps: []*hydrapb.GetSwamp{{IslandID: c01ApiIsland, SwampName: c01ApiName(v[0], v[2]), Keys: []string{key}}}})
		if err != nil {
			if status.Code(err) == codes.FailedPrecondition { // the swamp does not exist
				return "missing"
			}
			return c01ApiErr(err)
		}
		for _, sw := range r.GetSwamps() {
			for _, t := range sw.GetTreasures() {
				if t.GetIsExist() && t.GetKey() == key {
					return "found"
				}
			}
		}
		return "missing"
	case f[0] == "arestart" && len(f) == 1:
		if err := a.restart(); err != nil {
			return "err rig"
		}
		return "ok"
	case f[0] == "arpc" && len(f) == 4:
		v, ok := ints(f[2:])
		if !ok {
			return "bad-op"
		}
		S, K := c01ApiName(30, v[1]), string(c01GenBytes(v[0], v[1]))
		var err error
		switch f[1] {
		case "IncrementInt8":
			_, err = a.rig.GW.IncrementInt8(ctx, &hydrapb.IncrementInt8Request{IslandID: c01ApiIsland, SwampName: S, Key: K, IncrementBy: 1})
		case "IncrementInt16":
			_, err = a.rig.GW.IncrementInt16(ctx, &hydrapb.IncrementInt16Request{IslandID: c01ApiIsland, SwampName: S, Key: K, IncrementBy: 1})
		case "IncrementInt32":
			_, err = a.rig.GW.IncrementInt32(ctx, &hydrapb.IncrementInt32Request{IslandID: c01ApiIsland, SwampName: S, Key: K, IncrementBy: 1})
		case "IncrementInt64":
			_, err = a.rig.GW.IncrementInt64(ctx, &hydrapb.IncrementInt64Request{IslandID: c01ApiIsland, SwampName: S, Key: K, IncrementBy: 1})
		case "IncrementUint8":
			_, err = a.rig.GW.IncrementUint8(ctx, &hydrapb.IncrementUint8Request{IslandID: c01ApiIsland, SwampName: S, Key: K, IncrementBy: 1})
		case "IncrementUint16":
			_, err = a.rig.GW.IncrementUint16(ctx, &hydrapb.IncrementUint16Request{IslandID: c01ApiIsland, SwampName: S, Key: K, IncrementBy: 1})
		case "IncrementUint32":
			_, err = a.rig.GW.IncrementUint32(ctx, &hydrapb.IncrementUint32Request{IslandID: c01ApiIsland, SwampName: S, Key: K, IncrementBy: 1})
		case "IncrementUint64":
			_, err = a.rig.GW.IncrementUint64(ctx, &hydrapb.IncrementUint64Request{IslandID: c01ApiIsland, SwampName: S, Key: K, IncrementBy: 1})
		case "IncrementFloat32":
			_, err = a.rig.GW.IncrementFloat32(ctx, &hydrapb.IncrementFloat32Request{IslandID: c01ApiIsland, SwampName: S, Key: K, IncrementBy: 1})
		case "IncrementFloat64":
			_, err = a.rig.GW.IncrementFloat64(ctx, &hydrapb.IncrementFloat64Request{IslandID: c01ApiIsland, SwampName: S, Key: K, IncrementBy: 1})
		case "Uint32SlicePush":
			_, err = a.rig.GW.Uint32SlicePush(ctx, &hydrapb.AddToUint32SlicePushRequest{IslandID: c01ApiIsland, SwampName: S,
				KeySlicePairs: []*hydrapb.KeySlicePair{{Key: K, Values: []uint32{7}}}})
		case "PatchTreasures":
			var pr *hydrapb.PatchTreasuresResponse
			pr, err = a.rig.GW.PatchTreasures(ctx, &hydrapb.PatchTreasuresRequest{IslandID: c01ApiIsland, SwampName: S, CreateIfNotExist: true,
				Patches: []*hydrapb.TreasurePatch{{Key: K, Ops: []*hydrapb.PatchOp{{Op: hydrapb.PatchOp_SET, Path: "a", Value: []byte{0x01}}}}}})
			if err == nil && pr != nil {
				for _, r := range pr.GetResults() { // a per-key refusal counts as the API saying no
					if r.GetStatus() != hydrapb.PatchResult_CREATED && r.GetStatus() != hydrapb.PatchResult_PATCHED {
						return "invalid"
					}
				}
			}
		default:
			return "bad-op"
		}
		return c01ApiErr(err)
	}
	return "bad-op"
}
