package main

// Domain C17s: stress + trace inclusion for the vigil (operation counter + sync.Cond drain).
// `gen` runs the real vigil with genuinely concurrent operation goroutines (BeginVigil … CeaseVigil)
// and waiter goroutines (WaitForActiveVigilsClosed).  Log lines:
//
//   bpre / bpost     BeginVigil: before / after the atomic increment (the increment takes no lock, so
//                    it is bracketed: the model places its `begin` step anywhere in between)
//   cdec V           CeaseVigil: the decrement, logged UNDER v.mu together with the counter's new value
//   bdone            CeaseVigil: Broadcast has returned (the model's `bcast` lies between cdec and bdone)
//   checked W        waiter W (numbered in order of its first appearance) found the counter > 0, under v.mu,
//                    and goes into cond.Wait
//   passed W         waiter W found the counter = 0, under v.mu, and returns
//   hang             a waiter never returned although every operation had ceased
//
// `run` answers `ok`; the Lean driver (mode=trace) answers `ok` iff the vigil model can take the step
// with the same observable values: the mutex is free when a line is logged under it, the counter
// value equals the model's, a waiter only continues after a broadcast that followed its ticket,
// and `passed` only with no operation in flight.

import (
	"bufio"
	"fmt"
	"math/rand"
	"runtime"
	"strconv"
	"strings"
	"sync"
	"time"

	"github.com/hydraide/hydraide/app/core/hydra/swamp/vigil"
	"github.com/hydraide/hydraide/app/verifhook"
)

func init() { Register("C17s", Domain{Gen: genC17s, Run: runC14s}) }

// goid: the calling goroutine's id (harness only: the hooks carry no caller identity)
func goid() string {
	var buf [64]byte
	n := runtime.Stack(buf[:], false)
	f := strings.Fields(string(buf[:n]))
	if len(f) > 1 {
		return f[1]
	}
	return "?"
}

func genC17s(rng *rand.Rand, tier string, w *bufio.Writer) {
	rounds, episodes, ops, waiters, iters := 8, 250, 3, 2, 3
	if tier == "thorough" {
		rounds, episodes, ops, waiters, iters = 60, 600, 4, 3, 4
	}
	for r := 0; r < rounds; r++ {
		var mu sync.Mutex
		var log []string
		v := vigil.New()
		cur := map[string]int{} // goroutine → its current waiter number
		nw := 0
		verifhook.SetHandler(func(name string, args ...any) {
			if !strings.HasPrefix(name, "vigil.") || len(args) < 1 {
				return
			}
			if x, ok := args[0].(vigil.Vigil); !ok || x != v {
				return
			}
			var g string
			if name == "vigil.checked" || name == "vigil.passed" {
				g = goid()
			}
			mu.Lock()
			defer mu.Unlock()
			switch name {
			case "vigil.begin.pre":
				log = append(log, "bpre")
			case "vigil.begin.post":
				log = append(log, "bpost")
			case "vigil.dec.locked":
				// (read here, with the log mutex held: the value in the hook's argument was read before the
				//  handler got the log mutex, and increments logged in between would seem to precede it)
				log = append(log, "cdec "+strconv.FormatInt(vigil.VerifCount(v), 10))
			case "vigil.bcast.done":
				log = append(log, "bdone")
			case "vigil.checked", "vigil.passed":
				n, ok := cur[g]
				if !ok {
					nw++
					n = nw
					cur[g] = n
				}
				log = append(log, fmt.Sprintf("%s %d", strings.TrimPrefix(name, "vigil."), n))
				if name == "vigil.passed" {
					delete(cur, g)
				}
			}
		})
		// many short episodes on one vigil: each ends with "every operation has ceased" — the moment a
		// waiter must not be left asleep — so the last CeaseVigil races with the waiters' checks over and over
		hung := false
		for ep := 0; ep < episodes && !hung; ep++ {
			var opwg, wwg sync.WaitGroup
			nops, nwait := 1+rng.Intn(ops), 1+rng.Intn(waiters)
			for g := 0; g < nops; g++ {
				opwg.Add(1)
				seed := rng.Int63()
				go func(seed int64) {
					defer opwg.Done()
					lr := rand.New(rand.NewSource(seed))
					for i := 1 + lr.Intn(iters); i > 0; i-- {
						v.BeginVigil()
						switch lr.Intn(4) {
						case 0:
							runtime.Gosched()
						case 1:
							time.Sleep(time.Duration(lr.Intn(40)) * time.Microsecond)
						}
						v.CeaseVigil()
					}
				}(seed)
			}
			for g := 0; g < nwait; g++ {
				wwg.Add(1)
				seed := rng.Int63()
				go func(seed int64) {
					defer wwg.Done()
					lr := rand.New(rand.NewSource(seed))
					switch lr.Intn(3) {
					case 0:
						runtime.Gosched()
					case 1:
						time.Sleep(time.Duration(lr.Intn(40)) * time.Microsecond)
					}
					v.WaitForActiveVigilsClosed()
				}(seed)
			}
			opwg.Wait() // every operation has ceased: from now on no waiter may stay asleep
			done := make(chan struct{})
			go func() { wwg.Wait(); close(done) }()
			select {
			case <-done:
			case <-time.After(HxScale(15 * time.Second)):
				hung = true
			}
		}
		verifhook.SetHandler(nil)
		fmt.Fprintf(w, "case %d\n", r)
		mu.Lock()
		for _, l := range log {
			fmt.Fprintln(w, l)
		}
		if hung {
			fmt.Fprintln(w, "hang")
		}
		mu.Unlock()
		if hung {
			return // one hang is the verdict: do not spend the window again in every later round
		}
	}
}
