package main

// Domain C09: read-modify-write bodies on one record of the real server.
//
// case N sched CFG     forced schedule of IncrementInt64 calls on key "k" (value preset to 5; a
//                      second key "z" keeps the swamp alive).  CFG = p0 (persistent, write interval 0:
//                      SaveFunction releases the guard itself and the chronicler takes it again),
//                      pN (persistent, write interval 3600 s), m (in-memory).
//     ops: step T      thread T (A,B,C,D: increments 1,10,100,1000) performs its next model action:
//                      enqueue | read | write | save | deferred release.  Hook points inc.* in
//                      swamp.IncrementInt64 park the goroutine between actions.
//          fetch T     spawn T and park it right after it fetched the treasure object (before the guard)
//          del         Delete RPC on "k" (synchronous)
//          reload      close the swamp (flush) so that the next observation re-summons it from disk
//     reply: T:<state> q=[guard queue, IDs relative to the case start] c=<ID counter, relative> v=<value|absent>
//            state = F (fetched) | 1w (queued) | 1g (granted) | 2 (read) | 3 (written) | 3w (saved, file writer pending) |
//                    4 (saved) | 5 r=<response> by=<UpdatedBy of the response> | blocked (its next action is not enabled)
// case N stress CFG    op: stress W K N — W goroutines × N increments (+1) over K keys through the gateway;
//     reply: ok acked=<n> lost=<n> dup=<n> errors=<n>   (per key the responses must be exactly 1..n_k and the final value n_k)
// case N mixed CFG     op: mixed W N SEED — W goroutines × N random set/inc/get on one key; the client-visible
//     history is checked for linearizability against a register Spec (Wing–Gong search).
//     reply: ok ops=<n> linearizable | NONLIN <history>

import (
	"bufio"
	"context"
	"fmt"
	"math/rand"
	"os"
	"sort"
	"strconv"
	"strings"
	"sync"
	"sync/atomic"
	"time"

	"github.com/hydraide/hydraide/app/core/hydra/swamp/treasure/guard"
	"github.com/hydraide/hydraide/app/core/settings"
	"github.com/hydraide/hydraide/app/name"
	"github.com/hydraide/hydraide/app/verifhook"
	hydrapb "github.com/hydraide/hydraide/sdk/go/hydraidego/v3/hydraidepbgo"
)

func init() { Register("C09", Domain{Gen: c09Gen, Run: c09Run}) }

// every wait ends on its event; the limits are only there for requests that really hang (scaled by HX_TIMEOUT_SCALE)
var c09StepTimeout = HxScale(12 * time.Second)

var c09Names = []string{"A", "B", "C", "D"}
var c09Cfgs = []string{"p0", "pN", "m"}

// ---------------------------------------------------------------- generator

func c09Gen(rng *rand.Rand, tier string, w *bufio.Writer) {
	sched, stress, mixed := 150, 9, 12
	if tier == "thorough" {
		sched, stress, mixed = 600, 18, 40
	}
	c := 0
	// corpus: the three-call schedule of the ID-reuse witness, in every configuration; double release with a waiter;
	// the delete / increment object race, never persisted and persisted
	for _, cfg := range c09Cfgs {
		fmt.Fprintf(w, "case %d sched %s\n", c, cfg)
		c++
		for _, t := range []string{"A", "A", "A", "A", "B", "B", "A", "C", "C", "B", "C", "B", "B", "C", "C"} {
			fmt.Fprintf(w, "step %s\n", t)
		}
	}
	fmt.Fprintf(w, "case %d sched pN\nstep A\nstep B\nstep C\nstep B\nstep A\nstep A\nstep A\nstep A\nstep B\nstep B\nstep C\nstep B\nstep B\nstep C\nstep C\nstep C\nstep C\nstep C\n", c)
	c++
	// the response is built behind Save: A has saved, B takes the record and stamps its metadata, A answers
	for _, cfg := range c09Cfgs {
		fmt.Fprintf(w, "case %d sched %s\nstep A\nstep A\nstep A\nstep A\nstep B\nstep B\nstep A\nstep B\nstep B\nstep B\n", c, cfg)
		c++
	}
	for _, cfg := range c09Cfgs {
		fmt.Fprintf(w, "case %d sched %s\nfetch A\ndel\nstep A\nstep A\nstep A\nstep A\nstep A\nreload\n", c, cfg)
		c++
	}
	for i := 0; i < sched; i++ {
		cfg := c09Cfgs[i%3]
		fmt.Fprintf(w, "case %d sched %s\n", c, cfg)
		c++
		n := 2 + rng.Intn(3)
		pc := make([]int, n)
		steps := 6 + rng.Intn(18)
		for j := 0; j < steps; j++ {
			t := rng.Intn(n)
			fmt.Fprintf(w, "step %s\n", c09Names[t])
			if pc[t] < 5 {
				pc[t]++ // upper bound (a blocked step does not advance); only used for the p0 constraint
			}
		}
	}
	for i := 0; i < stress; i++ {
		fmt.Fprintf(w, "case %d stress %s\nstress %d %d %d\n", c, c09Cfgs[i%3], 6+rng.Intn(10), 1+rng.Intn(3), 30+rng.Intn(50))
		c++
	}
	for i := 0; i < mixed; i++ {
		fmt.Fprintf(w, "case %d mixed %s\nmixed 3 4 %d\n", c, c09Cfgs[i%3], rng.Intn(1<<30))
		c++
	}
	c09sGen(rng, tier, w, &c)
}

// ---------------------------------------------------------------- state

type c09Ev struct {
	th, name string
	id       int64
	g        any
}

type c09Resp struct {
	val int64
	err bool
	by  string // Metadata.UpdatedBy of the response: every call stamps its own name under the guard
}

type c09Thread struct {
	name    string
	d       int64
	at      string // "", inc.fetched, guard.wait, writer.wait, inc.acquired, inc.read, inc.written, inc.saved, done
	gid     int64
	wgid    int64
	gate    chan struct{}
	running bool
	resp    c09Resp
}

type c09Done struct {
	th   string
	resp c09Resp
}

type c09State struct {
	rig     *Rig
	runTag  string
	swamp   string
	cfg     string
	g       guard.Guard
	c0      int64
	threads *ccThreads
	events  chan c09Ev
	done    chan c09Done
	mu      sync.Mutex
	th      map[string]*c09Thread
	order   []string
	free    atomic.Bool
	stopAt  atomic.Value // thread name that must park at inc.fetched
	dead    bool
	setx    bool // mode setx (harness/c09set.go)
}

func (st *c09State) get(n string) *c09Thread {
	st.mu.Lock()
	defer st.mu.Unlock()
	return st.th[n]
}

func c09Sanct(cfg string) string { return "c09" + strings.ToLower(cfg) }

func (st *c09State) readVal() string {
	ctx, cancel := context.WithTimeout(context.Background(), c09StepTimeout)
	defer cancel()
	h := st.rig.Zeus.GetHydra()
	nm := name.Load(st.swamp)
	if ok, err := h.IsExistSwamp(1, nm); err != nil || !ok {
		return "absent"
	}
	sw, err := h.SummonSwamp(ctx, 1, nm)
	if err != nil {
		return "err"
	}
	t, err := sw.GetTreasure("k")
	if err != nil || t == nil {
		return "absent"
	}
	v, err := t.GetContentInt64()
	if err != nil {
		return "void"
	}
	return strconv.FormatInt(v, 10)
}

func (st *c09State) snapshot() ([]int64, int64) {
	if st.g == nil {
		return nil, 0
	}
	return guard.VerifSnapshot(st.g)
}

func (st *c09State) render(t *c09Thread, blocked bool) string {
	q, c := st.snapshot()
	qs := make([]string, len(q))
	for i, v := range q {
		qs[i] = strconv.FormatInt(v-st.c0, 10)
	}
	state := "?"
	switch t.at {
	case "inc.fetched":
		state = "F"
	case "guard.wait":
		state = "1w"
	case "inc.acquired":
		state = "1g"
	case "inc.read":
		state = "2"
	case "inc.written":
		state = "3"
	case "writer.wait", "save.released":
		state = "3w"
	case "inc.saved":
		state = "4"
	case "done":
		if t.resp.err {
			state = "5 r=ERR"
		} else {
			state = "5 r=" + strconv.FormatInt(t.resp.val, 10) + " by=" + t.resp.by
		}
	}
	if blocked {
		state = "blocked"
	}
	return fmt.Sprintf("%s:%s q=[%s] c=%d v=%s", t.name, state, strings.Join(qs, ","), c-st.c0, st.readVal())
}

func (st *c09State) spawn(t *c09Thread) {
	go func() {
		st.threads.Register(t.name)
		defer st.threads.Unregister()
		who := t.name
		meta := &hydrapb.IncrementRequestMetadata{UpdatedBy: &who}
		resp, err := st.rig.GW.IncrementInt64(context.Background(), &hydrapb.IncrementInt64Request{IslandID: 1, SwampName: st.swamp, Key: "k", IncrementBy: t.d,
			SetIfExist: meta, SetIfNotExist: meta})
		r := c09Resp{}
		if err != nil || resp == nil {
			r.err = true
		} else {
			r.val = resp.GetValue()
			r.by = resp.GetMetadata().GetUpdatedBy()
		}
		if st.threads.Current() != "" { // not a leftover of an earlier case
			st.done <- c09Done{th: t.name, resp: r}
		}
	}()
}

// settle waits until every released goroutine is parked again (hook point, guard queue) or finished,
// including a waiter that the last release made head of the guard queue.
func (st *c09State) settle() bool {
	deadline := time.After(c09StepTimeout)
	quiet := false
	for {
		running := false
		st.mu.Lock()
		for _, t := range st.th {
			if t.running {
				running = true
			}
		}
		if !running {
			q, _ := st.snapshot()
			if len(q) > 0 {
				for _, t := range st.th {
					if (t.at == "guard.wait" && t.gid == q[0]) || (t.at == "writer.wait" && t.wgid == q[0]) {
						t.running = true
						running = true
					}
				}
			}
		}
		var startWriter *c09Thread
		if !running {
			// a call parked right after its in-save release starts its file writer once no other writer is pending
			pending := false
			for _, t := range st.th {
				if t.at == "writer.wait" || (t.at == "inc.written" && t.wgid != 0) {
					pending = true
				}
			}
			if !pending {
				for _, n := range st.order {
					if t := st.th[n]; t != nil && t.at == "save.released" && t.wgid == 0 {
						startWriter = t
						break
					}
				}
			}
			if startWriter != nil {
				startWriter.running = true
				startWriter.at = "inc.written"
				startWriter.wgid = -1 // writer started; the session ID arrives with guard.enq
				running = true
			}
		}
		st.mu.Unlock()
		if startWriter != nil {
			startWriter.gate <- struct{}{}
		}
		var grace <-chan time.Time
		if !running && len(st.events)+len(st.done) > 0 {
			running = true // reports are waiting to be read: not quiet yet
		}
		if !running {
			// nothing is known to be running: give a goroutine that was scheduled late a moment to report
			if quiet {
				return true
			}
			quiet = true
			grace = time.After(HxScale(40 * time.Millisecond))
		} else {
			quiet = false
		}
		select {
		case <-grace:
			continue
		case ev := <-st.events:
			quiet = false
			t := st.get(ev.th)
			if os.Getenv("C09_TRACE") != "" {
				fmt.Fprintf(os.Stderr, "ev %s %s id=%d\n", ev.th, ev.name, ev.id)
			}
			if t == nil {
				continue
			}
			switch ev.name {
			case "guard.enq":
				if t.at == "" || t.at == "inc.fetched" {
					// the call's own session; after a re-check failure it starts over on another object, whose
					// guard then becomes the observed one (its ID counter starts at 0)
					t.gid = ev.id
					if g, ok := ev.g.(guard.Guard); ok && g != st.g {
						st.g = g
						st.c0 = 0
					}
				} else {
					t.wgid = ev.id
				}
			case "guard.wait":
				// stale unless this session is still waiting: it may be the head by now, or already gone
				if q, _ := st.snapshot(); true {
					waiting := false
					for i, id := range q {
						if id == ev.id && i > 0 {
							waiting = true
						}
					}
					if !waiting {
						continue
					}
				}
				if t.wgid != 0 && t.at == "inc.written" {
					t.at = "writer.wait"
					t.running = false
				} else if t.at == "" || t.at == "inc.fetched" {
					t.at = "guard.wait"
					t.running = false
				}
			case "guard.acq":
				if t.at == "guard.wait" || t.at == "writer.wait" {
					t.running = true
					if t.at == "writer.wait" {
						t.at = "inc.written"
					}
				}
			case "inc.fetched", "inc.acquired", "inc.read", "inc.written", "inc.saved", "save.released":
				t.at = ev.name
				t.running = false
			}
		case d := <-st.done:
			quiet = false
			if t := st.get(d.th); t != nil {
				t.at, t.resp, t.running = "done", d.resp, false
			}
		case <-deadline:
			return false
		}
	}
}

func (st *c09State) step(tn string, fetchOnly bool) string {
	t := st.get(tn)
	if t == nil {
		d := int64(1)
		for i, n := range c09Names {
			if n == tn {
				for j := 0; j < i; j++ {
					d *= 10
				}
			}
		}
		t = &c09Thread{name: tn, d: d, gate: make(chan struct{})}
		st.mu.Lock()
		st.th[tn] = t
		st.order = append(st.order, tn)
		st.mu.Unlock()
	}
	switch t.at {
	case "":
		if fetchOnly {
			st.stopAt.Store(tn)
		}
		t.running = true
		st.spawn(t)
	case "guard.wait", "writer.wait", "save.released", "done":
		return st.render(t, true)
	default:
		if fetchOnly {
			return "bad-op"
		}
		t.running = true
		t.gate <- struct{}{}
	}
	if !st.settle() {
		st.dead = true
		return "timeout"
	}
	st.stopAt.Store("")
	return st.render(t, false)
}

func (st *c09State) endCase() {
	st.free.Store(true)
	st.mu.Lock()
	ths := make([]*c09Thread, 0, len(st.th))
	for _, t := range st.th {
		ths = append(ths, t)
	}
	st.mu.Unlock()
	// let every parked goroutine run to completion
	deadline := time.After(HxScale(6 * time.Second))
	pending := 0
	for _, t := range ths {
		if t.at != "done" && t.at != "" {
			pending++
		}
	}
	for pending > 0 {
		for _, t := range ths {
			select {
			case t.gate <- struct{}{}:
			default:
			}
		}
		select {
		case d := <-st.done:
			if t := st.get(d.th); t != nil && t.at != "done" {
				t.at = "done"
				pending--
			}
		case <-st.events:
		case <-time.After(HxScale(20 * time.Millisecond)):
		case <-deadline:
			pending = 0
		}
	}
	st.mu.Lock()
	st.th = map[string]*c09Thread{}
	st.order = nil
	st.mu.Unlock()
	for {
		select {
		case <-st.events:
			continue
		case <-st.done:
			continue
		default:
		}
		break
	}
	st.g = nil
}

func (st *c09State) setInt(key string, v int64) bool {
	res := make(chan bool, 1)
	th := st.threads.Current()
	go func() {
		if th != "" {
			st.threads.Register(th)
			defer st.threads.Unregister()
		}
		resp, err := st.rig.GW.Set(context.Background(), &hydrapb.SetRequest{Swamps: []*hydrapb.SwampRequest{{
			IslandID: 1, SwampName: st.swamp, CreateIfNotExist: true, Overwrite: true,
			KeyValues: []*hydrapb.KeyValuePair{{Key: key, Int64Val: &v}},
		}}})
		res <- err == nil && resp != nil
	}()
	select {
	case ok := <-res:
		return ok
	case <-time.After(c09StepTimeout):
		return false // the request hangs (e.g. a save that waits for its own guard)
	}
}

// ---------------------------------------------------------------- stress

func (st *c09State) stress(writers, nkeys, per int) string {
	type res struct {
		key string
		val int64
		ok  bool
	}
	out := make(chan res, writers*per)
	var wg sync.WaitGroup
	for w := 0; w < writers; w++ {
		wg.Add(1)
		go func(w int) {
			defer wg.Done()
			for i := 0; i < per; i++ {
				ki := (w + i) % nkeys
				k := fmt.Sprintf("s%d", ki)
				// the Increment variants share one body shape but are ten separate functions: rotate them over the keys
				var val int64
				good := false
				switch ki % 4 {
				case 0:
					resp, err := st.rig.GW.IncrementInt64(context.Background(), &hydrapb.IncrementInt64Request{IslandID: 1, SwampName: st.swamp, Key: k, IncrementBy: 1})
					if err == nil && resp != nil && resp.GetIsIncremented() {
						val, good = resp.GetValue(), true
					}
				case 1:
					resp, err := st.rig.GW.IncrementUint32(context.Background(), &hydrapb.IncrementUint32Request{IslandID: 1, SwampName: st.swamp, Key: k, IncrementBy: 1})
					if err == nil && resp != nil && resp.GetIsIncremented() {
						val, good = int64(resp.GetValue()), true
					}
				case 2:
					resp, err := st.rig.GW.IncrementUint64(context.Background(), &hydrapb.IncrementUint64Request{IslandID: 1, SwampName: st.swamp, Key: k, IncrementBy: 1})
					if err == nil && resp != nil && resp.GetIsIncremented() {
						val, good = int64(resp.GetValue()), true
					}
				default:
					resp, err := st.rig.GW.IncrementFloat64(context.Background(), &hydrapb.IncrementFloat64Request{IslandID: 1, SwampName: st.swamp, Key: k, IncrementBy: 1})
					if err == nil && resp != nil && resp.GetIsIncremented() {
						val, good = int64(resp.GetValue()), true
					}
				}
				if !good {
					out <- res{key: k}
				} else {
					out <- res{key: k, val: val, ok: true}
				}
			}
		}(w)
	}
	fin := make(chan struct{})
	go func() { wg.Wait(); close(fin) }()
	select {
	case <-fin:
	case <-time.After(HxScale(180 * time.Second)):
		st.dead = true
		return "timeout"
	}
	close(out)
	perKey := map[string][]int64{}
	errors, acked := 0, 0
	for r := range out {
		if !r.ok {
			errors++
			continue
		}
		acked++
		perKey[r.key] = append(perKey[r.key], r.val)
	}
	lost, dup := 0, 0
	for k, vs := range perKey {
		sort.Slice(vs, func(i, j int) bool { return vs[i] < vs[j] })
		for i := 1; i < len(vs); i++ {
			if vs[i] == vs[i-1] {
				dup++
			}
		}
		// final value through the gateway
		resp, err := st.rig.GW.Get(context.Background(), &hydrapb.GetRequest{Swamps: []*hydrapb.GetSwamp{{IslandID: 1, SwampName: st.swamp, Keys: []string{k}}}})
		final := int64(-1)
		if err == nil && resp != nil && len(resp.GetSwamps()) == 1 && len(resp.GetSwamps()[0].GetTreasures()) == 1 {
			switch tr := resp.GetSwamps()[0].GetTreasures()[0]; {
			case tr.Int64Val != nil:
				final = *tr.Int64Val
			case tr.Uint32Val != nil:
				final = int64(*tr.Uint32Val)
			case tr.Uint64Val != nil:
				final = int64(*tr.Uint64Val)
			case tr.Float64Val != nil:
				final = int64(*tr.Float64Val)
			}
		}
		if final != int64(len(vs)) {
			d := int64(len(vs)) - final
			if d < 0 {
				d = -d
			}
			lost += int(d)
		}
	}
	return fmt.Sprintf("ok acked=%d lost=%d dup=%d errors=%d", acked, lost, dup, errors)
}

// ---------------------------------------------------------------- mixed histories + linearizability check

type c09Op struct {
	kind     string // set | seta (Overwrite=false) | setx (CreateIfNotExist=false) | del | inc | get
	st       string // seta / setx / del: WROTE | UNCHANGED | NOT_FOUND | DELETED
	arg      int64
	resp     int64
	absent   bool
	inv, ret int64
}

func (o c09Op) String() string {
	r := strconv.FormatInt(o.resp, 10)
	if o.absent {
		r = "absent"
	}
	if o.kind == "set" {
		r = "ok"
	}
	if o.st != "" {
		r = o.st
	}
	return fmt.Sprintf("%s(%d)->%s@[%d,%d]", o.kind, o.arg, r, o.inv, o.ret)
}

// register Spec: (present, value)
func c09Apply(o c09Op, present bool, v int64) (bool, bool, int64) {
	switch o.kind {
	case "set":
		return true, true, o.arg
	case "seta":
		if !present {
			return o.st == "WROTE", true, o.arg
		}
		return o.st == "UNCHANGED", present, v
	case "setx":
		if !present {
			return o.st == "NOT_FOUND", present, v
		}
		return o.st == "WROTE", true, o.arg
	case "del":
		if !present {
			return o.st == "NOT_FOUND", false, 0
		}
		return o.st == "DELETED", false, 0
	case "inc":
		nv := o.arg
		if present {
			nv = v + o.arg
		}
		return nv == o.resp, true, nv
	default:
		if !present {
			return o.absent, present, v
		}
		return !o.absent && o.resp == v, present, v
	}
}

func c09Linearizable(h []c09Op) bool {
	n := len(h)
	type key struct {
		mask    uint32
		present bool
		v       int64
	}
	seen := map[key]bool{}
	var dfs func(mask uint32, present bool, v int64) bool
	dfs = func(mask uint32, present bool, v int64) bool {
		if mask == uint32(1)<<n-1 {
			return true
		}
		k := key{mask, present, v}
		if seen[k] {
			return false
		}
		seen[k] = true
		// minimal return time among the remaining ops
		minRet := int64(1) << 62
		for i := 0; i < n; i++ {
			if mask&(1<<i) == 0 && h[i].ret < minRet {
				minRet = h[i].ret
			}
		}
		for i := 0; i < n; i++ {
			if mask&(1<<i) != 0 || h[i].inv > minRet {
				continue
			}
			if ok, p2, v2 := c09Apply(h[i], present, v); ok && dfs(mask|1<<i, p2, v2) {
				return true
			}
		}
		return false
	}
	return dfs(0, false, 0)
}

func (st *c09State) mixed(writers, per int, seed int64) string {
	st.setInt("z", 0) // keeps the swamp alive across deletes of "x"
	var clock atomic.Int64
	hist := make([][]c09Op, writers)
	var wg sync.WaitGroup
	for w := 0; w < writers; w++ {
		wg.Add(1)
		go func(w int) {
			defer wg.Done()
			rng := rand.New(rand.NewSource(seed + int64(w)*7919))
			for i := 0; i < per; i++ {
				o := c09Op{}
				switch r := rng.Intn(20); {
				case r < 3:
					o.kind, o.arg = "set", int64(100*(w+1)+i)
				case r < 7:
					o.kind, o.arg = "seta", int64(100*(w+1)+i)
				case r < 9:
					o.kind, o.arg = "setx", int64(100*(w+1)+i)
				case r < 11:
					o.kind = "del"
				case r < 16:
					o.kind, o.arg = "inc", int64(1+rng.Intn(3))
				default:
					o.kind = "get"
				}
				o.inv = clock.Add(1)
				switch o.kind {
				case "set":
					st.setInt("x", o.arg)
				case "seta":
					o.st = c09sStatus(st, true, false, o.arg)
				case "setx":
					o.st = c09sStatus(st, false, true, o.arg)
				case "del":
					o.st = "NOT_FOUND"
					if resp, err := st.rig.GW.Delete(context.Background(), &hydrapb.DeleteRequest{Swamps: []*hydrapb.DeleteRequest_SwampKeys{{IslandID: 1, SwampName: st.swamp, Keys: []string{"x"}}}}); err == nil && resp != nil &&
						len(resp.GetResponses()) == 1 && len(resp.GetResponses()[0].GetKeyStatuses()) == 1 {
						o.st = resp.GetResponses()[0].GetKeyStatuses()[0].GetStatus().String()
					}
				case "inc":
					resp, err := st.rig.GW.IncrementInt64(context.Background(), &hydrapb.IncrementInt64Request{IslandID: 1, SwampName: st.swamp, Key: "x", IncrementBy: o.arg})
					if err == nil && resp != nil {
						o.resp = resp.GetValue()
					} else {
						o.resp = -1 << 40
					}
				case "get":
					resp, err := st.rig.GW.Get(context.Background(), &hydrapb.GetRequest{Swamps: []*hydrapb.GetSwamp{{IslandID: 1, SwampName: st.swamp, Keys: []string{"x"}}}})
					o.absent = true
					if err == nil && resp != nil && len(resp.GetSwamps()) == 1 && len(resp.GetSwamps()[0].GetTreasures()) == 1 {
						if tr := resp.GetSwamps()[0].GetTreasures()[0]; tr.GetIsExist() && tr.Int64Val != nil {
							o.absent, o.resp = false, *tr.Int64Val
						}
					}
				}
				o.ret = clock.Add(1)
				hist[w] = append(hist[w], o)
			}
		}(w)
	}
	fin := make(chan struct{})
	go func() { wg.Wait(); close(fin) }()
	select {
	case <-fin:
	case <-time.After(HxScale(120 * time.Second)):
		st.dead = true
		return "timeout"
	}
	var all []c09Op
	for _, h := range hist {
		all = append(all, h...)
	}
	sort.Slice(all, func(i, j int) bool { return all[i].inv < all[j].inv })
	if c09Linearizable(all) {
		return fmt.Sprintf("ok ops=%d linearizable", len(all))
	}
	var b []string
	for _, o := range all {
		b = append(b, o.String())
	}
	return "NONLIN " + strings.Join(b, " ")
}

// ---------------------------------------------------------------- runner

func c09Run(in *bufio.Scanner, w *bufio.Writer) {
	rig, err := NewRig(3, 2000, 3600, 3600)
	if err != nil {
		fmt.Fprintln(os.Stderr, "c09: rig:", err)
		os.Exit(3)
	}
	defer rig.Stop(true)
	rig.Settings.RegisterPattern(name.New().Sanctuary(c09Sanct("p0")).Realm("*").Swamp("*"), false, 3600,
		&settings.FileSystemSettings{WriteIntervalSec: 0, MaxFileSizeByte: 8192, UseChroniclerV2: true})
	rig.Settings.RegisterPattern(name.New().Sanctuary(c09Sanct("pN")).Realm("*").Swamp("*"), false, 3600,
		&settings.FileSystemSettings{WriteIntervalSec: 3600, MaxFileSizeByte: 8192, UseChroniclerV2: true})
	rig.Settings.RegisterPattern(name.New().Sanctuary(c09Sanct("m")).Realm("*").Swamp("*"), true, 3600, nil)
	st := &c09State{rig: rig, runTag: strconv.FormatInt(time.Now().UnixNano()%1000000, 36), threads: newCCThreads(),
		events: make(chan c09Ev, 8192), done: make(chan c09Done, 64), th: map[string]*c09Thread{}}
	st.stopAt.Store("")
	st.free.Store(true)
	verifhook.SetHandler(func(nm string, args ...any) {
		if st.free.Load() {
			return
		}
		th := st.threads.Current()
		if th == "" {
			return
		}
		switch nm {
		case "guard.enq", "guard.wait", "guard.acq":
			ev := c09Ev{th: th, name: nm}
			if len(args) > 1 {
				ev.g = args[0]
				ev.id, _ = args[1].(int64)
			}
			st.events <- ev
		case "gw.set.tested":
			if st.setx {
				c09s.hook(th)
			}
		case "del.acquired":
			if st.setx {
				c09s.hook(th)
			}
			return
		case "inc.fetched":
			if st.setx {
				c09s.hookKind(th, "pinc")
				return
			}
			if st.stopAt.Load().(string) != th {
				return
			}
			fallthrough
		case "save.released":
			// immediate-write mode: the call has released the guard and is about to run the file writer; it starts
			// only when no earlier call's writer is still pending (settle releases it), so the order is deterministic
			if st.setx {
				return
			}
			fallthrough
		case "inc.acquired", "inc.read", "inc.written", "inc.saved":
			if st.setx {
				if nm == "inc.acquired" {
					c09s.hookKind(th, "inchold")
				}
				return
			}
			t := st.get(th)
			if t == nil {
				return
			}
			st.events <- c09Ev{th: th, name: nm}
			<-t.gate
		}
	})
	defer verifhook.SetHandler(nil)

	for in.Scan() {
		line := strings.TrimSpace(in.Text())
		f := strings.Fields(line)
		if len(f) == 0 {
			fmt.Fprintln(w, "bad-op")
			continue
		}
		if f[0] == "case" {
			c09s.endCase()
			st.endCase()
			st.threads.NextEpoch()
			st.setx = false
			st.dead = false
			st.cfg = ""
			mode := ""
			if len(f) == 4 {
				mode, st.cfg = f[2], f[3]
			}
			ok := false
			for _, c := range c09Cfgs {
				ok = ok || c == st.cfg
			}
			if !ok || (mode != "sched" && mode != "stress" && mode != "mixed" && mode != "setx") {
				st.dead = true
				fmt.Fprintln(w, line)
				continue
			}
			st.swamp = name.New().Sanctuary(c09Sanct(st.cfg)).Realm("r" + st.runTag).Swamp("c" + f[1]).Get()
			if mode == "setx" {
				st.free.Store(true)
				if !st.setInt("z", 0) {
					st.dead = true
				}
				st.setx = true
				st.free.Store(false)
			}
			if mode == "sched" {
				// preset k = 0 and a second key; learn the record's guard from the hook events of that Set
				st.free.Store(false)
				st.threads.Register("init")
				if !st.setInt("z", 0) || !st.setInt("k", 5) {
					// a loaded machine: once more before giving the case up
					time.Sleep(HxScale(300 * time.Millisecond))
					if !st.setInt("z", 0) || !st.setInt("k", 5) {
						st.dead = true
					}
				}
				st.threads.Unregister()
				st.g = nil
				for len(st.events) > 0 {
					ev := <-st.events
					if ev.name == "guard.enq" {
						if g, ok := ev.g.(guard.Guard); ok {
							st.g = g
						}
					}
				}
				if st.g == nil {
					st.dead = true
				} else {
					_, st.c0 = guard.VerifSnapshot(st.g)
				}
			}
			fmt.Fprintln(w, line)
			w.Flush()
			continue
		}
		if st.dead {
			fmt.Fprintln(w, "err skip") // the case could not be set up (a request timed out)
			continue
		}
		switch {
		case st.setx:
			fmt.Fprintln(w, c09s.line(st, f))
		case f[0] == "step" && len(f) == 2:
			fmt.Fprintln(w, st.step(f[1], false))
		case f[0] == "fetch" && len(f) == 2:
			fmt.Fprintln(w, st.step(f[1], true))
		case f[0] == "del" && len(f) == 1:
			resp, err := rig.GW.Delete(context.Background(), &hydrapb.DeleteRequest{Swamps: []*hydrapb.DeleteRequest_SwampKeys{{IslandID: 1, SwampName: st.swamp, Keys: []string{"k"}}}})
			s := "ERR"
			if err == nil && resp != nil && len(resp.GetResponses()) == 1 && len(resp.GetResponses()[0].GetKeyStatuses()) == 1 {
				s = resp.GetResponses()[0].GetKeyStatuses()[0].GetStatus().String()
			}
			fmt.Fprintf(w, "del %s v=%s\n", s, st.readVal())
		case f[0] == "reload" && len(f) == 1:
			h := rig.Zeus.GetHydra()
			nm := name.Load(st.swamp)
			if ok, err := h.IsExistSwamp(1, nm); err == nil && ok {
				if sw, err := h.SummonSwamp(context.Background(), 1, nm); err == nil {
					sw.Close()
				}
			}
			fmt.Fprintf(w, "reload v=%s\n", st.readVal())
		case f[0] == "stress" && len(f) == 4:
			a, e1 := strconv.Atoi(f[1])
			b, e2 := strconv.Atoi(f[2])
			c, e3 := strconv.Atoi(f[3])
			if e1 != nil || e2 != nil || e3 != nil || a < 1 || b < 1 || c < 1 {
				fmt.Fprintln(w, "bad-op")
				break
			}
			st.free.Store(true)
			fmt.Fprintln(w, st.stress(a, b, c))
		case f[0] == "mixed" && len(f) == 4:
			a, e1 := strconv.Atoi(f[1])
			b, e2 := strconv.Atoi(f[2])
			sd, e3 := strconv.ParseInt(f[3], 10, 64)
			if e1 != nil || e2 != nil || e3 != nil || a < 1 || b < 1 || a*b > 24 {
				fmt.Fprintln(w, "bad-op")
				break
			}
			st.free.Store(true)
			fmt.Fprintln(w, st.mixed(a, b, sd))
		default:
			fmt.Fprintln(w, "bad-op")
		}
		w.Flush()
	}
	c09s.endCase()
	st.endCase()
}
