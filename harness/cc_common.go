package main

// Shared helpers of the composite-concurrency domains (C09, C11, C16, C19): goroutine
// identification for hook events, and small formatting utilities.

import (
	"bytes"
	"runtime"
	"strconv"
	"sync"
)

// ccGoid returns the id of the calling goroutine (parsed from the stack header
// "goroutine 123 [running]:"). Used only to attribute a verifhook event to the harness
// thread that triggered it.
func ccGoid() int64 {
	var buf [64]byte
	n := runtime.Stack(buf[:], false)
	b := buf[:n]
	b = bytes.TrimPrefix(b, []byte("goroutine "))
	i := bytes.IndexByte(b, ' ')
	if i < 0 {
		return -1
	}
	id, err := strconv.ParseInt(string(b[:i]), 10, 64)
	if err != nil {
		return -1
	}
	return id
}

// ccThreads maps goroutine ids to harness thread names.  Names are only valid within one case (epoch): a goroutine
// that outlives its case (the machine was too busy for it to finish before the case ended) is no longer reported by
// Current, so its hook events and results cannot be mistaken for those of a thread of the same name in a later case.
type ccThreads struct {
	mu    sync.Mutex
	m     map[int64]ccEntry
	epoch int64
}

type ccEntry struct {
	name  string
	epoch int64
}

func newCCThreads() *ccThreads { return &ccThreads{m: map[int64]ccEntry{}} }

// NextEpoch starts a new case: every goroutine registered so far becomes anonymous.
func (t *ccThreads) NextEpoch() {
	t.mu.Lock()
	t.epoch++
	t.mu.Unlock()
}

// Register binds the calling goroutine to name; call it first thing inside the goroutine.
func (t *ccThreads) Register(name string) {
	id := ccGoid()
	t.mu.Lock()
	t.m[id] = ccEntry{name, t.epoch}
	t.mu.Unlock()
}

func (t *ccThreads) Unregister() {
	id := ccGoid()
	t.mu.Lock()
	delete(t.m, id)
	t.mu.Unlock()
}

// Current returns the harness thread name of the calling goroutine ("" if none, or if it belongs to an earlier case).
func (t *ccThreads) Current() string {
	id := ccGoid()
	t.mu.Lock()
	defer t.mu.Unlock()
	if e, ok := t.m[id]; ok && e.epoch == t.epoch {
		return e.name
	}
	return ""
}

func (t *ccThreads) Reset() {
	t.mu.Lock()
	t.m = map[int64]ccEntry{}
	t.epoch++
	t.mu.Unlock()
}
