package main

// Domain C11: claims (ShiftExpired / ShiftMatching / PatchExpired) on the real in-process gateway.
//
// case N forced CFG     CFG = m (in-memory), pN (persistent, write interval 3600 s: records never written during the case),
//                       p0 (persistent, immediate write: records have a file pointer)
//   seed K STATUS OFF           create K with msgpack body {status: STATUS}, ExpiredAt = now+OFF seconds (OFF = 0: none)
//   spawn T shiftm HOW STATUS   ShiftMatchingTreasures(EXPIRATION_TIME ASC, HowMany, filter status == STATUS); parks at claim.candidates
//   spawn T shiftexp HOW        ShiftExpiredTreasures(HowMany); parks at shift.selected (after the beacon selection, before the deletes)
//                               (a shiftm thread parks there too, after claim.candidates)
//   spawn T pexp HOW FILTER OFF NEW   PatchExpiredTreasures(HowMany, filter status == FILTER or `-`, SET status NEW, ExpiredAt now+OFF);
//                               parks at claim.candidates (with a filter), pexp.selected, pexp.beforeReindex
//   spawn T del K               Delete(K); parks at del.acquired (holding K's guard)
//   go T / poll T               release T to its next park point / look at T again
//   patch K STATUS | del K | shiftexp HOW | shiftm HOW STATUS | state      synchronous requests
//   shiftmm HOW MAX STATUS      ShiftMatchingTreasures with MaxResults = MAX (at most min(HOW, MAX) records)
//   shiftw HOW LO HI STATUS     ShiftMatchingTreasures with FromTime = base+LO s, ToTime = base+HI s on the expiration time: [LO, HI)
//   replies: T@<point> | T@guard (queued on a record guard) | T stuck (no progress within the step timeout) |
//            T done <result>;  result: keys=[k:status,…] (in returned order) | patched=[k:CODE,…] | DELETED/NOT_FOUND
//            state → idx=[keys of the expiration index, ascending] keys=[k:status,… sorted]
// case N stress CFG     op: stress CLAIMERS RECORDS HOW — concurrent ShiftExpired/ShiftMatching callers over RECORDS expired records;
//   reply: ok claimed=<n> dup=<n> overmax=<n> disorder=<n> left=<n>

import (
	"bufio"
	"context"
	"fmt"
	"math/rand"
	"os"
	"sort"
	"strconv"
	"strings"
	"sync"
	"sync/atomic"
	"time"

	"github.com/hydraide/hydraide/app/core/settings"
	"github.com/hydraide/hydraide/app/name"
	"github.com/hydraide/hydraide/app/verifhook"
	hydrapb "github.com/hydraide/hydraide/sdk/go/hydraidego/v3/hydraidepbgo"
	"github.com/vmihailenco/msgpack/v5"
	"google.golang.org/protobuf/types/known/timestamppb"
)

func init() { Register("C11", Domain{Gen: c11Gen, Run: c11Run}) }

// a wait ends on its event; the limit only matters for a request that really hangs (scaled by HX_TIMEOUT_SCALE)
var c11StepTimeout = HxScale(5 * time.Second)

var c11Cfgs = []string{"m", "pN", "p0"}

// ---------------------------------------------------------------- generator

func c11Gen(rng *rand.Rand, tier string, w *bufio.Writer) {
	forced, stress := 30, 6
	if tier == "thorough" {
		forced, stress = 400, 24
	}
	c := 0
	// corpus
	for _, cfg := range c11Cfgs {
		// stale candidate set: k1 leaves the filter between candidate construction and selection
		fmt.Fprintf(w, "case %d forced %s\nseed k1 pending -3600\nseed k2 pending -3000\nseed k3 done -2000\nstate\nspawn A shiftm 10 pending\npatch k1 done\ngo A\nstate\n", c, cfg)
		c++
		// same for PatchExpired
		fmt.Fprintf(w, "case %d forced %s\nseed k1 pending -3600\nseed k2 pending -3000\nspawn P pexp 10 pending 3600 leased\npatch k2 done\ngo P\ngo P\ngo P\nstate\n", c, cfg)
		c++
		// delete between the patches and ReindexExpiration, then an expired-shift
		fmt.Fprintf(w, "case %d forced %s\nseed k1 pending -3600\nseed k2 pending -3000\nseed k9 keep 0\nspawn P pexp 10 - -1800 again\ngo P\ndel k1\ngo P\nstate\nshiftexp 10\nstate\n", c, cfg)
		c++
		// delete between selection and patch
		fmt.Fprintf(w, "case %d forced %s\nseed k1 pending -3600\nseed k2 pending -3000\nseed k9 keep 0\nspawn P pexp 10 - 3600 leased\ndel k1\ngo P\ngo P\nstate\n", c, cfg)
		c++
	}
	// the delete steps of a shift claim run after the selection pass: a delete and a patch in between
	for _, cfg := range c11Cfgs {
		fmt.Fprintf(w, "case %d forced %s\nseed k1 pending -3600\nseed k2 pending -3000\nseed k9 keep 0\nspawn S shiftexp 10\ndel k1\npatch k2 done\ngo S\nstate\n", c, cfg)
		c++
		fmt.Fprintf(w, "case %d forced %s\nseed k1 pending -3600\nseed k2 pending -3000\nseed k9 keep 0\nspawn A shiftm 10 pending\ngo A\ndel k1\npatch k2 done\ngo A\nstate\n", c, cfg)
		c++
	}
	// lock-order inversion: a delete holding the record guard against a claim holding the beacon lock
	fmt.Fprintf(w, "case %d forced m\nseed k1 pending -3600\nseed k2 pending -3000\nseed k9 keep 0\nspawn D del k1\nspawn S shiftexp 10\ngo D\ngo S\nstate\n", c)
	c++
	keys := []string{"k1", "k2", "k3", "k4", "k5"}
	sts := []string{"pending", "done"}
	for i := 0; i < forced; i++ {
		cfg := c11Cfgs[i%3]
		fmt.Fprintf(w, "case %d forced %s\n", c, cfg)
		c++
		n := 2 + rng.Intn(4)
		off := -3600
		for j := 0; j < n; j++ {
			o := off
			if rng.Intn(5) == 0 {
				o = 3600 + j
			}
			fmt.Fprintf(w, "seed %s %s %d\n", keys[j], sts[rng.Intn(2)], o)
			off += 100
		}
		fmt.Fprintf(w, "seed k9 keep 0\n")
		// one parked claimer, a few synchronous operations around it (no deletes / expiry changes while it is
		// parked inside a selection: those deadlock, see the corpus case)
		names := []string{"A", "B"}
		live := map[string]int{}
		steps := 3 + rng.Intn(6)
		for j := 0; j < steps; j++ {
			switch r := rng.Intn(100); {
			case r < 18 && len(live) < 2:
				t := names[len(live)]
				if _, ok := live[t]; ok {
					continue
				}
				if r := rng.Intn(3); r == 0 {
					fmt.Fprintf(w, "spawn %s shiftm %d %s\n", t, 1+rng.Intn(3), sts[rng.Intn(2)])
					live[t] = 2
				} else if r == 1 {
					fmt.Fprintf(w, "spawn %s shiftexp %d\n", t, 1+rng.Intn(3))
					live[t] = 1
				} else {
					f := "-"
					pts := 2
					if rng.Intn(2) == 0 {
						f = sts[rng.Intn(2)]
						pts = 3
					}
					fmt.Fprintf(w, "spawn %s pexp %d %s %d leased\n", t, 1+rng.Intn(3), f, 3600+100*j)
					live[t] = pts
				}
			case r < 40:
				for _, t := range names {
					if left := live[t]; left > 0 {
						fmt.Fprintf(w, "go %s\n", t)
						live[t] = left - 1
						break
					}
				}
			case r < 60:
				fmt.Fprintf(w, "patch %s %s\n", keys[rng.Intn(n)], sts[rng.Intn(2)])
			case r < 72:
				fmt.Fprintf(w, "shiftexp %d\n", 1+rng.Intn(2))
			case r < 78:
				fmt.Fprintf(w, "shiftm %d %s\n", 1+rng.Intn(2), sts[rng.Intn(2)])
			case r < 82:
				fmt.Fprintf(w, "shiftmm %d %d %s\n", 1+rng.Intn(3), 1+rng.Intn(2), sts[rng.Intn(2)])
			case r < 86:
				// a time window whose bounds are expiration times of seeded records (both ends of [lo, hi) are hit)
				lo := -3600 + 100*rng.Intn(n)
				fmt.Fprintf(w, "shiftw %d %d %d %s\n", 1+rng.Intn(3), lo, lo+100*(1+rng.Intn(3)), sts[rng.Intn(2)])
			case r < 90:
				fmt.Fprintf(w, "del %s\n", keys[rng.Intn(n)])
			default:
				fmt.Fprintln(w, "state")
			}
		}
		for _, t := range names {
			for left := live[t]; left > 0; left-- {
				fmt.Fprintf(w, "go %s\n", t)
			}
		}
		fmt.Fprintln(w, "state")
	}
	for i := 0; i < stress; i++ {
		fmt.Fprintf(w, "case %d stress %s\nstress %d %d %d\n", c, c11Cfgs[i%3], 3+rng.Intn(4), 30+rng.Intn(40), 1+rng.Intn(4))
		c++
	}
}

// ---------------------------------------------------------------- state

type c11Ev struct {
	th, name string
}

type c11Thread struct {
	name   string
	kind   string
	parks  map[string]bool
	at     string
	gate   chan struct{}
	result string
}

type c11Done struct {
	th, result string
}

type c11State struct {
	rig     *Rig
	runTag  string
	swamp   string
	cfg     string
	base    time.Time
	threads *ccThreads
	events  chan c11Ev
	done    chan c11Done
	mu      sync.Mutex
	th      map[string]*c11Thread
	free    atomic.Bool
	dead    bool
	leaked  bool
}

func (st *c11State) get(n string) *c11Thread {
	st.mu.Lock()
	defer st.mu.Unlock()
	return st.th[n]
}

func c11Mp(v any) []byte {
	b, _ := msgpack.Marshal(v)
	return b
}

func c11Status(t *hydrapb.Treasure) string {
	raw := t.GetBytesVal()
	if len(raw) > 2 && raw[0] == 0xC7 && raw[1] == 0x00 {
		var m map[string]any
		if err := msgpack.Unmarshal(raw[2:], &m); err == nil {
			if s, ok := m["status"].(string); ok {
				return s
			}
		}
	}
	if len(raw) == 0 {
		return "void"
	}
	return "?"
}

func (st *c11State) filter(status string) *hydrapb.FilterGroup {
	p := "status"
	return &hydrapb.FilterGroup{Logic: hydrapb.FilterLogic_AND, Filters: []*hydrapb.TreasureFilter{{
		BytesFieldPath: &p, Operator: hydrapb.Relational_EQUAL, CompareValue: &hydrapb.TreasureFilter_StringVal{StringVal: status}}}}
}

func (st *c11State) ts(off int) *timestamppb.Timestamp {
	return timestamppb.New(st.base.Add(time.Duration(off) * time.Second))
}

func (st *c11State) seed(k, status string, off int) string {
	req := &hydrapb.PatchTreasuresRequest{IslandID: 1, SwampName: st.swamp, CreateIfNotExist: true,
		Patches: []*hydrapb.TreasurePatch{{Key: k, Ops: []*hydrapb.PatchOp{{Op: hydrapb.PatchOp_SET, Path: "status", Value: c11Mp(status)}}}}}
	if off != 0 {
		req.Meta = &hydrapb.PatchMeta{SetExpiredAt: st.ts(off)}
	}
	resp, err := st.rig.GW.PatchTreasures(context.Background(), req)
	if err != nil || resp == nil || len(resp.GetResults()) != 1 {
		return "ERR"
	}
	return resp.GetResults()[0].GetStatus().String()
}

func c11Keys(ts []*hydrapb.Treasure) string {
	out := make([]string, len(ts))
	for i, t := range ts {
		out[i] = t.GetKey() + ":" + c11Status(t)
	}
	return "[" + strings.Join(out, ",") + "]"
}

// the four request kinds; each returns the canonical result text
func (st *c11State) doShiftM(how int, status string) string {
	resp, err := st.rig.GW.ShiftMatchingTreasures(context.Background(), &hydrapb.ShiftMatchingTreasuresRequest{IslandID: 1, SwampName: st.swamp,
		IndexType: hydrapb.IndexType_EXPIRATION_TIME, OrderType: hydrapb.OrderType_ASC, HowMany: int32(how), Filters: st.filter(status)})
	if err != nil || resp == nil {
		return "ERR"
	}
	return "keys=" + c11Keys(resp.GetTreasures())
}

func (st *c11State) doShiftMM(how, max int, status string) string {
	resp, err := st.rig.GW.ShiftMatchingTreasures(context.Background(), &hydrapb.ShiftMatchingTreasuresRequest{IslandID: 1, SwampName: st.swamp,
		IndexType: hydrapb.IndexType_EXPIRATION_TIME, OrderType: hydrapb.OrderType_ASC, HowMany: int32(how), MaxResults: int32(max), Filters: st.filter(status)})
	if err != nil || resp == nil {
		return "ERR"
	}
	return "keys=" + c11Keys(resp.GetTreasures())
}

// doShiftW: ShiftMatching with a time window on the expiration time, [FromTime, ToTime)
func (st *c11State) doShiftW(how, lo, hi int, status string) string {
	resp, err := st.rig.GW.ShiftMatchingTreasures(context.Background(), &hydrapb.ShiftMatchingTreasuresRequest{IslandID: 1, SwampName: st.swamp,
		IndexType: hydrapb.IndexType_EXPIRATION_TIME, OrderType: hydrapb.OrderType_ASC, HowMany: int32(how), FromTime: st.ts(lo), ToTime: st.ts(hi),
		Filters: st.filter(status)})
	if err != nil || resp == nil {
		return "ERR"
	}
	return "keys=" + c11Keys(resp.GetTreasures())
}

func (st *c11State) doShiftExp(how int) string {
	resp, err := st.rig.GW.ShiftExpiredTreasures(context.Background(), &hydrapb.ShiftExpiredTreasuresRequest{IslandID: 1, SwampName: st.swamp, HowMany: int32(how)})
	if err != nil || resp == nil {
		return "ERR"
	}
	return "keys=" + c11Keys(resp.GetTreasures())
}

func (st *c11State) doPexp(how int, filter string, off int, newStatus string) string {
	req := &hydrapb.PatchExpiredTreasuresRequest{IslandID: 1, SwampName: st.swamp, HowMany: int32(how),
		Ops:  []*hydrapb.PatchOp{{Op: hydrapb.PatchOp_SET, Path: "status", Value: c11Mp(newStatus)}},
		Meta: &hydrapb.PatchMeta{SetExpiredAt: st.ts(off)}}
	if filter != "-" {
		req.Filters = st.filter(filter)
	}
	resp, err := st.rig.GW.PatchExpiredTreasures(context.Background(), req)
	if err != nil || resp == nil {
		return "ERR"
	}
	out := make([]string, len(resp.GetPatched()))
	for i, p := range resp.GetPatched() {
		out[i] = p.GetKey() + ":" + p.GetStatus().String()
	}
	return "patched=[" + strings.Join(out, ",") + "]"
}

func (st *c11State) doDel(k string) string {
	resp, err := st.rig.GW.Delete(context.Background(), &hydrapb.DeleteRequest{Swamps: []*hydrapb.DeleteRequest_SwampKeys{{IslandID: 1, SwampName: st.swamp, Keys: []string{k}}}})
	if err != nil || resp == nil || len(resp.GetResponses()) != 1 || len(resp.GetResponses()[0].GetKeyStatuses()) != 1 {
		return "NOT_FOUND"
	}
	return resp.GetResponses()[0].GetKeyStatuses()[0].GetStatus().String()
}

func (st *c11State) doPatch(k, status string) string {
	resp, err := st.rig.GW.PatchTreasures(context.Background(), &hydrapb.PatchTreasuresRequest{IslandID: 1, SwampName: st.swamp,
		Patches: []*hydrapb.TreasurePatch{{Key: k, Ops: []*hydrapb.PatchOp{{Op: hydrapb.PatchOp_SET, Path: "status", Value: c11Mp(status)}}}}})
	if err != nil || resp == nil || len(resp.GetResults()) != 1 {
		return "ERR"
	}
	return resp.GetResults()[0].GetStatus().String()
}

func (st *c11State) state() string {
	idx := "-"
	if r, err := st.rig.GW.GetByIndex(context.Background(), &hydrapb.GetByIndexRequest{IslandID: 1, SwampName: st.swamp,
		IndexType: hydrapb.IndexType_EXPIRATION_TIME, OrderType: hydrapb.OrderType_ASC, From: 0, Limit: 0}); err == nil && r != nil {
		ks := make([]string, len(r.GetTreasures()))
		ts := r.GetTreasures()
		for i, t := range ts {
			ks[i] = t.GetKey()
		}
		// records with the same expiration time have no specified order among themselves: each run of equal times
		// is printed sorted by key
		for i := 0; i < len(ts); {
			j := i + 1
			for j < len(ts) && ts[j].GetExpiredAt().AsTime().Equal(ts[i].GetExpiredAt().AsTime()) {
				j++
			}
			sort.Strings(ks[i:j])
			i = j
		}
		idx = "[" + strings.Join(ks, ",") + "]"
	}
	keys := "-"
	if r, err := st.rig.GW.GetAll(context.Background(), &hydrapb.GetAllRequest{IslandID: 1, SwampName: st.swamp}); err == nil && r != nil {
		ks := make([]string, 0, len(r.GetTreasures()))
		for _, t := range r.GetTreasures() {
			ks = append(ks, t.GetKey()+":"+c11Status(t))
		}
		sort.Strings(ks)
		keys = "[" + strings.Join(ks, ",") + "]"
	}
	return "idx=" + idx + " keys=" + keys
}

// with a per-request timeout: a request that deadlocks must not hang the harness
func (st *c11State) sync(f func() string) string {
	res := make(chan string, 1)
	go func() { res <- f() }()
	select {
	case s := <-res:
		return s
	case <-time.After(c11StepTimeout):
		st.leaked = true
		return "hang"
	}
}

func (st *c11State) await(t *c11Thread) string {
	deadline := time.After(c11StepTimeout)
	for {
		select {
		case ev := <-st.events:
			u := st.get(ev.th)
			if u == nil {
				continue
			}
			u.at = ev.name
			if u == t {
				if ev.name == "guard.wait" {
					return t.name + "@guard"
				}
				return t.name + "@" + ev.name
			}
		case d := <-st.done:
			if u := st.get(d.th); u != nil {
				u.at, u.result = "done", d.result
				if u == t {
					return t.name + " done " + d.result
				}
			}
		case <-deadline:
			st.leaked = true
			return t.name + " stuck"
		}
	}
}

func (st *c11State) spawn(f []string) string {
	tn, kind := f[1], f[2]
	if st.get(tn) != nil {
		return "bad-op"
	}
	t := &c11Thread{name: tn, kind: kind, gate: make(chan struct{}), parks: map[string]bool{}}
	var run func() string
	switch {
	case kind == "shiftm" && len(f) == 5:
		how, _ := strconv.Atoi(f[3])
		t.parks["claim.candidates"], t.parks["shift.selected"] = true, true
		run = func() string { return st.doShiftM(how, f[4]) }
	case kind == "shiftexp" && len(f) == 4:
		how, _ := strconv.Atoi(f[3])
		t.parks["shift.selected"] = true
		run = func() string { return st.doShiftExp(how) }
	case kind == "pexp" && len(f) == 7:
		how, _ := strconv.Atoi(f[3])
		off, _ := strconv.Atoi(f[5])
		t.parks["claim.candidates"], t.parks["pexp.selected"], t.parks["pexp.beforeReindex"] = true, true, true
		run = func() string { return st.doPexp(how, f[4], off, f[6]) }
	case kind == "del" && len(f) == 4:
		t.parks["del.acquired"] = true
		run = func() string { return st.doDel(f[3]) }
	default:
		return "bad-op"
	}
	st.mu.Lock()
	st.th[tn] = t
	st.mu.Unlock()
	go func() {
		st.threads.Register(tn)
		defer st.threads.Unregister()
		r := run()
		if st.threads.Current() != "" { // not a leftover of an earlier case
			st.done <- c11Done{th: tn, result: r}
		}
	}()
	return st.await(t)
}

func (st *c11State) endCase() {
	st.free.Store(true)
	st.mu.Lock()
	ths := make([]*c11Thread, 0, len(st.th))
	for _, t := range st.th {
		ths = append(ths, t)
	}
	st.th = map[string]*c11Thread{}
	st.mu.Unlock()
	deadline := time.After(HxScale(3 * time.Second))
	pending := 0
	for _, t := range ths {
		if t.at != "done" {
			pending++
		}
	}
	for pending > 0 {
		for _, t := range ths {
			select {
			case t.gate <- struct{}{}:
			default:
			}
		}
		select {
		case <-st.done:
			pending--
		case <-st.events:
		case <-time.After(HxScale(10 * time.Millisecond)):
		case <-deadline:
			st.leaked = true
			pending = 0
		}
	}
	for {
		select {
		case <-st.events:
			continue
		case <-st.done:
			continue
		default:
		}
		break
	}
}

// ---------------------------------------------------------------- stress

func (st *c11State) stress(claimers, records, how int) string {
	for i := 0; i < records; i++ {
		if st.seed(fmt.Sprintf("r%03d", i), []string{"pending", "done"}[i%2], -7200+i) == "ERR" {
			return "ERR seed"
		}
	}
	st.seed("zz", "keep", 0)
	// build the field-bucket index first: its first build clones every record under the key index lock while
	// taking record guards, which deadlocks against a concurrent deleteHandler (guard held, index lock wanted)
	if r := st.sync(func() string { return st.doPexp(1, "nomatch", 10, "x") }); r != "patched=[]" {
		return "ERR warmup " + r
	}
	type batch struct {
		keys []string
		kind int
	}
	var mu sync.Mutex
	var batches []batch
	var wg sync.WaitGroup
	for c := 0; c < claimers; c++ {
		wg.Add(1)
		go func(c int) {
			defer wg.Done()
			for {
				var ts []*hydrapb.Treasure
				if c%2 == 0 {
					resp, err := st.rig.GW.ShiftExpiredTreasures(context.Background(), &hydrapb.ShiftExpiredTreasuresRequest{IslandID: 1, SwampName: st.swamp, HowMany: int32(how)})
					if err != nil || resp == nil {
						return
					}
					ts = resp.GetTreasures()
				} else {
					resp, err := st.rig.GW.ShiftMatchingTreasures(context.Background(), &hydrapb.ShiftMatchingTreasuresRequest{IslandID: 1, SwampName: st.swamp,
						IndexType: hydrapb.IndexType_EXPIRATION_TIME, OrderType: hydrapb.OrderType_ASC, HowMany: int32(how), Filters: st.filter("pending")})
					if err != nil || resp == nil {
						return
					}
					ts = resp.GetTreasures()
				}
				if len(ts) == 0 {
					return
				}
				b := batch{kind: c % 2}
				for _, t := range ts {
					b.keys = append(b.keys, t.GetKey())
				}
				mu.Lock()
				batches = append(batches, b)
				mu.Unlock()
			}
		}(c)
	}
	fin := make(chan struct{})
	go func() { wg.Wait(); close(fin) }()
	select {
	case <-fin:
	case <-time.After(HxScale(120 * time.Second)):
		st.dead, st.leaked = true, true
		return "timeout"
	}
	seen := map[string]int{}
	dup, over, disorder, claimed := 0, 0, 0, 0
	for _, b := range batches {
		if len(b.keys) > how {
			over++
		}
		for i, k := range b.keys {
			claimed++
			seen[k]++
			if seen[k] == 2 {
				dup++
			}
			if i > 0 && b.keys[i-1] >= k { // expiry offsets grow with the key number
				disorder++
			}
		}
	}
	return fmt.Sprintf("ok claimed=%d dup=%d overmax=%d disorder=%d left=%d", claimed, dup, over, disorder, records-len(seen))
}

// ---------------------------------------------------------------- runner

func c11Run(in *bufio.Scanner, w *bufio.Writer) {
	rig, err := NewRig(3, 2000, 3600, 3600)
	if err != nil {
		fmt.Fprintln(os.Stderr, "c11: rig:", err)
		os.Exit(3)
	}
	rig.Settings.RegisterPattern(name.New().Sanctuary("c11p0").Realm("*").Swamp("*"), false, 3600,
		&settings.FileSystemSettings{WriteIntervalSec: 0, MaxFileSizeByte: 8192, UseChroniclerV2: true})
	rig.Settings.RegisterPattern(name.New().Sanctuary("c11pn").Realm("*").Swamp("*"), false, 3600,
		&settings.FileSystemSettings{WriteIntervalSec: 3600, MaxFileSizeByte: 8192, UseChroniclerV2: true})
	rig.Settings.RegisterPattern(name.New().Sanctuary("c11m").Realm("*").Swamp("*"), true, 3600, nil)
	st := &c11State{rig: rig, runTag: strconv.FormatInt(time.Now().UnixNano()%1000000, 36), threads: newCCThreads(),
		events: make(chan c11Ev, 8192), done: make(chan c11Done, 64), th: map[string]*c11Thread{}}
	st.free.Store(true)
	verifhook.SetHandler(func(nm string, args ...any) {
		if st.free.Load() {
			return
		}
		th := st.threads.Current()
		if th == "" {
			return
		}
		t := st.get(th)
		if t == nil {
			return
		}
		if nm == "guard.wait" {
			st.events <- c11Ev{th: th, name: nm}
			return
		}
		if t.parks[nm] {
			st.events <- c11Ev{th: th, name: nm}
			<-t.gate
		}
	})
	defer func() {
		verifhook.SetHandler(nil)
		if st.leaked {
			// goroutines of a deadlocked case still hold server locks: a graceful stop would wait for them
			w.Flush()
			_ = os.RemoveAll(rig.Root)
			os.Exit(0)
		}
		rig.Stop(true)
	}()

	for in.Scan() {
		line := strings.TrimSpace(in.Text())
		f := strings.Fields(line)
		if len(f) == 0 {
			fmt.Fprintln(w, "bad-op")
			continue
		}
		if f[0] == "case" {
			st.endCase()
			st.threads.NextEpoch()
			st.dead = len(f) != 4
			if !st.dead {
				st.cfg = f[3]
				st.swamp = name.New().Sanctuary("c11" + strings.ToLower(st.cfg)).Realm("r" + st.runTag).Swamp("c" + f[1]).Get()
				st.base = time.Now().UTC()
				st.free.Store(f[2] != "forced")
			}
			fmt.Fprintln(w, line)
			w.Flush()
			continue
		}
		if st.dead {
			fmt.Fprintln(w, "err skip")
			continue
		}
		atoi := func(s string) int { n, _ := strconv.Atoi(s); return n }
		switch {
		case f[0] == "seed" && len(f) == 4:
			fmt.Fprintln(w, st.sync(func() string { return st.seed(f[1], f[2], atoi(f[3])) }))
		case f[0] == "spawn" && len(f) >= 4:
			fmt.Fprintln(w, st.spawn(f))
		case (f[0] == "go" || f[0] == "poll") && len(f) == 2:
			t := st.get(f[1])
			if t == nil || t.at == "done" {
				fmt.Fprintln(w, "bad-op")
				break
			}
			if f[0] == "go" {
				select {
				case t.gate <- struct{}{}:
				case <-time.After(c11StepTimeout):
					fmt.Fprintln(w, t.name+" stuck")
					w.Flush()
					continue
				}
			}
			fmt.Fprintln(w, st.await(t))
		case f[0] == "patch" && len(f) == 3:
			fmt.Fprintln(w, st.sync(func() string { return st.doPatch(f[1], f[2]) }))
		case f[0] == "del" && len(f) == 2:
			fmt.Fprintln(w, st.sync(func() string { return st.doDel(f[1]) }))
		case f[0] == "shiftexp" && len(f) == 2:
			fmt.Fprintln(w, st.sync(func() string { return st.doShiftExp(atoi(f[1])) }))
		case f[0] == "shiftm" && len(f) == 3:
			fmt.Fprintln(w, st.sync(func() string { return st.doShiftM(atoi(f[1]), f[2]) }))
		case f[0] == "shiftmm" && len(f) == 4:
			fmt.Fprintln(w, st.sync(func() string { return st.doShiftMM(atoi(f[1]), atoi(f[2]), f[3]) }))
		case f[0] == "shiftw" && len(f) == 5:
			fmt.Fprintln(w, st.sync(func() string { return st.doShiftW(atoi(f[1]), atoi(f[2]), atoi(f[3]), f[4]) }))
		case f[0] == "state" && len(f) == 1:
			fmt.Fprintln(w, st.sync(st.state))
		case f[0] == "stress" && len(f) == 4:
			fmt.Fprintln(w, st.stress(atoi(f[1]), atoi(f[2]), atoi(f[3])))
		default:
			fmt.Fprintln(w, "bad-op")
		}
		w.Flush()
	}
	st.endCase()
}
