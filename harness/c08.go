package main

// Domain C08: every streamed query through the accelerated (bucket) route and through the
// full-scan route of Gateway.GetByIndexStream.
//
// ops:   case N
//        body KEY C U E HEX TEXT       Gateway.Set, BytesVal = C7 00 ‖ HEX (msgpack map); TEXT is the same
//                                      value in the text form the Lean driver reads (c08Render);
//                                      C/U/E = CreatedAt/UpdatedAt/ExpiredAt seconds, 0 = absent
//        plain KEY C U E               Gateway.Set with an int64 content (a record without a body)
//        del KEY
//        q IDX ORD FROM LIMIT FT TT MAX FILTER
//                                      the query as is (planner decides) → `b=…`; and again with FILTER
//                                      wrapped as the only sub-group of an OR group, which planOr
//                                      bypasses → `s=…`
// reply: ok | decode-mismatch | err     for body / plain / del
//        b=K[L+L],K,… s=K[L],…          for q (keys in stream order with their MatchedLabels)
//
// value text:  n | T | F | i<int> | u<nat> | f<quarters> | '<chars>' | t<sec> | [v,v] | {k:v,k:v}
// filter text: - | &(item,item…) | |(item,…) ; item = group | PATH~OP~CV~LABEL  (LABEL may be empty)
//              OP ∈ eq ne gt ge lt le sin i32in i64in empty nempty
//              CV = i8:N i16:N i32:N i64:N u8:N u16:N u32:N u64:N f32:Q f64:Q s:chars b:T|F  s:a;b  i32:1;2  i64:1;2  -

import (
	"bufio"
	"bytes"
	"context"
	"encoding/binary"
	"encoding/hex"
	"fmt"
	"math"
	"math/rand"
	"os"
	"sort"
	"strconv"
	"strings"
	"sync"
	"sync/atomic"
	"time"

	"github.com/hydraide/hydraide/app/core/settings"
	"github.com/hydraide/hydraide/app/name"
	"github.com/hydraide/hydraide/app/verifhook"
	hydrapb "github.com/hydraide/hydraide/sdk/go/hydraidego/v3/hydraidepbgo"
	"github.com/vmihailenco/msgpack/v5"
	"google.golang.org/grpc/metadata"
	"google.golang.org/protobuf/types/known/timestamppb"
)

func init() { Register("C08", Domain{Gen: c08Gen, Run: c08Run}) }

// ---- value trees (generator side) -------------------------------------------------------------

type c08Val struct {
	kind string // n T F i u f s t a m   (f with s ∈ {NaN,+Inf,-Inf,-0}: a special float)
	i    int64
	u    uint64 // kind u
	s    string
	arr  []*c08Val
	keys []string
	vals []*c08Val
}

func c08Render(v *c08Val) string {
	switch v.kind {
	case "n", "T", "F":
		return v.kind
	case "u":
		return "u" + strconv.FormatUint(v.u, 10)
	case "f":
		if v.s != "" {
			return "f" + v.s
		}
		return "f" + strconv.FormatInt(v.i, 10)
	case "i", "t":
		return v.kind + strconv.FormatInt(v.i, 10)
	case "s":
		return "'" + v.s + "'"
	case "a":
		p := make([]string, len(v.arr))
		for i, e := range v.arr {
			p[i] = c08Render(e)
		}
		return "[" + strings.Join(p, ",") + "]"
	default:
		p := make([]string, len(v.keys))
		for i := range v.keys {
			p[i] = v.keys[i] + ":" + c08Render(v.vals[i])
		}
		return "{" + strings.Join(p, ",") + "}"
	}
}

// c08Encode writes msgpack choosing among the equivalent encodings with rng (all widths of an
// integer decode to the same model value).
func c08Encode(b *bytes.Buffer, v *c08Val, rng *rand.Rand) {
	switch v.kind {
	case "n":
		b.WriteByte(0xc0)
	case "T":
		b.WriteByte(0xc3)
	case "F":
		b.WriteByte(0xc2)
	case "i": // signed family: fixint / int8 / int16 / int32 / int64
		n := v.i
		opts := []int{64}
		if n >= math.MinInt32 && n <= math.MaxInt32 {
			opts = append(opts, 32)
		}
		if n >= math.MinInt16 && n <= math.MaxInt16 {
			opts = append(opts, 16)
		}
		if n >= math.MinInt8 && n <= math.MaxInt8 {
			opts = append(opts, 8)
		}
		if n >= -32 && n <= 127 {
			opts = append(opts, 0)
		}
		switch opts[rng.Intn(len(opts))] {
		case 0:
			b.WriteByte(byte(int8(n)))
		case 8:
			b.Write([]byte{0xd0, byte(int8(n))})
		case 16:
			b.WriteByte(0xd1)
			_ = binary.Write(b, binary.BigEndian, int16(n))
		case 32:
			b.WriteByte(0xd2)
			_ = binary.Write(b, binary.BigEndian, int32(n))
		default:
			b.WriteByte(0xd3)
			_ = binary.Write(b, binary.BigEndian, n)
		}
	case "u": // unsigned family: uint8 / uint16 / uint32 / uint64
		n := v.u
		opts := []int{64}
		if n <= math.MaxUint32 {
			opts = append(opts, 32)
		}
		if n <= math.MaxUint16 {
			opts = append(opts, 16)
		}
		if n <= math.MaxUint8 {
			opts = append(opts, 8)
		}
		switch opts[rng.Intn(len(opts))] {
		case 8:
			b.Write([]byte{0xcc, byte(n)})
		case 16:
			b.WriteByte(0xcd)
			_ = binary.Write(b, binary.BigEndian, uint16(n))
		case 32:
			b.WriteByte(0xce)
			_ = binary.Write(b, binary.BigEndian, uint32(n))
		default:
			b.WriteByte(0xcf)
			_ = binary.Write(b, binary.BigEndian, n)
		}
	case "f": // quarters: exactly representable as float32 and float64
		x := float64(v.i) / 4
		switch v.s {
		case "NaN":
			x = math.NaN()
		case "+Inf":
			x = math.Inf(1)
		case "-Inf":
			x = math.Inf(-1)
		case "-0":
			x = math.Copysign(0, -1)
		}
		if rng.Intn(2) == 0 && (v.s != "" || float64(float32(x)) == x) && v.s != "NaN" {
			b.WriteByte(0xca)
			_ = binary.Write(b, binary.BigEndian, math.Float32bits(float32(x)))
		} else {
			b.WriteByte(0xcb)
			_ = binary.Write(b, binary.BigEndian, math.Float64bits(x))
		}
	case "s":
		if len(v.s) < 32 {
			b.WriteByte(0xa0 | byte(len(v.s)))
		} else {
			b.Write([]byte{0xd9, byte(len(v.s))})
		}
		b.WriteString(v.s)
	case "t": // timestamp 32 (fixext4, type -1): seconds
		b.Write([]byte{0xd6, 0xff})
		_ = binary.Write(b, binary.BigEndian, uint32(v.i))
	case "a":
		b.WriteByte(0x90 | byte(len(v.arr)))
		for _, e := range v.arr {
			c08Encode(b, e, rng)
		}
	default:
		b.WriteByte(0x80 | byte(len(v.keys)))
		for i := range v.keys {
			b.WriteByte(0xa0 | byte(len(v.keys[i])))
			b.WriteString(v.keys[i])
			c08Encode(b, v.vals[i], rng)
		}
	}
}

// c08RenderDecoded renders what the real msgpack library decoded, in the same text form
// (map keys sorted, as the generator emits them).
func c08RenderDecoded(v any) string {
	switch x := v.(type) {
	case nil:
		return "n"
	case bool:
		if x {
			return "T"
		}
		return "F"
	case int8:
		return "i" + strconv.FormatInt(int64(x), 10)
	case int16:
		return "i" + strconv.FormatInt(int64(x), 10)
	case int32:
		return "i" + strconv.FormatInt(int64(x), 10)
	case int64:
		return "i" + strconv.FormatInt(x, 10)
	case uint8:
		return "u" + strconv.FormatUint(uint64(x), 10)
	case uint16:
		return "u" + strconv.FormatUint(uint64(x), 10)
	case uint32:
		return "u" + strconv.FormatUint(uint64(x), 10)
	case uint64:
		return "u" + strconv.FormatUint(x, 10)
	case float32:
		return c08FloatText(float64(x))
	case float64:
		return c08FloatText(x)
	case string:
		return "'" + x + "'"
	case time.Time:
		return "t" + strconv.FormatInt(x.UTC().Unix(), 10)
	case []any:
		p := make([]string, len(x))
		for i, e := range x {
			p[i] = c08RenderDecoded(e)
		}
		return "[" + strings.Join(p, ",") + "]"
	case map[string]any:
		ks := make([]string, 0, len(x))
		for k := range x {
			ks = append(ks, k)
		}
		sort.Strings(ks)
		p := make([]string, len(ks))
		for i, k := range ks {
			p[i] = k + ":" + c08RenderDecoded(x[k])
		}
		return "{" + strings.Join(p, ",") + "}"
	}
	return fmt.Sprintf("?%T", v)
}

// quarters as exact integer text (FormatFloat's shortest form rounds 2^55 to 16 digits)
func c08FloatText(x float64) string {
	q := x * 4
	if q == math.Trunc(q) && math.Abs(q) < 1<<62 && !(q == 0 && math.Signbit(q)) {
		return "f" + strconv.FormatInt(int64(q), 10)
	}
	return "f" + strconv.FormatFloat(q, 'f', -1, 64)
}

// ---- generator -------------------------------------------------------------------------------------

var c08Strs = []string{"a", "b", "ab", "", "x1"}

var c08BigInts = []int64{math.MaxInt64, math.MinInt64, 1 << 53, 1<<53 + 1, 1<<53 - 1, -1}
var c08BigUints = []uint64{math.MaxUint64, 1 << 63, 1<<53 + 1, 1 << 53}

func c08Scalar(rng *rand.Rand) *c08Val {
	if rng.Intn(9) == 0 { // boundary scalars
		switch rng.Intn(3) {
		case 0:
			return &c08Val{kind: "i", i: c08BigInts[rng.Intn(len(c08BigInts))]}
		case 1:
			return &c08Val{kind: "u", u: c08BigUints[rng.Intn(len(c08BigUints))]}
		default:
			if rng.Intn(2) == 0 {
				return &c08Val{kind: "f", i: 1 << 55} // 2^53 as a float
			}
			return &c08Val{kind: "f", s: []string{"NaN", "+Inf", "-Inf", "-0"}[rng.Intn(4)]}
		}
	}
	switch rng.Intn(16) {
	case 0:
		return &c08Val{kind: "n"}
	case 1:
		return &c08Val{kind: "T"}
	case 2:
		return &c08Val{kind: "F"}
	case 3, 4, 5, 6:
		return &c08Val{kind: "i", i: int64(rng.Intn(9)) - 2}
	case 7, 8:
		return &c08Val{kind: "u", u: uint64(rng.Intn(7))}
	case 9, 10, 11:
		// quarters 0..27: 0, 0.25 … 6.75  (5.75 ↔ "float 5.7 vs int 5")
		return &c08Val{kind: "f", i: int64(rng.Intn(28))}
	case 12:
		return &c08Val{kind: "t", i: int64(1 + rng.Intn(6))}
	default:
		return &c08Val{kind: "s", s: c08Strs[rng.Intn(len(c08Strs))]}
	}
}

// bodies: {a: scalar, b: scalar, m: {x: scalar, y: scalar}, l: [scalar…], r: [{x: scalar}, …]}, fields sometimes missing
func c08Body(rng *rand.Rand) *c08Val {
	m := &c08Val{kind: "m"}
	add := func(k string, v *c08Val) {
		m.keys = append(m.keys, k)
		m.vals = append(m.vals, v)
	}
	if rng.Intn(8) != 0 {
		add("a", c08Scalar(rng))
	}
	if rng.Intn(4) != 0 {
		add("b", c08Scalar(rng))
	}
	if rng.Intn(3) == 0 {
		// coordinates for the geo-distance leg `@geo` (both or neither; always the point (1.0, 2.0))
		add("gla", &c08Val{kind: "f", i: 4})
		add("glo", &c08Val{kind: "f", i: 8})
	}
	if rng.Intn(3) != 0 {
		n := rng.Intn(4)
		l := &c08Val{kind: "a"}
		for i := 0; i < n; i++ {
			l.arr = append(l.arr, c08Scalar(rng))
		}
		add("l", l)
	}
	if rng.Intn(3) != 0 {
		sub := &c08Val{kind: "m"}
		if rng.Intn(4) != 0 {
			sub.keys = append(sub.keys, "x")
			sub.vals = append(sub.vals, c08Scalar(rng))
		}
		if rng.Intn(2) == 0 {
			sub.keys = append(sub.keys, "y")
			sub.vals = append(sub.vals, c08Scalar(rng))
		}
		add("m", sub)
	}
	if rng.Intn(3) == 0 {
		n := rng.Intn(3)
		l := &c08Val{kind: "a"}
		for i := 0; i < n; i++ {
			e := &c08Val{kind: "m", keys: []string{"x"}, vals: []*c08Val{c08Scalar(rng)}}
			l.arr = append(l.arr, e)
		}
		add("r", l)
	}
	return m
}

var c08PlainPaths = []string{"a", "b", "m.x", "m.y", "m", "l", "zz", "a.q"}
var c08SpecialPaths = []string{"l[*]", "r[*].x", "l.#len", "m.#len", "r.#len"}

func c08CV(rng *rand.Rand, op string) string {
	switch op {
	case "sin":
		n := 1 + rng.Intn(3)
		p := make([]string, n)
		for i := range p {
			p[i] = c08Strs[rng.Intn(len(c08Strs))]
		}
		return "s:" + strings.Join(p, ";")
	case "i32in", "i64in":
		n := 1 + rng.Intn(3)
		p := make([]string, n)
		for i := range p {
			p[i] = strconv.Itoa(rng.Intn(8) - 1)
		}
		return op[:3] + ":" + strings.Join(p, ";")
	case "empty", "nempty":
		return "-"
	}
	switch rng.Intn(12) {
	case 0:
		return "i8:" + strconv.Itoa(rng.Intn(8)-1)
	case 1:
		return "i16:" + strconv.Itoa(rng.Intn(8)-1)
	case 2:
		return "i32:" + strconv.Itoa(rng.Intn(8)-1)
	case 3, 4:
		return "i64:" + strconv.Itoa(rng.Intn(8)-1)
	case 5:
		return []string{"u8:", "u16:", "u32:", "u64:"}[rng.Intn(4)] + strconv.Itoa(rng.Intn(7))
	case 6:
		return "f32:" + strconv.Itoa(rng.Intn(28))
	case 7, 8:
		return "f64:" + strconv.Itoa(rng.Intn(28))
	case 9:
		return "b:" + []string{"T", "F"}[rng.Intn(2)]
	default:
		return "s:" + c08Strs[rng.Intn(len(c08Strs))]
	}
}

// c08CVFor renders a compare value that is "about" the scalar v: the same number in another
// numeric representation, the truncation of a float, a neighbour, or the same string / bool.
func c08CVFor(rng *rand.Rand, v *c08Val, op string) string {
	num := func(n int64, quarters bool) string {
		if quarters { // v is n/4
			switch rng.Intn(4) {
			case 0:
				return "f64:" + strconv.FormatInt(n, 10)
			case 1:
				return "f32:" + strconv.FormatInt(n, 10)
			case 2:
				return "i64:" + strconv.FormatInt(n/4, 10) // truncation
			default:
				return []string{"i32:", "u8:", "i8:"}[rng.Intn(3)] + strconv.FormatInt(n/4, 10)
			}
		}
		if rng.Intn(5) == 0 {
			n += int64(rng.Intn(3)) - 1
		}
		switch rng.Intn(6) {
		case 0:
			return "f64:" + strconv.FormatInt(n*4, 10)
		case 1:
			if n >= 0 {
				return []string{"u8:", "u16:", "u32:", "u64:"}[rng.Intn(4)] + strconv.FormatInt(n, 10)
			}
			return "i16:" + strconv.FormatInt(n, 10)
		case 2:
			return []string{"i8:", "i16:", "i32:"}[rng.Intn(3)] + strconv.FormatInt(n, 10)
		default:
			return "i64:" + strconv.FormatInt(n, 10)
		}
	}
	switch op {
	case "sin":
		alt := c08Strs[rng.Intn(len(c08Strs))]
		if v.kind == "s" {
			return "s:" + []string{v.s + ";" + alt, alt + ";" + v.s, v.s}[rng.Intn(3)]
		}
		return "s:" + alt
	case "i32in", "i64in":
		n := int64(rng.Intn(6))
		switch v.kind {
		case "i", "t":
			n = v.i
		case "u":
			n = int64(v.u)
		case "f":
			n = v.i / 4
		}
		if op == "i32in" && (n > math.MaxInt32 || n < math.MinInt32) {
			n = int64(int32(n))
		}
		alt := strconv.Itoa(rng.Intn(7))
		return op[:3] + ":" + []string{strconv.FormatInt(n, 10) + ";" + alt, alt + ";" + strconv.FormatInt(n, 10), strconv.FormatInt(n, 10) + ";" + strconv.FormatInt(n, 10)}[rng.Intn(3)]
	case "empty", "nempty":
		return "-"
	}
	big := func(n int64) bool { return n > 1<<31 || n < -(1<<31) }
	switch v.kind {
	case "u":
		if v.u > 1<<31 {
			// the same magnitude as u64, as (wrapping) i64, or as the float it rounds to
			return []string{"u64:" + strconv.FormatUint(v.u, 10), "i64:" + strconv.FormatInt(int64(v.u), 10),
				"f64:" + strconv.FormatFloat(float64(v.u)*4, 'f', 0, 64)}[rng.Intn(3)]
		}
		return num(int64(v.u), false)
	case "i", "t":
		if big(v.i) {
			opts := []string{"i64:" + strconv.FormatInt(v.i, 10), "f64:" + strconv.FormatFloat(float64(v.i)*4, 'f', 0, 64)}
			if v.i >= 0 {
				opts = append(opts, "u64:"+strconv.FormatInt(v.i, 10))
			} else {
				opts = append(opts, "u64:18446744073709551615")
			}
			return opts[rng.Intn(len(opts))]
		}
		return num(v.i, false)
	case "f":
		if v.s != "" {
			return []string{"i64:0", "f64:0", "i64:-9223372036854775808", "u64:9223372036854775808", "f64:4"}[rng.Intn(5)]
		}
		if big(v.i) {
			return []string{"f64:" + strconv.FormatInt(v.i, 10), "i64:" + strconv.FormatInt(v.i/4, 10),
				"i64:" + strconv.FormatInt(v.i/4+1, 10), "u64:" + strconv.FormatInt(v.i/4, 10)}[rng.Intn(4)]
		}
		return num(v.i, true)
	case "s":
		return "s:" + v.s
	case "T":
		return "b:T"
	case "F":
		return "b:F"
	}
	return c08CV(rng, op)
}

// c08PathsOf lists (path text, scalar reached) for a body, including the special forms
func c08PathsOf(body *c08Val, special bool) (paths []string, vals []*c08Val) {
	for i, k := range body.keys {
		v := body.vals[i]
		switch v.kind {
		case "m":
			for j, k2 := range v.keys {
				paths, vals = append(paths, k+"."+k2), append(vals, v.vals[j])
			}
			if special {
				paths, vals = append(paths, k+".#len"), append(vals, &c08Val{kind: "i", i: int64(len(v.keys))})
			}
		case "a":
			if special {
				paths, vals = append(paths, k+".#len"), append(vals, &c08Val{kind: "i", i: int64(len(v.arr))})
				for _, e := range v.arr {
					if e.kind == "m" {
						for j, k2 := range e.keys {
							paths, vals = append(paths, k+"[*]."+k2), append(vals, e.vals[j])
						}
					} else {
						paths, vals = append(paths, k+"[*]"), append(vals, e)
					}
				}
			}
		default:
			paths, vals = append(paths, k), append(vals, v)
		}
	}
	return
}

func c08Leaf(rng *rand.Rand, indexable bool, labelP int, special int, seed *c08Val) string {
	path := c08PlainPaths[rng.Intn(len(c08PlainPaths))]
	if rng.Intn(100) < special {
		path = c08SpecialPaths[rng.Intn(len(c08SpecialPaths))]
	}
	var op string
	if indexable {
		op = []string{"eq", "eq", "eq", "sin", "i32in", "i64in"}[rng.Intn(6)]
	} else {
		op = []string{"ne", "gt", "ge", "lt", "le", "empty", "nempty", "nempty", "ne"}[rng.Intn(9)]
	}
	cv := ""
	if seed != nil && rng.Intn(5) != 0 {
		ps, vs := c08PathsOf(seed, rng.Intn(100) < special)
		if len(ps) > 0 {
			i := rng.Intn(len(ps))
			path = ps[i]
			if op == "sin" && vs[i].kind != "s" {
				op = "eq"
			}
			if (op == "i32in" || op == "i64in") && (vs[i].kind == "s" || vs[i].kind == "T" || vs[i].kind == "F" || vs[i].kind == "n") {
				op = "eq"
			}
			cv = c08CVFor(rng, vs[i], op)
		}
	}
	if cv == "" {
		cv = c08CV(rng, op)
	}
	label := ""
	if rng.Intn(100) < labelP {
		label = "L" + strconv.Itoa(rng.Intn(4))
	}
	return path + "~" + op + "~" + cv + "~" + label
}

func c08Group(rng *rand.Rand, depth int, labelP, special int, seed *c08Val) string {
	logic := "&"
	if rng.Intn(3) == 0 {
		logic = "|"
	}
	var items []string
	n := 1 + rng.Intn(2)
	if logic == "|" {
		n = 1 + rng.Intn(3)
	}
	for i := 0; i < n; i++ {
		// AND groups: mix of indexable and residual legs; OR groups: mostly all-indexable (→ OR-union)
		idx := rng.Intn(3) != 0
		if logic == "|" {
			idx = rng.Intn(6) != 0
		}
		items = append(items, c08Leaf(rng, idx, labelP, special, seed))
	}
	if rng.Intn(6) == 0 {
		// a leg of another kind (geo distance): never hinted, carried in the residual's header
		items = append(items, "@geo")
	}
	if depth > 0 && rng.Intn(3) == 0 {
		items = append(items, c08Group(rng, depth-1, labelP, special, seed))
		if rng.Intn(4) == 0 {
			items = append(items, c08Group(rng, depth-1, labelP, special, seed))
		}
	}
	return logic + "(" + strings.Join(items, ",") + ")"
}

func c08GenBody(rng *rand.Rand, w *bufio.Writer, key string, c, u, e int) *c08Val {
	v := c08Body(rng)
	var b bytes.Buffer
	c08Encode(&b, v, rng)
	fmt.Fprintf(w, "body %s %d %d %d %s %s\n", key, c, u, e, hex.EncodeToString(b.Bytes()), c08Render(v))
	return v
}

func c08Gen(rng *rand.Rand, tier string, w *bufio.Writer) {
	cases, maxLen := 150, 26
	if tier == "thorough" {
		cases, maxLen = 3000, 50
	}
	fixed := func(key string, c, u, e int, text string, v *c08Val) {
		var b bytes.Buffer
		c08Encode(&b, v, rng)
		if c08Render(v) != text {
			panic("corpus text mismatch " + text)
		}
		fmt.Fprintf(w, "body %s %d %d %d %s %s\n", key, c, u, e, hex.EncodeToString(b.Bytes()), text)
	}
	mk := func(kv ...any) *c08Val {
		m := &c08Val{kind: "m"}
		for i := 0; i < len(kv); i += 2 {
			m.keys = append(m.keys, kv[i].(string))
			m.vals = append(m.vals, kv[i+1].(*c08Val))
		}
		return m
	}
	I := func(n int64) *c08Val { return &c08Val{kind: "i", i: n} }
	Fq := func(q int64) *c08Val { return &c08Val{kind: "f", i: q} }
	S := func(s string) *c08Val { return &c08Val{kind: "s", s: s} }
	A := func(e ...*c08Val) *c08Val { return &c08Val{kind: "a", arr: e} }
	// corpus 0: float 5.75 against integer 5 (scan truncates, bucket compares canonically)
	fmt.Fprintln(w, "case 0")
	fixed("k1", 1, 0, 0, "{a:f23}", mk("a", Fq(23)))
	fixed("k2", 2, 0, 0, "{a:i5}", mk("a", I(5)))
	fmt.Fprintln(w, "q key asc 0 0 - - 0 &(a~eq~i64:5~)")
	fmt.Fprintln(w, "q key asc 0 0 - - 0 &(a~i64in~i64:5;7~)")
	// corpus 1: wildcard and #len paths are hinted although the bucket cannot index them
	fmt.Fprintln(w, "case 1")
	fixed("k1", 1, 0, 0, "{l:['a','b']}", mk("l", A(S("a"), S("b"))))
	fixed("k2", 2, 0, 0, "{l:['b']}", mk("l", A(S("b"))))
	fmt.Fprintln(w, "q key asc 0 0 - - 0 &(l[*]~eq~s:a~)")
	fmt.Fprintln(w, "q key asc 0 0 - - 0 &(l.#len~eq~i64:2~)")
	// corpus 2: From=1 with a selective indexed leg
	fmt.Fprintln(w, "case 2")
	fixed("k1", 1, 0, 0, "{a:i1}", mk("a", I(1)))
	fixed("k2", 2, 0, 0, "{a:i2}", mk("a", I(2)))
	fixed("k3", 3, 0, 0, "{a:i2}", mk("a", I(2)))
	fmt.Fprintln(w, "q key asc 1 0 - - 0 &(a~eq~i64:2~)")
	fmt.Fprintln(w, "q key asc 0 1 - - 0 &(a~eq~i64:2~)")
	fmt.Fprintln(w, "q key asc 1 0 - - 0 &(a~eq~i64:2~) m")
	// corpus 3: the label of the indexed leg
	fmt.Fprintln(w, "case 3")
	fixed("k1", 1, 0, 0, "{a:i1,b:'a'}", mk("a", I(1), "b", S("a")))
	fmt.Fprintln(w, "q key asc 0 0 - - 0 &(a~eq~i64:1~L1,b~eq~s:a~L2)")
	fmt.Fprintln(w, "q key asc 0 0 - - 0 |(a~eq~i64:1~L1,b~eq~s:a~L2)")
	fmt.Fprintln(w, "q key asc 0 0 - - 0 &(a~eq~i64:1~L1,b~eq~s:a~L2) m")
	// corpus 4: a record without CreatedAt in a creation-time ordered query
	fmt.Fprintln(w, "case 4")
	fixed("k1", 0, 0, 0, "{a:i1}", mk("a", I(1)))
	fixed("k2", 2, 0, 0, "{a:i1}", mk("a", I(1)))
	fmt.Fprintln(w, "q created asc 0 0 - - 0 &(a~eq~i64:1~)")
	// corpus 4b: a time window on a key-ordered query (the scan route ignores it, applyTimeRange does not)
	fmt.Fprintln(w, "q key asc 0 0 1 - 0 &(a~eq~i64:1~)")
	// corpus 4c: the time index the scan route walks was built, then an update moved CreatedAt; the
	// accelerated route sorts afresh (the two agree because SaveFunction re-files the record: C07)
	fmt.Fprintln(w, "q created asc 0 0 - - 0 &(a~eq~i64:1~)")
	fixed("k2", 9, 0, 0, "{a:i1}", mk("a", I(1)))
	fixed("k1", 3, 0, 0, "{a:i1}", mk("a", I(1)))
	fmt.Fprintln(w, "q created asc 0 0 - - 0 &(a~eq~i64:1~)")
	fmt.Fprintln(w, "q created desc 0 0 - - 0 |(a~eq~i64:1~,&(a~nempty~-~))")
	// corpus 5: agreement on the sound fragment + mutation after the bucket was built
	fmt.Fprintln(w, "case 5")
	fixed("k1", 1, 0, 0, "{a:i1,b:'a'}", mk("a", I(1), "b", S("a")))
	fixed("k2", 2, 0, 0, "{a:u1,b:'b'}", mk("a", &c08Val{kind: "u", u: 1}, "b", S("b")))
	fixed("k3", 3, 0, 0, "{a:f4,b:'a'}", mk("a", Fq(4), "b", S("a")))
	fmt.Fprintln(w, "q key desc 0 0 - - 0 &(a~eq~i64:1~,b~ne~s:b~)")
	fixed("k2", 0, 0, 0, "{a:i2,b:'a'}", mk("a", I(2), "b", S("a")))
	fixed("k4", 4, 0, 0, "{a:i1}", mk("a", I(1)))
	fmt.Fprintln(w, "del k1")
	fmt.Fprintln(w, "q key desc 0 0 - - 0 &(a~eq~i64:1~,b~ne~s:b~)")
	fmt.Fprintln(w, "q created desc 0 0 2 9 2 |(a~eq~f64:4~,b~sin~s:a;b~)")
	fmt.Fprintln(w, "q created desc 0 0 2 9 2 |(a~eq~f64:4~,b~sin~s:a;b~) m")
	fmt.Fprintln(w, "q created asc 0 0 - 4 0 &(a~eq~i64:1~) m")
	// corpus 5g: a geo-distance leg next to an indexed leg: it has to survive into the residual
	fmt.Fprintln(w, "case 5g")
	fixed("k1", 1, 0, 0, "{a:i1,gla:f4,glo:f8}", mk("a", I(1), "gla", Fq(4), "glo", Fq(8)))
	fixed("k2", 2, 0, 0, "{a:i1}", mk("a", I(1)))
	fixed("k3", 3, 0, 0, "{a:i2,gla:f4,glo:f8}", mk("a", I(2), "gla", Fq(4), "glo", Fq(8)))
	fmt.Fprintln(w, "q key asc 0 0 - - 0 &(a~eq~i64:1~,@geo)")
	fmt.Fprintln(w, "q key asc 0 0 - - 0 &(a~eq~i64:1~,@geo) m")
	fmt.Fprintln(w, "q key asc 0 0 - - 0 |(a~eq~i64:2~,@geo)")
	fmt.Fprintln(w, "q key desc 0 0 - - 0 &(|(a~eq~i64:1~,a~eq~i64:2~),@geo)")

	// corpus 5h: a first query is held inside GetOrBuildBucket after BuildEquality, before DrainPending
	// (forced schedule through the hook): saves and a delete arrive meanwhile, a second reader comes
	fmt.Fprintln(w, "case 5h")
	fixed("k1", 1, 0, 0, "{a:i1}", mk("a", I(1)))
	fixed("k2", 2, 0, 0, "{a:i2}", mk("a", I(2)))
	fmt.Fprintln(w, "bq built key asc 0 0 - - 0 &(a~eq~i64:1~)")
	fixed("k3", 3, 0, 0, "{a:i1}", mk("a", I(1)))
	fmt.Fprintln(w, "q key asc 0 0 - - 0 &(a~eq~i64:1~)")
	fixed("k1", 0, 0, 0, "{a:i2}", mk("a", I(2)))
	fmt.Fprintln(w, "del k2")
	fmt.Fprintln(w, "q key asc 0 0 - - 0 &(a~eq~i64:2~)")
	fmt.Fprintln(w, "release")
	fmt.Fprintln(w, "q key asc 0 0 - - 0 &(a~eq~i64:1~)")
	fmt.Fprintln(w, "q key asc 0 0 - - 0 &(a~eq~i64:2~)")
	// corpus 5s: held after the snapshot, before BuildEquality: the saves are in the pending buffer only
	fmt.Fprintln(w, "case 5s")
	fixed("k1", 1, 0, 0, "{a:i1}", mk("a", I(1)))
	fixed("k2", 2, 0, 0, "{a:i1}", mk("a", I(1)))
	fmt.Fprintln(w, "bq snap created asc 0 0 - - 0 &(a~eq~i64:1~)")
	fixed("k3", 3, 0, 0, "{a:i1}", mk("a", I(1)))
	fixed("k1", 0, 0, 0, "{a:i5}", mk("a", I(5)))
	fmt.Fprintln(w, "del k2")
	fmt.Fprintln(w, "release")
	fmt.Fprintln(w, "q created asc 0 0 - - 0 &(a~eq~i64:1~)")
	fmt.Fprintln(w, "q key desc 0 0 - - 0 &(a~eq~i64:5~)")
	for c := 6; c < cases; c++ {
		persistent := c%3 == 0
		if persistent {
			fmt.Fprintf(w, "case %dp\n", c)
		} else {
			fmt.Fprintf(w, "case %d\n", c)
		}
		theme := rng.Intn(10)
		labelP, special, paging := 0, 0, false
		switch {
		case theme < 3: // sound fragment: no labels, plain paths, no paging
		case theme < 5:
			labelP = 50
		case theme < 7:
			special = 35
		case theme < 9:
			paging = true
		default:
			labelP, special, paging = 30, 15, true
		}
		nKeys := 2 + rng.Intn(7)
		// fixed distinct timestamps per key (no ties among carriers); some keys carry none
		perm := rng.Perm(nKeys)
		noTS := rng.Intn(4) == 0
		ts := func(k int) (int, int, int) {
			if noTS && k%3 == 0 {
				return 0, 0, 0
			}
			return 1 + perm[k], 1 + perm[(k+1)%nKeys], 1 + perm[(k+2)%nKeys]
		}
		seenKey := map[int]bool{}
		bodies := map[int]*c08Val{}
		n := 5 + rng.Intn(maxLen)
		held := 0 // > 0: a first query is held inside GetOrBuildBucket; released when it reaches 1
		for i := 0; i < n; i++ {
			r := rng.Intn(100)
			if held > 0 {
				held--
				if held == 0 {
					fmt.Fprintln(w, "release")
					continue
				}
				if r >= 45 && r < 55 {
					r = 0 // while a build is held: saves and queries only (a delete could empty the swamp, a reload closes it)
				}
			}
			switch {
			case r >= 55 && r < 63 && held == 0 && !paging && len(bodies) > 0 && c%2 == 0:
				// hold the builder of a field bucket: after its snapshot, or after BuildEquality
				ks := make([]int, 0, len(bodies))
				for k := range bodies {
					ks = append(ks, k)
				}
				sort.Ints(ks)
				seed := bodies[ks[rng.Intn(len(ks))]]
				fmt.Fprintf(w, "bq %s %s %s 0 0 - - 0 %s\n", []string{"snap", "built"}[rng.Intn(2)],
					[]string{"key", "created"}[rng.Intn(2)], []string{"asc", "desc"}[rng.Intn(2)], c08Group(rng, 1, 0, 0, seed))
				held = 2 + rng.Intn(4)
			case r < 45 || len(seenKey) == 0:
				k := rng.Intn(nKeys)
				cT, uT, eT := ts(k)
				if seenKey[k] && rng.Intn(3) != 0 {
					cT, uT, eT = 0, 0, 0
				} else if seenKey[k] {
					// an update that moves the timestamps: the scan route then reads an index that was
					// re-filed incrementally (C07), the accelerated route sorts its candidates afresh
					cT, uT, eT = 1+rng.Intn(nKeys+2), 1+rng.Intn(nKeys+2), 1+rng.Intn(nKeys+2)
				}
				seenKey[k] = true
				if rng.Intn(14) == 0 {
					fmt.Fprintf(w, "plain k%d %d %d %d\n", k, cT, uT, eT)
					delete(bodies, k)
				} else {
					bodies[k] = c08GenBody(rng, w, fmt.Sprintf("k%d", k), cT, uT, eT)
				}
			case r < 55 && r >= 52 && persistent:
				fmt.Fprintln(w, "reload")
			case r < 52:
				k := rng.Intn(nKeys)
				delete(seenKey, k)
				delete(bodies, k)
				fmt.Fprintf(w, "del k%d\n", k)
			default:
				idx := []string{"key", "key", "created", "updated", "expire"}[rng.Intn(5)]
				ord := []string{"asc", "desc"}[rng.Intn(2)]
				from, limit := 0, 0
				if paging {
					from, limit = rng.Intn(3), rng.Intn(4)
				}
				ft, tt := "-", "-"
				if (idx != "key" || rng.Intn(6) == 0) && rng.Intn(3) == 0 {
					ft = strconv.Itoa(rng.Intn(5))
					if rng.Intn(2) == 0 {
						tt = strconv.Itoa(2 + rng.Intn(8))
					}
				}
				if idx != "key" && rng.Intn(10) == 0 {
					// bounds int64 nanoseconds cannot hold (years 0001 / 9999): both routes must treat them alike
					ft, tt = []string{"-", "-62135596800", "253402300799"}[rng.Intn(3)], []string{"253402300799", "-62135596800", "-"}[rng.Intn(3)]
				}
				max := 0
				if rng.Intn(6) == 0 {
					max = 1 + rng.Intn(3)
				}
				var seed *c08Val
				if len(bodies) > 0 {
					ks := make([]int, 0, len(bodies))
					for k := range bodies {
						ks = append(ks, k)
					}
					sort.Ints(ks)
					seed = bodies[ks[rng.Intn(len(ks))]]
				}
				fmt.Fprintf(w, "q %s %s %d %d %s %s %d %s%s\n", idx, ord, from, limit, ft, tt, max, c08Group(rng, 2, labelP, special, seed),
					[]string{"", "", " m"}[rng.Intn(3)])
			}
		}
		if held > 0 {
			fmt.Fprintln(w, "release")
		}
	}
}

// ---- filter parsing ----------------------------------------------------------------------------

func c08SplitTop(s string) []string {
	var out []string
	depth, start := 0, 0
	for i, ch := range s {
		switch ch {
		case '(':
			depth++
		case ')':
			depth--
		case ',':
			if depth == 0 {
				out = append(out, s[start:i])
				start = i + 1
			}
		}
	}
	if start <= len(s) {
		out = append(out, s[start:])
	}
	return out
}

func c08ParseGroup(s string) (*hydrapb.FilterGroup, bool) {
	if len(s) < 3 || (s[0] != '&' && s[0] != '|') || s[1] != '(' || s[len(s)-1] != ')' {
		return nil, false
	}
	g := &hydrapb.FilterGroup{Logic: hydrapb.FilterLogic_AND}
	if s[0] == '|' {
		g.Logic = hydrapb.FilterLogic_OR
	}
	for _, it := range c08SplitTop(s[2 : len(s)-1]) {
		if it == "" {
			continue
		}
		if it[0] == '&' || it[0] == '|' {
			sub, ok := c08ParseGroup(it)
			if !ok {
				return nil, false
			}
			g.SubGroups = append(g.SubGroups, sub)
			continue
		}
		if it == "@geo" {
			// within 1 km of (1.0, 2.0): true exactly for the bodies that carry the coordinates gla / glo
			g.GeoDistanceFilters = append(g.GeoDistanceFilters, &hydrapb.GeoDistanceFilter{LatFieldPath: "gla", LngFieldPath: "glo",
				RefLatitude: 1.0, RefLongitude: 2.0, RadiusKm: 1, Mode: hydrapb.GeoDistanceMode_INSIDE})
			continue
		}
		f, ok := c08ParseLeaf(it)
		if !ok {
			return nil, false
		}
		g.Filters = append(g.Filters, f)
	}
	return g, true
}

var c08Ops = map[string]hydrapb.Relational_Operator{
	"eq": hydrapb.Relational_EQUAL, "ne": hydrapb.Relational_NOT_EQUAL, "gt": hydrapb.Relational_GREATER_THAN,
	"ge": hydrapb.Relational_GREATER_THAN_OR_EQUAL, "lt": hydrapb.Relational_LESS_THAN, "le": hydrapb.Relational_LESS_THAN_OR_EQUAL,
	"sin": hydrapb.Relational_STRING_IN, "i32in": hydrapb.Relational_INT32_IN, "i64in": hydrapb.Relational_INT64_IN,
	"empty": hydrapb.Relational_IS_EMPTY, "nempty": hydrapb.Relational_IS_NOT_EMPTY,
}

func c08ParseLeaf(s string) (*hydrapb.TreasureFilter, bool) {
	p := strings.Split(s, "~")
	if len(p) != 4 {
		return nil, false
	}
	op, ok := c08Ops[p[1]]
	if !ok {
		return nil, false
	}
	path := p[0]
	f := &hydrapb.TreasureFilter{Operator: op, BytesFieldPath: &path}
	if p[3] != "" {
		l := p[3]
		f.Label = &l
	}
	if p[2] == "-" {
		return f, true
	}
	tv := strings.SplitN(p[2], ":", 2)
	if len(tv) != 2 {
		return nil, false
	}
	switch p[1] {
	case "sin":
		f.StringInVals = strings.Split(tv[1], ";")
		return f, tv[0] == "s"
	case "i32in":
		for _, x := range strings.Split(tv[1], ";") {
			n, err := strconv.ParseInt(x, 10, 32)
			if err != nil {
				return nil, false
			}
			f.Int32InVals = append(f.Int32InVals, int32(n))
		}
		return f, tv[0] == "i32"
	case "i64in":
		for _, x := range strings.Split(tv[1], ";") {
			n, err := strconv.ParseInt(x, 10, 64)
			if err != nil {
				return nil, false
			}
			f.Int64InVals = append(f.Int64InVals, n)
		}
		return f, tv[0] == "i64"
	}
	if tv[0] == "s" {
		f.CompareValue = &hydrapb.TreasureFilter_StringVal{StringVal: tv[1]}
		return f, true
	}
	if tv[0] == "b" {
		v := hydrapb.Boolean_FALSE
		if tv[1] == "T" {
			v = hydrapb.Boolean_TRUE
		}
		f.CompareValue = &hydrapb.TreasureFilter_BoolVal{BoolVal: v}
		return f, true
	}
	if tv[0] == "u64" {
		u, err := strconv.ParseUint(tv[1], 10, 64)
		if err != nil {
			return nil, false
		}
		f.CompareValue = &hydrapb.TreasureFilter_Uint64Val{Uint64Val: u}
		return f, true
	}
	if tv[0] == "f64" {
		q, err := strconv.ParseFloat(tv[1], 64)
		if err != nil {
			return nil, false
		}
		f.CompareValue = &hydrapb.TreasureFilter_Float64Val{Float64Val: q / 4}
		return f, true
	}
	n, err := strconv.ParseInt(tv[1], 10, 64)
	if err != nil {
		return nil, false
	}
	switch tv[0] {
	case "i8":
		f.CompareValue = &hydrapb.TreasureFilter_Int8Val{Int8Val: int32(n)}
	case "i16":
		f.CompareValue = &hydrapb.TreasureFilter_Int16Val{Int16Val: int32(n)}
	case "i32":
		f.CompareValue = &hydrapb.TreasureFilter_Int32Val{Int32Val: int32(n)}
	case "i64":
		f.CompareValue = &hydrapb.TreasureFilter_Int64Val{Int64Val: n}
	case "u8":
		f.CompareValue = &hydrapb.TreasureFilter_Uint8Val{Uint8Val: uint32(n)}
	case "u16":
		f.CompareValue = &hydrapb.TreasureFilter_Uint16Val{Uint16Val: uint32(n)}
	case "u32":
		f.CompareValue = &hydrapb.TreasureFilter_Uint32Val{Uint32Val: uint32(n)}
	case "u64":
		f.CompareValue = &hydrapb.TreasureFilter_Uint64Val{Uint64Val: uint64(n)}
	case "f32":
		f.CompareValue = &hydrapb.TreasureFilter_Float32Val{Float32Val: float32(n) / 4}
	case "f64":
		f.CompareValue = &hydrapb.TreasureFilter_Float64Val{Float64Val: float64(n) / 4}
	default:
		return nil, false
	}
	return f, true
}

// ---- execution ------------------------------------------------------------------------------------

type c08Stream struct {
	ctx context.Context
	out []string
}

func (s *c08Stream) Send(r *hydrapb.GetByIndexStreamResponse) error {
	item := r.GetTreasure().GetKey()
	if m := r.GetMeta(); m != nil && len(m.GetMatchedLabels()) > 0 {
		item += "[" + strings.Join(m.GetMatchedLabels(), "+") + "]"
	}
	s.out = append(s.out, item)
	return nil
}
// the same items from GetByIndexStreamFromMany
type c08ManyStream struct{ c08Stream }

func (s *c08ManyStream) Send(r *hydrapb.GetByIndexStreamFromManyResponse) error {
	item := r.GetTreasure().GetKey()
	if m := r.GetMeta(); m != nil && len(m.GetMatchedLabels()) > 0 {
		item += "[" + strings.Join(m.GetMatchedLabels(), "+") + "]"
	}
	s.out = append(s.out, item)
	return nil
}

func (s *c08Stream) SetHeader(metadata.MD) error  { return nil }
func (s *c08Stream) SendHeader(metadata.MD) error { return nil }
func (s *c08Stream) SetTrailer(metadata.MD)       {}
func (s *c08Stream) Context() context.Context     { return s.ctx }
func (s *c08Stream) SendMsg(any) error            { return nil }
func (s *c08Stream) RecvMsg(any) error            { return nil }

// c08NewPath records the field paths of a filter text and reports whether any of them is new
func c08NewPath(seen map[string]bool, filter string) bool {
	isNew := false
	for _, tok := range strings.FieldsFunc(filter, func(r rune) bool { return r == '(' || r == ')' || r == ',' || r == '&' || r == '|' }) {
		if i := strings.Index(tok, "~"); i > 0 {
			if !seen[tok[:i]] {
				seen[tok[:i]] = true
				isNew = true
			}
		}
	}
	return isNew
}

// window bounds of domain C08 are whole seconds
func c08OptTS(s string) (*timestamppb.Timestamp, bool) {
	if s == "-" {
		return nil, true
	}
	v, err := strconv.ParseInt(s, 10, 64)
	if err != nil {
		return nil, false
	}
	return &timestamppb.Timestamp{Seconds: v}, true
}

func c08Sorted(items string) string {
	p := strings.Split(items, ",")
	sort.Strings(p)
	return strings.Join(p, ",")
}

func c08Run(in *bufio.Scanner, w *bufio.Writer) {
	rig, err := NewRig(3, 2000, 3600, 0)
	if err != nil {
		panic(err)
	}
	defer rig.Stop(true)
	rig.Settings.RegisterPattern(name.New().Sanctuary("c08").Realm("*").Swamp("*"), true, 3600, nil)
	rig.Settings.RegisterPattern(name.New().Sanctuary("c08p").Realm("*").Swamp("*"), false, 3600,
		&settings.FileSystemSettings{WriteIntervalSec: 1, MaxFileSizeByte: 8192})
	if null, err := os.OpenFile(os.DevNull, os.O_WRONLY, 0); err == nil {
		os.Stdout = null // the storage layer prints diagnostics; `w` already holds the real stdout
	}
	ctx := context.Background()
	swampName := ""
	seenPaths := map[string]bool{}
	// a first query held inside GetOrBuildBucket (op bq), until op release
	var heldRelease chan struct{}
	var heldDone chan string
	release := func() {
		if heldRelease != nil {
			close(heldRelease)
			<-heldDone
			heldRelease, heldDone = nil, nil
			verifhook.SetHandler(nil)
		}
	}
	defer release()
	tsOf := func(s string) *timestamppb.Timestamp {
		v, _ := strconv.ParseInt(s, 10, 64)
		if v == 0 {
			return nil
		}
		return &timestamppb.Timestamp{Seconds: v}
	}
	set := func(kv *hydrapb.KeyValuePair) string {
		resp, err := rig.GW.Set(ctx, &hydrapb.SetRequest{Swamps: []*hydrapb.SwampRequest{{
			IslandID: 1, SwampName: swampName, CreateIfNotExist: true, Overwrite: true,
			KeyValues: []*hydrapb.KeyValuePair{kv}}}})
		if err != nil || resp == nil {
			return "err"
		}
		return "ok"
	}
	for in.Scan() {
		line := in.Text()
		f := strings.Split(line, " ")
		reply := func() (out string) {
			defer func() {
				if r := recover(); r != nil {
					out = "panic"
				}
			}()
			switch {
			case f[0] == "release" && len(f) == 1:
				release()
				return "ok"
			case f[0] == "bq" && len(f) == 10:
				// the accelerated route only, held at the named point of GetOrBuildBucket if it gets there
				it, ok := c07IndexType(f[2])
				from, e1 := strconv.ParseInt(f[4], 10, 32)
				limit, e2 := strconv.ParseInt(f[5], 10, 32)
				ft, ok1 := c08OptTS(f[6])
				tt, ok2 := c08OptTS(f[7])
				max, e3 := strconv.ParseInt(f[8], 10, 32)
				g, okg := c08ParseGroup(f[9])
				if !ok || e1 != nil || e2 != nil || e3 != nil || !ok1 || !ok2 || !okg || heldRelease != nil ||
					(f[1] != "snap" && f[1] != "built") || (f[3] != "asc" && f[3] != "desc") {
					return "bad-op"
				}
				ord := hydrapb.OrderType_ASC
				if f[3] == "desc" {
					ord = hydrapb.OrderType_DESC
				}
				// the ordered index the scan route walks is built first, alone (C07's subject)
				{
					st := &c08Stream{ctx: ctx}
					_ = rig.GW.GetByIndexStream(&hydrapb.GetByIndexStreamRequest{IslandID: 1, SwampName: swampName, IndexType: it, OrderType: ord,
						Filters: &hydrapb.FilterGroup{Logic: hydrapb.FilterLogic_OR, SubGroups: []*hydrapb.FilterGroup{g}}}, st)
				}
				c08NewPath(seenPaths, f[9])
				point := "bucket." + map[string]string{"snap": "snapshot", "built": "built"}[f[1]]
				var armed int32 = 1
				reached := make(chan struct{}, 1)
				rel := make(chan struct{})
				verifhook.SetHandler(func(name string, args ...any) {
					if name == point && atomic.CompareAndSwapInt32(&armed, 1, 0) {
						reached <- struct{}{}
						<-rel
					}
				})
				done := make(chan string, 1)
				go func() {
					st := &c08Stream{ctx: ctx}
					err := rig.GW.GetByIndexStream(&hydrapb.GetByIndexStreamRequest{IslandID: 1, SwampName: swampName,
						IndexType: it, OrderType: ord, From: int32(from), Limit: int32(limit), FromTime: ft, ToTime: tt,
						MaxResults: int32(max), Filters: g}, st)
					if err != nil {
						done <- "err"
						return
					}
					done <- strings.Join(st.out, ",")
				}()
				select {
				case <-reached:
					heldRelease, heldDone = rel, done
					return "held"
				case <-done:
					atomic.StoreInt32(&armed, 0)
					verifhook.SetHandler(nil)
					return "done"
				}
			case f[0] == "case" && len(f) == 2:
				release()
				if strings.HasSuffix(f[1], "p") {
					swampName = name.New().Sanctuary("c08p").Realm("routes").Swamp("case" + f[1]).Get()
				} else {
					swampName = name.New().Sanctuary("c08").Realm("routes").Swamp("case" + f[1]).Get()
				}
				seenPaths = map[string]bool{}
				return line
			case f[0] == "reload" && len(f) == 1:
				// close and summon again: buckets and ordered indexes are derived state and are rebuilt
				nm := name.Load(swampName)
				if ok, err := rig.Zeus.GetHydra().IsExistSwamp(1, nm); err != nil || !ok {
					return "ok"
				}
				sw, err := rig.Zeus.GetHydra().SummonSwamp(ctx, 1, nm)
				if err != nil {
					return "err"
				}
				sw.Close()
				seenPaths = map[string]bool{}
				return "ok"
			case f[0] == "body" && len(f) == 7:
				raw, err := hex.DecodeString(f[5])
				if err != nil {
					return "bad-op"
				}
				var m map[string]any
				if err := msgpack.Unmarshal(raw, &m); err != nil || c08RenderDecoded(m) != f[6] {
					return "decode-mismatch"
				}
				kv := &hydrapb.KeyValuePair{Key: f[1], BytesVal: append([]byte{0xC7, 0x00}, raw...),
					CreatedAt: tsOf(f[2]), UpdatedAt: tsOf(f[3]), ExpiredAt: tsOf(f[4])}
				return set(kv)
			case f[0] == "plain" && len(f) == 5:
				v := int64(7)
				return set(&hydrapb.KeyValuePair{Key: f[1], Int64Val: &v, CreatedAt: tsOf(f[2]), UpdatedAt: tsOf(f[3]), ExpiredAt: tsOf(f[4])})
			case f[0] == "del" && len(f) == 2:
				resp, err := rig.GW.Delete(ctx, &hydrapb.DeleteRequest{Swamps: []*hydrapb.DeleteRequest_SwampKeys{{
					IslandID: 1, SwampName: swampName, Keys: []string{f[1]}}}})
				if err == nil && resp == nil {
					return "nilnil"
				}
				return "ok"
			case f[0] == "q" && (len(f) == 9 || (len(f) == 10 && f[9] == "m")):
				// a tenth token `m`: both routes through GetByIndexStreamFromMany (one query) — its own copy of the route logic
				many := len(f) == 10
				it, ok := c07IndexType(f[1])
				from, e1 := strconv.ParseInt(f[3], 10, 32)
				limit, e2 := strconv.ParseInt(f[4], 10, 32)
				ft, ok1 := c08OptTS(f[5])
				tt, ok2 := c08OptTS(f[6])
				max, e3 := strconv.ParseInt(f[7], 10, 32)
				if !ok || e1 != nil || e2 != nil || e3 != nil || !ok1 || !ok2 || (f[2] != "asc" && f[2] != "desc") {
					return "bad-op"
				}
				var g *hydrapb.FilterGroup
				if f[8] != "-" {
					var okg bool
					g, okg = c08ParseGroup(f[8])
					if !okg {
						return "bad-op"
					}
				}
				ord := hydrapb.OrderType_ASC
				if f[2] == "desc" {
					ord = hydrapb.OrderType_DESC
				}
				runQ := func(fg *hydrapb.FilterGroup) string {
					if many {
						st := &c08ManyStream{c08Stream{ctx: ctx}}
						err := rig.GW.GetByIndexStreamFromMany(&hydrapb.GetByIndexStreamFromManyRequest{Queries: []*hydrapb.SwampQuery{{
							IslandID: 1, SwampName: swampName, IndexType: it, OrderType: ord, From: int32(from), Limit: int32(limit),
							FromTime: ft, ToTime: tt, MaxResults: int32(max), Filters: fg}}}, st)
						if err != nil {
							return "err:" + c07ErrClass(err)
						}
						return strings.Join(st.out, ",")
					}
					st := &c08Stream{ctx: ctx}
					err := rig.GW.GetByIndexStream(&hydrapb.GetByIndexStreamRequest{IslandID: 1, SwampName: swampName,
						IndexType: it, OrderType: ord, From: int32(from), Limit: int32(limit), FromTime: ft, ToTime: tt,
						MaxResults: int32(max), Filters: fg}, st)
					if err != nil {
						return "err:" + c07ErrClass(err)
					}
					return strings.Join(st.out, ",")
				}
				// First use of a field path in this case: the bucket does not exist yet. Fire the same
				// query from several goroutines at once — every one of them must see what a lone
				// caller sees (GetOrBuildBucket's concurrent-first-caller contract).
				concDiff := ""
				if g != nil && c08NewPath(seenPaths, f[8]) && from == 0 && limit == 0 && max == 0 { // (a cut through equal sort values is anybody's choice)
					// build the ordered index first, alone: buildBeacon itself is not safe for concurrent
					// first readers (a second reader sees `initialized` before the slice is filled), which
					// is not this property's subject
					_ = runQ(&hydrapb.FilterGroup{Logic: hydrapb.FilterLogic_OR, SubGroups: []*hydrapb.FilterGroup{g}})
					const n = 12
					res := make([]string, n)
					start := make(chan struct{})
					var wg sync.WaitGroup
					for i := 0; i < n; i++ {
						wg.Add(1)
						go func(i int) {
							defer wg.Done()
							<-start
							res[i] = c08Sorted(runQ(g))
						}(i)
					}
					close(start)
					wg.Wait()
					seq := c08Sorted(runQ(g))
					for _, r := range res {
						if r != seq {
							concDiff = "conc-diff concurrent=[" + r + "] alone=[" + seq + "]"
							break
						}
					}
				}
				if concDiff != "" {
					return concDiff
				}
				b := runQ(g)
				// the same filter as the only sub-group of an OR group: planOr bypasses on sub-groups
				var wrapped *hydrapb.FilterGroup
				if g != nil {
					wrapped = &hydrapb.FilterGroup{Logic: hydrapb.FilterLogic_OR, SubGroups: []*hydrapb.FilterGroup{g}}
				}
				s := runQ(wrapped)
				return "b=" + b + " s=" + s
			}
			return "bad-op"
		}()
		fmt.Fprintln(w, reply)
	}
}
