package main

// Domain C07: ordered index reads (beacons) on the real swamp through the real gateway.
//
// ops:   case N                          fresh swamp
//        set KEY TYPE VAL C U E          Gateway.Set of one key; TYPE ∈ c07Types; VAL is the rank of the
//                                        value inside its type (see c07Value); C/U/E = CreatedAt /
//                                        UpdatedAt / ExpiredAt in nanoseconds, 0 = field absent
//        del KEY                         Gateway.Delete
//        patch KEY E                     Gateway.PatchTreasures of one key (no CreateIfNotExist): one INC on the
//                                        body, PatchMeta per E: nanoseconds = SetExpiredAt, clear = ClearExpiredAt,
//                                        - = no meta; reply patched | notfound | mismatch
//        patchexp E                      Gateway.PatchExpiredTreasures, HowMany 0, the same op and meta; reply: the
//                                        claimed keys in claim order
//        shiftmatch IDX ORD N FT TT      Gateway.ShiftMatchingTreasures without filters (IDX a key/time index)
//        q IDX ORD FROM LIMIT FT TT VIA  Gateway.GetByIndex (VIA=u) or GetByIndexStream without
//                                        filters (VIA=s) or GetByIndexStreamFromMany with one query (VIA=m); IDX ∈ key|created|updated|expire|<value type>;
//                                        ORD ∈ asc|desc; FT/TT nanoseconds or '-'
// reply: ok | err                        for set / del
//        r k1,k2,…  | err | nilnil       for q: the keys exactly in the order the gateway returned them
//
// Everything the Spec oracle needs besides the reply is on the op lines themselves.

import (
	"bufio"
	"context"
	"fmt"
	"math/big"
	"math/rand"
	"os"
	"strconv"
	"strings"
	"sync/atomic"
	"time"

	"github.com/hydraide/hydraide/app/core/settings"
	"github.com/hydraide/hydraide/app/name"
	"github.com/hydraide/hydraide/app/verifhook"
	hydrapb "github.com/hydraide/hydraide/sdk/go/hydraidego/v3/hydraidepbgo"
	"google.golang.org/grpc/metadata"
	"google.golang.org/protobuf/types/known/timestamppb"
)

func init() { Register("C07", Domain{Gen: c07Gen, Run: c07Run}) }

var c07Types = []string{"i8", "i16", "i32", "i64", "u8", "u16", "u32", "u64", "f32", "f64", "str", "void", "bool", "bytes"}
var c07ValueIdx = []string{"i8", "i16", "i32", "i64", "u8", "u16", "u32", "u64", "f32", "f64", "str"}
var c07TimeIdx = []string{"created", "updated", "expire"}

func c07IndexType(s string) (hydrapb.IndexType_Type, bool) {
	m := map[string]hydrapb.IndexType_Type{
		"key": hydrapb.IndexType_KEY, "created": hydrapb.IndexType_CREATION_TIME, "updated": hydrapb.IndexType_UPDATE_TIME,
		"expire": hydrapb.IndexType_EXPIRATION_TIME,
		"i8":     hydrapb.IndexType_VALUE_INT8, "i16": hydrapb.IndexType_VALUE_INT16, "i32": hydrapb.IndexType_VALUE_INT32,
		"i64": hydrapb.IndexType_VALUE_INT64, "u8": hydrapb.IndexType_VALUE_UINT8, "u16": hydrapb.IndexType_VALUE_UINT16,
		"u32": hydrapb.IndexType_VALUE_UINT32, "u64": hydrapb.IndexType_VALUE_UINT64, "f32": hydrapb.IndexType_VALUE_FLOAT32,
		"f64": hydrapb.IndexType_VALUE_FLOAT64, "str": hydrapb.IndexType_VALUE_STRING,
	}
	v, ok := m[s]
	return v, ok
}

// c07Value fills the typed field of a KeyValuePair from a rank. Within one type the order of
// the produced values is the order of the ranks (floats: rank/2, strings: fixed width).
func c07Value(kv *hydrapb.KeyValuePair, typ string, v int64) bool {
	switch typ {
	// (+1 everywhere: a zero-like typed value would come back as void after a reload, which is
	// C05's subject, not this one's)
	case "i8":
		x := int32(int8(v*3 + 1))
		kv.Int8Val = &x
	case "i16":
		x := int32(int16(v*100 + 1))
		kv.Int16Val = &x
	case "i32":
		x := int32(v*100000 + 1)
		kv.Int32Val = &x
	case "i64":
		x := v * c07I64Step // (IncrementInt64 adds multiples of the step; the generator keeps int64 ranks off 0)
		kv.Int64Val = &x
	case "u8":
		x := uint32(uint8(v*3 + 1))
		kv.Uint8Val = &x
	case "u16":
		x := uint32(uint16(v*1000 + 1))
		kv.Uint16Val = &x
	case "u32":
		x := uint32(v*100000000 + 1)
		kv.Uint32Val = &x
	case "u64":
		x := uint64(v)*1000000000000 + 1
		kv.Uint64Val = &x
	case "f32":
		x := float32(v)/2 + 0.25
		kv.Float32Val = &x
	case "f64":
		x := float64(v)/2 + 0.25
		kv.Float64Val = &x
	case "str":
		x := fmt.Sprintf("s%03d", v+500)
		kv.StringVal = &x
	case "bool":
		x := hydrapb.Boolean_FALSE
		if v > 0 {
			x = hydrapb.Boolean_TRUE
		}
		kv.BoolVal = &x
	case "void":
		x := true
		kv.VoidVal = &x
	case "bytes":
		// a msgpack body behind the C7 00 magic: {"n": int64 v} — what the patch RPCs work on
		kv.BytesVal = append([]byte{0xC7, 0x00, 0x81, 0xa1, 'n'}, c07MpInt64(v)...)
	default:
		return false
	}
	return true
}

const c07I64Step = 10000000000

// msgpack int64 (INC wants the delta and the target in the same numeric class)
func c07MpInt64(v int64) []byte {
	out := []byte{0xd3, 0, 0, 0, 0, 0, 0, 0, 0}
	for i := 0; i < 8; i++ {
		out[8-i] = byte(uint64(v) >> (8 * i))
	}
	return out
}

func c07Unsigned(t string) bool { return strings.HasPrefix(t, "u") }

func c07Rank(rng *rand.Rand, typ string) int64 {
	if typ == "i64" {
		return 96 + int64(rng.Intn(9))
	}
	v := int64(rng.Intn(9)) - 4
	if c07Unsigned(typ) || typ == "bool" {
		v = int64(rng.Intn(7))
	}
	return v
}

// timestamps are nanoseconds since the epoch: whole seconds 1..9 plus a nanosecond part that is
// usually 0 (so that equal timestamps stay frequent) and sometimes 1 or 999999999
var c07Nanos = []int64{0, 0, 0, 0, 1, 999999999}

func c07TS(rng *rand.Rand, pAbsent int) int64 {
	if rng.Intn(100) < pAbsent {
		return 0
	}
	return int64(1+rng.Intn(9))*1000000000 + c07Nanos[rng.Intn(len(c07Nanos))]
}

func c07GenQuery(rng *rand.Rand, w *bufio.Writer, idx string) {
	ord := []string{"asc", "desc"}[rng.Intn(2)]
	from := 0
	if rng.Intn(3) == 0 {
		from = rng.Intn(6)
	} else if rng.Intn(20) == 0 {
		from = -1 - rng.Intn(3) // a negative offset reads from the start
	}
	limit := 0
	if rng.Intn(2) == 0 {
		limit = 1 + rng.Intn(6)
	} else if rng.Intn(25) == 0 {
		limit = -1 - rng.Intn(3) // a negative limit: nothing
	}
	ft, tt := "-", "-"
	if rng.Intn(5) < 3 {
		if rng.Intn(4) != 0 {
			ft = strconv.FormatInt(int64(rng.Intn(11))*1000000000+c07Nanos[rng.Intn(len(c07Nanos))], 10)
		}
		if rng.Intn(4) != 0 {
			tt = strconv.FormatInt(int64(1+rng.Intn(11))*1000000000+c07Nanos[rng.Intn(len(c07Nanos))], 10)
		}
	}
	if rng.Intn(8) == 0 {
		// bounds that int64 nanoseconds cannot hold (year 0001, just below MinInt64; just above MaxInt64,
		// year 9999), and one far bound that they can (year 2200)
		if rng.Intn(2) == 0 {
			ft = []string{"-62135596800000000000", "-9223372036854775809", "253402300799000000000"}[rng.Intn(3)]
		}
		if rng.Intn(3) != 0 {
			tt = []string{"253402300799000000000", "9223372036854775808", "7258118400000000000", "-62135596800000000000"}[rng.Intn(4)]
		}
	}
	via := []string{"u", "s", "m"}[rng.Intn(3)]
	fmt.Fprintf(w, "q %s %s %d %d %s %s %s\n", idx, ord, from, limit, ft, tt, via)
}

func c07Gen(rng *rand.Rand, tier string, w *bufio.Writer) {
	cases, maxLen := 260, 34
	if tier == "thorough" {
		cases, maxLen = 5000, 70
	}
	// corpus: the hand-confirmed witnesses (also proved as closed terms in Hv/Props/C07.lean)
	// 0: an update that moves UpdatedAt is not re-sorted
	fmt.Fprintln(w, "case 0\nset k1 i64 1 1 1 0\nset k2 i64 2 2 2 0\nq updated asc 0 0 - - u\nset k1 i64 1 0 5 0\nq updated asc 0 0 - - u\nq updated desc 0 0 - - s")
	// 1: an update that moves CreatedAt; and a record that gains CreatedAt after the build
	fmt.Fprintln(w, "case 1\nset k1 i64 1 1 0 0\nset k2 i64 2 2 0 0\nset k3 i64 3 0 0 0\nq created asc 0 0 - - u\nset k1 i64 1 5 0 0\nq created asc 0 0 - - u\nset k3 i64 3 3 0 0\nq created asc 0 0 - - u")
	// 2: value update inside a built int64 value index
	fmt.Fprintln(w, "case 2\nset k1 i64 1 0 0 0\nset k2 i64 2 0 0 0\nq i64 asc 0 0 - - u\nset k1 i64 3 0 0 0\nq i64 asc 0 0 - - u")
	// 3: insert into an already built float64 / string value index (re-sorted as int64 → not at all)
	fmt.Fprintln(w, "case 3\nset k1 f64 1 0 0 0\nset k2 f64 3 0 0 0\nq f64 asc 0 0 - - u\nset k3 f64 2 0 0 0\nq f64 asc 0 0 - - u\nq f64 desc 0 0 - - u")
	fmt.Fprintln(w, "case 4\nset k1 str 1 0 0 0\nset k2 str 3 0 0 0\nq str asc 0 0 - - s\nset k0 str 2 0 0 0\nq str asc 0 0 - - s")
	// 5: mixed-type swamp in a value index
	fmt.Fprintln(w, "case 5\nset k1 str 1 0 0 0\nset k2 f64 3 0 0 0\nq str asc 0 0 - - u")
	fmt.Fprintln(w, "case 6\nset k1 i64 1 0 0 0\nset k2 str 3 0 0 0\nq i64 asc 0 0 - - u\nq i64 asc 0 0 - - u\nq i64 desc 0 0 - - u")
	// 7: value index built for one type, asked for another
	fmt.Fprintln(w, "case 7\nset k1 i64 1 0 0 0\nset k2 i64 2 0 0 0\nq i64 asc 0 0 - - u\nset k3 str 0 0 0 0\nq str asc 0 0 - - u")
	// 8: windows, paging, ties on a sound index
	fmt.Fprintln(w, "case 8\nset k1 i64 1 3 0 0\nset k2 i64 2 3 0 0\nset k3 i64 3 5 0 0\nset k4 i64 3 7 0 0\nq created asc 0 0 3 7 u\nq created desc 0 0 3 7 m\nq created asc 0 0 3 7 m\nq created desc 0 0 3 7 u\nq created asc 1 2 - 8 u\nq created desc 1 1 4 - s\nq created asc 0 0 7 3 u\nq key desc 1 2 - - u\nq expire asc 0 0 - - u")

	// 9: sub-second parts decide: records at 3s, 3s+1ns, 3s+999999999ns, 4s; windows on those instants
	fmt.Fprintln(w, "case 9\nset k1 i64 1 3000000000 0 0\nset k2 i64 2 3000000001 0 0\nset k3 i64 3 3999999999 0 0\nset k4 i64 4 4000000000 0 0\nset k5 i64 5 3000000000 0 0\nq created asc 0 0 3000000001 4000000000 u\nq created desc 0 0 3000000000 3999999999 u\nq created asc 0 0 3000000000 3000000001 s\nq created desc 0 0 3999999999 - u\nq created asc 0 0 - 3000000001 u")
	// 10: Increment moves an int64 value and the expiry inside built indexes; a reload drops them
	fmt.Fprintln(w, "case 10p\nset k1 i64 1 1000000000 0 0\nset k2 i64 2 2000000000 0 3000000000\nq i64 asc 0 0 - - u\nq expire asc 0 0 - - u\ninc k1 3 5000000000\ninc k3 1 0\nq i64 asc 0 0 - - u\nq expire desc 0 0 - - u\nreload\nq i64 desc 0 0 - - u\nq created asc 0 0 - - u\nset k1 i64 0 9000000000 0 0\nq created asc 0 0 - - u\nq expire asc 0 0 - - u\nshiftexp\nq key asc 0 0 - - u\nshiftexp")
	// 11: two first readers of an index that is not built yet (forced schedule through the hook)
	fmt.Fprintln(w, "case 11\nset k1 i64 1 1000000000 0 0\nset k2 i64 2 2000000000 0 0\nrace key asc\nrace created desc\nrace created asc\nrace updated asc")
	// 12: a patch clears / moves the expiry of a record filed in the built expiration index
	fmt.Fprintln(w, "case 12\nset k1 bytes 0 0 0 3000000000\nset k2 bytes 0 0 0 5000000000\nset k3 bytes 0 0 0 0\nq expire asc 0 0 - - u\npatch k1 clear\nq expire asc 0 0 - - u\nq expire desc 0 0 - - u\npatch k3 4000000000\npatch k2 7000000000\nq expire asc 0 0 - - u\nq expire desc 0 0 - - s\npatch k9 clear\nset k4 i64 97 0 0 1000000000\npatch k4 clear\nq expire asc 0 0 - - u")
	// 13: expired-patch after a reload (the treasures' changed-flags are clear), ops only, then again;
	// then with a meta that moves / clears the expiry
	fmt.Fprintln(w, "case 13p\nset e1 bytes 0 0 0 2000000000\nset e2 bytes 0 0 0 3000000000\nset e3 i64 97 0 0 1000000000\nset f1 bytes 0 0 0 0\nreload\npatchexp -\nq expire asc 0 0 - - u\nq expire desc 0 0 - - u\npatchexp -\nreload\npatchexp 6000000000\nq expire asc 0 0 - - u\nreload\npatchexp clear\nq expire asc 0 0 - - u\nq expire desc 0 0 - - u\nshiftexp\nq key asc 0 0 - - u")
	// 14: ShiftMatching: first N of the key index, a window of a time index, everything
	fmt.Fprintln(w, "case 14\nset k1 i64 97 1000000000 5000000000 0\nset k2 i64 98 2000000000 4000000000 3000000000\nset k3 str 1 3000000000 3000000000 0\nset k4 bytes 2 3000000000 0 1000000000\nset k5 i64 99 0 2000000000 0\nq created asc 0 0 - - u\nq key desc 0 0 - - u\nshiftmatch key desc 2 - -\nq key asc 0 0 - - u\nq created desc 0 0 - - u\nshiftmatch created asc 0 2000000000 3000000001\nq created asc 0 0 - - u\nq updated asc 0 0 - - u\nshiftmatch updated desc 0 - -\nq key asc 0 0 - - u")
	// 15: window bounds outside the years 1677…2262 (valid timestamps, not representable as int64 nanoseconds)
	fmt.Fprintln(w, "case 15\nset k1 i64 97 3000000000 3000000000 3000000000\nset k2 i64 98 5000000000 5000000000 0\nset k3 i64 99 7000000000 0 7000000000\nq created asc 0 0 - 253402300799000000000 u\nq created desc 0 0 -62135596800000000000 - s\nq created asc 0 0 4000000000 9223372036854775808 u\nq updated desc 0 0 -9223372036854775809 5000000000 u\nq created asc 0 0 253402300799000000000 - u\nq expire asc 0 0 - -62135596800000000000 u\nq expire desc 0 2 - 7258118400000000000 s\nq key asc 0 0 - 253402300799000000000 u\nshiftmatch created asc 0 4000000000 253402300799000000000\nq created asc 0 0 - - u")
	// 16: a shift loses the claim on a record between its selection pass and its deletes (forced schedule on
	// hook shift.selected): the record must be back in the index it was taken out of
	fmt.Fprintln(w, "case 16\nset k0 i64 97 0 0 0\nset k1 bytes 1 1000000000 0 0\nset k2 bytes 2 2000000000 0 0\nset k3 bytes 3 0 0 0\nq key asc 0 0 - - u\nsheld key asc 0 1\nset k1 bytes 0 0 0 0\nset k4 bytes 5 0 0 0\nsrelease\nq key asc 0 0 - - u\nq key desc 0 0 - - u\nq created asc 0 0 - - u\nsheld key desc 1 0\nset k1 bytes -1 0 0 0\nsrelease\nq key desc 0 0 - - m")
	// 17: more records than any plausible cap on a page: a full read returns all of them
	fmt.Fprintln(w, "case 17")
	for i := 0; i < 1100; i++ {
		fmt.Fprintf(w, "set n%04d i64 %d %d 0 0\n", i, 96+i%9, int64(1+i%7)*1000000000)
	}
	fmt.Fprintln(w, "q key asc 0 0 - - u\nq key desc 1050 0 - - s\nq created asc 0 0 - - m\nq key asc 0 1090 - - u")
	for c := 18; c < cases; c++ {
		persistent := c%3 == 0
		if persistent {
			fmt.Fprintf(w, "case %dp\n", c)
		} else {
			fmt.Fprintf(w, "case %d\n", c)
		}
		theme := rng.Intn(12)
		// type palette of the case
		var types []string
		switch {
		case theme < 5: // one value type only
			types = []string{c07ValueIdx[rng.Intn(len(c07ValueIdx))]}
		case theme < 7: // int64 only: the value index that is maintained with its own comparator
			types = []string{"i64"}
		case theme < 10: // mixed
			types = []string{c07Types[rng.Intn(len(c07Types))], c07Types[rng.Intn(len(c07Types))], "i64"}
		default: // msgpack bodies (what the patch RPCs work on), now and then next to int64
			types = []string{"bytes", "bytes", []string{"bytes", "i64"}[rng.Intn(2)]}
		}
		if persistent {
			// bool false / void are zero-like on disk (C05): keep them out of cases that reload
			for i, t := range types {
				if t == "bool" || t == "void" {
					types[i] = "i64"
				}
			}
		}
		nKeys := 3 + rng.Intn(8)
		pAbsent := []int{0, 15, 50}[rng.Intn(3)]
		// indexes this case concentrates on (so that they are built early and maintained)
		fv := types[0]
		if fv == "void" || fv == "bool" || fv == "bytes" {
			fv = "i64"
		}
		bodies := types[0] == "bytes"
		focus := []string{"key", c07TimeIdx[rng.Intn(3)], c07TimeIdx[rng.Intn(3)], fv}
		if rng.Intn(3) == 0 {
			focus = append(focus, c07ValueIdx[rng.Intn(len(c07ValueIdx))])
		}
		n := 6 + rng.Intn(maxLen)
		pUpdateMeta := rng.Intn(3) // 0: updates carry no time fields; else they do
		live := map[string]bool{}
		incSum := map[string]int{} // keys created by Increment → sum of their increments
		// On a persistent swamp a key is not written again after it was deleted: delete → re-create →
		// delete inside one write interval loses the final delete (the key is back after a reload) — a
		// durability defect of the write buffer, reported to C05/C16, not this property's subject.
		retired := map[string]bool{}
		pick := func() (string, bool) {
			for try := 0; try < 8; try++ {
				k := fmt.Sprintf("k%02d", rng.Intn(nKeys))
				if !retired[k] {
					return k, true
				}
			}
			return "", false
		}
		for i := 0; i < n; i++ {
			r := rng.Intn(100)
			switch {
			case r < 45 || len(live) == 0:
				k, okk := pick()
				if !okk {
					continue
				}
				typ := types[rng.Intn(len(types))]
				cT, uT, eT := c07TS(rng, pAbsent), c07TS(rng, pAbsent), c07TS(rng, 60)
				if live[k] && pUpdateMeta == 0 {
					cT, uT, eT = 0, 0, 0
				}
				live[k] = true
				delete(incSum, k)
				fmt.Fprintf(w, "set %s %s %d %d %d %d\n", k, typ, c07Rank(rng, typ), cT, uT, eT)
			case r < 55:
				k := fmt.Sprintf("k%02d", rng.Intn(nKeys))
				delete(live, k)
				delete(incSum, k)
				if persistent {
					retired[k] = true
				}
				fmt.Fprintf(w, "del %s\n", k)
			case r < 60:
				// IncrementInt64 (creates the key, increments int64 content in place, fails on other types)
				k, okk := pick()
				if !okk {
					continue
				}
				d := rng.Intn(5) - 2 // 0 now and then: the gateway refuses it
				if _, byInc := incSum[k]; byInc || !live[k] {
					// a key made by Increment holds a multiple of the step: keep it off 0 (zero-like on disk, C05)
					if incSum[k]+d == 0 && d != 0 {
						d++
					}
					if d != 0 {
						incSum[k] += d
						live[k] = true
					}
				}
				fmt.Fprintf(w, "inc %s %d %d\n", k, d, c07TS(rng, 60))
			case r < 62 && persistent:
				fmt.Fprintln(w, "reload")
			case r >= 78 && r < 82 && bodies && len(live) > 0:
				// a key-ordered shift for n >= V, held after its selection pass; one or two saves meanwhile
				fmt.Fprintf(w, "sheld key %s %d %d\n", []string{"asc", "desc"}[rng.Intn(2)], rng.Intn(3), rng.Intn(5)-2)
				for j := 0; j < 1+rng.Intn(2); j++ {
					if k, okk := pick(); okk {
						live[k] = true
						delete(incSum, k)
						fmt.Fprintf(w, "set %s bytes %d 0 0 0\n", k, c07Rank(rng, "bytes"))
					}
				}
				fmt.Fprintln(w, "srelease")
				for k := range live {
					if persistent {
						retired[k] = true
					}
					delete(live, k)
					delete(incSum, k)
				}
			case r >= 66 && r < 78 && (bodies || c%5 == 0):
				// the claim paths: patch one key / patch every expired record / shift by index
				e := []string{"-", "-", "clear", strconv.FormatInt(c07TS(rng, 0), 10)}[rng.Intn(4)]
				switch rng.Intn(7) {
				case 5:
					// PatchTreasures with CreateIfNotExist
					if k, okk := pick(); okk {
						if !live[k] {
							live[k] = true
						}
						delete(incSum, k)
						fmt.Fprintf(w, "patchc %s %s\n", k, e)
					}
				case 6:
					// ShiftByKeys: two or three names, existing or not
					var ks []string
					for j := 0; j < 2+rng.Intn(2); j++ {
						k := fmt.Sprintf("k%02d", rng.Intn(nKeys))
						ks = append(ks, k)
						delete(live, k)
						delete(incSum, k)
						if persistent {
							retired[k] = true
						}
					}
					fmt.Fprintf(w, "shiftkeys %s\n", strings.Join(ks, ","))
				case 0, 1:
					fmt.Fprintf(w, "patch k%02d %s\n", rng.Intn(nKeys), e)
				case 2, 3:
					fmt.Fprintf(w, "patchexp %s\n", e)
				default:
					idx := []string{"key", "created", "updated", "expire"}[rng.Intn(4)]
					n, ft, tt := 0, "-", "-"
					if idx == "key" {
						n = rng.Intn(3) // (a count that cuts a run of equal timestamps would leave the choice to the sort)
					} else if rng.Intn(3) != 0 {
						ft = strconv.FormatInt(int64(rng.Intn(6))*1000000000+c07Nanos[rng.Intn(len(c07Nanos))], 10)
						tt = strconv.FormatInt(int64(4+rng.Intn(7))*1000000000+c07Nanos[rng.Intn(len(c07Nanos))], 10)
					}
					fmt.Fprintf(w, "shiftmatch %s %s %d %s %s\n", idx, []string{"asc", "desc"}[rng.Intn(2)], n, ft, tt)
					for k := range live {
						if persistent {
							retired[k] = true
						}
						delete(live, k)
						delete(incSum, k)
					}
				}
			case r < 66 && r >= 64 && c%4 == 0:
				idx := []string{"key", "created", "updated", "expire", fv}[rng.Intn(5)]
				fmt.Fprintf(w, "race %s %s\n", idx, []string{"asc", "desc"}[rng.Intn(2)])
			case r < 64:
				// ShiftExpiredTreasures: every timestamp of the run is in the past, so this returns the
				// whole expiration index in order and deletes those records
				fmt.Fprintln(w, "shiftexp")
				for k := range live {
					if persistent {
						retired[k] = true
					}
					delete(live, k) // (the generator does not track which keys carry an expiry: be conservative)
					delete(incSum, k)
				}
			default:
				idx := focus[rng.Intn(len(focus))]
				if rng.Intn(12) == 0 {
					all := append(append([]string{"key"}, c07TimeIdx...), c07ValueIdx...)
					idx = all[rng.Intn(len(all))]
				}
				c07GenQuery(rng, w, idx)
			}
		}
		// finish with one full read of every focused index in both orders
		for _, idx := range focus {
			fmt.Fprintf(w, "q %s asc 0 0 - - u\nq %s desc 0 0 - - u\n", idx, idx)
		}
	}
}

// ---- execution ----------------------------------------------------------------------------

type c07Stream struct {
	ctx  context.Context
	keys []string
}

func (s *c07Stream) Send(r *hydrapb.GetByIndexStreamResponse) error {
	s.keys = append(s.keys, r.GetTreasure().GetKey())
	return nil
}
type c07ManyStream struct{ c07Stream }

func (s *c07ManyStream) Send(r *hydrapb.GetByIndexStreamFromManyResponse) error {
	s.keys = append(s.keys, r.GetTreasure().GetKey())
	return nil
}

func (s *c07Stream) SetHeader(metadata.MD) error  { return nil }
func (s *c07Stream) SendHeader(metadata.MD) error { return nil }
func (s *c07Stream) SetTrailer(metadata.MD)       {}
func (s *c07Stream) Context() context.Context     { return s.ctx }
func (s *c07Stream) SendMsg(any) error            { return nil }
func (s *c07Stream) RecvMsg(any) error            { return nil }

func c07TSpb(v int64) *timestamppb.Timestamp {
	if v == 0 {
		return nil
	}
	return &timestamppb.Timestamp{Seconds: v / 1000000000, Nanos: int32(v % 1000000000)}
}

func c07OptTS(s string) (*timestamppb.Timestamp, bool) {
	if s == "-" {
		return nil, true
	}
	// nanoseconds since the epoch, of any size (years 0001…9999 are valid protobuf timestamps, int64
	// nanoseconds only reach 1677…2262); an explicit zero bound is a real bound, not "absent"
	v, ok := new(big.Int).SetString(s, 10)
	if !ok {
		return nil, false
	}
	sec, ns := new(big.Int).DivMod(v, big.NewInt(1000000000), new(big.Int)) // Euclidean: 0 <= ns < 1e9
	if !sec.IsInt64() {
		return nil, false
	}
	return &timestamppb.Timestamp{Seconds: sec.Int64(), Nanos: int32(ns.Int64())}, true
}

func c07Run(in *bufio.Scanner, w *bufio.Writer) {
	// the persistent storage path prints diagnostics with fmt.Println; `w` already holds the real
	// stdout, so everything else that writes to os.Stdout goes to the bin
	if null, err := os.OpenFile(os.DevNull, os.O_WRONLY, 0); err == nil {
		os.Stdout = null
	}
	rig, err := NewRig(3, 2000, 3600, 0)
	if err != nil {
		panic(err)
	}
	defer rig.Stop(true)
	rig.Settings.RegisterPattern(name.New().Sanctuary("c07").Realm("*").Swamp("*"), true, 3600, nil)
	rig.Settings.RegisterPattern(name.New().Sanctuary("c07p").Realm("*").Swamp("*"), false, 3600,
		&settings.FileSystemSettings{WriteIntervalSec: 1, MaxFileSizeByte: 8192})
	ctx := context.Background()
	swampName := ""
	// a shift held between its selection pass and its deletes (op sheld), until op srelease
	var heldRelease chan struct{}
	var heldDone chan string
	release := func() string {
		if heldRelease == nil {
			return "ok"
		}
		close(heldRelease)
		out := <-heldDone
		heldRelease, heldDone = nil, nil
		verifhook.SetHandler(nil)
		return out
	}
	defer release()
	for in.Scan() {
		line := in.Text()
		f := strings.Split(line, " ")
		reply := func() (out string) {
			defer func() {
				if r := recover(); r != nil {
					out = "panic"
				}
			}()
			switch {
			case f[0] == "srelease" && len(f) == 1:
				return release()
			case f[0] == "sheld" && len(f) == 5:
				// ShiftMatchingTreasures(IDX, ORD, HowMany N, filter: body field n >= V), held at hook shift.selected
				it, ok := c07IndexType(f[1])
				n, e1 := strconv.ParseInt(f[3], 10, 32)
				v, e2 := strconv.ParseInt(f[4], 10, 64)
				if !ok || e1 != nil || e2 != nil || heldRelease != nil || (f[2] != "asc" && f[2] != "desc") {
					return "bad-op"
				}
				ord := hydrapb.OrderType_ASC
				if f[2] == "desc" {
					ord = hydrapb.OrderType_DESC
				}
				path := "n"
				flt := &hydrapb.FilterGroup{Logic: hydrapb.FilterLogic_AND, Filters: []*hydrapb.TreasureFilter{{
					Operator: hydrapb.Relational_GREATER_THAN_OR_EQUAL, BytesFieldPath: &path,
					CompareValue: &hydrapb.TreasureFilter_Int64Val{Int64Val: v}}}}
				var armed int32 = 1
				reached := make(chan struct{}, 1)
				rel := make(chan struct{})
				verifhook.SetHandler(func(name string, args ...any) {
					if name == "shift.selected" && atomic.CompareAndSwapInt32(&armed, 1, 0) {
						reached <- struct{}{}
						<-rel
					}
				})
				done := make(chan string, 1)
				go func() {
					resp, err := rig.GW.ShiftMatchingTreasures(ctx, &hydrapb.ShiftMatchingTreasuresRequest{IslandID: 1, SwampName: swampName,
						IndexType: it, OrderType: ord, HowMany: int32(n), Filters: flt})
					if err != nil || resp == nil {
						done <- "err"
						return
					}
					var keys []string
					for _, t := range resp.GetTreasures() {
						keys = append(keys, t.GetKey())
					}
					done <- "r " + strings.Join(keys, ",")
				}()
				select {
				case <-reached:
					heldRelease, heldDone = rel, done
					return "held"
				case <-done:
					atomic.StoreInt32(&armed, 0)
					verifhook.SetHandler(nil)
					return "done"
				}
			case f[0] == "case" && len(f) == 2:
				release()
				if strings.HasSuffix(f[1], "p") { // a swamp on disk, so that it can be closed and loaded again
					swampName = name.New().Sanctuary("c07p").Realm("idx").Swamp("case" + f[1]).Get()
				} else {
					swampName = name.New().Sanctuary("c07").Realm("idx").Swamp("case" + f[1]).Get()
				}
				return line
			case f[0] == "inc" && len(f) == 4:
				dl, e1 := strconv.ParseInt(f[2], 10, 64)
				eT, e2 := strconv.ParseInt(f[3], 10, 64)
				if e1 != nil || e2 != nil {
					return "bad-op"
				}
				var meta *hydrapb.IncrementRequestMetadata
				if eT != 0 {
					meta = &hydrapb.IncrementRequestMetadata{ExpiredAt: c07TSpb(eT)}
				}
				resp, err := rig.GW.IncrementInt64(ctx, &hydrapb.IncrementInt64Request{IslandID: 1, SwampName: swampName, Key: f[1],
					IncrementBy: dl * c07I64Step, SetIfNotExist: meta, SetIfExist: meta})
				if err == nil && resp == nil {
					return "nilnil"
				}
				return "ok" // a content type other than int64 is an error and changes nothing
			case f[0] == "race" && len(f) == 3:
				// two first readers of index IDX (full read, order ORD): the first is held at the hook in
				// buildBeacon (flag raised, slice not filled); the second runs meanwhile
				it, ok := c07IndexType(f[1])
				if !ok || (f[2] != "asc" && f[2] != "desc") {
					return "bad-op"
				}
				ord := hydrapb.OrderType_ASC
				if f[2] == "desc" {
					ord = hydrapb.OrderType_DESC
				}
				read := func() string {
					resp, err := rig.GW.GetByIndex(ctx, &hydrapb.GetByIndexRequest{IslandID: 1, SwampName: swampName, IndexType: it, OrderType: ord})
					if err != nil {
						return "err " + c07ErrClass(err)
					}
					if resp == nil {
						return "nilnil"
					}
					var keys []string
					for _, t := range resp.GetTreasures() {
						keys = append(keys, t.GetKey())
					}
					return strings.Join(keys, ",")
				}
				var armed int32 = 1
				reached := make(chan struct{}, 1)
				release := make(chan struct{})
				verifhook.SetHandler(func(name string, args ...any) {
					if name == "beacon.build" && atomic.CompareAndSwapInt32(&armed, 1, 0) {
						reached <- struct{}{}
						<-release
					}
				})
				first := make(chan string, 1)
				go func() { first <- read() }()
				r1, r2 := "", ""
				select {
				case <-reached:
					second := make(chan string, 1)
					go func() { second <- read() }()
					got := false
					select {
					case r2 = <-second: // answered while the first reader is still inside the build
						got = true
					case <-time.After(HxScale(60 * time.Millisecond)): // it waits for the build: let the first go on
					}
					close(release)
					r1 = <-first
					if !got {
						r2 = <-second
					}
				case r1 = <-first: // the index was built already: no window
					atomic.StoreInt32(&armed, 0)
					close(release)
					r2 = read()
				}
				verifhook.SetHandler(nil)
				return "r2=" + r2 + " r1=" + r1
			case f[0] == "shiftexp" && len(f) == 1:
				resp, err := rig.GW.ShiftExpiredTreasures(ctx, &hydrapb.ShiftExpiredTreasuresRequest{IslandID: 1, SwampName: swampName, HowMany: 0})
				if err != nil {
					return "err " + c07ErrClass(err)
				}
				if resp == nil {
					return "nilnil"
				}
				var keys []string
				for _, t := range resp.GetTreasures() {
					keys = append(keys, t.GetKey())
				}
				return "r " + strings.Join(keys, ",")
			case f[0] == "shiftkeys" && len(f) == 2:
				if ok, err := rig.Zeus.GetHydra().IsExistSwamp(1, name.Load(swampName)); err != nil || !ok {
					return "r "
				}
				resp, err := rig.GW.ShiftByKeys(ctx, &hydrapb.ShiftByKeysRequest{IslandID: 1, SwampName: swampName, Keys: strings.Split(f[1], ",")})
				if err != nil || resp == nil {
					return "r "
				}
				var keys []string
				for _, t := range resp.GetTreasures() {
					keys = append(keys, t.GetKey())
				}
				return "r " + strings.Join(keys, ",")
			case (f[0] == "patch" && len(f) == 3) || (f[0] == "patchc" && len(f) == 3) || (f[0] == "patchexp" && len(f) == 2):
				var meta *hydrapb.PatchMeta
				switch e := f[len(f)-1]; e {
				case "-":
				case "clear":
					meta = &hydrapb.PatchMeta{ClearExpiredAt: true}
				default:
					v, err := strconv.ParseInt(e, 10, 64)
					if err != nil {
						return "bad-op"
					}
					if v != 0 {
						meta = &hydrapb.PatchMeta{SetExpiredAt: c07TSpb(v)}
					}
				}
				ops := []*hydrapb.PatchOp{{Op: hydrapb.PatchOp_INC, Path: "n", Value: c07MpInt64(1)}}
				if ok, err := rig.Zeus.GetHydra().IsExistSwamp(1, name.Load(swampName)); (err != nil || !ok) && f[0] != "patchc" {
					// (PatchTreasures would summon an empty swamp into being; the case has nothing alive)
					if f[0] == "patch" {
						return "notfound"
					}
					return "r "
				}
				if f[0] == "patch" || f[0] == "patchc" {
					resp, err := rig.GW.PatchTreasures(ctx, &hydrapb.PatchTreasuresRequest{IslandID: 1, SwampName: swampName, CreateIfNotExist: f[0] == "patchc",
						Patches: []*hydrapb.TreasurePatch{{Key: f[1], Ops: ops, Meta: meta}}})
					if err != nil {
						return "err " + c07ErrClass(err)
					}
					if resp == nil || len(resp.GetResults()) != 1 {
						return "nilnil"
					}
					switch st := resp.GetResults()[0].GetStatus(); st {
					case hydrapb.PatchResult_PATCHED:
						return "patched"
					case hydrapb.PatchResult_CREATED:
						return "created"
					case hydrapb.PatchResult_KEY_NOT_FOUND:
						return "notfound"
					case hydrapb.PatchResult_TYPE_MISMATCH:
						return "mismatch"
					default:
						return "status " + st.String()
					}
				}
				resp, err := rig.GW.PatchExpiredTreasures(ctx, &hydrapb.PatchExpiredTreasuresRequest{IslandID: 1, SwampName: swampName,
					HowMany: 0, Ops: ops, Meta: meta})
				if err != nil {
					return "err " + c07ErrClass(err)
				}
				if resp == nil {
					return "nilnil"
				}
				var keys []string
				for _, t := range resp.GetPatched() {
					keys = append(keys, t.GetKey())
				}
				return "r " + strings.Join(keys, ",")
			case f[0] == "shiftmatch" && len(f) == 6:
				it, ok := c07IndexType(f[1])
				n, e1 := strconv.ParseInt(f[3], 10, 32)
				ft, ok1 := c07OptTS(f[4])
				tt, ok2 := c07OptTS(f[5])
				if !ok || e1 != nil || !ok1 || !ok2 || (f[2] != "asc" && f[2] != "desc") {
					return "bad-op"
				}
				ord := hydrapb.OrderType_ASC
				if f[2] == "desc" {
					ord = hydrapb.OrderType_DESC
				}
				resp, err := rig.GW.ShiftMatchingTreasures(ctx, &hydrapb.ShiftMatchingTreasuresRequest{IslandID: 1, SwampName: swampName,
					IndexType: it, OrderType: ord, HowMany: int32(n), FromTime: ft, ToTime: tt})
				if err != nil {
					return "err " + c07ErrClass(err)
				}
				if resp == nil {
					return "nilnil"
				}
				var keys []string
				for _, t := range resp.GetTreasures() {
					keys = append(keys, t.GetKey())
				}
				return "r " + strings.Join(keys, ",")
			case f[0] == "reload" && len(f) == 1:
				nm := name.Load(swampName)
				if ok, err := rig.Zeus.GetHydra().IsExistSwamp(1, nm); err != nil || !ok {
					return "ok"
				}
				sw, err := rig.Zeus.GetHydra().SummonSwamp(ctx, 1, nm)
				if err != nil {
					return "err"
				}
				sw.Close()
				return "ok"
			case f[0] == "set" && len(f) == 7:
				kv := &hydrapb.KeyValuePair{Key: f[1]}
				v, e1 := strconv.ParseInt(f[3], 10, 64)
				cT, e2 := strconv.ParseInt(f[4], 10, 64)
				uT, e3 := strconv.ParseInt(f[5], 10, 64)
				eT, e4 := strconv.ParseInt(f[6], 10, 64)
				if e1 != nil || e2 != nil || e3 != nil || e4 != nil || !c07Value(kv, f[2], v) {
					return "bad-op"
				}
				kv.CreatedAt, kv.UpdatedAt, kv.ExpiredAt = c07TSpb(cT), c07TSpb(uT), c07TSpb(eT)
				resp, err := rig.GW.Set(ctx, &hydrapb.SetRequest{Swamps: []*hydrapb.SwampRequest{{
					IslandID: 1, SwampName: swampName, CreateIfNotExist: true, Overwrite: true,
					KeyValues: []*hydrapb.KeyValuePair{kv}}}})
				if err != nil {
					return "err"
				}
				if resp == nil {
					return "nilnil"
				}
				return "ok"
			case f[0] == "del" && len(f) == 2:
				resp, err := rig.GW.Delete(ctx, &hydrapb.DeleteRequest{Swamps: []*hydrapb.DeleteRequest_SwampKeys{{
					IslandID: 1, SwampName: swampName, Keys: []string{f[1]}}}})
				if err != nil {
					// deleting from a swamp that does not exist (yet / any more)
					return "ok"
				}
				if resp == nil {
					return "nilnil"
				}
				return "ok"
			case f[0] == "q" && len(f) == 8:
				it, ok := c07IndexType(f[1])
				from, e1 := strconv.ParseInt(f[3], 10, 32) // (may be negative: read from the start)
				limit, e2 := strconv.ParseInt(f[4], 10, 32)
				ft, ok1 := c07OptTS(f[5])
				tt, ok2 := c07OptTS(f[6])
				if !ok || e1 != nil || e2 != nil || !ok1 || !ok2 || (f[2] != "asc" && f[2] != "desc") {
					return "bad-op"
				}
				ord := hydrapb.OrderType_ASC
				if f[2] == "desc" {
					ord = hydrapb.OrderType_DESC
				}
				var keys []string
				if f[7] == "m" {
					// GetByIndexStreamFromMany with one query: a separate copy of the read path in the gateway
					st := &c07ManyStream{c07Stream{ctx: ctx}}
					err := rig.GW.GetByIndexStreamFromMany(&hydrapb.GetByIndexStreamFromManyRequest{Queries: []*hydrapb.SwampQuery{{
						IslandID: 1, SwampName: swampName, IndexType: it, OrderType: ord, From: int32(from), Limit: int32(limit),
						FromTime: ft, ToTime: tt}}}, st)
					if err != nil {
						return "err " + c07ErrClass(err)
					}
					keys = st.keys
				} else if f[7] == "s" {
					st := &c07Stream{ctx: ctx}
					err := rig.GW.GetByIndexStream(&hydrapb.GetByIndexStreamRequest{IslandID: 1, SwampName: swampName,
						IndexType: it, OrderType: ord, From: int32(from), Limit: int32(limit), FromTime: ft, ToTime: tt}, st)
					if err != nil {
						return "err " + c07ErrClass(err)
					}
					keys = st.keys
				} else {
					resp, err := rig.GW.GetByIndex(ctx, &hydrapb.GetByIndexRequest{IslandID: 1, SwampName: swampName,
						IndexType: it, OrderType: ord, From: int32(from), Limit: int32(limit), FromTime: ft, ToTime: tt})
					if err != nil {
						return "err " + c07ErrClass(err)
					}
					if resp == nil {
						return "nilnil"
					}
					for _, t := range resp.GetTreasures() {
						keys = append(keys, t.GetKey())
					}
				}
				return "r " + strings.Join(keys, ",")
			}
			return "bad-op"
		}()
		fmt.Fprintln(w, reply)
	}
}

func c07ErrClass(err error) string {
	s := err.Error()
	switch {
	case strings.Contains(s, "Swamp does not exist"):
		return "noswamp"
	default:
		return "other"
	}
}
