package main

// Shared by the domains C22 and C27: the real Go SDK talking gRPC (over an in-memory bufconn
// listener, insecure credentials) to the real gateway of an in-process server (NewRig).

import (
	"context"
	"io"
	"log/slog"
	"net"
	"os"
	"strings"

	"github.com/hydraide/hydraide/sdk/go/hydraidego/v3"
	sdkclient "github.com/hydraide/hydraide/sdk/go/hydraidego/v3/client"
	"github.com/hydraide/hydraide/sdk/go/hydraidego/v3/hydraidepbgo"
	sdkname "github.com/hydraide/hydraide/sdk/go/hydraidego/v3/name"
	"google.golang.org/grpc"
	"google.golang.org/grpc/credentials/insecure"
	"google.golang.org/grpc/test/bufconn"
)

// miscClient implements the SDK's client.Client on top of one gRPC connection: every island
// is served by the same in-process server.
type miscClient struct {
	svc        hydraidepbgo.HydraideServiceClient
	allIslands uint64
}

func (c *miscClient) Connect(bool) error { return nil }
func (c *miscClient) CloseConnection()   {}
func (c *miscClient) GetServiceClient(sdkname.Name) hydraidepbgo.HydraideServiceClient {
	return c.svc
}
func (c *miscClient) GetServiceClientAndHost(sdkname.Name) *sdkclient.ServiceClient {
	return &sdkclient.ServiceClient{GrpcClient: c.svc, Host: "bufconn"}
}
func (c *miscClient) GetUniqueServiceClients() []hydraidepbgo.HydraideServiceClient {
	return []hydraidepbgo.HydraideServiceClient{c.svc}
}
func (c *miscClient) GetAllIslands() uint64 { return c.allIslands }

type miscSDK struct {
	Rig  *Rig
	H    hydraidego.Hydraidego
	srv  *grpc.Server
	conn *grpc.ClientConn
}

// miscQuiet silences slog and moves the process-wide os.Stdout to stderr: the server code has a
// stray debug fmt.Println (chronicler.go) that would otherwise land between the reply lines.
// The reply writer was created from the original os.Stdout before and keeps writing there.
func miscQuiet() {
	slog.SetDefault(slog.New(slog.NewTextHandler(io.Discard, nil)))
	os.Stdout = os.Stderr
}

// miscNewSDK starts the in-process server and connects the SDK to it.
func miscNewSDK(idleSec, writeSec int64) (*miscSDK, error) {
	rig, err := NewRig(3, 2000, idleSec, writeSec)
	if err != nil {
		return nil, err
	}
	lis := bufconn.Listen(4 << 20)
	srv := grpc.NewServer(grpc.MaxRecvMsgSize(64<<20), grpc.MaxSendMsgSize(64<<20))
	hydraidepbgo.RegisterHydraideServiceServer(srv, rig.GW)
	go func() { _ = srv.Serve(lis) }()
	conn, err := grpc.NewClient("passthrough:///bufconn",
		grpc.WithContextDialer(func(ctx context.Context, _ string) (net.Conn, error) { return lis.DialContext(ctx) }),
		grpc.WithTransportCredentials(insecure.NewCredentials()),
		grpc.WithDefaultCallOptions(grpc.MaxCallRecvMsgSize(64<<20)))
	if err != nil {
		srv.Stop()
		rig.Stop(true)
		return nil, err
	}
	cl := &miscClient{svc: hydraidepbgo.NewHydraideServiceClient(conn), allIslands: 1000}
	return &miscSDK{Rig: rig, H: hydraidego.New(cl), srv: srv, conn: conn}, nil
}

// miscIsTimeout: the error is a deadline / connection problem of the rig, not an answer of the code under test.
func miscIsTimeout(err error) bool {
	if err == nil {
		return false
	}
	m := err.Error()
	for _, w := range []string{"deadline exceeded", "timeout", "timed out", "connection error", "Unavailable", "context canceled"} {
		if strings.Contains(m, w) {
			return true
		}
	}
	return false
}

func (m *miscSDK) Stop() {
	_ = m.conn.Close()
	m.srv.Stop()
	m.Rig.Stop(true)
}
