package main

// Domain C27: Hydrex (sdk/go/hydraidego/hydrex) through the real SDK, gRPC over bufconn and the
// in-process gateway.  Histories over 2 index names × 3 domains × 5 keys × 4 values.
//
// names travel as x<hex>; ops:   case N
//        idle                     wait until every Hydrex swamp has passed its 1 s idle timeout (they close, flush and reload)
//        save I D k=v,k=v…|-      hydrex.Save(index name, domain, items)
//        destroy I D
//        core I D                 hydrex.GetCoreData, sorted by key
//        index I K                hydrex.GetIndexData, sorted by domain
// reply: case N | ok | core k=v,…|- | index d,…|-
//
// Index names are prefixed with the case number, so cases are independent without restarting the server.

import (
	"bufio"
	"context"
	"encoding/hex"
	"fmt"
	"math/rand"
	"os"
	"sort"
	"strings"
	"time"

	"github.com/hydraide/hydraide/sdk/go/hydraidego/v3/hydrex"
)

func init() { Register("C27", Domain{Gen: c27Gen, Run: c27Run}) }

// names travel as x<hex of the bytes> ("x" alone = the empty string)
func c27Tok(s string) string { return "x" + hex.EncodeToString([]byte(s)) }
func c27Untok(t string) (string, bool) {
	if !strings.HasPrefix(t, "x") {
		return "", false
	}
	b, err := hex.DecodeString(t[1:])
	return string(b), err == nil
}

type c27Pool struct{ idx, doms, keys []string }

var c27Plain = c27Pool{[]string{"i0", "i1"}, []string{"d0", "d1", "d2"}, []string{"k0", "k1", "k2", "k3", "k4"}}

// case variants, non-ASCII, punctuation, long names: all legal swamp name parts, all distinct
var c27Adversarial = c27Pool{[]string{"idx", "Idx"}, []string{"dom", "Dom", "dömain.hu", strings.Repeat("d", 180)},
	[]string{"key", "Key", "KEY", "ключ", "k 0", "k.0-_", strings.Repeat("k", 200)}}

// names that are NOT clean swamp name parts: empty, the wildcard, a part containing the separator (and its prefix)
var c27Hostile = c27Pool{[]string{"i0", "i0", "a/b", ""}, []string{"d0", "d1", "a/b", "", "*"}, []string{"a/b", "a", "", "*", "k0"}}

func c27Items(rng *rand.Rand, p c27Pool) string {
	var parts []string
	for _, k := range p.keys {
		if rng.Intn(5) < 2 {
			parts = append(parts, fmt.Sprintf("%s=v%d", c27Tok(k), rng.Intn(4)))
		}
	}
	if len(parts) == 0 {
		return "-"
	}
	return strings.Join(parts, ",")
}

func c27Gen(rng *rand.Rand, tier string, w *bufio.Writer) {
	cases := 60
	if tier == "thorough" {
		cases = 1200
	}
	T := c27Tok
	dump := func(p c27Pool) {
		for _, i := range p.idx {
			for _, d := range p.doms {
				fmt.Fprintf(w, "core %s %s\n", T(i), T(d))
			}
			for _, k := range p.keys {
				fmt.Fprintf(w, "index %s %s\n", T(i), T(k))
			}
		}
	}
	// corpus: DESIGN §9 F27 — save d {k ↦ a}; save d {k ↦ b} leaves a
	fmt.Fprintln(w, "case 0")
	fmt.Fprintf(w, "save %s %s %s=v0\n", T("i0"), T("d0"), T("k0"))
	fmt.Fprintf(w, "core %s %s\n", T("i0"), T("d0"))
	fmt.Fprintf(w, "save %s %s %s=v1\n", T("i0"), T("d0"), T("k0"))
	fmt.Fprintf(w, "core %s %s\n", T("i0"), T("d0"))
	fmt.Fprintf(w, "index %s %s\n", T("i0"), T("k0"))
	// corpus: shared key across domains, removal by save, destroy, pure-removal save, save after destroy
	fmt.Fprintln(w, "case 1")
	for _, l := range [][]string{{"save", "i0", "d0", "k0=v0,k1=v1"}, {"save", "i0", "d1", "k0=v2"}, {"save", "i1", "d0", "k0=v3"}, {"index", "i0", "k0"},
		{"save", "i0", "d0", "k1=v1"}, {"index", "i0", "k0"}, {"core", "i0", "d0"}, {"destroy", "i0", "d1"}, {"index", "i0", "k0"}, {"core", "i0", "d1"},
		{"save", "i0", "d1", "k0=v1,k2=v2"}, {"core", "i0", "d1"}, {"index", "i0", "k0"}, {"save", "i0", "d0", "-"}} {
		line := l[0] + " " + T(l[1]) + " " + T(l[2])
		if len(l) == 4 {
			if l[3] == "-" {
				line += " -"
			} else {
				var kv []string
				for _, x := range strings.Split(l[3], ",") {
					q := strings.SplitN(x, "=", 2)
					kv = append(kv, T(q[0])+"="+q[1])
				}
				line += " " + strings.Join(kv, ",")
			}
		}
		fmt.Fprintln(w, line)
	}
	// every Hydrex swamp passes its 1 s idle timeout: closed, flushed, reloaded by the reads below
	fmt.Fprintln(w, "idle")
	dump(c27Plain)
	// corpus: a key containing '/', then (separately) the empty key, each next to clean keys
	fmt.Fprintln(w, "case 2")
	fmt.Fprintf(w, "save %s %s %s=v1,%s=v2,%s=v1\n", T("i0"), T("d0"), T("a/b"), T("a"), T("k0"))
	fmt.Fprintf(w, "core %s %s\n", T("i0"), T("d0"))
	for _, k := range []string{"a/b", "a", "k0"} {
		fmt.Fprintf(w, "index %s %s\n", T("i0"), T(k))
	}
	fmt.Fprintln(w, "case 3")
	fmt.Fprintf(w, "save %s %s %s=v3,%s=v1\n", T("i0"), T("d0"), T(""), T("k0"))
	fmt.Fprintf(w, "core %s %s\n", T("i0"), T("d0"))
	fmt.Fprintf(w, "index %s %s\n", T("i0"), T("k0"))
	// corpus: a domain containing '/' next to a clean key; an empty domain; an index name containing '/'; the empty index name
	fmt.Fprintln(w, "case 4")
	fmt.Fprintf(w, "save %s %s %s=v1\n", T("i0"), T("a/b"), T("k0"))
	fmt.Fprintf(w, "core %s %s\n", T("i0"), T("a/b"))
	fmt.Fprintf(w, "index %s %s\n", T("i0"), T("k0"))
	fmt.Fprintf(w, "save %s %s %s=v2\n", T("i0"), T(""), T("k0"))
	fmt.Fprintf(w, "index %s %s\n", T("i0"), T("k0"))
	fmt.Fprintf(w, "save %s %s %s=v3\n", T("a/b"), T("d0"), T("k0"))
	fmt.Fprintf(w, "core %s %s\n", T("a/b"), T("d0"))
	fmt.Fprintf(w, "index %s %s\n", T("a/b"), T("k0"))
	fmt.Fprintf(w, "save %s %s %s=v3\n", T(""), T("d0"), T("k0"))
	fmt.Fprintf(w, "core %s %s\n", T(""), T("d0"))
	fmt.Fprintf(w, "index %s %s\n", T(""), T("k0"))
	fmt.Fprintf(w, "save %s %s %s=v1\n", T("i0"), T("d0"), T("k0"))
	fmt.Fprintf(w, "destroy %s %s\n", T("i0"), T("a/b"))
	fmt.Fprintf(w, "destroy %s %s\n", T(""), T("d0"))
	fmt.Fprintf(w, "core %s %s\n", T("i0"), T("d0"))
	fmt.Fprintf(w, "index %s %s\n", T("i0"), T("k0"))
	for c := 5; c < cases+5; c++ {
		fmt.Fprintf(w, "case %d\n", c)
		pool := c27Plain
		if c%3 == 0 {
			pool = c27Adversarial
		}
		if c%20 == 7 {
			pool = c27Hostile
		}
		last := map[string]string{}
		for n := 8 + rng.Intn(18); n > 0; n-- {
			i, d := pool.idx[rng.Intn(len(pool.idx))], pool.doms[rng.Intn(len(pool.doms))]
			id := T(i) + " " + T(d)
			k := pool.keys[rng.Intn(len(pool.keys))]
			switch x := rng.Intn(20); {
			case x < 11:
				items := c27Items(rng, pool)
				if prev, ok := last[id]; ok && rng.Intn(5) == 0 {
					items = prev // an identical re-save
				}
				last[id] = items
				fmt.Fprintf(w, "save %s %s\n", id, items)
				fmt.Fprintf(w, "core %s\n", id)
				fmt.Fprintf(w, "index %s %s\n", T(i), T(k))
			case x < 14:
				delete(last, id)
				fmt.Fprintf(w, "destroy %s\n", id)
				fmt.Fprintf(w, "core %s\n", id)
				fmt.Fprintf(w, "index %s %s\n", T(i), T(k))
			case x < 17:
				fmt.Fprintf(w, "core %s\n", id)
			default:
				fmt.Fprintf(w, "index %s %s\n", T(i), T(k))
			}
			if tier == "thorough" && rng.Intn(400) == 0 {
				fmt.Fprintln(w, "idle") // let every swamp pass its 1 s idle timeout: close, flush, reload on next use
			}
		}
		dump(pool)
	}
}

func c27Run(in *bufio.Scanner, w *bufio.Writer) {
	miscQuiet()
	sdk, err := miscNewSDK(1, 1)
	if err != nil {
		fmt.Fprintln(os.Stderr, "c27: rig:", err)
		for in.Scan() {
			fmt.Fprintln(w, "timeout rig")
		}
		return
	}
	defer sdk.Stop()
	hx := hydrex.New(sdk.H)
	caseNo := "0"
	for in.Scan() {
		line := in.Text()
		f := strings.Split(line, " ")
		func() {
			defer func() {
				if r := recover(); r != nil {
					fmt.Fprintf(os.Stderr, "c27: `%s` panicked: %v\n", line, r)
					fmt.Fprintln(w, "panic")
				}
			}()
			ctx, cancel := context.WithTimeout(context.Background(), HxScale(60*time.Second))
			defer cancel()
			name := func(t string) string {
				v, ok := c27Untok(t)
				if !ok {
					panic("bad token " + t)
				}
				return v
			}
			// the case number keeps the cases apart; the EMPTY index name stays empty (nothing may be stored under it)
			idx := func(t string) string {
				if name(t) == "" {
					return ""
				}
				return "c" + caseNo + name(t)
			}
			switch {
			case f[0] == "case" && len(f) == 2:
				caseNo = f[1]
				fmt.Fprintln(w, line)
			case f[0] == "idle" && len(f) == 1:
				// idle timeout 1 s + 1 s gap, looked at once a second: wait until hydra holds no open swamp any more
				deadline := time.Now().Add(HxScale(20 * time.Second))
				for len(sdk.Rig.Zeus.GetHydra().ListActiveSwamps()) > 0 {
					if time.Now().After(deadline) {
						fmt.Fprintln(w, "timeout idle")
						return
					}
					time.Sleep(50 * time.Millisecond)
				}
				fmt.Fprintln(w, "ok")
			case f[0] == "save" && len(f) == 4:
				items := map[string]*hydrex.CoreData{}
				if f[3] != "-" {
					for _, kv := range strings.Split(f[3], ",") {
						p := strings.SplitN(kv, "=", 2)
						if len(p) != 2 {
							fmt.Fprintln(w, "bad-op")
							return
						}
						items[name(p[0])] = &hydrex.CoreData{Key: name(p[0]), Value: p[1]}
					}
				}
				hx.Save(ctx, idx(f[1]), name(f[2]), items)
				fmt.Fprintln(w, "ok")
			case f[0] == "destroy" && len(f) == 3:
				hx.Destroy(ctx, idx(f[1]), name(f[2]))
				fmt.Fprintln(w, "ok")
			case f[0] == "core" && len(f) == 3:
				var out []string
				for _, cd := range hx.GetCoreData(ctx, idx(f[1]), name(f[2])) {
					out = append(out, c27Tok(cd.Key)+"="+cd.Value)
				}
				sort.Strings(out)
				if len(out) == 0 {
					out = []string{"-"}
				}
				fmt.Fprintln(w, "core "+strings.Join(out, ","))
			case f[0] == "index" && len(f) == 3:
				var out []string
				for _, id := range hx.GetIndexData(ctx, idx(f[1]), name(f[2])) {
					out = append(out, c27Tok(id.Domain))
				}
				sort.Strings(out)
				if len(out) == 0 {
					out = []string{"-"}
				}
				fmt.Fprintln(w, "index "+strings.Join(out, ","))
			default:
				fmt.Fprintln(w, "bad-op")
			}
		}()
	}
}
