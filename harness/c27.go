package main

// Domain C27: Hydrex (sdk/go/hydraidego/hydrex) through the real SDK, gRPC over bufconn and the
// in-process gateway.  Histories over 2 index names × 3 domains × 5 keys × 4 values.
//
// ops:   case N
//        save I D k=v,k=v…|-      hydrex.Save(index name, domain, items)
//        destroy I D
//        core I D                 hydrex.GetCoreData, sorted by key
//        index I K                hydrex.GetIndexData, sorted by domain
// reply: case N | ok | core k=v,…|- | index d,…|-
//
// Index names are prefixed with the case number, so cases are independent without restarting the server.

import (
	"bufio"
	"context"
	"fmt"
	"math/rand"
	"os"
	"sort"
	"strings"
	"time"

	"github.com/hydraide/hydraide/sdk/go/hydraidego/v3/hydrex"
)

func init() { Register("C27", Domain{Gen: c27Gen, Run: c27Run}) }

func c27Items(rng *rand.Rand) string {
	var parts []string
	for k := 0; k < 5; k++ {
		if rng.Intn(5) < 2 {
			parts = append(parts, fmt.Sprintf("k%d=v%d", k, rng.Intn(4)))
		}
	}
	if len(parts) == 0 {
		return "-"
	}
	return strings.Join(parts, ",")
}

func c27Gen(rng *rand.Rand, tier string, w *bufio.Writer) {
	cases := 60
	if tier == "thorough" {
		cases = 1200
	}
	dump := func() {
		for i := 0; i < 2; i++ {
			for d := 0; d < 3; d++ {
				fmt.Fprintf(w, "core i%d d%d\n", i, d)
			}
			for k := 0; k < 5; k++ {
				fmt.Fprintf(w, "index i%d k%d\n", i, k)
			}
		}
	}
	// corpus: DESIGN §9 F27 — save d {k ↦ a}; save d {k ↦ b} leaves a
	fmt.Fprintln(w, "case 0")
	fmt.Fprintln(w, "save i0 d0 k0=v0")
	fmt.Fprintln(w, "core i0 d0")
	fmt.Fprintln(w, "save i0 d0 k0=v1")
	fmt.Fprintln(w, "core i0 d0")
	fmt.Fprintln(w, "index i0 k0")
	// corpus: shared key across domains, removal by save, destroy
	fmt.Fprintln(w, "case 1")
	fmt.Fprintln(w, "save i0 d0 k0=v0,k1=v1")
	fmt.Fprintln(w, "save i0 d1 k0=v2")
	fmt.Fprintln(w, "save i1 d0 k0=v3")
	fmt.Fprintln(w, "index i0 k0")
	fmt.Fprintln(w, "save i0 d0 k1=v1")
	fmt.Fprintln(w, "index i0 k0")
	fmt.Fprintln(w, "core i0 d0")
	fmt.Fprintln(w, "destroy i0 d1")
	fmt.Fprintln(w, "index i0 k0")
	fmt.Fprintln(w, "core i0 d1")
	fmt.Fprintln(w, "save i0 d0 -")
	dump()
	for c := 2; c < cases+2; c++ {
		fmt.Fprintf(w, "case %d\n", c)
		last := map[string]string{}
		for n := 8 + rng.Intn(18); n > 0; n-- {
			i, d := rng.Intn(2), rng.Intn(3)
			id := fmt.Sprintf("i%d d%d", i, d)
			switch x := rng.Intn(20); {
			case x < 11:
				items := c27Items(rng)
				if prev, ok := last[id]; ok && rng.Intn(5) == 0 {
					items = prev // an identical re-save
				}
				last[id] = items
				fmt.Fprintf(w, "save %s %s\n", id, items)
				fmt.Fprintf(w, "core %s\n", id)
				fmt.Fprintf(w, "index i%d k%d\n", i, rng.Intn(5))
			case x < 14:
				delete(last, id)
				fmt.Fprintf(w, "destroy %s\n", id)
				fmt.Fprintf(w, "core %s\n", id)
				fmt.Fprintf(w, "index i%d k%d\n", i, rng.Intn(5))
			case x < 17:
				fmt.Fprintf(w, "core %s\n", id)
			default:
				fmt.Fprintf(w, "index i%d k%d\n", i, rng.Intn(5))
			}
		}
		dump()
	}
}

func c27Run(in *bufio.Scanner, w *bufio.Writer) {
	miscQuiet()
	sdk, err := miscNewSDK(1, 1)
	if err != nil {
		fmt.Fprintln(os.Stderr, "c27: rig:", err)
		for in.Scan() {
			fmt.Fprintln(w, "err rig")
		}
		return
	}
	defer sdk.Stop()
	hx := hydrex.New(sdk.H)
	caseNo := "0"
	for in.Scan() {
		line := in.Text()
		f := strings.Split(line, " ")
		func() {
			defer func() {
				if r := recover(); r != nil {
					fmt.Fprintf(os.Stderr, "c27: `%s` panicked: %v\n", line, r)
					fmt.Fprintln(w, "panic")
				}
			}()
			ctx, cancel := context.WithTimeout(context.Background(), 20*time.Second)
			defer cancel()
			idx := func(s string) string { return "c" + caseNo + s }
			switch {
			case f[0] == "case" && len(f) == 2:
				caseNo = f[1]
				fmt.Fprintln(w, line)
			case f[0] == "save" && len(f) == 4:
				items := map[string]*hydrex.CoreData{}
				if f[3] != "-" {
					for _, kv := range strings.Split(f[3], ",") {
						p := strings.SplitN(kv, "=", 2)
						if len(p) != 2 {
							fmt.Fprintln(w, "bad-op")
							return
						}
						items[p[0]] = &hydrex.CoreData{Key: p[0], Value: p[1]}
					}
				}
				hx.Save(ctx, idx(f[1]), f[2], items)
				fmt.Fprintln(w, "ok")
			case f[0] == "destroy" && len(f) == 3:
				hx.Destroy(ctx, idx(f[1]), f[2])
				fmt.Fprintln(w, "ok")
			case f[0] == "core" && len(f) == 3:
				var out []string
				for _, cd := range hx.GetCoreData(ctx, idx(f[1]), f[2]) {
					out = append(out, cd.Key+"="+cd.Value)
				}
				sort.Strings(out)
				if len(out) == 0 {
					out = []string{"-"}
				}
				fmt.Fprintln(w, "core "+strings.Join(out, ","))
			case f[0] == "index" && len(f) == 3:
				var out []string
				for _, id := range hx.GetIndexData(ctx, idx(f[1]), f[2]) {
					out = append(out, id.Domain)
				}
				sort.Strings(out)
				if len(out) == 0 {
					out = []string{"-"}
				}
				fmt.Fprintln(w, "index "+strings.Join(out, ","))
			default:
				fmt.Fprintln(w, "bad-op")
			}
		}()
	}
}
