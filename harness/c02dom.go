package main

// Domain C02: crash images of generated write histories (see c02.go for the rig).
//
//   hx gen C02T            → case scripts
//   hx run C02T < scripts  → ops file (traced syscall logs + crash points)
//   hx run C02  < ops      → implementation replies (images loaded through the real reader/chronicler)
//
// plus `tick N`: a real swamp, N saves, one WriteTreasuresToFilesystem() (the periodic write
// tick), then the .hyd file as it is on disk at that moment is loaded — acknowledged records
// must be there.

import (
	"bufio"
	"fmt"
	"math/rand"
	"os"
	"path/filepath"
	"strings"
	"time"

	"github.com/hydraide/hydraide/app/core/hydra/swamp"
	"github.com/hydraide/hydraide/app/core/hydra/swamp/beacon"
	"github.com/hydraide/hydraide/app/core/hydra/swamp/chronicler"
	"github.com/hydraide/hydraide/app/core/hydra/swamp/metadata"
	"github.com/hydraide/hydraide/app/name"
)

func init() {
	Register("C02T", Domain{Gen: c02Gen, Run: c02Trace})
	Register("C02", Domain{Gen: func(*rand.Rand, string, *bufio.Writer) {}, Run: c02Run})
}

func c02History(rng *rand.Rand, id int, chron string, nBatches int, title string) []string {
	withForce := title == "compacted"
	h := &c03Hist{rng: rng}
	out := []string{fmt.Sprintf("case %d %s", id, title), chron, "live 1000000"}
	nk := 2 + rng.Intn(5)
	for b := 0; b < nBatches; b++ {
		var items []string
		for n := 1 + rng.Intn(4); n > 0; n-- {
			k := 1 + rng.Intn(nk)
			if rng.Intn(6) == 0 {
				items = append(items, fmt.Sprintf("d:%d", k))
			} else {
				items = append(items, h.put(k))
			}
		}
		out = append(out, "w "+strings.Join(items, ","))
		switch r := rng.Intn(10); {
		case r < 6:
			out = append(out, "sync")
			if withForce && rng.Intn(3) == 0 {
				// a compaction in the middle of the session (write trigger / ForceCompaction): the writes that
				// follow, and their crash images, land on the compacted file
				out = append(out, "force")
			}
		case r < 8:
			out = append(out, "close", chron) // idle eviction and a later re-summon: lazy reopen
		}
	}
	if rng.Intn(2) == 0 {
		out = append(out, "close")
	}
	return out
}

func c02Gen(rng *rand.Rand, tier string, w *bufio.Writer) {
	id := 0
	emit := func(lines []string) {
		for _, l := range lines {
			fmt.Fprintln(w, l)
		}
		id++
	}
	// corpus: the hand-reproduced cases of DESIGN §9 (one block then a second, synced in between;
	// a named file whose creation is interrupted)
	emit([]string{"case 0 corpus torn-second-block", "chron cfg 300 0.3", "live 1000000",
		"w " + fmt.Sprintf("p:1:1:%d", c02Pad(1)), "sync", "w " + fmt.Sprintf("p:2:2:%d", c02Pad(2)), "sync"})
	emit([]string{"case 1 corpus named-create", "chron name swmp", "live 1000000",
		"w " + fmt.Sprintf("p:1:1:%d,p:2:2:%d", c02Pad(1), c02Pad(2)), "sync", "w d:1", "close"})
	n := 40
	if tier == "thorough" {
		n = 200
	}
	for i := 0; i < n; i++ {
		chron := c03ChronLine(rng, false)
		if strings.HasPrefix(chron, "chron cfg") {
			chron = fmt.Sprintf("chron cfg %d 0.3", c02Pick(rng, 450, 900, 2000))
		}
		emit(c02History(rng, id, chron, 2+rng.Intn(5), "hist"))
	}
	// sessions WITH compaction: crash images of the compaction itself and of every write after it
	n4 := 6
	if tier == "thorough" {
		n4 = 40
	}
	for i := 0; i < n4; i++ {
		chron := c03ChronLine(rng, false)
		if strings.HasPrefix(chron, "chron cfg") {
			chron = fmt.Sprintf("chron cfg %d 0.3", c02Pick(rng, 450, 900, 2000))
		}
		emit(c02History(rng, id, chron, 4+rng.Intn(4), "compacted"))
	}
	// a second crash: a first session dies (the chronicler is dropped without Close, or closed), the
	// file is left with a torn tail (cut), a fresh chronicler loads it — the first recovery — and a
	// resumed session follows; its crash images (every operation torn, writes since the last fsync
	// lost) are the second crash.  A Load in the middle of a clean history is the same without the cut.
	n2 := 6
	if tier == "thorough" {
		n2 = 40
	}
	for i := 0; i < n2; i++ {
		chron := c03ChronLine(rng, false)
		if strings.HasPrefix(chron, "chron cfg") {
			chron = fmt.Sprintf("chron cfg %d 0.3", c02Pick(rng, 450, 900, 2000))
		}
		first := c02History(rng, id, chron, 2+rng.Intn(3), "resumed")
		if first[len(first)-1] != "close" && rng.Intn(2) == 0 {
			first = append(first, "close")
		}
		if i%3 != 2 {
			first = append(first, fmt.Sprintf("cut %d", c02Pick(rng, 1, 5, 16, 17, 60, 300)))
		}
		first = append(first, chron, "load")
		second := c02History(rng, id, chron, 2+rng.Intn(3), "x")[3:]
		emit(append(first, second...))
	}
	// damage in the middle of the file (one block header zeroed, intact blocks behind it): the open
	// must not cut there — every block behind the damage would be destroyed
	n3 := 2
	if tier == "thorough" {
		n3 = 10
	}
	for i := 0; i < n3; i++ {
		chron := c03ChronLine(rng, false)
		h := &c03Hist{rng: rng}
		lines := []string{fmt.Sprintf("case %d midfile-damage", id), chron, "live 1000000"}
		nb := 3 + rng.Intn(3)
		for b := 0; b < nb; b++ {
			lines = append(lines, "w "+h.put(1+rng.Intn(4))+","+h.put(1+rng.Intn(4)), "sync")
		}
		lines = append(lines, "close", "size", fmt.Sprintf("zap %d", rng.Intn(nb-1)), chron, "load", "w "+h.put(9), "size", chron, "load")
		emit(lines)
	}
	fmt.Fprintln(w, "case tick real-swamp write tick")
	for _, k := range []int{1, 2, 5} {
		fmt.Fprintf(w, "tick %d\n", k)
	}
	// WriteInterval 0: every Save writes and syncs on its own (no tick); and a delete after a tick
	for _, k := range []int{1, 3} {
		fmt.Fprintf(w, "tick0 %d\n", k)
	}
	for _, k := range []int{2, 4} {
		fmt.Fprintf(w, "tickdel %d\n", k)
	}
}

func c02Trace(in *bufio.Scanner, w *bufio.Writer) {
	all := c02ReadCases(in)
	var cases []c02CaseIn
	var ticks []string
	for _, c := range all {
		if c.ID == "tick" {
			ticks = c.Cmds
			continue
		}
		cases = append(cases, c)
	}
	outs, err := c02TraceCases(cases, nil)
	if err != nil {
		fmt.Fprintln(os.Stderr, "C02T:", err)
	}
	thorough := os.Getenv("HX_TIER") == "thorough"
	for _, co := range outs {
		c02EmitCase(w, co, func(ki int, c c02CmdOut) (bool, bool) { return len(c.Sys) > 0, false }, thorough, true)
	}
	if len(ticks) > 0 {
		fmt.Fprintln(w, "case tick real-swamp write tick")
		for _, t := range ticks {
			fmt.Fprintln(w, t)
		}
		fmt.Fprintln(w, "end")
	}
}

// c02Tick: a real swamp with a real V2 chronicler; n saves, then one write tick; the file is
// copied as it stands (a crash right after the tick returned) and loaded by a fresh chronicler.
func c02Tick(n int) string { return c02TickMode(n, "tick") }

// mode "tick": n saves, one write tick; "tick0": WriteInterval 0, n saves, no tick (Save itself writes and
// syncs); "tickdel": n saves, tick, the last record deleted, tick.  Then the crash copy is loaded.
func c02TickMode(n int, mode string) string {
	root, err := os.MkdirTemp(c02TmpRoot(), "hxtick-")
	if err != nil {
		return "machinery"
	}
	defer os.RemoveAll(root)
	swampName := name.New().Sanctuary("hx").Realm("c02").Swamp("tick")
	hashPath := swampName.GetFullHashPath(filepath.Join(root, "data"), 1, 2, 10)
	_ = os.MkdirAll(filepath.Dir(hashPath), 0o755)
	chron := chronicler.NewV2WithName(hashPath, 2, swampName.Get())
	chron.CreateDirectoryIfNotExists()
	meta := metadata.NewNoop()
	meta.SetSwampName(swampName)
	wi := time.Hour
	if mode == "tick0" {
		wi = 0
	}
	fss := &swamp.FilesystemSettings{ChroniclerInterface: chron, WriteInterval: wi}
	sw := swamp.New(swampName, time.Hour, fss, func(*swamp.Event) {}, func(*swamp.Info) {}, func(name.Name) {}, meta)
	sw.BeginVigil()
	for i := 1; i <= n; i++ {
		tr := sw.CreateTreasure(c02KeyName(i))
		if tr == nil {
			sw.CeaseVigil()
			return "machinery-create"
		}
		g := tr.StartTreasureGuard(true)
		tr.SetContentString(g, c02Content(100+i, 10))
		_ = tr.Save(g)
		tr.ReleaseTreasureGuard(g)
	}
	if mode != "tick0" {
		sw.WriteTreasuresToFilesystem() // what the WriteInterval ticker calls; returns = acknowledged
	}
	if mode == "tickdel" {
		_ = sw.DeleteTreasure(c02KeyName(n), false)
		sw.WriteTreasuresToFilesystem()
	}
	sw.CeaseVigil()
	// the crash: copy the file as it is on disk now, never calling Close
	img := filepath.Join(root, "img")
	_ = os.MkdirAll(img, 0o755)
	b, err := os.ReadFile(hashPath + ".hyd")
	if err == nil {
		_ = os.WriteFile(filepath.Join(img, "sw.hyd"), b, 0o644)
	}
	ch := chronicler.NewV2WithName(filepath.Join(img, "sw"), 2, swampName.Get())
	bc := beacon.New()
	ch.Load(bc)
	return c02BeaconState(bc)
}

func c02Run(in *bufio.Scanner, w *bufio.Writer) { c02RunOps(in, w, true) }
