package main

// Domain C09, mode `setx`: the conditional forms of Set on one key "x" (a second key keeps the swamp alive).
//
// case N setx CFG
//   seta V | setx V            synchronous Set(CreateIfNotExist=true, Overwrite=false) resp. Set(CreateIfNotExist=false, Overwrite=true)
//   spawn T seta V | setx V    the same request in a goroutine that parks at hook gw.set.tested (after the gateway's
//                              unguarded existence tests, before CreateTreasure / StartTreasureGuard)
//   go T                       lets it finish
//   del | get                  synchronous Delete / read
//   pinc | spawn T pinc        PatchTreasures(key "p", INC n by 1, CreateIfNotExist=true); the spawned form parks at hook
//                              inc.fetched (swamp.lockCurrentTreasure: object fetched or created, guard not yet taken)
//   pdel | pget                Delete / read of key "p"   (`pget n=<k>|absent`)
//   spawn T del                Delete of "x" in a goroutine; parks at hook del.acquired (deleteHandler holds the guard)
//   spawnq T set V | inc | shift   plain Set / IncrementInt64(+1) / ShiftByKeys of "x" in a goroutine that is expected to
//                              queue behind a guard holder → `T wait-timeout` (or `T done …` when nothing holds it)
//   poll T                     where T is now → `T done ST` | `T wait-timeout`
//   reload                     close the swamp (flush); the next request re-summons it from the file → `reload`
// replies: `seta ST`, `setx ST`, `T@tested`, `T done ST`, `del DELETED|NOT_FOUND`, `get v=<n>|absent`
//   ST = WROTE (NEW / UPDATED) | UNCHANGED (NOTHING_CHANGED) | NOT_FOUND

import (
	"context"
	"fmt"
	"math/rand"
	"bufio"
	"strconv"
	"time"

	"github.com/vmihailenco/msgpack/v5"

	"github.com/hydraide/hydraide/app/name"
	hydrapb "github.com/hydraide/hydraide/sdk/go/hydraidego/v3/hydraidepbgo"
)

type c09sThread struct {
	name string
	kind string
	gate chan struct{}
	done chan string
	fin  bool
	hit  bool // parks only at the first hook point it reaches
}

type c09sState struct {
	th     map[string]*c09sThread
	events chan string
}

var c09s = &c09sState{th: map[string]*c09sThread{}, events: make(chan string, 16)}

func c09sGen(rng *rand.Rand, tier string, w *bufio.Writer, c *int) {
	n := 24
	if tier == "thorough" {
		n = 150
	}
	for _, cfg := range c09Cfgs {
		// two Set(Overwrite=false) on a fresh key: the second one must not write
		fmt.Fprintf(w, "case %d setx %s\nspawn A seta 1\nseta 2\ngo A\nget\n", *c, cfg)
		*c++
		// Set(CreateIfNotExist=false) against a delete
		fmt.Fprintf(w, "case %d setx %s\nseta 5\nspawn A setx 1\ndel\ngo A\nget\n", *c, cfg)
		*c++
		if cfg != "m" {
			// a Set queued behind a delete of a persisted key must not write on the removed object
			fmt.Fprintf(w, "case %d setx %s\nseta 5\nreload\nspawn D del\nspawnq A set 7\ngo D\npoll A\nget\nreload\nget\n", *c, cfg)
			*c++
		}
		// an increment queued behind a ShiftByKeys: either it runs first and the shift hands out its value, or it
		// runs on a fresh record; two deletes of one key: one DELETED, one NOT_FOUND
		fmt.Fprintf(w, "case %d setx %s\nseta 1\nspawn D del\nspawnq A shift\nspawnq B del\ngo D\npoll A\npoll B\nget\n", *c, cfg)
		*c++
		fmt.Fprintf(w, "case %d setx %s\nseta 1\nspawn D inchold\nspawnq A shift\nspawnq B inc\ngo D\npoll A\npoll B\nget\n", *c, cfg)
		*c++
		// two creating field patches that fetched the same in-flight treasure of a fresh key
		fmt.Fprintf(w, "case %d setx %s\nspawn A pinc\nspawn B pinc\ngo A\ngo B\npget\n", *c, cfg)
		*c++
		fmt.Fprintf(w, "case %d setx %s\nspawn A pinc\npinc\npinc\ngo A\npget\npdel\npget\n", *c, cfg)
		*c++
	}
	for i := 0; i < n; i++ {
		fmt.Fprintf(w, "case %d setx %s\n", *c, c09Cfgs[i%3])
		*c++
		v := 1
		parked := []string{}
		names := []string{"A", "B"}
		used := 0
		steps := 3 + rng.Intn(5)
		for j := 0; j < steps; j++ {
			switch r := rng.Intn(100); {
			case r < 30 && used < 2:
				if rng.Intn(3) == 0 {
					fmt.Fprintf(w, "spawn %s pinc\n", names[used])
				} else {
					fmt.Fprintf(w, "spawn %s %s %d\n", names[used], []string{"seta", "setx"}[rng.Intn(2)], v)
				}
				parked = append(parked, names[used])
				used++
				v++
			case r < 50:
				fmt.Fprintf(w, "seta %d\n", v)
				v++
			case r < 65:
				fmt.Fprintf(w, "setx %d\n", v)
				v++
			case r < 72:
				fmt.Fprintln(w, "del")
			case r < 78:
				fmt.Fprintln(w, "pinc")
			case r < 80:
				fmt.Fprintln(w, "pdel")
			case r < 90 && len(parked) > 0:
				k := rng.Intn(len(parked))
				fmt.Fprintf(w, "go %s\n", parked[k])
				parked = append(parked[:k], parked[k+1:]...)
			default:
				fmt.Fprintln(w, "get")
			}
		}
		for _, t := range parked {
			fmt.Fprintf(w, "go %s\n", t)
		}
		fmt.Fprintln(w, "get")
		fmt.Fprintln(w, "pget")
	}
}

func (s *c09sState) hook(th string) {
	if t := s.th[th]; t != nil && !t.fin && !t.hit {
		t.hit = true
		s.events <- th
		<-t.gate
	}
}

// hookKind parks only threads of the given kind
func (s *c09sState) hookKind(th, kind string) {
	if t := s.th[th]; t != nil && t.kind == kind {
		s.hook(th)
	}
}

func (s *c09sState) endCase() {
	for _, t := range s.th {
		if !t.fin {
			select {
			case t.gate <- struct{}{}:
			default:
			}
			select {
			case <-t.done:
			case <-time.After(HxScale(4 * time.Second)):
			}
			t.fin = true
		}
	}
	s.th = map[string]*c09sThread{}
	for len(s.events) > 0 {
		<-s.events
	}
}

func c09sStatus(st *c09State, createIfNot, overwrite bool, v int64) string {
	resp, err := st.rig.GW.Set(context.Background(), &hydrapb.SetRequest{Swamps: []*hydrapb.SwampRequest{{
		IslandID: 1, SwampName: st.swamp, CreateIfNotExist: createIfNot, Overwrite: overwrite,
		KeyValues: []*hydrapb.KeyValuePair{{Key: "x", Int64Val: &v}},
	}}})
	if err != nil || resp == nil || len(resp.GetSwamps()) != 1 || len(resp.GetSwamps()[0].GetKeysAndStatuses()) != 1 {
		return "ERR"
	}
	switch s := resp.GetSwamps()[0].GetKeysAndStatuses()[0].GetStatus(); s {
	case hydrapb.Status_NEW, hydrapb.Status_UPDATED:
		return "WROTE"
	case hydrapb.Status_NOTHING_CHANGED:
		return "UNCHANGED"
	case hydrapb.Status_NOT_FOUND:
		return "NOT_FOUND"
	default:
		return s.String()
	}
}

func c09sPinc(st *c09State) string {
	one, _ := msgpack.Marshal(1)
	resp, err := st.rig.GW.PatchTreasures(context.Background(), &hydrapb.PatchTreasuresRequest{IslandID: 1, SwampName: st.swamp, CreateIfNotExist: true,
		Patches: []*hydrapb.TreasurePatch{{Key: "p", Ops: []*hydrapb.PatchOp{{Op: hydrapb.PatchOp_INC, Path: "n", Value: one}}}}})
	if err != nil || resp == nil || len(resp.GetResults()) != 1 {
		return "ERR"
	}
	return resp.GetResults()[0].GetStatus().String()
}

func c09sDel(st *c09State, key string) string {
	resp, err := st.rig.GW.Delete(context.Background(), &hydrapb.DeleteRequest{Swamps: []*hydrapb.DeleteRequest_SwampKeys{{IslandID: 1, SwampName: st.swamp, Keys: []string{key}}}})
	r := "NOT_FOUND"
	if err == nil && resp != nil && len(resp.GetResponses()) == 1 && len(resp.GetResponses()[0].GetKeyStatuses()) == 1 {
		r = resp.GetResponses()[0].GetKeyStatuses()[0].GetStatus().String()
	}
	return r
}

func c09sDo(st *c09State, kind string, v int64) string {
	switch kind {
	case "pinc":
		return c09sPinc(st)
	case "del":
		return c09sDel(st, "x")
	case "set":
		return c09sStatus(st, true, true, v)
	case "inc", "inchold":
		resp, err := st.rig.GW.IncrementInt64(context.Background(), &hydrapb.IncrementInt64Request{IslandID: 1, SwampName: st.swamp, Key: "x", IncrementBy: 1})
		if err != nil || resp == nil || !resp.GetIsIncremented() {
			return "ERR"
		}
		return "inc=" + strconv.FormatInt(resp.GetValue(), 10)
	case "shift":
		resp, err := st.rig.GW.ShiftByKeys(context.Background(), &hydrapb.ShiftByKeysRequest{IslandID: 1, SwampName: st.swamp, Keys: []string{"x"}})
		if err != nil || resp == nil {
			return "ERR"
		}
		if len(resp.GetTreasures()) == 1 && resp.GetTreasures()[0].Int64Val != nil {
			return "shifted=" + strconv.FormatInt(*resp.GetTreasures()[0].Int64Val, 10)
		}
		return "shifted=none"
	}
	if kind == "seta" {
		return c09sStatus(st, true, false, v)
	}
	return c09sStatus(st, false, true, v)
}

func (s *c09sState) line(st *c09State, f []string) string {
	switch {
	case (f[0] == "seta" || f[0] == "setx") && len(f) == 2:
		v, _ := strconv.ParseInt(f[1], 10, 64)
		res := make(chan string, 1)
		go func() { res <- c09sDo(st, f[0], v) }()
		select {
		case r := <-res:
			return f[0] + " " + r
		case <-time.After(c09StepTimeout):
			return f[0] + " hang"
		}
	case f[0] == "pinc" && len(f) == 1:
		res := make(chan string, 1)
		go func() { res <- c09sPinc(st) }()
		select {
		case r := <-res:
			return "pinc " + r
		case <-time.After(c09StepTimeout):
			return "pinc hang"
		}
	case f[0] == "pdel" && len(f) == 1:
		resp, err := st.rig.GW.Delete(context.Background(), &hydrapb.DeleteRequest{Swamps: []*hydrapb.DeleteRequest_SwampKeys{{IslandID: 1, SwampName: st.swamp, Keys: []string{"p"}}}})
		r := "NOT_FOUND"
		if err == nil && resp != nil && len(resp.GetResponses()) == 1 && len(resp.GetResponses()[0].GetKeyStatuses()) == 1 {
			r = resp.GetResponses()[0].GetKeyStatuses()[0].GetStatus().String()
		}
		return "pdel " + r
	case f[0] == "pget" && len(f) == 1:
		resp, err := st.rig.GW.Get(context.Background(), &hydrapb.GetRequest{Swamps: []*hydrapb.GetSwamp{{IslandID: 1, SwampName: st.swamp, Keys: []string{"p"}}}})
		if err == nil && resp != nil && len(resp.GetSwamps()) == 1 && len(resp.GetSwamps()[0].GetTreasures()) == 1 {
			if tr := resp.GetSwamps()[0].GetTreasures()[0]; tr.GetIsExist() {
				raw := tr.GetBytesVal()
				if len(raw) > 2 && raw[0] == 0xC7 && raw[1] == 0x00 {
					var m map[string]any
					if err := msgpack.Unmarshal(raw[2:], &m); err == nil {
						return fmt.Sprintf("pget n=%v", m["n"])
					}
				}
				return "pget n=?"
			}
		}
		return "pget n=absent"
	case f[0] == "reload" && len(f) == 1:
		h := st.rig.Zeus.GetHydra()
		nm := name.Load(st.swamp)
		if ok, err := h.IsExistSwamp(1, nm); err == nil && ok {
			if sw, err := h.SummonSwamp(context.Background(), 1, nm); err == nil {
				sw.Close()
			}
		}
		return "reload"
	case f[0] == "poll" && len(f) == 2:
		t := s.th[f[1]]
		if t == nil || t.fin {
			return "bad-op"
		}
		select {
		case r := <-t.done:
			t.fin = true
			return t.name + " done " + r
		case <-time.After(HxScale(1500 * time.Millisecond)):
			return t.name + " wait-timeout"
		}
	case (f[0] == "spawn" || f[0] == "spawnq") && ((len(f) == 4 && (f[2] == "seta" || f[2] == "setx" || f[2] == "set")) ||
		(len(f) == 3 && (f[2] == "pinc" || f[2] == "del" || f[2] == "inc" || f[2] == "inchold" || f[2] == "shift"))):
		if s.th[f[1]] != nil {
			return "bad-op"
		}
		var v int64
		if len(f) == 4 {
			v, _ = strconv.ParseInt(f[3], 10, 64)
		}
		t := &c09sThread{name: f[1], kind: f[2], gate: make(chan struct{}), done: make(chan string, 1), hit: f[0] == "spawnq"}
		s.th[f[1]] = t
		go func() {
			st.threads.Register(t.name)
			defer st.threads.Unregister()
			t.done <- c09sDo(st, f[2], v)
		}()
		if f[0] == "spawnq" {
			// not parked at a hook point: it either finishes or queues behind a guard holder
			select {
			case r := <-t.done:
				t.fin = true
				return t.name + " done " + r
			case <-time.After(HxScale(1500 * time.Millisecond)):
				return t.name + " wait-timeout"
			}
		}
		select {
		case <-s.events:
			switch f[2] {
			case "pinc":
				return t.name + "@fetched"
			case "del", "inchold":
				return t.name + "@holds"
			}
			return t.name + "@tested"
		case r := <-t.done:
			t.fin = true
			return t.name + " done " + r
		case <-time.After(c09StepTimeout):
			return t.name + " stuck"
		}
	case f[0] == "go" && len(f) == 2:
		t := s.th[f[1]]
		if t == nil || t.fin {
			return "bad-op"
		}
		select {
		case t.gate <- struct{}{}:
		case <-time.After(c09StepTimeout):
			return t.name + " stuck"
		}
		select {
		case r := <-t.done:
			t.fin = true
			return t.name + " done " + r
		case <-time.After(c09StepTimeout):
			return t.name + " stuck"
		}
	case f[0] == "del" && len(f) == 1:
		resp, err := st.rig.GW.Delete(context.Background(), &hydrapb.DeleteRequest{Swamps: []*hydrapb.DeleteRequest_SwampKeys{{IslandID: 1, SwampName: st.swamp, Keys: []string{"x"}}}})
		r := "NOT_FOUND"
		if err == nil && resp != nil && len(resp.GetResponses()) == 1 && len(resp.GetResponses()[0].GetKeyStatuses()) == 1 {
			r = resp.GetResponses()[0].GetKeyStatuses()[0].GetStatus().String()
		}
		return "del " + r
	case f[0] == "get" && len(f) == 1:
		resp, err := st.rig.GW.Get(context.Background(), &hydrapb.GetRequest{Swamps: []*hydrapb.GetSwamp{{IslandID: 1, SwampName: st.swamp, Keys: []string{"x"}}}})
		if err == nil && resp != nil && len(resp.GetSwamps()) == 1 && len(resp.GetSwamps()[0].GetTreasures()) == 1 {
			if tr := resp.GetSwamps()[0].GetTreasures()[0]; tr.GetIsExist() && tr.Int64Val != nil {
				return "get v=" + strconv.FormatInt(*tr.Int64Val, 10)
			}
		}
		return "get v=absent"
	}
	return "bad-op"
}
