package main

// Domain C22, op `val SLOT KIND OM DESC`: one field of Go kind KIND holding the value DESC, as THE value
// (SLOT v: `hydraide:"value"`) or as a map-body field (SLOT b: `hydraide:"Fld"`, next to a plain body
// field), with (OM 1) or without `,omitempty`; saved with CatalogSave and read back with CatalogRead through
// gRPC and the in-process server.
//
//	also  val p …  the field of a PROFILE model (ProfileSave / ProfileRead), and
//	      upd SLOT KIND OM DESC1 DESC2   save DESC1, save DESC2 over it, read: the last value must come back
//	KIND  str bool u8 u16 u32 u64 uint i8 i16 i32 i64 int f32 f64 bytes strs i64s u32s map pstr pint pstruct time struct arr
//	DESC  s:<hex|->   b:0|1   n:<int>   f:<IEEE bits>   y:nil|<hex|->   c:nil|<count>   p:nil|z|x
//	      t:zero|<sec>:<nsec>:<zone offset s>   r:0|1
//
// Reply: same | nilempty (differs only by nil vs empty) | stale (upd: the first value came back) | diff | err | bad-op.

import (
	"context"
	"encoding/hex"
	"fmt"
	"math"
	"math/rand"
	"os"
	"reflect"
	"strconv"
	"strings"
	"time"

	sdkname "github.com/hydraide/hydraide/sdk/go/hydraidego/v3/name"
)

type c22Inner struct {
	A int
	B string
}

func c22Ptr[T any](v T) *T { return &v }

// named types: the conversions must go by reflect.Kind, not by exact type
type c22Digest []byte
type c22Label string
type c22Count int32

var c22IntKinds = map[string][2]int{"u8": {0, 8}, "u16": {0, 16}, "u32": {0, 32}, "u64": {0, 64}, "uint": {0, 64},
	"i8": {1, 8}, "i16": {1, 16}, "i32": {1, 32}, "i64": {1, 64}, "int": {1, 64}}

// c22ValOf builds the Go value described by (kind, desc).
func c22ValOf(kind, desc string) (any, bool) {
	p := strings.SplitN(desc, ":", 2)
	if len(p) != 2 {
		return nil, false
	}
	tagc, arg := p[0], p[1]
	unhex := func(s string) ([]byte, bool) {
		if s == "-" {
			return []byte{}, true
		}
		b, err := hex.DecodeString(s)
		return b, err == nil
	}
	switch kind {
	case "nbytes":
		if v, ok := c22ValOf("bytes", desc); ok {
			return c22Digest(v.([]byte)), true
		}
		return nil, false
	case "nstr":
		if v, ok := c22ValOf("str", desc); ok {
			return c22Label(v.(string)), true
		}
		return nil, false
	case "ni32":
		if v, ok := c22ValOf("i32", desc); ok {
			return c22Count(v.(int32)), true
		}
		return nil, false
	}
	switch {
	case kind == "str" && tagc == "s":
		b, ok := unhex(arg)
		return string(b), ok
	case kind == "bool" && tagc == "b":
		return arg == "1", arg == "0" || arg == "1"
	case tagc == "n":
		w, isInt := c22IntKinds[kind]
		if !isInt {
			return nil, false
		}
		if w[0] == 0 {
			u, err := strconv.ParseUint(arg, 10, w[1])
			if err != nil {
				return nil, false
			}
			switch kind {
			case "u8":
				return uint8(u), true
			case "u16":
				return uint16(u), true
			case "u32":
				return uint32(u), true
			case "u64":
				return u, true
			}
			return uint(u), true
		}
		i, err := strconv.ParseInt(arg, 10, w[1])
		if err != nil {
			return nil, false
		}
		switch kind {
		case "i8":
			return int8(i), true
		case "i16":
			return int16(i), true
		case "i32":
			return int32(i), true
		case "i64":
			return i, true
		}
		return int(i), true
	case kind == "f32" && tagc == "f":
		u, err := strconv.ParseUint(arg, 10, 32)
		return math.Float32frombits(uint32(u)), err == nil
	case kind == "f64" && tagc == "f":
		u, err := strconv.ParseUint(arg, 10, 64)
		return math.Float64frombits(u), err == nil
	case kind == "bytes" && tagc == "y":
		if arg == "nil" {
			return []byte(nil), true
		}
		b, ok := unhex(arg)
		return b, ok
	case tagc == "c":
		n := -1
		if arg != "nil" {
			var err error
			if n, err = strconv.Atoi(arg); err != nil || n < 0 || n > 1000 {
				return nil, false
			}
		}
		switch kind {
		case "strs":
			if n < 0 {
				return []string(nil), true
			}
			s := make([]string, n)
			for i := range s {
				s[i] = "e" + strconv.Itoa(i)
			}
			return s, true
		case "i64s":
			if n < 0 {
				return []int64(nil), true
			}
			s := make([]int64, n)
			for i := range s {
				s[i] = int64(i) - 1
			}
			return s, true
		case "u32s":
			if n < 0 {
				return []uint32(nil), true
			}
			s := make([]uint32, n)
			for i := range s {
				s[i] = uint32(i) * 7
			}
			return s, true
		case "map":
			if n < 0 {
				return map[string]int(nil), true
			}
			m := make(map[string]int, n)
			for i := 0; i < n; i++ {
				m["k"+strconv.Itoa(i)] = i
			}
			return m, true
		}
	case tagc == "p":
		switch kind + ":" + arg {
		case "pstr:nil":
			return (*string)(nil), true
		case "pstr:z":
			return c22Ptr(""), true
		case "pstr:x":
			return c22Ptr("x"), true
		case "pint:nil":
			return (*int)(nil), true
		case "pint:z":
			return c22Ptr(0), true
		case "pint:x":
			return c22Ptr(-5), true
		case "pstruct:nil":
			return (*c22Inner)(nil), true
		case "pstruct:z":
			return &c22Inner{}, true
		case "pstruct:x":
			return &c22Inner{A: 3, B: "b"}, true
		}
	case kind == "time" && tagc == "t":
		if arg == "zero" {
			return time.Time{}, true
		}
		q := strings.Split(arg, ":")
		if len(q) != 3 {
			return nil, false
		}
		sec, e1 := strconv.ParseInt(q[0], 10, 64)
		nsec, e2 := strconv.ParseInt(q[1], 10, 64)
		off, e3 := strconv.Atoi(q[2])
		if e1 != nil || e2 != nil || e3 != nil || nsec < 0 || nsec > 999999999 {
			return nil, false
		}
		t := time.Unix(sec, nsec).UTC()
		if off != 0 {
			t = t.In(time.FixedZone("z", off))
		}
		return t, true
	case kind == "struct" && tagc == "r":
		if arg == "0" {
			return c22Inner{}, true
		}
		return c22Inner{A: 3, B: "b"}, arg == "1"
	case kind == "arr" && tagc == "r":
		if arg == "0" {
			return [2]int{}, true
		}
		return [2]int{1, 2}, arg == "1"
	}
	return nil, false
}

// c22ValCmp: 0 same, 1 nil-vs-empty only, 2 different
func c22ValCmp(a, b any) int {
	switch x := a.(type) {
	case float32:
		y := b.(float32)
		// a NaN reads back as a NaN: its payload / signalling bit is not part of the value (the
		// float32 → float64 → float32 hops of the wire format quiet a signalling NaN)
		if math.Float32bits(x) == math.Float32bits(y) || (x != x && y != y) {
			return 0
		}
		return 2
	case float64:
		y := b.(float64)
		if math.Float64bits(x) == math.Float64bits(y) || (x != x && y != y) {
			return 0
		}
		return 2
	case time.Time:
		y := b.(time.Time)
		if x.Equal(y) && x.IsZero() == y.IsZero() {
			return 0
		}
		return 2
	}
	if reflect.DeepEqual(a, b) {
		return 0
	}
	va, vb := reflect.ValueOf(a), reflect.ValueOf(b)
	if (va.Kind() == reflect.Slice || va.Kind() == reflect.Map) && va.Len() == 0 && vb.Len() == 0 {
		return 1
	}
	return 2
}

// c22Val: slot v (catalog value), b (catalog map-body field), p (profile field). desc2 != "" saves a second
// value over the first one before reading.
func c22Val(sdk *miscSDK, idx int, enc, slot, kind, om, desc, desc2 string) (out string) {
	defer func() {
		if r := recover(); r != nil {
			fmt.Fprintf(os.Stderr, "c22 val %s %s %s: panic %v\n", slot, kind, desc, r)
			out = "panic"
		}
	}()
	val, ok := c22ValOf(kind, desc)
	final := val
	var val2 any
	if desc2 != "" {
		var ok2 bool
		val2, ok2 = c22ValOf(kind, desc2)
		ok = ok && ok2
		final = val2
	}
	modes := map[string]string{"0": "", "1": "omitempty", "n": "", "o": "omitempty", "d": "omitempty,deletable", "x": "deletable"}
	opt, okMode := modes[om]
	if !ok || (slot != "v" && slot != "b" && slot != "p") || !okMode || (slot != "p" && om != "0" && om != "1") {
		return "bad-op"
	}
	tag := map[string]string{"v": "value", "b": "Fld", "p": ""}[slot]
	if opt != "" {
		if tag != "" {
			tag += ","
		}
		tag += opt
	}
	var fields []reflect.StructField
	xi := 1
	switch slot {
	case "p":
		xf := reflect.StructField{Name: "X", Type: reflect.TypeOf(val)}
		if tag != "" {
			xf = c22Field("X", reflect.TypeOf(val), tag)
		}
		fields = []reflect.StructField{xf, {Name: "Zz", Type: c22StringType}}
		xi = 0
	case "b":
		// a second body field keeps the model a map-body catalog even when X is omitted
		fields = []reflect.StructField{c22Field("K", c22StringType, "key"), c22Field("X", reflect.TypeOf(val), tag), c22Field("Zz", c22StringType, "Zz")}
	default:
		fields = []reflect.StructField{c22Field("K", c22StringType, "key"), c22Field("X", reflect.TypeOf(val), tag)}
	}
	st := reflect.StructOf(fields)
	build := func(v any) reflect.Value {
		m := reflect.New(st)
		if slot != "p" {
			m.Elem().Field(0).SetString("k1")
		}
		m.Elem().Field(xi).Set(reflect.ValueOf(v))
		if slot != "v" {
			m.Elem().Field(xi + 1).SetString("zv")
		}
		return m
	}
	ctx, cancel := context.WithTimeout(context.Background(), HxScale(30*time.Second))
	defer cancel()
	// enc "m": a sanctuary registered with EncodingMsgPack (complex values and map bodies travel as msgpack instead of gob)
	swamp := sdkname.New().Sanctuary("c22" + enc).Realm("val" + slot).Swamp("s" + strconv.Itoa(idx))
	save := func(v any) error {
		if slot == "p" {
			return sdk.H.ProfileSave(ctx, swamp, build(v).Interface())
		}
		_, err := sdk.H.CatalogSave(ctx, swamp, build(v).Interface())
		return err
	}
	defer func() { _ = sdk.H.Destroy(context.Background(), swamp) }()
	if err := save(val); err != nil {
		fmt.Fprintf(os.Stderr, "c22 val %s %s %s: save: %v\n", slot, kind, desc, err)
		if miscIsTimeout(err) {
			return "timeout"
		}
		return "err"
	}
	if desc2 != "" {
		if err := save(val2); err != nil {
			fmt.Fprintf(os.Stderr, "c22 val %s %s %s: second save: %v\n", slot, kind, desc2, err)
			if miscIsTimeout(err) {
				return "timeout"
			}
			return "err"
		}
	}
	back := reflect.New(st)
	var err error
	if slot == "p" {
		err = sdk.H.ProfileRead(ctx, swamp, back.Interface())
	} else {
		err = sdk.H.CatalogRead(ctx, swamp, "k1", back.Interface())
	}
	if err != nil {
		fmt.Fprintf(os.Stderr, "c22 val %s %s %s: read: %v\n", slot, kind, desc, err)
		if miscIsTimeout(err) {
			return "timeout"
		}
		return "err"
	}
	if slot != "v" && back.Elem().Field(xi+1).String() != "zv" {
		return "diff"
	}
	switch c22ValCmp(final, back.Elem().Field(xi).Interface()) {
	case 0:
		return "same"
	case 1:
		return "nilempty"
	}
	if desc2 != "" && c22ValCmp(val, back.Elem().Field(xi).Interface()) == 0 {
		return "stale" // the FIRST value came back: the second save did not replace it
	}
	fmt.Fprintf(os.Stderr, "c22 val %s %s %s %s om=%s: saved %#v read %#v\n", slot, kind, desc, desc2, om, final, back.Elem().Field(xi).Interface())
	return "diff"
}

// ---- generator -------------------------------------------------------------------------------

var c22ValCorpus = map[string][]string{
	"str":  {"s:-", "s:61", "s:68c3a96c6c6f", "s:00ff", "s:" + strings.Repeat("78", 1000)},
	"bool": {"b:0", "b:1"},
	"u8":   {"n:0", "n:1", "n:255"}, "u16": {"n:0", "n:256", "n:65535"}, "u32": {"n:0", "n:65536", "n:4294967295"},
	"u64": {"n:0", "n:4294967296", "n:18446744073709551615"}, "uint": {"n:0", "n:7", "n:18446744073709551615"},
	"i8": {"n:0", "n:-1", "n:-128", "n:127"}, "i16": {"n:0", "n:-1", "n:-32768", "n:32767"},
	"i32": {"n:0", "n:-1", "n:-2147483648", "n:2147483647"},
	"i64": {"n:0", "n:-1", "n:-9223372036854775808", "n:9223372036854775807"},
	"int": {"n:0", "n:-1", "n:-9223372036854775808", "n:9223372036854775807"},
	// 0, -0, 1.5, max, smallest denormal, +Inf, NaN
	"f32":   {"f:0", "f:2147483648", "f:1069547520", "f:2139095039", "f:1", "f:2139095040", "f:2143289344"},
	"f64":   {"f:0", "f:9223372036854775808", "f:4609434218613702656", "f:9218868437227405311", "f:1", "f:18442240474082181120", "f:9221120237041090561"},
	"bytes": {"y:nil", "y:-", "y:00", "y:010203", "y:" + strings.Repeat("7a", 300)},
	"strs":  {"c:nil", "c:0", "c:1", "c:3"}, "i64s": {"c:nil", "c:0", "c:3"}, "u32s": {"c:nil", "c:0", "c:3"},
	"map":  {"c:nil", "c:0", "c:2"},
	"pstr": {"p:nil", "p:z", "p:x"}, "pint": {"p:nil", "p:z", "p:x"}, "pstruct": {"p:nil", "p:z", "p:x"},
	"time":   {"t:zero", "t:1928117106:0:0", "t:1928117106:789000000:0", "t:1928117106:0:3600", "t:-315619200:0:0", "t:0:0:0", "t:0:1:0"},
	"struct": {"r:0", "r:1"},
	"arr":    {"r:0", "r:1"},
	"nbytes": {"y:nil", "y:-", "y:010203"},
	"nstr":   {"s:-", "s:6162"},
	"ni32":   {"n:0", "n:-7", "n:2147483647"},
}

var c22ValKinds = []string{"str", "bool", "u8", "u16", "u32", "u64", "uint", "i8", "i16", "i32", "i64", "int", "f32", "f64", "bytes",
	"strs", "i64s", "u32s", "map", "pstr", "pint", "pstruct", "time", "struct", "arr", "nbytes", "nstr", "ni32"}

func c22RandDesc(rng *rand.Rand, kind string) string {
	if w, ok := c22IntKinds[kind]; ok {
		u := rng.Uint64() >> uint(rng.Intn(64))
		if w[1] < 64 {
			u &= 1<<uint(w[1]) - 1
		}
		if w[0] == 0 {
			return "n:" + strconv.FormatUint(u, 10)
		}
		// reinterpret the low bits as a signed number of that width
		s := int64(u<<uint(64-w[1])) >> uint(64-w[1])
		return "n:" + strconv.FormatInt(s, 10)
	}
	switch kind {
	case "str":
		b := make([]byte, rng.Intn(12))
		for i := range b {
			b[i] = byte(0x20 + rng.Intn(0x5f))
		}
		if rng.Intn(6) == 0 {
			b = append(b, []byte("é✓")...)
		}
		if len(b) == 0 {
			return "s:-"
		}
		return "s:" + hex.EncodeToString(b)
	case "f32":
		return "f:" + strconv.FormatUint(uint64(rng.Uint32()), 10)
	case "f64":
		return "f:" + strconv.FormatUint(rng.Uint64(), 10)
	case "nbytes", "nstr", "ni32":
		return c22RandDesc(rng, map[string]string{"nbytes": "bytes", "nstr": "str", "ni32": "i32"}[kind])
	case "bytes":
		b := make([]byte, 1+rng.Intn(20))
		rng.Read(b)
		return "y:" + hex.EncodeToString(b)
	case "strs", "i64s", "u32s", "map":
		return "c:" + strconv.Itoa(1+rng.Intn(6))
	case "time":
		return fmt.Sprintf("t:%d:%d:%d", rng.Int63n(4102444800*2)-4102444800, []int64{0, 0, 1, 500000000, 999999999}[rng.Intn(5)], []int{0, 0, 3600, -18000}[rng.Intn(4)])
	}
	c := c22ValCorpus[kind]
	return c[rng.Intn(len(c))]
}

func c22GenVals(rng *rand.Rand, tier string, emit func(string)) {
	for _, n := range c22ShapeNames {
		emit("shape " + n)
	}
	// profile field overwritten by an empty value under every tag mode: n none, o omitempty, d omitempty,deletable, x deletable
	for _, k := range c22ValKinds {
		c := c22ValCorpus[k]
		for _, mode := range []string{"n", "o", "d", "x"} {
			emit(fmt.Sprintf("pupd %s %s %s %s", k, mode, c[len(c)-1], c[0]))
		}
	}
	for _, slot := range []string{"v", "b", "p"} {
		for _, k := range c22ValKinds {
			for _, d := range c22ValCorpus[k] {
				for _, om := range []string{"0", "1"} {
					emit(fmt.Sprintf("val %s %s %s %s", slot, k, om, d))
				}
			}
		}
	}
	// overwrite: a non-zero value, then every corpus value of the kind (zero values included), then read
	for _, slot := range []string{"v", "b", "p"} {
		for _, k := range c22ValKinds {
			c := c22ValCorpus[k]
			first := c[len(c)-1]
			for _, d := range c {
				for _, om := range []string{"0", "1"} {
					if slot == "p" && om == "1" {
						continue // a profile field that is omitted keeps its stored value by design (use `deletable`)
					}
					emit(fmt.Sprintf("upd %s %s %s %s %s", slot, k, om, first, d))
				}
			}
		}
	}
	n := 300
	if tier == "thorough" {
		n = 6000
	}
	for i := 0; i < n; i++ {
		k := c22ValKinds[rng.Intn(len(c22ValKinds))]
		emit(fmt.Sprintf("val %s %s %d %s", []string{"v", "b", "p"}[rng.Intn(3)], k, rng.Intn(2), c22RandDesc(rng, k)))
	}
}
