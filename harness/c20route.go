package main

// Domain C20, op `routes N FROM-TO,FROM-TO,…`: the REAL SDK client (sdk/go/hydraidego/client) is
// given one Server entry per range — entry j points at the j-th of six local TLS stub servers (real
// TCP on loopback, mutual TLS with a throw-away CA, only Heartbeat implemented) — and Connect()
// builds its routing table.  For every island 1..N a swamp name hashing to that island is looked up
// with GetServiceClientAndHost.  Reply: `1:j,2:j,…` with j = index of the entry whose host answered,
// `-` when the client has no route; `timeout` when the client could not connect to the local stubs within the budget.  When some island of 1..N has no route the reply ends with
// ` call=err|panic|ok`: what an SDK call (IsSwampExist) for a name of the first such island does.

import (
	"context"
	"crypto/ecdsa"
	"crypto/elliptic"
	crand "crypto/rand"
	"crypto/tls"
	"crypto/x509"
	"crypto/x509/pkix"
	"encoding/pem"
	"fmt"
	"math/big"
	"net"
	"os"
	"path/filepath"
	"strconv"
	"strings"
	"time"

	"github.com/hydraide/hydraide/sdk/go/hydraidego/v3"
	sdkclient "github.com/hydraide/hydraide/sdk/go/hydraidego/v3/client"
	"github.com/hydraide/hydraide/sdk/go/hydraidego/v3/hydraidepbgo"
	sdkname "github.com/hydraide/hydraide/sdk/go/hydraidego/v3/name"
	"google.golang.org/grpc"
	"google.golang.org/grpc/credentials"
)

const c20Stubs = 6

type c20Stub struct {
	hydraidepbgo.UnimplementedHydraideServiceServer
}

func (c20Stub) Heartbeat(_ context.Context, in *hydraidepbgo.HeartbeatRequest) (*hydraidepbgo.HeartbeatResponse, error) {
	return &hydraidepbgo.HeartbeatResponse{Pong: in.GetPing()}, nil
}

type c20Farm struct {
	dir     string
	hosts   []string
	servers []*grpc.Server
}

func c20WritePEM(path, typ string, der []byte) error {
	return os.WriteFile(path, pem.EncodeToMemory(&pem.Block{Type: typ, Bytes: der}), 0o600)
}

func c20NewFarm() (*c20Farm, error) {
	dir, err := os.MkdirTemp("", "hv-c20-tls-")
	if err != nil {
		return nil, err
	}
	f := &c20Farm{dir: dir}
	caKey, _ := ecdsa.GenerateKey(elliptic.P256(), crand.Reader)
	caTpl := &x509.Certificate{SerialNumber: big.NewInt(1), Subject: pkix.Name{CommonName: "hv-ca"}, NotBefore: time.Now().Add(-time.Hour),
		NotAfter: time.Now().Add(24 * time.Hour), IsCA: true, KeyUsage: x509.KeyUsageCertSign | x509.KeyUsageDigitalSignature, BasicConstraintsValid: true}
	caDER, err := x509.CreateCertificate(crand.Reader, caTpl, caTpl, &caKey.PublicKey, caKey)
	if err != nil {
		return nil, err
	}
	caCert, _ := x509.ParseCertificate(caDER)
	leaf := func(serial int64, cn string, server bool) (certDER []byte, keyDER []byte, err error) {
		k, _ := ecdsa.GenerateKey(elliptic.P256(), crand.Reader)
		tpl := &x509.Certificate{SerialNumber: big.NewInt(serial), Subject: pkix.Name{CommonName: cn}, NotBefore: time.Now().Add(-time.Hour),
			NotAfter: time.Now().Add(24 * time.Hour), KeyUsage: x509.KeyUsageDigitalSignature}
		if server {
			tpl.ExtKeyUsage = []x509.ExtKeyUsage{x509.ExtKeyUsageServerAuth}
			tpl.DNSNames = []string{"localhost"}
			tpl.IPAddresses = []net.IP{net.ParseIP("127.0.0.1")}
		} else {
			tpl.ExtKeyUsage = []x509.ExtKeyUsage{x509.ExtKeyUsageClientAuth}
		}
		certDER, err = x509.CreateCertificate(crand.Reader, tpl, caCert, &k.PublicKey, caKey)
		if err != nil {
			return
		}
		keyDER, err = x509.MarshalECPrivateKey(k)
		return
	}
	srvCert, srvKey, err := leaf(2, "localhost", true)
	if err != nil {
		return nil, err
	}
	cliCert, cliKey, err := leaf(3, "hv-client", false)
	if err != nil {
		return nil, err
	}
	_ = c20WritePEM(filepath.Join(dir, "ca.crt"), "CERTIFICATE", caDER)
	_ = c20WritePEM(filepath.Join(dir, "client.crt"), "CERTIFICATE", cliCert)
	_ = c20WritePEM(filepath.Join(dir, "client.key"), "EC PRIVATE KEY", cliKey)
	pool := x509.NewCertPool()
	pool.AddCert(caCert)
	pair, err := tls.X509KeyPair(pem.EncodeToMemory(&pem.Block{Type: "CERTIFICATE", Bytes: srvCert}),
		pem.EncodeToMemory(&pem.Block{Type: "EC PRIVATE KEY", Bytes: srvKey}))
	if err != nil {
		return nil, err
	}
	for i := 0; i < c20Stubs; i++ {
		lis, err := net.Listen("tcp", "127.0.0.1:0")
		if err != nil {
			return nil, err
		}
		s := grpc.NewServer(grpc.Creds(credentials.NewTLS(&tls.Config{Certificates: []tls.Certificate{pair}, ClientCAs: pool,
			ClientAuth: tls.RequireAndVerifyClientCert, MinVersion: tls.VersionTLS13})))
		hydraidepbgo.RegisterHydraideServiceServer(s, c20Stub{})
		go func() { _ = s.Serve(lis) }()
		f.servers = append(f.servers, s)
		f.hosts = append(f.hosts, "localhost:"+strconv.Itoa(lis.Addr().(*net.TCPAddr).Port))
	}
	return f, nil
}

func (f *c20Farm) Stop() {
	for _, s := range f.servers {
		s.Stop()
	}
	_ = os.RemoveAll(f.dir)
}

// c20NameFor finds a swamp name whose island (for N islands) is `island`.
func c20NameFor(N, island uint64) sdkname.Name {
	for i := 0; ; i++ {
		n := sdkname.New().Sanctuary("route").Realm("r").Swamp("n" + strconv.Itoa(i))
		if n.GetIslandID(N) == island {
			return sdkname.New().Sanctuary("route").Realm("r").Swamp("n" + strconv.Itoa(i))
		}
	}
}

func c20Routes(farm *c20Farm, nStr, ranges string) (out string) {
	defer func() {
		if r := recover(); r != nil {
			fmt.Fprintln(os.Stderr, "c20 routes: panic", r)
			out = "panic"
		}
	}()
	N, err := strconv.ParseUint(nStr, 10, 64)
	if err != nil || N == 0 || N > 64 {
		return "bad-op"
	}
	var servers []*sdkclient.Server
	hostIdx := map[string]int{}
	if ranges != "-" {
		for j, r := range strings.Split(ranges, ",") {
			p := strings.Split(r, "-")
			if len(p) != 2 || j >= c20Stubs {
				return "bad-op"
			}
			from, e1 := strconv.ParseUint(p[0], 10, 64)
			to, e2 := strconv.ParseUint(p[1], 10, 64)
			if e1 != nil || e2 != nil || to > 200 {
				return "bad-op"
			}
			servers = append(servers, &sdkclient.Server{Host: farm.hosts[j], FromIsland: from, ToIsland: to,
				CACrtPath: filepath.Join(farm.dir, "ca.crt"), ClientCrtPath: filepath.Join(farm.dir, "client.crt"), ClientKeyPath: filepath.Join(farm.dir, "client.key")})
			hostIdx[farm.hosts[j]] = j
		}
	}
	// Connect has its own fixed 5 s heartbeat deadline per server; on a loaded machine the TLS handshakes of six
	// connections can exceed it.  The stub servers are local and always up, so a failed Connect is an environment
	// problem: retry within a generous budget (early exit on success) and answer `timeout`, never `err`.
	var cl sdkclient.Client
	deadline := time.Now().Add(HxScale(60 * time.Second))
	for attempt := 0; ; attempt++ {
		cl = sdkclient.New(servers, N, 4<<20)
		err := cl.Connect(false)
		if err == nil {
			break
		}
		cl.CloseConnection()
		fmt.Fprintf(os.Stderr, "c20 routes: connect attempt %d: %v\n", attempt, err)
		if time.Now().After(deadline) {
			return "timeout"
		}
		time.Sleep(200 * time.Millisecond)
	}
	defer cl.CloseConnection()
	var parts []string
	for i := uint64(1); i <= N; i++ {
		sc := cl.GetServiceClientAndHost(c20NameFor(N, i))
		if sc == nil || sc.Host == "" {
			parts = append(parts, fmt.Sprintf("%d:-", i))
		} else {
			parts = append(parts, fmt.Sprintf("%d:%d", i, hostIdx[sc.Host]))
		}
	}
	// what does a CALL on an island without a route do: an error, or a nil-pointer panic in the SDK?
	call := ""
	for i := uint64(1); i <= N; i++ {
		if sc := cl.GetServiceClientAndHost(c20NameFor(N, i)); sc == nil || sc.Host == "" {
			call = " call=" + c20Try(func() string {
				ctx, cancel := context.WithTimeout(context.Background(), HxScale(20*time.Second))
				defer cancel()
				if _, err := hydraidego.New(cl).IsSwampExist(ctx, c20NameFor(N, i)); err != nil {
					return "err"
				}
				return "ok"
			})
			break
		}
	}
	return strings.Join(parts, ",") + call
}
