package main

// Domain C01: the real v2 FileWriter / FileReader on generated histories.
//
// ops:   case N
//        cfg BS NAMESPEC                     new file in a fresh path, NewFileWriterWithName(path, BS, name)
//        w OP KEYSPEC DATASPEC               WriteEntry;  SPEC = x:HEX | g:LEN:SEED   (x:- is empty)
//        wn N KLEN DLEN START                N inserts, key = g:KLEN:(START+i), data = g:DLEN:(START+i)
//        wb N KLEN DLEN START                one WriteEntries call with N generated inserts
//        wk N DLEN START                     N inserts with distinct 4-byte counter keys (START+i, little endian)
//        stalehdr                            (writer closed) zero the header's EntryCount/BlockCount in place: the crash
//                                            window between the block append and the header rewrite of flushLocked
//        ztail N                             (writer closed) append N zero bytes: the zero-filled tail of a power loss
//        compact                             (writer closed) v2.NewCompactor(path, bs, 0).ForceCompact()
//        flush | sync | close | reopen
//        load                                NewFileReader(path).LoadIndex()
//        raw HEX                             HEX = the file's bytes as the *generator's* run of the real
//                                            writer left them; both sides parse them with their reader
//        ccfg BS NAMESPEC | cw KEYSPEC CONTENTSPEC | cd KEYSPEC | cclose | cload
//        cwb K|KEYSPEC|CONTENTSPEC;…          ONE Write call with several treasures; K = i (no file name → INSERT),
//                                            u (file name set → UPDATE), d (marked deleted → DELETE)
//                                            the same through the chronicler: Write([]Treasure) picks INSERT/DELETE,
//                                            Close, and a *new* chronicler's Load into a beacon (reply cidx N:CRC)
// reply: ok | rej KIND
//        idx N:CRC name=HEX [k=v,…]          | err KIND
//        raw v=V ec=N bc=N name=HEX blocks=c1,c2,… ents=N:CRC idx=N:CRC det=ok pred=ok    (or …=err:KIND)

import (
	"bufio"
	"bytes"
	"encoding/binary"
	"encoding/hex"
	"errors"
	"fmt"
	"hash/crc32"
	"io"
	"math/rand"
	"os"
	"path/filepath"
	"sort"
	"strconv"
	"strings"

	"github.com/golang/snappy"
	"github.com/hydraide/hydraide/app/core/hydra/swamp/beacon"
	"github.com/hydraide/hydraide/app/core/hydra/swamp/chronicler"
	v2 "github.com/hydraide/hydraide/app/core/hydra/swamp/chronicler/v2"
	"github.com/hydraide/hydraide/app/core/hydra/swamp/treasure"
	"github.com/hydraide/hydraide/app/core/hydra/swamp/treasure/guard"
)

func init() { Register("C01", Domain{Gen: c01Gen, Run: c01Run}) }

// ---------------------------------------------------------------- shared helpers (C01, C04, C29)

func c01Hex(b []byte) string {
	if len(b) == 0 {
		return "-"
	}
	return hex.EncodeToString(b)
}

func c01Unhex(s string) ([]byte, bool) {
	if s == "-" {
		return nil, true
	}
	b, err := hex.DecodeString(s)
	return b, err == nil
}

func c01GenBytes(n, seed int) []byte {
	b := make([]byte, n)
	for i := range b {
		b[i] = byte((seed + i*131 + (i/8)*17) % 256)
	}
	return b
}

func c01Spec(s string) ([]byte, bool) {
	f := strings.Split(s, ":")
	switch {
	case len(f) == 2 && f[0] == "x":
		return c01Unhex(f[1])
	case len(f) == 3 && f[0] == "g":
		n, e1 := strconv.Atoi(f[1])
		sd, e2 := strconv.Atoi(f[2])
		if e1 != nil || e2 != nil || n < 0 {
			return nil, false
		}
		return c01GenBytes(n, sd), true
	}
	return nil, false
}

func c01ErrKind(err error, opening bool) string {
	switch {
	case err == nil:
		return "none"
	case errors.Is(err, v2.ErrInvalidMagic):
		return "magic"
	case errors.Is(err, v2.ErrUnsupportedVer):
		return "version"
	case errors.Is(err, v2.ErrCorruptedBlock):
		return "crc"
	case errors.Is(err, v2.ErrCorruptedEntry):
		return "entry"
	case errors.Is(err, v2.ErrEmptyKey):
		return "emptykey"
	case errors.Is(err, io.ErrUnexpectedEOF) || errors.Is(err, io.EOF):
		if opening {
			return "short"
		}
		return "ueof"
	case errors.Is(err, snappy.ErrCorrupt) || errors.Is(err, snappy.ErrTooLarge) || errors.Is(err, snappy.ErrUnsupported) ||
		strings.HasPrefix(err.Error(), "snappy:"):
		return "snappy"
	case errors.Is(err, os.ErrNotExist):
		return "nofile"
	}
	return "other:" + strings.ReplaceAll(err.Error(), " ", "_")
}

func c01IndexDigest(idx map[string][]byte) (string, string) {
	keys := make([]string, 0, len(idx))
	for k := range idx {
		keys = append(keys, k)
	}
	sort.Strings(keys)
	h := crc32.NewIEEE()
	var l [4]byte
	total := 0
	for _, k := range keys {
		binary.LittleEndian.PutUint32(l[:], uint32(len(k)))
		h.Write(l[:])
		h.Write([]byte(k))
		binary.LittleEndian.PutUint32(l[:], uint32(len(idx[k])))
		h.Write(l[:])
		h.Write(idx[k])
		total += len(k) + len(idx[k])
	}
	listing := ""
	if total <= 96 && len(keys) <= 8 {
		var parts []string
		for _, k := range keys {
			parts = append(parts, c01Hex([]byte(k))+"="+c01Hex(idx[k]))
		}
		listing = " " + strings.Join(parts, ",")
	}
	return fmt.Sprintf("%d:%08x", len(keys), h.Sum32()), listing
}

func c01EntriesDigest(es []v2.Entry) string {
	h := crc32.NewIEEE()
	var l [4]byte
	for _, e := range es {
		h.Write([]byte{e.Operation})
		binary.LittleEndian.PutUint32(l[:], uint32(len(e.Key)))
		h.Write(l[:])
		h.Write([]byte(e.Key))
		binary.LittleEndian.PutUint32(l[:], uint32(len(e.Data)))
		h.Write(l[:])
		h.Write(e.Data)
	}
	return fmt.Sprintf("%d:%08x", len(es), h.Sum32())
}

// c01LoadLine: what LoadIndex says about the file at path.
func c01LoadLine(path string) string {
	fr, err := v2.NewFileReader(path)
	if err != nil {
		return "err " + c01ErrKind(err, true)
	}
	defer fr.Close()
	idx, name, err := fr.LoadIndex()
	if err != nil {
		return "err " + c01ErrKind(err, false)
	}
	d, listing := c01IndexDigest(idx)
	return fmt.Sprintf("idx %s name=%s%s", d, c01Hex([]byte(name)), listing)
}

// c01RawLine: structure of a file as the real reader sees it.
func c01RawLine(path string) string {
	fr, err := v2.NewFileReader(path)
	if err != nil {
		return "raw err:" + c01ErrKind(err, true)
	}
	defer fr.Close()
	h := fr.GetHeader()
	var sb strings.Builder
	fmt.Fprintf(&sb, "raw v=%d ec=%d bc=%d name=%s", h.Version, h.EntryCount, h.BlockCount, c01Hex([]byte(fr.GetSwampName())))
	blocks, err := fr.ReadAllBlocks()
	if err != nil {
		fmt.Fprintf(&sb, " blocks=err:%s ents=err:%s", c01ErrKind(err, false), c01ErrKind(err, false))
	} else {
		var counts []string
		var all []v2.Entry
		for _, b := range blocks {
			counts = append(counts, strconv.Itoa(len(b.Entries)))
			all = append(all, b.Entries...)
		}
		if len(counts) == 0 {
			counts = []string{"-"}
		}
		fmt.Fprintf(&sb, " blocks=%s ents=%s", strings.Join(counts, ","), c01EntriesDigest(all))
	}
	idx, _, err := fr.LoadIndex()
	if err != nil {
		fmt.Fprintf(&sb, " idx=err:%s", c01ErrKind(err, false))
	} else {
		d, _ := c01IndexDigest(idx)
		fmt.Fprintf(&sb, " idx=%s", d)
	}
	return sb.String()
}

// ---------------------------------------------------------------- the writer under test

type c01Sess struct {
	dir    string
	path   string
	bs     int
	name   string
	fw     *v2.FileWriter
	nfile  int
	exists bool
}

func (s *c01Sess) cfg(bs int, name []byte) string {
	if s.fw != nil {
		_ = s.fw.Close()
		s.fw = nil
	}
	s.nfile++
	s.path = filepath.Join(s.dir, fmt.Sprintf("f%06d.hyd", s.nfile))
	s.bs, s.name = bs, string(name)
	fw, err := v2.NewFileWriterWithName(s.path, bs, s.name)
	if err != nil {
		_, statErr := os.Stat(s.path)
		s.exists = statErr == nil
		if strings.Contains(err.Error(), "too long") {
			return "rej longname"
		}
		return "rej other:" + strings.ReplaceAll(err.Error(), " ", "_")
	}
	s.fw, s.exists = fw, true
	return "ok"
}

func c01WriteErr(err error) string {
	switch {
	case err == nil:
		return "ok"
	case errors.Is(err, v2.ErrFileClosed):
		return "rej closed"
	case errors.Is(err, v2.ErrEmptyKey):
		return "rej emptykey"
	case strings.Contains(err.Error(), "too long"):
		return "rej longkey"
	}
	return "rej other:" + strings.ReplaceAll(err.Error(), " ", "_")
}

func (s *c01Sess) write(op uint8, key, data []byte) string {
	if s.fw == nil {
		return "rej closed"
	}
	return c01WriteErr(s.fw.WriteEntry(v2.Entry{Operation: op, Key: string(key), Data: data}))
}

func (s *c01Sess) ctl(verb string) string {
	switch verb {
	case "flush":
		if s.fw == nil {
			return "rej closed"
		}
		return c01WriteErr(s.fw.Flush())
	case "sync":
		if s.fw == nil {
			return "rej closed"
		}
		return c01WriteErr(s.fw.Sync())
	case "close":
		if s.fw == nil {
			return "ok"
		}
		err := s.fw.Close()
		s.fw = nil
		return c01WriteErr(err)
	case "reopen":
		if s.fw != nil {
			return "rej open"
		}
		if !s.exists {
			return "rej header"
		}
		fw, err := v2.NewFileWriterWithName(s.path, s.bs, s.name)
		if err != nil {
			return "rej header"
		}
		s.fw = fw
		return "ok"
	}
	return "bad-op"
}

// apply executes one op line against the real writer; the reply for everything but `raw`.
func (s *c01Sess) apply(f []string) string {
	switch {
	case f[0] == "cfg" && len(f) == 3:
		bs, err := strconv.Atoi(f[1])
		name, ok := c01Spec(f[2])
		if err != nil || !ok {
			return "bad-op"
		}
		return s.cfg(bs, name)
	case f[0] == "w" && len(f) == 4:
		op, err := strconv.Atoi(f[1])
		k, ok1 := c01Spec(f[2])
		d, ok2 := c01Spec(f[3])
		if err != nil || !ok1 || !ok2 || op < 0 || op > 255 {
			return "bad-op"
		}
		return s.write(uint8(op), k, d)
	case f[0] == "wn" && len(f) == 5:
		n, e1 := strconv.Atoi(f[1])
		kl, e2 := strconv.Atoi(f[2])
		dl, e3 := strconv.Atoi(f[3])
		st, e4 := strconv.Atoi(f[4])
		if e1 != nil || e2 != nil || e3 != nil || e4 != nil {
			return "bad-op"
		}
		okc := 0
		last := "ok"
		for i := 0; i < n; i++ {
			r := s.write(1, c01GenBytes(kl, st+i), c01GenBytes(dl, st+i))
			if r == "ok" {
				okc++
			} else {
				last = r
			}
		}
		if okc == n {
			return "ok"
		}
		return fmt.Sprintf("%s after=%d", last, okc)
	case f[0] == "wb" && len(f) == 5:
		n, e1 := strconv.Atoi(f[1])
		kl, e2 := strconv.Atoi(f[2])
		dl, e3 := strconv.Atoi(f[3])
		st, e4 := strconv.Atoi(f[4])
		if e1 != nil || e2 != nil || e3 != nil || e4 != nil {
			return "bad-op"
		}
		if s.fw == nil {
			return "rej closed"
		}
		batch := make([]v2.Entry, n)
		for i := range batch {
			batch[i] = v2.Entry{Operation: 1, Key: string(c01GenBytes(kl, st+i)), Data: c01GenBytes(dl, st+i)}
		}
		return c01WriteErr(s.fw.WriteEntries(batch))
	case f[0] == "wk" && len(f) == 4:
		n, e1 := strconv.Atoi(f[1])
		dl, e2 := strconv.Atoi(f[2])
		st, e3 := strconv.Atoi(f[3])
		if e1 != nil || e2 != nil || e3 != nil {
			return "bad-op"
		}
		okc, last := 0, "ok"
		var k [4]byte
		for i := 0; i < n; i++ {
			binary.LittleEndian.PutUint32(k[:], uint32(st+i))
			r := s.write(1, k[:], c01GenBytes(dl, st+i))
			if r == "ok" {
				okc++
			} else {
				last = r
			}
		}
		if okc == n {
			return "ok"
		}
		return fmt.Sprintf("%s after=%d", last, okc)
	case len(f) == 1 && f[0] == "stalehdr":
		if s.fw != nil {
			return "rej open"
		}
		if !s.exists {
			return "rej header"
		}
		fh, err := os.OpenFile(s.path, os.O_RDWR, 0o644)
		if err != nil {
			return "rej header"
		}
		_, err = fh.WriteAt(make([]byte, 16), 28)
		_ = fh.Close()
		if err != nil {
			return "rej header"
		}
		return "ok"
	case len(f) == 2 && f[0] == "ztail":
		// (writer closed) N zero bytes behind the last block: what a power loss leaves when the file
		// size of an append reached the disk and its data did not
		n, err := strconv.Atoi(f[1])
		if err != nil || n < 0 || n > 1<<20 {
			return "bad-op"
		}
		if s.fw != nil {
			return "rej open"
		}
		if !s.exists {
			return "rej header"
		}
		fh, err := os.OpenFile(s.path, os.O_WRONLY|os.O_APPEND, 0o644)
		if err != nil {
			return "rej header"
		}
		_, err = fh.Write(make([]byte, n))
		_ = fh.Close()
		if err != nil {
			return "rej header"
		}
		return "ok"
	case len(f) == 1 && f[0] == "compact":
		if s.fw != nil {
			return "rej open"
		}
		if !s.exists {
			return "rej header"
		}
		res, err := v2.NewCompactor(s.path, s.bs, 0).ForceCompact()
		if err != nil {
			return "rej header"
		}
		if res == nil || !res.Compacted {
			return "skip"
		}
		return "ok"
	case len(f) == 1 && (f[0] == "flush" || f[0] == "sync" || f[0] == "close" || f[0] == "reopen"):
		return s.ctl(f[0])
	case len(f) == 1 && f[0] == "load":
		if !s.exists {
			return "err nofile"
		}
		return c01LoadLine(s.path)
	}
	return "bad-op"
}

// ---------------------------------------------------------------- the chronicler on top of the writer

type c01Chron struct {
	path string
	ch   chronicler.Chronicler
}

func (c *c01Chron) apply(dir string, n *int, f []string) string {
	switch {
	case f[0] == "ccfg" && len(f) == 3:
		bs, err := strconv.Atoi(f[1])
		name, ok := c01Spec(f[2])
		if err != nil || !ok {
			return "bad-op"
		}
		if c.ch != nil {
			_ = c.ch.Close()
		}
		*n++
		c.path = filepath.Join(dir, fmt.Sprintf("swamp%06d", *n))
		if bs == 0 {
			c.ch = chronicler.NewV2WithName(c.path, 10, string(name))
		} else {
			c.ch = chronicler.NewV2WithConfig(c.path, 10, bs, 0.3)
		}
		c.ch.CreateDirectoryIfNotExists()
		return "ok"
	case c.ch == nil:
		return "rej nochron"
	case f[0] == "cw" && len(f) == 3:
		k, ok1 := c01Spec(f[1])
		v, ok2 := c01Spec(f[2])
		if !ok1 || !ok2 {
			return "bad-op"
		}
		t := treasure.New(nil)
		g := t.StartTreasureGuard(false, guard.BodyAuthID)
		t.BodySetKey(g, string(k))
		t.SetContentString(g, string(v))
		t.ReleaseTreasureGuard(g)
		c.ch.Write([]treasure.Treasure{t})
		return "ok"
	case f[0] == "cd" && len(f) == 2:
		k, ok := c01Spec(f[1])
		if !ok {
			return "bad-op"
		}
		t := treasure.New(nil)
		g := t.StartTreasureGuard(false, guard.BodyAuthID)
		t.BodySetKey(g, string(k))
		t.BodySetForDeletion(g, "verif", true)
		t.ReleaseTreasureGuard(g)
		c.ch.Write([]treasure.Treasure{t})
		return "ok"
	case f[0] == "cwb" && len(f) == 2:
		var batch []treasure.Treasure
		for _, it := range strings.Split(f[1], ";") {
			p := strings.Split(it, "|")
			if len(p) != 3 {
				return "bad-op"
			}
			k, ok1 := c01Spec(p[1])
			v, ok2 := c01Spec(p[2])
			if !ok1 || !ok2 {
				return "bad-op"
			}
			t := treasure.New(nil)
			g := t.StartTreasureGuard(false, guard.BodyAuthID)
			t.BodySetKey(g, string(k))
			switch p[0] {
			case "i":
				t.SetContentString(g, string(v))
			case "u":
				t.SetContentString(g, string(v))
				t.BodySetFileName(g, c.path+".hyd")
			case "d":
				t.BodySetForDeletion(g, "verif", true)
			default:
				t.ReleaseTreasureGuard(g)
				return "bad-op"
			}
			t.ReleaseTreasureGuard(g)
			batch = append(batch, t)
		}
		c.ch.Write(batch)
		return "ok"
	case f[0] == "cclose" && len(f) == 1:
		if err := c.ch.Close(); err != nil {
			return "err close"
		}
		return "ok"
	case f[0] == "cload" && len(f) == 1:
		// an independent chronicler instance, as after a restart
		ld := chronicler.NewV2(c.path, 10)
		b := beacon.New()
		ld.Load(b)
		idx := map[string][]byte{}
		for k, t := range b.GetAll() {
			g := t.StartTreasureGuard(true, guard.BodyAuthID)
			sv, err := t.GetContentString()
			t.ReleaseTreasureGuard(g)
			if err != nil {
				idx[k] = []byte("<not-a-string:" + err.Error() + ">")
			} else {
				idx[k] = []byte(sv)
			}
		}
		_ = ld.Close()
		d, listing := c01IndexDigest(idx)
		return "cidx " + d + listing
	}
	return "bad-op"
}

// sameModuloTimes: two files equal except for CreatedAt/ModifiedAt (header bytes 8..24).
func c01SameModuloTimes(a, b []byte) bool {
	if len(a) != len(b) {
		return false
	}
	if len(a) < 24 {
		return bytes.Equal(a, b)
	}
	return bytes.Equal(a[:8], b[:8]) && bytes.Equal(a[24:], b[24:])
}

func c01Run(in *bufio.Scanner, w *bufio.Writer) {
	dir, err := os.MkdirTemp("", "hvc01-")
	if err != nil {
		panic(err)
	}
	defer os.RemoveAll(dir)
	s := &c01Sess{dir: dir}
	ch := &c01Chron{}
	api := &c01Api{}
	defer api.stop()
	nch := 0
	for in.Scan() {
		line := in.Text()
		f := strings.Split(line, " ")
		switch {
		case f[0] == "case":
			fmt.Fprintln(w, line)
		case f[0] == "aset" || f[0] == "aget" || f[0] == "arpc" || f[0] == "arestart":
			fmt.Fprintln(w, api.apply(f))
		case strings.HasPrefix(f[0], "c") && f[0] != "cfg" && f[0] != "close" && f[0] != "compact":
			fmt.Fprintln(w, ch.apply(dir, &nch, f))
		case f[0] == "raw" && len(f) == 2:
			want, ok := c01Unhex(f[1])
			if !ok {
				fmt.Fprintln(w, "bad-op")
				continue
			}
			tmp := filepath.Join(dir, "raw.hyd")
			_ = os.WriteFile(tmp, want, 0o644)
			det := "ok"
			if have, err := os.ReadFile(s.path); err != nil || !c01SameModuloTimes(have, want) {
				det = "DIFF"
			}
			fmt.Fprintf(w, "%s det=%s pred=ok\n", c01RawLine(tmp), det)
		default:
			fmt.Fprintln(w, s.apply(f))
		}
	}
	if s.fw != nil {
		_ = s.fw.Close()
	}
}

// ---------------------------------------------------------------- generator

type c01GenState struct {
	rng  *rand.Rand
	w    *bufio.Writer
	sess *c01Sess
	nops map[string]int
}

func (g *c01GenState) emit(line string) {
	fmt.Fprintln(g.w, line)
	f := strings.Split(line, " ")
	g.nops[f[0]]++
	if f[0] != "case" {
		g.sess.apply(f) // keep the generator's copy of the real file in step
	}
}

func (g *c01GenState) raw() {
	b, err := os.ReadFile(g.sess.path)
	if err != nil {
		return
	}
	fmt.Fprintln(g.w, "raw "+c01Hex(b))
}

var c01KeyLens = []int{1, 1, 2, 3, 8, 17, 64, 255, 256, 300, 1000}
var c01RareKeyLens = []int{0, 65535, 65536, 65537, 70000, 4096}
var c01DataLens = []int{0, 0, 1, 2, 5, 16, 100, 100, 500, 1000, 4000}
var c01RareDataLens = []int{16384, 16385, 70000, 200000}
var c01BlockSizes = []int{0, 64, 64, 100, 256, 256, 1024, 4096, 16384, 65536}

func (g *c01GenState) keySpec(pool *[]string, tier string) string {
	r := g.rng
	if len(*pool) > 0 && r.Intn(100) < 70 {
		return (*pool)[r.Intn(len(*pool))]
	}
	var s string
	n := c01KeyLens[r.Intn(len(c01KeyLens))]
	if r.Intn(100) < 3 {
		n = c01RareKeyLens[r.Intn(len(c01RareKeyLens))]
	}
	if n <= 24 && r.Intn(2) == 0 {
		b := make([]byte, n)
		r.Read(b) // binary keys, including 0x00 and 0xff
		s = "x:" + c01Hex(b)
	} else {
		s = fmt.Sprintf("g:%d:%d", n, r.Intn(1000))
	}
	*pool = append(*pool, s)
	return s
}

func (g *c01GenState) dataSpec(tier string) string {
	r := g.rng
	n := c01DataLens[r.Intn(len(c01DataLens))]
	if r.Intn(100) < 4 {
		n = c01RareDataLens[r.Intn(len(c01RareDataLens))]
		if tier == "thorough" && r.Intn(8) == 0 {
			n = 2 << 20
		}
	}
	if n <= 16 && r.Intn(2) == 0 {
		b := make([]byte, n)
		r.Read(b)
		return "x:" + c01Hex(b)
	}
	return fmt.Sprintf("g:%d:%d", n, r.Intn(1000))
}

func c01Gen(rng *rand.Rand, tier string, w *bufio.Writer) {
	dir, err := os.MkdirTemp("", "hvc01g-")
	if err != nil {
		panic(err)
	}
	defer os.RemoveAll(dir)
	g := &c01GenState{rng: rng, w: w, sess: &c01Sess{dir: dir}, nops: map[string]int{}}
	caseNo := 0
	newCase := func() {
		g.emit(fmt.Sprintf("case %d", caseNo))
		caseNo++
	}
	// ---- corpus: the documented three-session history, then one case per known weak spot
	newCase()
	g.emit("cfg 0 x:" + c01Hex([]byte("dom/realm/swamp")))
	for _, l := range []string{"w 1 x:61 x:010203", "w 1 x:62 x:04", "close", "reopen", "w 2 x:61 x:09", "w 3 x:62 x:-", "sync",
		"close", "reopen", "w 1 x:63 x:-", "flush", "load", "close", "load"} {
		g.emit(l)
	}
	g.raw()
	newCase() // empty key
	g.emit("cfg 0 x:" + c01Hex([]byte("a/b/c")))
	for _, l := range []string{"w 1 x:6b31 x:7631", "w 1 x:- x:76", "close", "load"} {
		g.emit(l)
	}
	g.raw()
	newCase() // 65536-byte key
	g.emit("cfg 0 x:" + c01Hex([]byte("a/b/c")))
	for _, l := range []string{"w 1 x:6b31 x:7631", "flush", "w 1 g:65536:7 x:76", "close", "load"} {
		g.emit(l)
	}
	g.raw()
	newCase() // 70000-byte key
	g.emit("cfg 256 x:" + c01Hex([]byte("a/b/c")))
	for _, l := range []string{"w 1 g:70000:3 g:10:1", "w 1 x:6b x:76", "close", "load"} {
		g.emit(l)
	}
	g.raw()
	newCase() // longest legal key, largest quick payload, every boundary kind
	g.emit("cfg 4096 x:" + c01Hex([]byte("a/b/c")))
	for _, l := range []string{"w 1 g:65535:9 g:200000:5", "load", "w 2 g:65535:9 x:01", "sync", "w 3 g:65535:9 x:-", "close", "load"} {
		g.emit(l)
	}
	g.raw()
	newCase() // 16-bit entry count: 65537 eight/nine-byte entries in one 1 MiB block
	g.emit("cfg 1048576 x:" + c01Hex([]byte("a/b/c")))
	for _, l := range []string{"wn 65537 2 0 0", "close", "load"} {
		g.emit(l)
	}
	g.raw()
	newCase() // metadata entry and unknown operations are not records
	g.emit("cfg 64 x:-")
	for _, l := range []string{"w 4 x:" + c01Hex([]byte("__swamp_meta__")) + " x:" + c01Hex([]byte("x/y/z")), "w 1 x:6b x:76", "w 0 x:6b x:00", "w 5 x:6b x:00",
		"w 255 x:6c x:00", "close", "load"} {
		g.emit(l)
	}
	g.raw()

	newCase() // stale header: the crash window of flushLocked, then ordinary sessions
	g.emit("cfg 64 x:" + c01Hex([]byte("a/b/c")))
	for _, l := range []string{"w 1 x:6b31 x:7631", "close", "stalehdr", "load", "reopen", "w 1 x:6b32 x:7632", "w 3 x:6b31 x:-", "close", "load",
		"reopen", "wn 20 3 10 5", "close", "load"} {
		g.emit(l)
	}
	g.raw()
	newCase() // zero-filled tail: the reader stops there, the next open cuts it, later appends are seen
	g.emit("cfg 64 x:" + c01Hex([]byte("a/b/c")))
	for _, l := range []string{"w 1 x:6b31 x:7631", "close", "ztail 100", "load", "reopen", "w 1 x:6b32 x:7632", "close", "load",
		"ztail 7", "load", "reopen", "w 1 x:6b33 x:7633", "close", "load", "ztail 16", "reopen", "wn 20 3 10 5", "sync", "w 3 x:6b31 x:-", "close", "load"} {
		g.emit(l)
	}
	g.raw()
	newCase() // WriteEntries batches and compaction
	g.emit("cfg 128 x:" + c01Hex([]byte("a/b/c")))
	for _, l := range []string{"wb 40 3 20 7", "w 3 g:3:9 x:-", "wb 5 2 300 1", "close", "load"} {
		g.emit(l)
	}
	g.raw()
	for _, l := range []string{"compact", "load", "reopen", "wb 9 3 5 100", "w 2 g:3:7 x:ff", "close", "compact", "load"} {
		g.emit(l)
	}
	if tier == "thorough" {
		newCase() // more live keys than a block's 16-bit entry count, then compaction
		g.emit("cfg 0 x:" + c01Hex([]byte("a/b/c")))
		for _, l := range []string{"wk 70000 3 0", "w 3 x:00000000 x:-", "close", "load", "compact", "load"} {
			g.emit(l)
		}
	}

	// ---- the API on top of everything: what the gateway acknowledges must survive a restart
	fmt.Fprintf(w, "case %d\n", caseNo)
	caseNo++
	apiCases := [][2]int{{30, 5}, {30, 65535}, {30, 65536}, {30, 70000}, {65535, 5}, {65536, 5}, {70000, 5}, {200, 300}}
	for i, c := range apiCases {
		fmt.Fprintf(w, "aset %d %d %d\n", c[0], c[1], 100+i)
	}
	for i, r := range c01ApiRPCs {
		fmt.Fprintf(w, "arpc %s %d %d\n", r, []int{70000, 65536}[i%2], 200+i)
	}
	fmt.Fprintln(w, "arestart")
	for i, c := range apiCases {
		fmt.Fprintf(w, "aget %d %d %d\n", c[0], c[1], 100+i)
	}

	// ---- the chronicler path (lines are only emitted here; the generator does not need the files)
	chCases := 40
	if tier == "thorough" {
		chCases = 600
	}
	for c := 0; c < chCases; c++ {
		fmt.Fprintf(w, "case %d\n", caseNo)
		caseNo++
		bs := []int{0, 0, 64, 256, 1024, 16384}[rng.Intn(6)]
		fmt.Fprintf(w, "ccfg %d x:%s\n", bs, c01Hex([]byte(fmt.Sprintf("verif/chron/s%d", c))))
		var keys []string
		for i := 0; i < 6; i++ {
			kl := []int{1, 2, 7, 30, 300}[rng.Intn(5)]
			if c == 0 && i == 0 {
				kl = 70000 // the oversized key: the engine must not let it poison the file
			}
			if c == 1 && i == 0 {
				kl = 0
			}
			keys = append(keys, fmt.Sprintf("g:%d:%d", kl, rng.Intn(1000)))
		}
		fmt.Fprintln(w, "cload")
		for i, n := 0, 4+rng.Intn(40); i < n; i++ {
			k := keys[rng.Intn(len(keys))]
			switch p := rng.Intn(100); {
			case p < 20: // one Write call with several treasures: INSERT / UPDATE / DELETE mixed
				var items []string
				for j, m := 0, 2+rng.Intn(5); j < m; j++ {
					kk := keys[rng.Intn(len(keys))]
					if (c == 2 || c == 3) && j == 1 { // an unencodable key in the middle of a batch
						kk = []string{"x:-", "g:70000:5"}[c-2]
					}
					switch rng.Intn(5) {
					case 0:
						items = append(items, "d|"+kk+"|x:-")
					case 1, 2:
						items = append(items, fmt.Sprintf("u|%s|g:%d:%d", kk, 1+rng.Intn(300), rng.Intn(1000)))
					default:
						items = append(items, fmt.Sprintf("i|%s|g:%d:%d", kk, 1+rng.Intn(300), rng.Intn(1000)))
					}
				}
				fmt.Fprintf(w, "cwb %s\n", strings.Join(items, ";"))
			case p < 65:
				fmt.Fprintf(w, "cw %s g:%d:%d\n", k, 1+rng.Intn([]int{8, 60, 600, 20000}[rng.Intn(4)]), rng.Intn(1000))
			case p < 85:
				fmt.Fprintf(w, "cd %s\n", k)
			case p < 93:
				fmt.Fprintln(w, "cclose")
			default:
				fmt.Fprintln(w, "cclose")
				fmt.Fprintln(w, "cload")
			}
		}
		fmt.Fprintln(w, "cclose")
		fmt.Fprintln(w, "cload")
	}

	// ---- random histories
	cases, maxOps := 190, 60
	if tier == "thorough" {
		cases, maxOps = 1500, 200
	}
	for c := 0; c < cases; c++ {
		newCase()
		bs := c01BlockSizes[rng.Intn(len(c01BlockSizes))]
		if rng.Intn(40) == 0 {
			bs = 1 << 20
		}
		if rng.Intn(10) == 0 {
			bs = 1 + rng.Intn(2000)
		}
		nameLen := []int{0, 5, 11, 11, 30, 64, 300}[rng.Intn(7)]
		name := make([]byte, nameLen)
		for i := range name {
			name[i] = "abcdefghij/._-0123"[rng.Intn(18)]
		}
		if rng.Intn(6) == 0 {
			rng.Read(name)
		}
		g.emit(fmt.Sprintf("cfg %d x:%s", bs, c01Hex(name)))
		var pool []string
		n := 3 + rng.Intn(maxOps)
		phaseDelete := rng.Intn(3) == 0
		compacted := false
		for i := 0; i < n; i++ {
			p := rng.Intn(100)
			switch {
			case p < 62:
				op := 1 + rng.Intn(2)
				dp := 18
				if phaseDelete && i > n/2 {
					dp = 60
				}
				if rng.Intn(100) < dp {
					op = 3
				}
				if rng.Intn(100) < 2 {
					op = []int{0, 4, 5, 255}[rng.Intn(4)]
				}
				data := g.dataSpec(tier)
				if op == 3 && rng.Intn(4) != 0 {
					data = "x:-"
				}
				g.emit(fmt.Sprintf("w %d %s %s", op, g.keySpec(&pool, tier), data))
			case p < 65:
				g.emit(fmt.Sprintf("wn %d %d %d %d", 1+rng.Intn(300), 1+rng.Intn(12), rng.Intn(40), rng.Intn(1000)))
			case p < 66:
				g.emit(fmt.Sprintf("wb %d %d %d %d", 1+rng.Intn(200), 1+rng.Intn(12), rng.Intn(60), rng.Intn(1000)))
			case p < 74:
				g.emit("flush")
			case p < 79:
				g.emit("sync")
			case p < 88:
				g.emit("close")
				if rng.Intn(10) != 0 {
					if rng.Intn(5) == 0 {
						g.emit("load")
					}
					if rng.Intn(8) == 0 {
						g.emit("stalehdr")
					}
					if rng.Intn(8) == 0 {
						g.emit(fmt.Sprintf("ztail %d", []int{1, 15, 16, 17, 1 + rng.Intn(300), 4096}[rng.Intn(6)]))
						if rng.Intn(2) == 0 {
							g.emit("load")
						}
					}
					if rng.Intn(8) == 0 && !compacted {
						g.emit("compact")
						g.emit("load")
						compacted = true // block boundaries after a compaction depend on Go's map order: no more `raw`
					}
					g.emit("reopen")
				}
			case p < 90:
				g.emit("reopen")
			case p < 98:
				g.emit("load")
			default:
				if !compacted {
					g.raw()
				}
			}
		}
		switch rng.Intn(4) {
		case 0:
			g.emit("flush")
		case 1:
			g.emit("sync")
		default:
			g.emit("close")
		}
		g.emit("load")
		if !compacted {
			g.raw()
		}
	}
	if g.sess.fw != nil {
		_ = g.sess.fw.Close()
	}
}
