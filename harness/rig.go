package main

// Shared in-process server rig: the real settings + zeus/hydra + gateway, rooted in a fresh
// temp directory (HYDRAIDE_ROOT_PATH is process-global, so one rig per process at a time).

import (
	"os"

	"github.com/hydraide/hydraide/app/core/filesystem"
	"github.com/hydraide/hydraide/app/core/settings"
	"github.com/hydraide/hydraide/app/core/zeus"
	"github.com/hydraide/hydraide/app/server/gateway"
)

type Rig struct {
	Root     string
	Settings settings.Settings
	Zeus     zeus.Zeus
	GW       *gateway.Gateway
}

// NewRig starts hydra in-process. depth/perLevel as in settings.New (3, 2000 in the repo's tests).
// Defaults: close after idle `idleSec`, write interval `writeSec` (0 = immediate write).
func NewRig(depth, perLevel int, idleSec, writeSec int64) (*Rig, error) {
	root, err := os.MkdirTemp("", "hvrig-")
	if err != nil {
		return nil, err
	}
	if err := os.Setenv("HYDRAIDE_ROOT_PATH", root); err != nil {
		return nil, err
	}
	s := settings.New(depth, perLevel)
	z := zeus.New(s, filesystem.New())
	z.StartHydra()
	gw := &gateway.Gateway{
		SettingsInterface:     s,
		ZeusInterface:         z,
		DefaultCloseAfterIdle: idleSec,
		DefaultWriteInterval:  writeSec,
		DefaultFileSize:       8192,
	}
	return &Rig{Root: root, Settings: s, Zeus: z, GW: gw}, nil
}

// Stop shuts hydra down gracefully (flushes and closes every swamp) and removes the data.
func (r *Rig) Stop(removeData bool) {
	r.Zeus.StopHydra()
	if removeData {
		_ = os.RemoveAll(r.Root)
	}
}
