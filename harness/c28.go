package main

// Domain C28: histories of lock / unlock / TTL expiry / cancellation over many keys on the real
// lock package; after every op the number of entries in the per-key queue map is read through
// the verif-only accessor lock.VerifQueueCount.
//
// ops:   case N | lock K long|short|zero|neg|min | lockc K (context already cancelled when the caller reaches its select:
//        reply names the branch the runtime took) | lockh K (stopped between getQueue and enqueue) | go S | unlock S | expire S | cancel S | count
//        residual=<callers still queued although their Lock call returned an error>
// reply: <event> entries=<map entries> queued=<callers queued over all keys of the case> holders=<max over keys of callers that acquired and did not release>

import (
	"bufio"
	"context"
	"fmt"
	"math/rand"
	"strconv"
	"strings"
	"sync"
	"time"

	"github.com/hydraide/hydraide/app/core/hydra/lock"
	"github.com/hydraide/hydraide/app/verifhook"
)

func init() {
	Register("C28", Domain{Gen: genC28, Run: runC28})
}

func genC28(rng *rand.Rand, tier string, w *bufio.Writer) {
	cases, maxLen := 150, 30
	if tier == "thorough" {
		cases, maxLen = 2000, 80
	}
	// corpus: the Lean witness (three keys locked and released once each), and TTL / cancel releases
	fmt.Fprintln(w, "case 0\nlock 10 long\nunlock 1\nlock 11 long\nunlock 2\nlock 12 long\nunlock 3\ncount")
	// a caller that holds a pointer to a queue while the queue is emptied (pruning: it must retry on the key's new queue)
	fmt.Fprintln(w, "case 2\nlock 7 long\nlockh 7\nunlock 1\ncount\ngo 2\ncount\nlock 7 long\nunlock 2\nunlock 3\ncount")
	fmt.Fprintln(w, "case 1\nlock 5 short\nlock 5 long\nlock 6 long\nexpire 1\ncancel 2\nunlock 2\nunlock 3\ncount\nlock 5 long\nunlock 4\ncount")
	// pre-cancelled contexts on free keys (either select branch must leave no residue: the keys must
	// be lockable afterwards and the map must drain); TTLs ≤ 0
	fmt.Fprintln(w, "case 3\nlockc 1\nlockc 1\nlockc 2\nlockc 1\nlockc 2\nlockc 3\nlock 1 long\nlock 2 long\nunlock 1\nunlock 2\nunlock 3\nunlock 4\nunlock 5\nunlock 6\nunlock 7\nunlock 8\ncount")
	fmt.Fprintln(w, "case 4\nlock 1 zero\nlock 2 neg\nlock 3 min\nlock 1 long\nexpire 1\nexpire 2\nexpire 3\nunlock 4\ncount")
	for c := 5; c < cases; c++ {
		fmt.Fprintf(w, "case %d\n", c)
		n := 4 + rng.Intn(maxLen)
		nkeys := 1 + rng.Intn(12)
		var live, short, heldS []int
		sessions := 0
		for i := 0; i < n; i++ {
			r := rng.Intn(100)
			switch {
			case r >= 91 && r < 95:
				sessions++
				live = append(live, sessions)
				heldS = append(heldS, sessions)
				fmt.Fprintf(w, "lockh %d\n", rng.Intn(nkeys))
			case r >= 95 && len(heldS) > 0:
				fmt.Fprintf(w, "go %d\n", heldS[0])
				heldS = heldS[1:]
			case r < 40 || sessions == 0:
				ttl := "long"
				sessions++
				if rng.Intn(4) == 0 {
					ttl = []string{"short", "short", "zero", "neg", "min"}[rng.Intn(5)]
					short = append(short, sessions)
				}
				live = append(live, sessions)
				if rng.Intn(8) == 0 {
					fmt.Fprintf(w, "lockc %d\n", rng.Intn(nkeys))
					break
				}
				fmt.Fprintf(w, "lock %d %s\n", rng.Intn(nkeys), ttl)
			case r < 75 && len(live) > 0:
				j := rng.Intn(len(live))
				fmt.Fprintf(w, "unlock %d\n", live[j])
				live = append(live[:j], live[j+1:]...)
			case r < 83 && len(short) > 0:
				j := rng.Intn(len(short))
				fmt.Fprintf(w, "expire %d\n", short[j])
				short = append(short[:j], short[j+1:]...)
			case r < 91:
				fmt.Fprintf(w, "cancel %d\n", 1+rng.Intn(sessions))
			default:
				fmt.Fprintln(w, "count")
			}
		}
		// release everything, then count
		for _, s := range heldS {
			fmt.Fprintf(w, "go %d\n", s)
		}
		for _, s := range live {
			fmt.Fprintf(w, "unlock %d\n", s)
		}
		for s := 1; s <= sessions; s++ {
			fmt.Fprintf(w, "cancel %d\n", s)
		}
		for s := 1; s <= sessions; s++ {
			fmt.Fprintf(w, "unlock %d\n", s)
		}
		fmt.Fprintln(w, "count")
	}
}

func runC28(in *bufio.Scanner, out *bufio.Writer) {
	var w *c14World
	install := func() {
		if w != nil {
			w.cleanup()
		}
		w = c14NewWorld(lock.New())
		verifhook.SetHandler(w.handler)
	}
	install()
	defer func() { w.cleanup(); verifhook.SetHandler(nil) }()
	tail := func() string {
		queued := 0
		seen := map[string]bool{}
		for _, s := range w.sess {
			if !seen[s.key] {
				seen[s.key] = true
				ids, _, _ := lock.VerifSnapshot(w.lk, s.key)
				queued += len(ids)
			}
		}
		// callers that were told they hold a key and have not given it up (max over keys)
		per, holders := map[string]int{}, 0
		for _, s := range w.sess {
			if s.acquired && !s.released {
				per[s.key]++
				if per[s.key] > holders {
					holders = per[s.key]
				}
			}
		}
		inflight := 0 // Lock calls between getQueue and enqueue
		for _, s := range w.sess {
			if s.held {
				inflight++
			}
		}
		residual := 0
		seen = map[string]bool{}
		for _, s := range w.sess {
			if !seen[s.key] {
				seen[s.key] = true
				residual += len(w.residual(s.key))
			}
		}
		return fmt.Sprintf("entries=%d queued=%d inflight=%d holders=%d residual=%d", lock.VerifQueueCount(w.lk), queued, inflight, holders, residual)
	}
	get := func(f []string) *c14Sess {
		if len(f) < 2 {
			return nil
		}
		n, err := strconv.Atoi(f[1])
		if err != nil || n < 1 || n > len(w.sess) {
			return nil
		}
		return w.sess[n-1]
	}
	for in.Scan() {
		line := strings.TrimSpace(in.Text())
		f := strings.Fields(line)
		if len(f) == 0 {
			fmt.Fprintln(out, "bad-op")
			continue
		}
		if r, stop := w.gate(f[0]); stop {
			fmt.Fprintln(out, r)
			continue
		}
		switch f[0] {
		case "case":
			install()
			fmt.Fprintln(out, line)
		case "lock":
			if len(f) != 3 {
				fmt.Fprintln(out, "bad-op")
				break
			}
			ttl, short := time.Hour, false
			switch f[2] {
			case "short":
				ttl, short = 3*time.Millisecond, true
			case "zero":
				ttl, short = 0, true
			case "neg":
				ttl, short = -time.Millisecond, true
			case "min":
				ttl, short = time.Duration(-1<<63), true
			}
			s, res := w.startLock(f[1], ttl, short, false)
			fmt.Fprintf(out, "enq %d %s %s\n", s.n, res, tail())
		case "lockc":
			if len(f) < 2 {
				fmt.Fprintln(out, "bad-op")
				break
			}
			s, res := w.startLock(f[1], time.Hour, false, true)
			if res == "held" {
				s.cancelled = true
				s.cancel()
				s.held = false
				w.release(w.holds, s.qid)
				me := strconv.Itoa(s.n)
				ev, ok := w.wait(func(e c14Event) bool {
					return (e.id == s.qid && (e.name == "lock.acq" || e.name == "lock.cancel")) || (e.name == "sess.err" && e.raw == me)
				})
				switch {
				case !ok:
					res = "unexpected-" + ev.name
				case ev.name == "lock.acq":
					s.acquired = true
					res = "acq"
				case ev.name == "sess.err":
					s.gone = true
					w.returned(s)
					res = "err"
				default:
					s.gone = true
					res = "cancel"
					if !w.returned(s) {
						res = "unexpected-timeout"
					}
					res += w.settle(s.key)
				}
			}
			fmt.Fprintf(out, "lockc %d %s %s\n", s.n, res, tail())
		case "lockh":
			if len(f) != 2 {
				fmt.Fprintln(out, "bad-op")
				break
			}
			s, res := w.startLockAtGotq(f[1], time.Hour, false)
			fmt.Fprintf(out, "%s %d %s\n", res, s.n, tail())
		case "go":
			s := get(f)
			if s == nil || !s.held {
				fmt.Fprintln(out, "skip "+tail())
				break
			}
			fmt.Fprintf(out, "enq %d %s %s\n", s.n, w.continueFromGotq(s), tail())
		case "unlock":
			s := get(f)
			if s == nil || !s.acquired {
				fmt.Fprintln(out, "skip "+tail())
				break
			}
			_, _, hadQueue := lock.VerifSnapshot(w.lk, s.key)
			res := w.safeUnlock(s.key, s.id)
			s.released = true
			if res != "panic" && hadQueue {
				if ev, ok := w.waitForRaw("lock.rm", s.id); !ok {
					res = "unexpected-" + ev.name
				}
			}
			res += w.settle(s.key)
			fmt.Fprintf(out, "unlock %d %s %s\n", s.n, res, tail())
		case "expire":
			s := get(f)
			if s == nil || !s.acquired || !s.short || s.expired {
				fmt.Fprintln(out, "skip "+tail())
				break
			}
			s.expired = true
			res := "noop"
			if w.inQueue(s) {
				res = "removed"
				s.released = true
				if _, ok := w.waitTTL(s.qid); !ok {
					res = "unexpected-timeout"
				} else {
					w.release(w.ttlWait, s.qid)
					if ev, ok := w.waitFor("lock.rm", s.qid); !ok {
						res = "unexpected-" + ev.name
					}
				}
				res += w.settle(s.key)
			} else {
				w.release(w.ttlWait, s.qid)
			}
			fmt.Fprintf(out, "expire %d %s %s\n", s.n, res, tail())
		case "cancel":
			s := get(f)
			if s == nil || s.cancelled || s.held {
				fmt.Fprintln(out, "skip "+tail())
				break
			}
			s.cancelled = true
			s.cancel()
			res := "noop"
			if !s.acquired && !s.gone {
				s.gone = true
				res = "removed"
				if !w.returned(s) {
					res = "unexpected-timeout"
				}
				res += w.settle(s.key)
			}
			fmt.Fprintf(out, "cancel %d %s %s\n", s.n, res, tail())
		case "count":
			fmt.Fprintln(out, "count "+tail())
		default:
			fmt.Fprintln(out, "bad-op")
		}
		out.Flush()
	}
}

// ---------------------------------------------------------------------------------------------
// Domain C28s: stress + trace inclusion for the queue MAP.  `gen` runs the real lock with several
// goroutines over a handful of keys (so queues are emptied, retired and re-created all the time,
// and callers regularly hold a pointer to a queue that is retired under them).  Every hook used
// here fires under the mutex of the queue object it reports on:
//
//   enq K Q N G c=[…]   caller N (numbered in log order) was appended to queue object Q of key K,
//                       G=1: granted at once; c = the queue's contents after the append
//   deadq K Q           an enqueue was refused: Q has been retired
//   dead K Q N          the removal of N emptied Q: Q is marked dead (logged BEFORE the map delete)
//   rm K Q N F c=[…]    removal of N from Q (F=1 found); N=0: an id Q never issued
//   count E D           at a quiescent point (all goroutines joined, no hook event while
//                       counting): E entries in the map, D callers queued over all keys
//
// `run` answers `ok`; the Lean driver (mode=trace) answers `ok` iff the lock-map model can take the
// step with the same observable values: the queue object used is the one the map holds for the key
// (or a fresh one exactly when the key is unmapped), granted / found / contents / dead agree, and
// the map size and queued total agree at every quiescent point.

func init() { Register("C28s", Domain{Gen: genC28s, Run: runC14s}) }

func genC28s(rng *rand.Rand, tier string, w *bufio.Writer) {
	rounds, gor, phases, iters, nkeys := 6, 6, 4, 25, 4
	if tier == "thorough" {
		rounds, gor, phases, iters, nkeys = 40, 10, 6, 80, 6
	}
	for r := 0; r < rounds; r++ {
		var mu sync.Mutex
		var log []string
		queues := map[any]int{}
		keyOf := map[any]string{}
		last := map[any][]string{}
		ids := map[string]int{}
		inRemove := 0 // removals between their `dead` and their `rm` line
		deadQ := map[any]bool{}
		lk := lock.New()
		qn := func(q any) int {
			k, ok := queues[q]
			if !ok {
				k = len(queues)
				queues[q] = k
			}
			return k
		}
		nums := func(l []string) string {
			var o []string
			for _, id := range l {
				o = append(o, strconv.Itoa(ids[id]))
			}
			return "[" + strings.Join(o, ",") + "]"
		}
		verifhook.SetHandler(func(name string, args ...any) {
			if !strings.HasPrefix(name, "lock.") || len(args) < 2 {
				return
			}
			mu.Lock()
			defer mu.Unlock()
			q := args[0]
			if _, mine := keyOf[q]; !mine && name != "lock.key" {
				// a queue object no Lock call of THIS round has fetched: the event comes from a watchdog of an earlier
				// round's lock instance that fires late (busy machine)
				return
			}
			switch name {
			case "lock.key":
				keyOf[q], _ = args[1].(string)
			case "lock.contents":
				last[q], _ = args[1].([]string)
			case "lock.enq":
				id, _ := args[1].(string)
				g, _ := args[2].(bool)
				ids[id] = len(ids) + 1
				log = append(log, fmt.Sprintf("enq %s %d %d %d c=%s", keyOf[q], qn(q), ids[id], c14b(g), nums(last[q])))
			case "lock.enq.dead":
				log = append(log, fmt.Sprintf("deadq %s %d", keyOf[q], qn(q)))
			case "lock.dead":
				id, _ := args[1].(string)
				inRemove++
				deadQ[q] = true
				log = append(log, fmt.Sprintf("dead %s %d %d", keyOf[q], qn(q), ids[id]))
			case "lock.rm":
				id, _ := args[1].(string)
				f, _ := args[2].(bool)
				if deadQ[q] {
					delete(deadQ, q) // the `rm` line of the removal that logged `dead`
					inRemove--
				}
				k, known := keyOf[q]
				if !known {
					k = "-"
				}
				c := "-"
				if f {
					c = nums(last[q])
				}
				log = append(log, fmt.Sprintf("rm %s %d %d %d c=%s", k, qn(q), ids[id], c14b(f), c))
			}
		})
		// sample: a quiescent point.  Every worker has been joined; only watchdogs of short-TTL locks can still act.
		// The map and the queues are counted while no hook event arrives AND no removal is between its `dead` line
		// (logged before the map delete) and its `rm` line (logged after it).
		sample := func() {
			for try := 0; try < 2000; try++ {
				time.Sleep(HxScale(3 * time.Millisecond))
				mu.Lock()
				before, mid := len(log), inRemove
				mu.Unlock()
				if mid > 0 {
					continue
				}
				entries, queued := lock.VerifQueueCount(lk), 0
				for k := 0; k < nkeys; k++ {
					l, _, _ := lock.VerifSnapshot(lk, strconv.Itoa(k))
					queued += len(l)
				}
				mu.Lock()
				if len(log) == before && inRemove == 0 {
					log = append(log, fmt.Sprintf("count %d %d", entries, queued))
					mu.Unlock()
					return
				}
				mu.Unlock()
			}
		}
		type heldLock struct{ key, id string }
		carry := make([][]heldLock, gor)
		hung := false
		for ph := 0; ph < phases && !hung; ph++ {
			var wg sync.WaitGroup
			for g := 0; g < gor; g++ {
				wg.Add(1)
				seed := rng.Int63()
				go func(g int, seed int64) {
					defer wg.Done()
					lr := rand.New(rand.NewSource(seed))
					for _, h := range carry[g] {
						_ = lk.Unlock(h.key, h.id)
					}
					carry[g] = nil
					for i := 0; i < iters; i++ {
						key := strconv.Itoa(lr.Intn(nkeys))
						// (every wait is bounded: a key may be held across the phase's end by another goroutine)
						ctx, cancel := context.WithTimeout(context.Background(), time.Duration(2000+lr.Intn(4000))*time.Microsecond)
						switch lr.Intn(6) {
						case 0:
							cancel() // already cancelled
						case 1:
							cancel()
							ctx, cancel = context.WithTimeout(context.Background(), time.Duration(100+lr.Intn(1500))*time.Microsecond)
						}
						ttl := time.Minute
						short := lr.Intn(4) == 0
						if short {
							ttl = time.Duration(lr.Intn(1500)-100) * time.Microsecond // sometimes ≤ 0
						}
						id, err := lk.Lock(ctx, key, ttl)
						cancel()
						if err != nil {
							continue
						}
						if i == iters-1 && !short && lr.Intn(3) == 0 {
							carry[g] = append(carry[g], heldLock{key, id}) // held across the quiescent point
							break
						}
						if lr.Intn(3) == 0 {
							time.Sleep(time.Duration(lr.Intn(300)) * time.Microsecond)
						}
						if !short || lr.Intn(2) == 0 {
							_ = lk.Unlock(key, id)
						} else {
							time.Sleep(ttl + 300*time.Microsecond)
						}
						if lr.Intn(8) == 0 {
							_ = lk.Unlock(strconv.Itoa(lr.Intn(nkeys)), id) // stale or foreign
						}
					}
				}(g, seed)
			}
			done := make(chan struct{})
			go func() { wg.Wait(); close(done) }()
			select {
			case <-done:
			case <-time.After(HxScale(60 * time.Second)):
				hung = true
			}
			if hung {
				break
			}
			sample()
		}
		for g := range carry {
			for _, h := range carry[g] {
				_ = lk.Unlock(h.key, h.id)
			}
		}
		if !hung {
			// short-TTL locks are released by their watchdogs: give those (they may be late on a busy machine) the time
			// to fire, then take the final sample — whatever is still queued then is counted, not assumed
			for dl := time.Now().Add(HxScale(5 * time.Second)); time.Now().Before(dl); {
				left := 0
				for k := 0; k < nkeys; k++ {
					l, _, _ := lock.VerifSnapshot(lk, strconv.Itoa(k))
					left += len(l)
				}
				if left == 0 {
					break
				}
				time.Sleep(time.Millisecond)
			}
			sample()
		}
		verifhook.SetHandler(nil)
		fmt.Fprintf(w, "case %d\n", r)
		mu.Lock()
		for _, l := range log {
			fmt.Fprintln(w, l)
		}
		if hung {
			fmt.Fprintln(w, "hang")
		}
		mu.Unlock()
		if hung {
			return // one hang is the verdict: do not spend the window again in every later round
		}
	}
}

func c14b(b bool) int {
	if b {
		return 1
	}
	return 0
}
