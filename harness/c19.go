package main

// Domain C19: change events through the real in-process gateway with a fake stream.
//
// case headers (each case runs on a fresh persistent swamp, write interval 1 s):
//   case N seq      sequential history; ops: sub I | unsub I | set K V | inc K N | del K | shift K | get K | reload
//   case N conc     forced schedule on SendMsg: subscriber 1 is attached with a *gated* stream
//                   (SendMsg blocks until `drain`); ops: spawn T set K V | drain
//   case N late     a subscription that arrives while the swamp is being summoned: ops: spawn T set K V (the first request
//                   on a fresh swamp; parks at hook swamp.new, inside SummonSwamp's creation of the instance) | sub I | go T
//                   replies: `T@loading`, `ok`, `T done st=<STATUS> sI=[ev…]`
//   case N drain    an auto-destroy that drains an in-flight insert, with a subscriber: ops: sub I | set K V |
//                   spawn T set K V (parks at gw.set.vigil) | spawn T del K (parks at destroy.draining) | go T
//                   replies: `T@<point> sI=[ev…]`, `T done st=<STATUS> sI=[ev…]`
//   case N stress P op: stress W K N  (W writers × N increments over K keys, ungated stream);
//                   P = p1 (write interval 1 s) | p0 (immediate write: SaveFunction releases the guard itself)
//
// replies
//   seq:    st=<NEW|UPDATED|SAME|DELETED|NOT_FOUND|ERR|val:N|-> followed by one ` sI=[ev;ev…]` per
//           subscriber attached when the op started.  ev = N:k=v@T | M:k=v<old@T | D:k=v@T ;
//           T = ok (wire time inside the op's wall interval), nsAsSec (the Seconds field holds
//           the nanosecond count), bad.
//   conc:   per thread `T:sq|guard|done(ST)` in spawn order, then `inside=N` (goroutines
//           simultaneously inside SendMsg once everything has settled).
//   stress: ok events=E perkey=ordered t=<classes> overlap=<max simultaneously inside − 1 | ~>
//           (`~` unless C19_EXPECT_SERIAL=1: without a mutex the amount of overlap is scheduling noise).

import (
	"bufio"
	"context"
	"fmt"
	"math/rand"
	"os"
	"sort"
	"strconv"
	"strings"
	"sync"
	"sync/atomic"
	"time"

	"github.com/hydraide/hydraide/app/core/settings"
	"github.com/hydraide/hydraide/app/name"
	"github.com/hydraide/hydraide/app/verifhook"
	hydrapb "github.com/hydraide/hydraide/sdk/go/hydraidego/v3/hydraidepbgo"
	"google.golang.org/grpc/metadata"
	"google.golang.org/protobuf/types/known/timestamppb"
)

func init() { Register("C19", Domain{Gen: c19Gen, Run: c19Run}) }

// a wait ends on its event; the limit only matters for a request that really hangs (scaled by HX_TIMEOUT_SCALE)
var c19StepTimeout = HxScale(12 * time.Second)

// ---------------------------------------------------------------- generator

func c19Gen(rng *rand.Rand, tier string, w *bufio.Writer) {
	seqCases, concCases, stress := 150, 40, 4
	if tier == "thorough" {
		seqCases, concCases, stress = 1500, 400, 12
	}
	c := 0
	// corpus: the no-op save, the old-value case, time, and the two overlap schedules
	fmt.Fprintf(w, "case %d seq\nsub 1\nset a x\nset a x\nset a y\nget a\ninc n 2\ninc n 3\nunsub 1\nset a z\nsub 1\ndel a\ndel n\nset a x\n", c)
	c++
	fmt.Fprintf(w, "case %d seq\nset a x\nreload\nsub 1\nset a x\nset a y\nsub 2\nset b x\nshift b\nunsub 1\nset a y\nset a q\n", c)
	c++
	// records that carry client-supplied CreatedAt / UpdatedAt (year 2001): the event time is still the time of the change
	fmt.Fprintf(w, "case %d seq\nsub 1\nsetm a x\nsetm a y\nset a z\nset b x\ndel a\nsetm a q\nreload\nset a r\n", c)
	c++
	// a claim through ShiftExpiredTreasures is a delete like any other: the subscriber gets its DELETED event
	fmt.Fprintf(w, "case %d seq\nsub 1\nset a x\nsete e y\nshifte e\nset a z\n", c)
	c++
	fmt.Fprintf(w, "case %d drain\nsub 1\nset a x\nspawn W set b y\nspawn D del a\ngo W\ngo D\nset c z\n", c)
	c++
	fmt.Fprintf(w, "case %d late\nspawn A set a x\nsub 1\ngo A\n", c)
	c++
	fmt.Fprintf(w, "case %d late\nsub 1\nspawn A set a x\nsub 2\ngo A\n", c)
	c++
	fmt.Fprintf(w, "case %d conc\nspawn A set a x\nspawn B set b x\ndrain\n", c)
	c++
	fmt.Fprintf(w, "case %d conc\nspawn A set a x\nspawn B set a y\nspawn C set b x\ndrain\n", c)
	c++
	keys := []string{"a", "b", "c"}
	nkeys := []string{"n", "m"}
	vals := []string{"x", "y", "z"}
	for i := 0; i < seqCases; i++ {
		fmt.Fprintf(w, "case %d seq\n", c)
		c++
		n := 6 + rng.Intn(14)
		for j := 0; j < n; j++ {
			r := rng.Intn(100)
			switch {
			case r < 10:
				fmt.Fprintf(w, "sub %d\n", 1+rng.Intn(2))
			case r < 15:
				fmt.Fprintf(w, "unsub %d\n", 1+rng.Intn(2))
			case r < 50:
				fmt.Fprintf(w, "set %s %s\n", keys[rng.Intn(len(keys))], vals[rng.Intn(len(vals))])
			case r < 62:
				fmt.Fprintf(w, "inc %s %d\n", nkeys[rng.Intn(len(nkeys))], []int{1, 2, -1, 5}[rng.Intn(4)])
			case r < 72:
				fmt.Fprintf(w, "del %s\n", append(keys, nkeys...)[rng.Intn(5)])
			case r < 80:
				fmt.Fprintf(w, "shift %s\n", keys[rng.Intn(len(keys))])
			case r < 88:
				fmt.Fprintf(w, "get %s\n", keys[rng.Intn(len(keys))])
			case r < 92:
				// cross-type: increment on a string key is refused without an event
				fmt.Fprintf(w, "inc %s 1\n", keys[rng.Intn(len(keys))])
			default:
				fmt.Fprintln(w, "reload")
			}
		}
	}
	names := []string{"A", "B", "C", "D"}
	for i := 0; i < concCases; i++ {
		fmt.Fprintf(w, "case %d conc\n", c)
		c++
		n := 2 + rng.Intn(3)
		for j := 0; j < n; j++ {
			fmt.Fprintf(w, "spawn %s set %s %s\n", names[j], keys[rng.Intn(2)], vals[rng.Intn(len(vals))])
		}
		fmt.Fprintln(w, "drain")
	}
	for i := 0; i < stress; i++ {
		fmt.Fprintf(w, "case %d stress %s\nstress %d %d %d\n", c, []string{"p1", "p0"}[i%2], 4+rng.Intn(5), 1+rng.Intn(3), 40+rng.Intn(60))
		c++
	}
}

// ---------------------------------------------------------------- fake stream

type c19Stream struct {
	ctx    context.Context
	cancel context.CancelFunc
	st     *c19State
	id     int
	mu     sync.Mutex
	msgs   []*hydrapb.SubscribeToEventsResponse
	done   chan struct{} // closed when SubscribeToEvents returned
}

func (s *c19Stream) Send(m *hydrapb.SubscribeToEventsResponse) error { return s.SendMsg(m) }
func (s *c19Stream) SetHeader(metadata.MD) error                      { return nil }
func (s *c19Stream) SendHeader(metadata.MD) error                     { return nil }
func (s *c19Stream) SetTrailer(metadata.MD)                           {}
func (s *c19Stream) Context() context.Context                         { return s.ctx }
func (s *c19Stream) RecvMsg(any) error                                { return nil }

// SendMsg is where a real gRPC stream would be written to: gRPC forbids two concurrent calls.
func (s *c19Stream) SendMsg(m any) error {
	st := s.st
	n := atomic.AddInt32(&st.inside, 1)
	for {
		old := atomic.LoadInt32(&st.maxInside)
		if n <= old || atomic.CompareAndSwapInt32(&st.maxInside, old, n) {
			break
		}
	}
	if st.gated.Load() {
		th := st.threads.Current()
		st.events <- c19Ev{thread: th, name: "stream.enter"}
		<-st.gate
	} else if st.slowSend.Load() {
		time.Sleep(20 * time.Microsecond)
	}
	if r, ok := m.(*hydrapb.SubscribeToEventsResponse); ok {
		s.mu.Lock()
		s.msgs = append(s.msgs, r)
		s.mu.Unlock()
	}
	atomic.AddInt32(&st.inside, -1)
	return nil
}

func (s *c19Stream) take() []*hydrapb.SubscribeToEventsResponse {
	s.mu.Lock()
	defer s.mu.Unlock()
	out := s.msgs
	s.msgs = nil
	return out
}

// ---------------------------------------------------------------- state

type c19Ev struct {
	thread string
	name   string
	arg    any
}

type c19Thread struct {
	name   string
	state  string // sq | guard | done
	status string
	done   chan string
}

type c19State struct {
	rig       *Rig
	runTag    string
	swamp     string
	mode      string
	subs      map[int]*c19Stream
	threads   *ccThreads
	events    chan c19Ev
	gate      chan struct{}
	gated     atomic.Bool
	slowSend  atomic.Bool
	inside    int32
	maxInside int32
	ths       []*c19Thread
	dead      bool
	dth       map[string]*c19DThread // mode drain
	lateGate  chan struct{}
	lateDone  chan string
	lateT0    int64
	lateHit   atomic.Bool
}

type c19DThread struct {
	name  string
	parks map[string]bool
	gate  chan struct{}
	done  chan string
	fin   bool
}

// collect renders what every subscriber received since the last op
func (st *c19State) collect(t0 int64) string {
	var ids []int
	for i := range st.subs {
		ids = append(ids, i)
	}
	sort.Ints(ids)
	t1 := time.Now().UnixNano()
	var b strings.Builder
	for _, i := range ids {
		var evs []string
		for _, m := range st.subs[i].take() {
			evs = append(evs, c19Event(m, t0, t1))
		}
		fmt.Fprintf(&b, " s%d=[%s]", i, strings.Join(evs, ";"))
	}
	return b.String()
}

// dwait waits until thread t parks or finishes
func (st *c19State) dwait(t *c19DThread, t0 int64) string {
	deadline := time.After(c19StepTimeout)
	for {
		select {
		case ev := <-st.events:
			if ev.thread == t.name && t.parks[ev.name] {
				return t.name + "@" + ev.name + st.collect(t0)
			}
		case r := <-t.done:
			t.fin = true
			return t.name + " done st=" + r + st.collect(t0)
		case <-deadline:
			return t.name + " stuck"
		}
	}
}

func (st *c19State) next(d time.Duration) (c19Ev, bool) {
	select {
	case ev := <-st.events:
		return ev, true
	case <-time.After(d):
		return c19Ev{}, false
	}
}

func (st *c19State) drainEvents() {
	for {
		select {
		case <-st.events:
		default:
			return
		}
	}
}

func (st *c19State) subscribe(i int) string {
	if _, ok := st.subs[i]; ok {
		return "ok"
	}
	ctx, cancel := context.WithCancel(context.Background())
	s := &c19Stream{ctx: ctx, cancel: cancel, st: st, id: i, done: make(chan struct{})}
	go func() {
		defer close(s.done)
		_ = st.rig.GW.SubscribeToEvents(&hydrapb.SubscribeToEventsRequest{IslandID: 1, SwampName: st.swamp}, s)
	}()
	deadline := time.After(c19StepTimeout)
	for {
		select {
		case ev := <-st.events:
			if ev.name == "events.subscribed" && ev.arg == any(s) {
				st.subs[i] = s
				return "ok"
			}
		case <-s.done:
			return "ERR"
		case <-deadline:
			return "timeout"
		}
	}
}

func (st *c19State) unsubscribe(i int) string {
	s, ok := st.subs[i]
	if !ok {
		return "ok"
	}
	s.cancel()
	select {
	case <-s.done:
	case <-time.After(c19StepTimeout):
		return "timeout"
	}
	delete(st.subs, i)
	return "ok"
}

func c19Val(t *hydrapb.Treasure) string {
	switch {
	case t == nil:
		return "nil"
	case t.StringVal != nil:
		return "s." + *t.StringVal
	case t.Int64Val != nil:
		return "i." + strconv.FormatInt(*t.Int64Val, 10)
	default:
		return "void"
	}
}

func c19Time(m *hydrapb.SubscribeToEventsResponse, t0, t1 int64) string {
	ts := m.GetEventTime()
	if ts == nil {
		return "bad"
	}
	n := ts.Seconds*1000000000 + int64(ts.Nanos)
	// the multiplication overflows for the seconds form; test that form first
	if ts.Nanos == 0 && ts.Seconds >= t0 && ts.Seconds <= t1 {
		return "nsAsSec"
	}
	if ts.Seconds < 1<<33 && n >= t0 && n <= t1 {
		return "ok"
	}
	return "bad"
}

func c19Event(m *hydrapb.SubscribeToEventsResponse, t0, t1 int64) string {
	tm := c19Time(m, t0, t1)
	switch m.GetStatus() {
	case hydrapb.Status_NEW:
		return fmt.Sprintf("N:%s=%s@%s", m.GetTreasure().GetKey(), c19Val(m.GetTreasure()), tm)
	case hydrapb.Status_UPDATED:
		return fmt.Sprintf("M:%s=%s<%s@%s", m.GetTreasure().GetKey(), c19Val(m.GetTreasure()), c19Val(m.GetOldTreasure()), tm)
	case hydrapb.Status_DELETED:
		return fmt.Sprintf("D:%s=%s@%s", m.GetDeletedTreasure().GetKey(), c19Val(m.GetDeletedTreasure()), tm)
	}
	return "?:" + m.GetStatus().String()
}

func c19Status(c hydrapb.Status_Code) string {
	switch c {
	case hydrapb.Status_NEW:
		return "NEW"
	case hydrapb.Status_UPDATED:
		return "UPDATED"
	case hydrapb.Status_NOTHING_CHANGED:
		return "SAME"
	case hydrapb.Status_DELETED:
		return "DELETED"
	case hydrapb.Status_NOT_FOUND:
		return "NOT_FOUND"
	}
	return "ERR"
}

func (st *c19State) doSet(k, v string) string {
	resp, err := st.rig.GW.Set(context.Background(), &hydrapb.SetRequest{Swamps: []*hydrapb.SwampRequest{{
		IslandID: 1, SwampName: st.swamp, CreateIfNotExist: true, Overwrite: true,
		KeyValues: []*hydrapb.KeyValuePair{{Key: k, StringVal: &v}},
	}}})
	if err != nil || resp == nil || len(resp.GetSwamps()) != 1 || len(resp.GetSwamps()[0].GetKeysAndStatuses()) != 1 {
		return "ERR"
	}
	return c19Status(resp.GetSwamps()[0].GetKeysAndStatuses()[0].GetStatus())
}

func (st *c19State) doSetMeta(k, v string) string {
	old := timestamppb.New(time.Date(2001, 1, 1, 0, 0, 0, 0, time.UTC))
	resp, err := st.rig.GW.Set(context.Background(), &hydrapb.SetRequest{Swamps: []*hydrapb.SwampRequest{{
		IslandID: 1, SwampName: st.swamp, CreateIfNotExist: true, Overwrite: true,
		KeyValues: []*hydrapb.KeyValuePair{{Key: k, StringVal: &v, CreatedAt: old, UpdatedAt: old}},
	}}})
	if err != nil || resp == nil || len(resp.GetSwamps()) != 1 || len(resp.GetSwamps()[0].GetKeysAndStatuses()) != 1 {
		return "ERR"
	}
	return c19Status(resp.GetSwamps()[0].GetKeysAndStatuses()[0].GetStatus())
}

// one sequential request; returns the status token
func (st *c19State) seqOp(f []string) string {
	ctx, cancel := context.WithTimeout(context.Background(), c19StepTimeout)
	defer cancel()
	gw := st.rig.GW
	switch f[0] {
	case "set":
		return st.doSet(f[1], f[2])
	case "setm":
		return st.doSetMeta(f[1], f[2])
	case "inc":
		n, _ := strconv.ParseInt(f[2], 10, 64)
		resp, err := gw.IncrementInt64(ctx, &hydrapb.IncrementInt64Request{IslandID: 1, SwampName: st.swamp, Key: f[1], IncrementBy: n})
		if err != nil || resp == nil {
			return "ERR"
		}
		return "val:" + strconv.FormatInt(resp.GetValue(), 10)
	case "del":
		resp, err := gw.Delete(ctx, &hydrapb.DeleteRequest{Swamps: []*hydrapb.DeleteRequest_SwampKeys{{IslandID: 1, SwampName: st.swamp, Keys: []string{f[1]}}}})
		if err != nil || resp == nil || len(resp.GetResponses()) != 1 {
			return "ERR"
		}
		r := resp.GetResponses()[0]
		if r.ErrorCode != nil || len(r.GetKeyStatuses()) != 1 {
			return "NOT_FOUND" // swamp does not exist
		}
		return c19Status(r.GetKeyStatuses()[0].GetStatus())
	case "shift":
		resp, err := gw.ShiftByKeys(ctx, &hydrapb.ShiftByKeysRequest{IslandID: 1, SwampName: st.swamp, Keys: []string{f[1]}})
		if err != nil || resp == nil || len(resp.GetTreasures()) == 0 {
			return "NOT_FOUND"
		}
		return "DELETED"
	case "sete":
		// a record that is already expired (for shifte)
		past := timestamppb.New(time.Now().Add(-time.Hour))
		v := f[2]
		resp, err := gw.Set(ctx, &hydrapb.SetRequest{Swamps: []*hydrapb.SwampRequest{{IslandID: 1, SwampName: st.swamp, CreateIfNotExist: true, Overwrite: true,
			KeyValues: []*hydrapb.KeyValuePair{{Key: f[1], StringVal: &v, ExpiredAt: past}}}}})
		if err != nil || resp == nil || len(resp.GetSwamps()) != 1 || len(resp.GetSwamps()[0].GetKeysAndStatuses()) != 1 {
			return "ERR"
		}
		return c19Status(resp.GetSwamps()[0].GetKeysAndStatuses()[0].GetStatus())
	case "shifte":
		// the claim path of ShiftExpiredTreasures (selection pass + re-validating delete), not ShiftByKeys
		resp, err := gw.ShiftExpiredTreasures(ctx, &hydrapb.ShiftExpiredTreasuresRequest{IslandID: 1, SwampName: st.swamp, HowMany: 1})
		if err != nil || resp == nil || len(resp.GetTreasures()) != 1 || resp.GetTreasures()[0].GetKey() != f[1] {
			return "NOT_FOUND"
		}
		return "DELETED"
	case "get":
		_, _ = gw.Get(ctx, &hydrapb.GetRequest{Swamps: []*hydrapb.GetSwamp{{IslandID: 1, SwampName: st.swamp, Keys: []string{f[1]}}}})
		return "-"
	case "reload":
		h := st.rig.Zeus.GetHydra()
		nm := name.Load(st.swamp)
		if ok, err := h.IsExistSwamp(1, nm); err != nil || !ok {
			return "-"
		}
		sw, err := h.SummonSwamp(ctx, 1, nm)
		if err != nil {
			return "ERR"
		}
		sw.Close()
		return "-"
	}
	return "bad-op"
}

func (st *c19State) threadByName(n string) *c19Thread {
	for _, t := range st.ths {
		if t.name == n {
			return t
		}
	}
	return nil
}

func (st *c19State) concState() string {
	var b strings.Builder
	for _, t := range st.ths {
		if t.state == "done" {
			fmt.Fprintf(&b, "%s:done(%s) ", t.name, t.status)
		} else {
			fmt.Fprintf(&b, "%s:%s ", t.name, t.state)
		}
	}
	fmt.Fprintf(&b, "inside=%d", atomic.LoadInt32(&st.inside))
	return b.String()
}

// spawn a writer and wait until it is parked: in the record guard's queue, inside the gated
// SendMsg, or (when a per-stream mutex exists and somebody is inside) in front of that mutex.
func (st *c19State) spawn(tn, k, v string) string {
	t := &c19Thread{name: tn, state: "run", done: make(chan string, 1)}
	st.ths = append(st.ths, t)
	go func() {
		st.threads.Register(tn)
		defer st.threads.Unregister()
		t.done <- st.doSet(k, v)
	}()
	deadline := time.After(c19StepTimeout)
	for {
		select {
		case ev := <-st.events:
			if ev.thread != tn {
				continue
			}
			switch ev.name {
			case "guard.wait":
				t.state = "guard"
				return st.concState()
			case "stream.enter":
				t.state = "sq"
				return st.concState()
			case "events.send.pre":
				t.state = "sq"
				if atomic.LoadInt32(&st.inside) == 0 {
					continue // nobody inside: it must enter
				}
				// somebody is inside: it either enters at once (no mutex) or blocks for good
				tm := time.After(HxScale(300 * time.Millisecond))
			wait:
				for {
					select {
					case e2 := <-st.events:
						if e2.thread == tn && e2.name == "stream.enter" {
							break wait
						}
					case <-tm:
						break wait
					}
				}
				return st.concState()
			}
		case s := <-t.done:
			t.state, t.status = "done", s
			return st.concState()
		case <-deadline:
			st.dead = true
			return "timeout"
		}
	}
}

func (st *c19State) drain() string {
	st.gated.Store(false)
	close(st.gate) // every current and future SendMsg passes
	for _, t := range st.ths {
		if t.state == "done" {
			continue
		}
		select {
		case s := <-t.done:
			t.state, t.status = "done", s
		case <-time.After(c19StepTimeout):
			st.dead = true
			return "timeout"
		}
	}
	st.drainEvents()
	return st.concState()
}

func (st *c19State) stress(writers, nkeys, per int) string {
	s1 := st.subs[1]
	if s1 == nil {
		return "ERR nosub"
	}
	atomic.StoreInt32(&st.maxInside, 0)
	st.slowSend.Store(true)
	defer st.slowSend.Store(false)
	t0 := time.Now().UnixNano()
	var wg sync.WaitGroup
	var failed atomic.Int32
	for w := 0; w < writers; w++ {
		wg.Add(1)
		go func(w int) {
			defer wg.Done()
			for i := 0; i < per; i++ {
				k := fmt.Sprintf("k%d", (w+i)%nkeys)
				resp, err := st.rig.GW.IncrementInt64(context.Background(), &hydrapb.IncrementInt64Request{IslandID: 1, SwampName: st.swamp, Key: k, IncrementBy: 1})
				if err != nil || resp == nil || !resp.GetIsIncremented() {
					failed.Add(1)
				}
			}
		}(w)
	}
	fin := make(chan struct{})
	go func() { wg.Wait(); close(fin) }()
	select {
	case <-fin:
	case <-time.After(HxScale(120 * time.Second)):
		st.dead = true
		return "timeout"
	}
	t1 := time.Now().UnixNano()
	msgs := s1.take()
	perKey := map[string][]int64{}
	classes := map[string]bool{}
	for _, m := range msgs {
		classes[c19Time(m, t0, t1)] = true
		tr := m.GetTreasure()
		if tr == nil || tr.Int64Val == nil {
			return "bad-event " + c19Event(m, t0, t1)
		}
		perKey[tr.GetKey()] = append(perKey[tr.GetKey()], *tr.Int64Val)
	}
	order := "ordered"
	var ks []string
	for k := range perKey {
		ks = append(ks, k)
	}
	sort.Strings(ks)
	for _, k := range ks {
		for i, v := range perKey[k] {
			if v != int64(i+1) {
				order = fmt.Sprintf("DISORDER(%s:pos%d=%d)", k, i, v)
				break
			}
		}
	}
	var cl []string
	for c := range classes {
		cl = append(cl, c)
	}
	sort.Strings(cl)
	ov := "~"
	if os.Getenv("C19_EXPECT_SERIAL") == "1" {
		ov = strconv.Itoa(int(atomic.LoadInt32(&st.maxInside)) - 1)
	}
	fmt.Fprintf(os.Stderr, "c19 stress: writers=%d keys=%d per=%d maxInside=%d failed=%d\n", writers, nkeys, per, atomic.LoadInt32(&st.maxInside), failed.Load())
	return fmt.Sprintf("ok events=%d failed=%d perkey=%s t=%s overlap=%s", len(msgs), failed.Load(), order, strings.Join(cl, ","), ov)
}

// ---------------------------------------------------------------- runner

func c19Run(in *bufio.Scanner, w *bufio.Writer) {
	rig, err := NewRig(3, 2000, 3600, 1)
	if err != nil {
		fmt.Fprintln(os.Stderr, "c19: rig:", err)
		os.Exit(3)
	}
	defer rig.Stop(true)
	rig.Settings.RegisterPattern(name.New().Sanctuary("c19p").Realm("*").Swamp("*"), false, 3600,
		&settings.FileSystemSettings{WriteIntervalSec: 1, MaxFileSizeByte: 8192, UseChroniclerV2: true})
	rig.Settings.RegisterPattern(name.New().Sanctuary("c19z").Realm("*").Swamp("*"), false, 3600,
		&settings.FileSystemSettings{WriteIntervalSec: 0, MaxFileSizeByte: 8192, UseChroniclerV2: true})
	st := &c19State{rig: rig, runTag: strconv.FormatInt(time.Now().UnixNano()%1000000, 36), subs: map[int]*c19Stream{},
		threads: newCCThreads(), events: make(chan c19Ev, 4096), dth: map[string]*c19DThread{}}
	verifhook.SetHandler(func(nm string, args ...any) {
		switch nm {
		case "events.subscribed":
			var a any
			if len(args) > 0 {
				a = args[0]
			}
			st.events <- c19Ev{name: nm, arg: a}
		case "gw.set.vigil", "destroy.draining":
			if st.mode == "drain" {
				if th := st.threads.Current(); th != "" {
					if t := st.dth[th]; t != nil && t.parks[nm] {
						st.events <- c19Ev{thread: th, name: nm}
						<-t.gate
					}
				}
			}
		case "swamp.new":
			if st.mode == "late" && st.threads.Current() != "" && st.lateHit.CompareAndSwap(false, true) {
				st.events <- c19Ev{thread: st.threads.Current(), name: nm}
				<-st.lateGate
			}
		case "events.send.pre", "guard.wait":
			if st.mode == "conc" {
				if th := st.threads.Current(); th != "" {
					st.events <- c19Ev{thread: th, name: nm}
				}
			}
		}
	})
	defer verifhook.SetHandler(nil)

	endCase := func() {
		if st.mode == "conc" && st.gated.Load() {
			st.drain()
		}
		for _, t := range st.dth {
			if !t.fin {
				select {
				case t.gate <- struct{}{}:
				default:
				}
			}
		}
		st.dth = map[string]*c19DThread{}
		if st.mode == "late" && st.lateGate != nil {
			select {
			case st.lateGate <- struct{}{}:
				select {
				case <-st.lateDone:
				case <-time.After(c19StepTimeout):
				}
			default:
			}
			st.lateGate = nil
		}
		for i := range st.subs {
			st.unsubscribe(i)
		}
		st.ths = nil
		st.threads.Reset()
		st.drainEvents()
		atomic.StoreInt32(&st.maxInside, 0)
	}

	for in.Scan() {
		line := strings.TrimSpace(in.Text())
		f := strings.Fields(line)
		if len(f) == 0 {
			fmt.Fprintln(w, "bad-op")
			continue
		}
		if f[0] == "case" {
			endCase()
			st.dead = false
			st.mode = ""
			if len(f) == 3 {
				st.mode = f[2]
			}
			if len(f) >= 3 {
				st.mode = f[2]
			}
			sanct := "c19p"
			if len(f) == 4 && f[3] == "p0" {
				sanct = "c19z"
			}
			st.swamp = name.New().Sanctuary(sanct).Realm("r" + st.runTag).Swamp("c" + f[1]).Get()
			if st.mode == "conc" {
				st.gate = make(chan struct{})
				if st.subscribe(1) != "ok" {
					st.dead = true
				}
				st.gated.Store(true)
			}
			if st.mode == "stress" {
				if st.subscribe(1) != "ok" {
					st.dead = true
				}
			}
			fmt.Fprintln(w, line)
			w.Flush()
			continue
		}
		if st.dead {
			fmt.Fprintln(w, "err skip")
			continue
		}
		switch {
		case st.mode == "drain" && f[0] == "spawn" && ((len(f) == 5 && f[2] == "set") || (len(f) == 4 && f[2] == "del")) && st.dth[f[1]] == nil:
			t := &c19DThread{name: f[1], parks: map[string]bool{}, gate: make(chan struct{}), done: make(chan string, 1)}
			var run func() string
			if f[2] == "set" {
				t.parks["gw.set.vigil"] = true
				k, v := f[3], f[4]
				run = func() string { return st.doSet(k, v) }
			} else {
				t.parks["destroy.draining"] = true
				ff := []string{"del", f[3]}
				run = func() string { return st.seqOp(ff) }
			}
			st.dth[t.name] = t
			t0 := time.Now().UnixNano()
			go func() {
				st.threads.Register(t.name)
				defer st.threads.Unregister()
				t.done <- run()
			}()
			fmt.Fprintln(w, st.dwait(t, t0))
		case st.mode == "drain" && f[0] == "go" && len(f) == 2:
			t := st.dth[f[1]]
			if t == nil || t.fin {
				fmt.Fprintln(w, "bad-op")
				break
			}
			t0 := time.Now().UnixNano()
			select {
			case t.gate <- struct{}{}:
				fmt.Fprintln(w, st.dwait(t, t0))
			case <-time.After(c19StepTimeout):
				fmt.Fprintln(w, t.name+" stuck")
			}
		case st.mode == "late" && f[0] == "spawn" && len(f) == 5 && f[2] == "set":
			if st.lateGate != nil {
				fmt.Fprintln(w, "bad-op")
				break
			}
			st.lateGate, st.lateDone = make(chan struct{}), make(chan string, 1)
			st.lateHit.Store(false)
			st.lateT0 = time.Now().UnixNano()
			tn, k, v := f[1], f[3], f[4]
			go func() {
				st.threads.Register(tn)
				defer st.threads.Unregister()
				st.lateDone <- st.doSet(k, v)
			}()
			reply := tn + " stuck"
			deadline := time.After(c19StepTimeout)
		lateWait:
			for {
				select {
				case ev := <-st.events:
					if ev.name == "swamp.new" && ev.thread == tn {
						reply = tn + "@loading"
						break lateWait
					}
				case r := <-st.lateDone:
					reply = tn + " done st=" + r
					st.lateGate = nil
					break lateWait
				case <-deadline:
					break lateWait
				}
			}
			fmt.Fprintln(w, reply)
		case st.mode == "late" && f[0] == "go" && len(f) == 2:
			if st.lateGate == nil {
				fmt.Fprintln(w, "bad-op")
				break
			}
			var ids []int
			for i := range st.subs {
				ids = append(ids, i)
			}
			sort.Ints(ids)
			status := "stuck"
			select {
			case st.lateGate <- struct{}{}:
				select {
				case status = <-st.lateDone:
				case <-time.After(c19StepTimeout):
				}
			case <-time.After(c19StepTimeout):
			}
			st.lateGate = nil
			t1 := time.Now().UnixNano()
			var b strings.Builder
			b.WriteString(f[1] + " done st=" + status)
			for _, i := range ids {
				var evs []string
				for _, m := range st.subs[i].take() {
					evs = append(evs, c19Event(m, st.lateT0, t1))
				}
				fmt.Fprintf(&b, " s%d=[%s]", i, strings.Join(evs, ";"))
			}
			fmt.Fprintln(w, b.String())
		case (st.mode == "seq" || st.mode == "late" || st.mode == "drain") && (f[0] == "sub" || f[0] == "unsub") && len(f) == 2:
			i, err := strconv.Atoi(f[1])
			if err != nil {
				fmt.Fprintln(w, "bad-op")
				break
			}
			if f[0] == "sub" {
				fmt.Fprintln(w, st.subscribe(i))
			} else {
				fmt.Fprintln(w, st.unsubscribe(i))
			}
		case (st.mode == "seq" || st.mode == "drain") && ((len(f) == 3 && (f[0] == "set" || f[0] == "setm" || f[0] == "sete" || f[0] == "inc")) || (len(f) == 2 && (f[0] == "del" || f[0] == "shift" || f[0] == "shifte" || f[0] == "get")) || (len(f) == 1 && f[0] == "reload")):
			var ids []int
			for i := range st.subs {
				ids = append(ids, i)
			}
			sort.Ints(ids)
			t0 := time.Now().UnixNano()
			status := st.seqOp(f)
			t1 := time.Now().UnixNano()
			var b strings.Builder
			b.WriteString("st=" + status)
			for _, i := range ids {
				var evs []string
				for _, m := range st.subs[i].take() {
					evs = append(evs, c19Event(m, t0, t1))
				}
				fmt.Fprintf(&b, " s%d=[%s]", i, strings.Join(evs, ";"))
			}
			fmt.Fprintln(w, b.String())
		case st.mode == "conc" && f[0] == "spawn" && len(f) == 5 && f[2] == "set":
			if st.threadByName(f[1]) != nil {
				fmt.Fprintln(w, "bad-op")
				break
			}
			fmt.Fprintln(w, st.spawn(f[1], f[3], f[4]))
		case st.mode == "conc" && f[0] == "drain" && len(f) == 1:
			if !st.gated.Load() {
				fmt.Fprintln(w, "bad-op")
				break
			}
			fmt.Fprintln(w, st.drain())
		case st.mode == "stress" && f[0] == "stress" && len(f) == 4:
			a, e1 := strconv.Atoi(f[1])
			b, e2 := strconv.Atoi(f[2])
			c, e3 := strconv.Atoi(f[3])
			if e1 != nil || e2 != nil || e3 != nil || a < 1 || b < 1 || c < 1 {
				fmt.Fprintln(w, "bad-op")
				break
			}
			fmt.Fprintln(w, st.stress(a, b, c))
		default:
			fmt.Fprintln(w, "bad-op")
		}
		w.Flush()
	}
	endCase()
}
